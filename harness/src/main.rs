mod gen;
mod net;
mod out;
mod rng;
mod run;
mod script;
mod spec;
mod wire;

use std::io::{BufRead, Write};

fn main() {
    // panics are results, not noise
    // … when they happen in the code under test; a panic of the harness itself is reported
    std::panic::set_hook(Box::new(|info| {
        if !run::IN_CASE.load(std::sync::atomic::Ordering::SeqCst) {
            eprintln!("harness panic (outside a case): {info}");
        }
    }));
    run::start_watchdog();
    let args: Vec<String> = std::env::args().collect();
    match args.get(1).map(String::as_str) {
        // run case lines from stdin against the implementation
        Some("run") => {
            let stdin = std::io::stdin();
            let mut out = std::io::BufWriter::new(std::io::stdout());
            for line in stdin.lock().lines() {
                let line = line.unwrap();
                if line.trim().is_empty() {
                    continue;
                }
                let (l, r) = run::run_line(&line);
                let _ = writeln!(out, "C\t{l}\t{r}");
            }
        }
        // run the property monitors on case lines from stdin (replay)
        Some("monitor") => {
            let prop = args.get(2).expect("property id");
            let mut out = out::Out::new(prop);
            let stdin = std::io::stdin();
            for line in stdin.lock().lines() {
                let line = line.unwrap();
                if line.trim().is_empty() {
                    continue;
                }
                gen::monitor_line(&mut out, &line);
            }
            out.finish();
        }
        Some("gen") => {
            let prop = args.get(2).expect("property id");
            let tier = args.get(3).map(String::as_str).unwrap_or("quick");
            let seed: u64 = args.get(4).and_then(|s| s.parse().ok()).unwrap_or(1);
            let mut out = out::Out::new(prop);
            gen::generate(&mut out, prop, tier == "thorough", seed);
            out.finish();
        }
        _ => {
            eprintln!("usage: mbharness run | monitor <prop> | gen <prop> <quick|thorough> <seed>");
            std::process::exit(2);
        }
    }
}
