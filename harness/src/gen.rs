//! Case generators and property monitors, one pair per property.
//!
//! A *monitor* judges one case line (and the implementation's result for it)
//! against a model-independent oracle; replaying a line re-runs its monitor.

use std::borrow::Cow;

use tokio_modbus::{bytes::Bytes, Request, Response};

use crate::{
    out::Out,
    rng::{chunk, composition_by_index, Rng},
    spec::{self, Verdict},
    wire::*,
};

mod client;
mod codec;
mod netgen;
mod server;
mod stream;
mod universal;

pub fn split_rtu_public(d: &[u8]) -> Option<Vec<(u8, Vec<u8>)>> {
    stream::split_rtu_clean(d, true)
}

/// the clean RTU request frames at the head of `d` (what is behind them may be incomplete)
pub fn rtu_frames_prefix(d: &[u8]) -> Vec<(u8, Vec<u8>)> {
    let mut out = vec![];
    let mut i = 0;
    while i < d.len() {
        let next = (4..=(d.len() - i).min(260))
            .find_map(|n| stream::split_rtu_clean(&d[i..i + n], true).filter(|v| v.len() == 1).map(|v| (v[0].clone(), n)));
        match next {
            Some((f, n)) => {
                out.push(f);
                i += n;
            }
            None => break,
        }
    }
    out
}

pub fn generate(out: &mut Out, prop: &str, thorough: bool, seed: u64) {
    let mut rng = Rng::new(seed ^ prop_salt(prop));
    match prop {
        "C01" => {
            client::gen_c01(out, &mut rng, thorough);
            // "exactly one frame" also for the request that follows one left half-written
            client::gen_c13_second_send(out, &mut rng, thorough);
            netgen::gen_serial_server(out, &mut rng, if thorough { 100 } else { 8 });
            netgen::gen_c01_sync(out, &mut rng, thorough)
        }
        "C02" => {
            client::gen_c02(out, &mut rng, thorough);
            // the client half of the property: the call returns the value the reply frame carries
            // (C06's scenarios), the typed bit reads exactly the requested count (C20's)
            client::gen_c06(out, &mut rng, false);
            client::gen_c20(out, &mut rng, false);
            // the third transport: the serial RTU server over a pty ("over all three transports")
            netgen::gen_serial_server(out, &mut rng, if thorough { 120 } else { 12 })
        }
        "C03" => codec::gen_c03(out, &mut rng, thorough),
        "C04" => stream::gen_c04(out, &mut rng, thorough),
        "C05" => {
            stream::gen_c05(out, &mut rng, thorough);
            client::gen_c05_after_reject(out, &mut rng, thorough)
        }
        "C06" => client::gen_c06(out, &mut rng, thorough),
        "C07" => {
            server::gen_c07(out, &mut rng, thorough);
            server::gen_c07_write_faults(out, &mut rng, thorough);
            netgen::gen_serial_server(out, &mut rng, if thorough { 200 } else { 12 })
        }
        "C08" => {
            codec::gen_c08(out, &mut rng, thorough);
            codec::gen_c08_framed(out, &mut rng, thorough)
        }
        "C09" => codec::gen_c09(out, &mut rng, thorough),
        "C10" => client::gen_c10(out, &mut rng, thorough),
        "C11" => stream::gen_c11(out, &mut rng, thorough),
        "C12" => client::gen_c12(out, &mut rng, thorough),
        "C13" => {
            client::gen_c13(out, &mut rng, thorough);
            client::gen_c13_second_send(out, &mut rng, thorough);
            netgen::gen_c13_sync(out, &mut rng, thorough)
        }
        "C14" => {
            server::gen_c14(out, &mut rng, thorough);
            server::gen_c14_noise_bursts(out, &mut rng, thorough);
            server::gen_c14_junk_runs(out, &mut rng, thorough);
            server::gen_c07_write_faults(out, &mut rng, thorough);
            netgen::gen_c14_accept(out, &mut rng, thorough);
            // the serial RTU server's loop: a reply that cannot be written ends it with that error
            netgen::gen_serial_server(out, &mut rng, if thorough { 120 } else { 12 })
        }
        "C15" => {
            client::gen_c15(out, &mut rng, thorough);
            client::gen_c15_stale_wbuf(out, &mut rng, thorough);
            client::gen_c15_after_outcome(out, &mut rng, thorough)
        }
        "C16" => {
            client::gen_c16(out, &mut rng, thorough);
            client::gen_c16_partial(out, &mut rng, thorough);
            netgen::gen_c16_sync(out, &mut rng, thorough)
        }
        "C17" => netgen::gen_c17(out, &mut rng, thorough),
        "C18" => netgen::gen_c18(out, &mut rng, thorough),
        "C19" => {
            codec::gen_c19(out, &mut rng, thorough);
            codec::gen_c19_conversions(out, &mut rng, thorough)
        }
        "C20" => client::gen_c20(out, &mut rng, thorough),
        _ => panic!("no generator for {prop}"),
    }
    // breadth for the correspondence: random histories over all dimensions at once
    let n = if thorough { 40_000 } else { 6_000 };
    match prop {
        "C01" | "C02" | "C09" => {
            out.metamorphic = true;
            universal::gen_cli_histories(out, &mut rng, n / 2);
            universal::gen_srv_histories(out, &mut rng, n / 2);
            out.metamorphic = false;
        }
        "C15" | "C12" | "C20" | "C10" => {
            // these monitors read any client history
            out.monitored = true;
            out.metamorphic = prop != "C15" && prop != "C10";
            universal::gen_cli_histories(out, &mut rng, n);
            out.monitored = false;
            out.metamorphic = false;
        }
        "C06" | "C13" | "C16" => {
            // judged by the history-independence monitor only (their own monitors read the
            // scenarios their generators build)
            out.metamorphic = true;
            universal::gen_cli_histories(out, &mut rng, n);
            out.metamorphic = false;
        }
        "C07" | "C14" => {
            out.metamorphic = true;
            universal::gen_srv_histories(out, &mut rng, n);
            out.metamorphic = false;
        }
        "C03" => {
            // C03's monitor is generic (no panic, termination, bounded buffers): it judges these too
            out.monitored = true;
            out.metamorphic = true;
            universal::gen_cli_histories(out, &mut rng, n);
            universal::gen_srv_histories(out, &mut rng, n);
            out.metamorphic = false;
            universal::gen_stream_histories(out, &mut rng, n);
            out.monitored = false;
        }
        "C04" | "C05" | "C11" | "C08" | "C19" => {
            universal::gen_stream_histories(out, &mut rng, 2 * n);
            // what the codecs do shows in whole calls, too: state kept between calls (a buffer
            // that is not empty at encode time, a decoder that remembers a length)
            out.metamorphic = true;
            universal::gen_cli_histories(out, &mut rng, n / 2);
            out.metamorphic = false;
            if prop == "C08" || prop == "C19" {
                out.metamorphic = true;
                universal::gen_srv_histories(out, &mut rng, n / 2);
                out.metamorphic = false;
            }
        }
        _ => {}
    }
}

fn prop_salt(prop: &str) -> u64 {
    prop.bytes().fold(0u64, |a, b| a.wrapping_mul(131).wrapping_add(u64::from(b)))
}

/// Run one case and judge it with the monitors of `out.prop`.
pub fn monitor_line(out: &mut Out, line: &str) {
    let (l, r) = out.case(line);
    out.orig = line.to_string();
    // a monitor that cannot cope with a case is a gap of the machinery, not a property violation:
    // the case stays unjudged by it (the correspondence still compares it) and is counted
    let judged = std::panic::catch_unwind(std::panic::AssertUnwindSafe(|| judge(out, &l, &r)));
    if judged.is_err() {
        *out.hist.entry("monitor-could-not-judge".into()).or_insert(0) += 1;
    }
}

fn judge(out: &mut Out, l: &str, r: &str) {
    let (l, r) = (l.to_string(), r.to_string());
    let prop = out.prop.clone();
    if out.metamorphic {
        client::mon_history_independence(out, &l, &r);
        server::mon_prefix_independence(out, &l, &r);
        if !out.monitored {
            return;
        }
    }
    match prop.as_str() {
        "C01" => {
            if client::is_second_send_line(&l) {
                // judged on the whole wire: the second write carries the unsent tail of the first
                client::mon_c13_second_send(out, &l, &r);
                return;
            }
            client::mon_c01(out, &l, &r);
            netgen::mon_c18(out, &l, &r);
            netgen::mon_c01_sync(out, &l, &r)
        }
        "C02" => {
            client::mon_c02(out, &l, &r);
            client::mon_c06(out, &l, &r);
            client::mon_c20(out, &l, &r);
            netgen::mon_c18(out, &l, &r)
        }
        "C03" => codec::mon_c03(out, &l, &r),
        "C04" => stream::mon_c04(out, &l, &r),
        "C05" => {
            stream::mon_c05(out, &l, &r);
            client::mon_c05_cli(out, &l, &r)
        }
        "C06" => client::mon_c06(out, &l, &r),
        "C07" => {
            server::mon_c07(out, &l, &r);
            // (write faults: which reply meets the fault, and that nothing is served or written
            // twice after it, is C14's oracle)
            if l.starts_with("srv ") && l.contains(" wf=1") {
                server::mon_c14(out, &l, &r);
            }
            netgen::mon_c18(out, &l, &r)
        }
        "C08" => {
            codec::mon_c08(out, &l, &r);
            stream::mon_c05(out, &l, &r)
        }
        "C09" => codec::mon_c09(out, &l, &r),
        "C10" => client::mon_c10(out, &l, &r),
        "C11" => stream::mon_c11(out, &l, &r),
        "C12" => client::mon_c12(out, &l, &r),
        "C13" => {
            client::mon_c13(out, &l, &r);
            netgen::mon_c13_sync(out, &l, &r)
        }
        "C14" => {
            server::mon_c14(out, &l, &r);
            netgen::mon_c14_accept(out, &l, &r);
            netgen::mon_c18(out, &l, &r)
        }
        "C15" => client::mon_c15(out, &l, &r),
        "C16" => {
            client::mon_c16(out, &l, &r);
            netgen::mon_c16_sync(out, &l, &r)
        }
        "C17" => netgen::mon_c17(out, &l, &r),
        "C18" => netgen::mon_c18(out, &l, &r),
        "C19" => {
            codec::mon_c19(out, &l, &r);
            codec::mon_c08(out, &l, &r)
        }
        "C20" => client::mon_c20(out, &l, &r),
        _ => {}
    }
}

// ---------------------------------------------------------------- value generators

pub const VARIABLE_REQ_KINDS: usize = 4;

/// a request; `len_hint` steers the payload size of variable-length variants
pub fn gen_request(rng: &mut Rng, len_hint: Option<usize>) -> Request<'static> {
    use Request::*;
    let n = |rng: &mut Rng, max: usize| match len_hint {
        Some(n) => n,
        None => match rng.below(6) {
            0 => 0,
            1 => 1,
            2 => max,
            3 => max.saturating_sub(1),
            _ => rng.range(0, max),
        },
    };
    match rng.below(14) {
        0 => ReadCoils(rng.u16(), rng.u16()),
        1 => ReadDiscreteInputs(rng.u16(), rng.u16()),
        2 => WriteSingleCoil(rng.u16(), rng.bool()),
        3 => {
            let k = n(rng, 1976);
            WriteMultipleCoils(rng.u16(), Cow::Owned(rng.bits(k)))
        }
        4 => ReadInputRegisters(rng.u16(), rng.u16()),
        5 => ReadHoldingRegisters(rng.u16(), rng.u16()),
        6 => WriteSingleRegister(rng.u16(), rng.u16()),
        7 => {
            let k = n(rng, 123);
            WriteMultipleRegisters(rng.u16(), Cow::Owned(rng.words(k)))
        }
        8 => ReportServerId,
        9 => MaskWriteRegister(rng.u16(), rng.u16(), rng.u16()),
        10 => {
            let k = n(rng, 121);
            ReadWriteMultipleRegisters(rng.u16(), rng.u16(), rng.u16(), Cow::Owned(rng.words(k)))
        }
        _ => {
            let k = n(rng, 252);
            Custom(gen_custom_fc(rng), Cow::Owned(rng.bytes(k)))
        }
    }
}

/// function codes for raw custom requests: mostly unmodelled codes, sometimes named / modelled ones
pub fn gen_custom_fc(rng: &mut Rng) -> u8 {
    match rng.below(10) {
        0 => *rng.pick(&[0x07u8, 0x08, 0x0B, 0x0C, 0x14, 0x15, 0x18, 0x2B]),
        1 => *rng.pick(&[0x00u8, 0x41, 0x48, 0x64, 0x6E, 0x7F]),
        _ => loop {
            let fc = rng.u8() & 0x7F;
            if !MODELLED_REQ.contains(&fc) {
                break fc;
            }
        },
    }
}

pub const MODELLED_REQ: &[u8] = &[
    0x01, 0x02, 0x03, 0x04, 0x05, 0x06, 0x0F, 0x10, 0x11, 0x16, 0x17,
];
pub const MODELLED_RSP: &[u8] = MODELLED_REQ;

pub fn gen_response(rng: &mut Rng, len_hint: Option<usize>) -> Response {
    use Response::*;
    let n = |rng: &mut Rng, max: usize| match len_hint {
        Some(n) => n,
        None => match rng.below(6) {
            0 => 0,
            1 => 1,
            2 => max,
            3 => max.saturating_sub(1),
            _ => rng.range(0, max),
        },
    };
    match rng.below(14) {
        0 => {
            let k = n(rng, 2008);
            ReadCoils(rng.bits(k))
        }
        1 => {
            let k = n(rng, 2008);
            ReadDiscreteInputs(rng.bits(k))
        }
        2 => WriteSingleCoil(rng.u16(), rng.bool()),
        3 => WriteMultipleCoils(rng.u16(), rng.u16()),
        4 => {
            let k = n(rng, 125);
            ReadInputRegisters(rng.words(k))
        }
        5 => {
            let k = n(rng, 125);
            ReadHoldingRegisters(rng.words(k))
        }
        6 => WriteSingleRegister(rng.u16(), rng.u16()),
        7 => WriteMultipleRegisters(rng.u16(), rng.u16()),
        8 => {
            let k = n(rng, 250);
            ReportServerId(rng.u8(), rng.bool(), rng.bytes(k))
        }
        9 => MaskWriteRegister(rng.u16(), rng.u16(), rng.u16()),
        10 => {
            let k = n(rng, 125);
            ReadWriteMultipleRegisters(rng.words(k))
        }
        _ => {
            let k = n(rng, 252);
            Custom(gen_custom_fc(rng), Bytes::from(rng.bytes(k)))
        }
    }
}

/// The response a well-behaved server gives to `req` (content random).
pub fn answer_for(rng: &mut Rng, req: &Request<'_>) -> Response {
    use Request as Q;
    use Response as R;
    match req {
        Q::ReadCoils(_, q) => R::ReadCoils(rng.bits(usize::from(*q).min(2000))),
        Q::ReadDiscreteInputs(_, q) => R::ReadDiscreteInputs(rng.bits(usize::from(*q).min(2000))),
        Q::WriteSingleCoil(a, b) => R::WriteSingleCoil(*a, *b),
        Q::WriteMultipleCoils(a, cs) => R::WriteMultipleCoils(*a, cs.len() as u16),
        Q::ReadInputRegisters(_, q) => R::ReadInputRegisters(rng.words(usize::from(*q).min(125))),
        Q::ReadHoldingRegisters(_, q) => {
            R::ReadHoldingRegisters(rng.words(usize::from(*q).min(125)))
        }
        Q::WriteSingleRegister(a, w) => R::WriteSingleRegister(*a, *w),
        Q::WriteMultipleRegisters(a, ws) => R::WriteMultipleRegisters(*a, ws.len() as u16),
        Q::ReportServerId => {
            let k = rng.range(0, 20);
            R::ReportServerId(rng.u8(), rng.bool(), rng.bytes(k))
        }
        Q::MaskWriteRegister(a, am, om) => R::MaskWriteRegister(*a, *am, *om),
        Q::ReadWriteMultipleRegisters(_, q, _, _) => {
            R::ReadWriteMultipleRegisters(rng.words(usize::from(*q).min(125)))
        }
        Q::Custom(fc, d) => R::Custom(*fc, Bytes::from(d.to_vec())),
    }
}

pub fn chunks_tok(chunks: &[Vec<u8>]) -> String {
    chunks
        .iter()
        .map(|c| format!("d{}", hex_raw(c)))
        .collect::<Vec<_>>()
        .join(",")
}

/// deterministic chunkings derived from the data itself (so that a replayed line
/// reproduces them): one chunk, bytewise, and `extra` pseudo-random ones
pub fn derived_chunkings(data: &[u8], extra: usize) -> Vec<Vec<Vec<u8>>> {
    let mut out = vec![];
    if data.is_empty() {
        return vec![vec![]];
    }
    out.push(vec![data.to_vec()]);
    out.push(data.iter().map(|b| vec![*b]).collect());
    let mut h = data
        .iter()
        .fold(0xcbf29ce484222325u64, |a, b| (a ^ u64::from(*b)).wrapping_mul(0x100000001b3));
    for _ in 0..extra {
        let mut rng = Rng::new(h);
        let parts = rng.composition(data.len());
        out.push(chunk(data, &parts));
        h = rng.next();
    }
    out
}

pub fn all_chunkings(data: &[u8]) -> impl Iterator<Item = Vec<Vec<u8>>> + '_ {
    let n = data.len();
    let count: u64 = if n == 0 { 1 } else { 1u64 << (n - 1) };
    (0..count).map(move |i| chunk(data, &composition_by_index(n, i)))
}

/// result fields of a rendered multi-part result
pub fn parts(r: &str) -> Vec<&str> {
    r.split(" | ").collect()
}

pub fn classify_req_tok(b: &[u8]) -> Option<String> {
    match spec::classify_request(b) {
        Verdict::Accept(r) => Some(format!("ok {}", request(&r))),
        Verdict::Reject => Some("err".into()),
        Verdict::Unspecified => None,
    }
}

pub fn classify_rsp_tok(b: &[u8]) -> Option<String> {
    match spec::classify_response(b) {
        Verdict::Accept(r) => Some(format!("ok {}", response(&r))),
        Verdict::Reject => Some("err".into()),
        Verdict::Unspecified => None,
    }
}
