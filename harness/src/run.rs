//! Runs one case line against the real tokio-modbus code and renders the
//! canonical result.  Stateful cases are rewritten with the read events the
//! transport actually delivered, so that the model replays the same history.

use std::{
    collections::VecDeque,
    future,
    panic::{catch_unwind, AssertUnwindSafe},
    sync::{Arc, Mutex},
};

use futures_util::StreamExt as _;
use tokio_modbus::{
    bytes::{Bytes, BytesMut},
    client::{self, Client as _, Reader as _, Writer as _},
    server::Service,
    slave::SlaveContext as _,
    verif_hooks, ExceptionCode, ExceptionResponse, FunctionCode, Request, Response, Slave,
    SlaveRequest,
};
use tokio_util::codec::{Decoder, Encoder, Framed};

use crate::{
    script::{drive, toks, CtlEv, Driven, Logged, ReadEv, ScriptedIo, WriteEv},
    wire::{self, *},
};

// ---------------------------------------------------------------- watchdog
//
// A case that never returns (a busy loop or a deadlock in the library) cannot be caught by
// `catch_unwind`.  A watchdog thread notices that one case has been running for too long,
// names it on stderr (`HANG\t<case>`) and ends the process; `bin/check` turns that into a
// violation with the case as its failing input.

static CURRENT_CASE: Mutex<Option<(std::time::Instant, String)>> = Mutex::new(None);

/// seconds a single case may take (real-time ops are bounded by their own timeouts well below)
pub const CASE_DEADLINE_S: u64 = 120;

pub fn start_watchdog() {
    std::thread::spawn(|| loop {
        std::thread::sleep(std::time::Duration::from_secs(2));
        let hung = CURRENT_CASE.lock().ok().and_then(|g| {
            g.as_ref().and_then(|(t0, c)| (t0.elapsed().as_secs() >= CASE_DEADLINE_S).then(|| c.clone()))
        });
        if let Some(case) = hung {
            eprintln!("HANG\t{case}");
            std::process::exit(3);
        }
    });
}

/// the implementation keeps reading a closed stream without ever returning: report the case now
pub fn spinning() -> ! {
    let case = CURRENT_CASE.lock().ok().and_then(|g| g.as_ref().map(|(_, c)| c.clone())).unwrap_or_default();
    eprintln!("HANG\t{case}");
    std::process::exit(3);
}

fn watch<T>(case: &str, f: impl FnOnce() -> T) -> T {
    if let Ok(mut g) = CURRENT_CASE.lock() {
        *g = Some((std::time::Instant::now(), case.to_string()));
    }
    let r = f();
    if let Ok(mut g) = CURRENT_CASE.lock() {
        *g = None;
    }
    r
}

/// (case line as the model must see it, canonical result of the implementation)
pub static IN_CASE: std::sync::atomic::AtomicBool = std::sync::atomic::AtomicBool::new(false);

pub fn run_line(line: &str) -> (String, String) {
    IN_CASE.store(true, std::sync::atomic::Ordering::SeqCst);
    let r = watch(line, || catch_unwind(AssertUnwindSafe(|| run_op(line))));
    IN_CASE.store(false, std::sync::atomic::Ordering::SeqCst);
    match r {
        Ok(Some(r)) => r,
        Ok(None) => (line.to_string(), "bad-case".into()),
        Err(_) => (line.to_string(), "panic".into()),
    }
}

fn same(line: &str, res: String) -> Option<(String, String)> {
    Some((line.to_string(), res))
}

fn class_tok(s: Slave) -> String {
    format!(
        "b{}s{}r{}",
        b01(s.is_broadcast()),
        b01(s.is_single_device()),
        b01(s.is_reserved())
    )
}

fn opt_nat(o: &Option<usize>) -> String {
    match o {
        Some(n) => format!("some {n}"),
        None => "none".into(),
    }
}

fn enc<C, I>(codec: C, item: I) -> String
where
    C: Encoder<I, Error = std::io::Error>,
{
    enc_pre(codec, item, &[])
}

/// encode behind `pre` bytes that are already waiting in the output buffer
fn enc_pre<C, I>(mut codec: C, item: I, pre: &[u8]) -> String
where
    C: Encoder<I, Error = std::io::Error>,
{
    let mut buf = BytesMut::from(pre);
    match codec.encode(item, &mut buf) {
        Ok(()) => {
            if buf.len() >= pre.len() && buf[..pre.len()] == *pre {
                format!("ok {}", hex(&buf[pre.len()..]))
            } else {
                format!("ok-but-buffered-bytes-damaged {}", hex(&buf))
            }
        }
        Err(e) => {
            if buf[..] == *pre {
                format!("err:{}", kind_tok(e.kind()))
            } else {
                format!("err:{}+partial:{}", kind_tok(e.kind()), hex(&buf))
            }
        }
    }
}

fn pre_of(tok: &str) -> Option<Vec<u8>> {
    p_bytes(tok.strip_prefix("pre=")?)
}

fn run_op(line: &str) -> Option<(String, String)> {
    let toks_: Vec<&str> = line.split(' ').filter(|s| !s.is_empty()).collect();
    match toks_.as_slice() {
        ["fc", b] => {
            let f = FunctionCode::new(p_u8(b)?);
            same(line, format!("{} {}", fc_name(f), hex8(f.value())))
        }
        ["ex", b] => {
            let e = ExceptionCode::new(p_u8(b)?);
            same(line, format!("{} {}", ex_name(e), hex8(e.into())))
        }
        ["reqfc", r] => {
            let f = p_request(r)?.function_code();
            same(line, format!("{} {}", fc_name(f), hex8(f.value())))
        }
        ["rspfc", r] => {
            let f = p_response(r)?.function_code();
            same(line, format!("{} {}", fc_name(f), hex8(f.value())))
        }
        ["slave", s] => {
            let bs = p_bytes(s)?;
            let st = String::from_utf8(bs).ok()?;
            same(
                line,
                match st.parse::<Slave>() {
                    Ok(s) => format!("ok {}", hex8(s.0)),
                    Err(_) => "err".into(),
                },
            )
        }
        ["slaved", b] => {
            let s = Slave(p_u8(b)?);
            same(
                line,
                format!("{} {}", hex(format!("{s}").as_bytes()), class_tok(s)),
            )
        }
        ["tcpreq", tid, u, r, pre] => same(
            line,
            enc_pre(
                verif_hooks::tcp::ClientCodec::default(),
                (p_u16(tid)?, p_u8(u)?, p_request(r)?),
                &pre_of(pre)?,
            ),
        ),
        ["rtureq", u, r, pre] => same(
            line,
            enc_pre(
                verif_hooks::rtu::ClientCodec::default(),
                (p_u8(u)?, p_request(r)?),
                &pre_of(pre)?,
            ),
        ),
        ["tcprsp", tid, u, r, pre] => same(
            line,
            enc_pre(
                verif_hooks::tcp::ServerCodec::default(),
                (p_u16(tid)?, p_u8(u)?, p_response_result(r)?),
                &pre_of(pre)?,
            ),
        ),
        ["rtursp", u, r, pre] => same(
            line,
            enc_pre(
                verif_hooks::rtu::ServerCodec::default(),
                (p_u8(u)?, p_response_result(r)?),
                &pre_of(pre)?,
            ),
        ),
        ["tcpreq", tid, u, r] => same(
            line,
            enc(
                verif_hooks::tcp::ClientCodec::default(),
                (p_u16(tid)?, p_u8(u)?, p_request(r)?),
            ),
        ),
        ["rtureq", u, r] => same(
            line,
            enc(
                verif_hooks::rtu::ClientCodec::default(),
                (p_u8(u)?, p_request(r)?),
            ),
        ),
        ["tcprsp", tid, u, r] => same(
            line,
            enc(
                verif_hooks::tcp::ServerCodec::default(),
                (p_u16(tid)?, p_u8(u)?, p_response_result(r)?),
            ),
        ),
        ["rtursp", u, r] => same(
            line,
            enc(
                verif_hooks::rtu::ServerCodec::default(),
                (p_u8(u)?, p_response_result(r)?),
            ),
        ),
        ["reqdec", bs] => same(
            line,
            io_res(&Request::try_from(Bytes::from(p_bytes(bs)?)), |r| request(r)),
        ),
        ["rspdec", bs] => same(
            line,
            io_res(&Response::try_from(Bytes::from(p_bytes(bs)?)), |r| {
                response(r)
            }),
        ),
        ["excdec", bs] => same(
            line,
            io_res(
                &ExceptionResponse::try_from(Bytes::from(p_bytes(bs)?)),
                |r| exception(r),
            ),
        ),
        ["crc", bs] => same(line, hex16(verif_hooks::rtu::calc_crc(&p_bytes(bs)?))),
        ["reqlen", bs] => {
            let b = BytesMut::from(&p_bytes(bs)?[..]);
            same(
                line,
                io_res(&verif_hooks::rtu::get_request_pdu_len(&b), opt_nat),
            )
        }
        ["rsplen", bs] => {
            let b = BytesMut::from(&p_bytes(bs)?[..]);
            same(
                line,
                io_res(&verif_hooks::rtu::get_response_pdu_len(&b), opt_nat),
            )
        }
        ["stream", codec, evs] => stream_op(codec, &p_list(evs, ReadEv::parse)?),
        ["stream", codec] => stream_op(codec, &[]),
        _ => {
            let parts: Vec<&str> = line.split(" | ").collect();
            let head: Vec<&str> = parts[0].split(' ').filter(|s| !s.is_empty()).collect();
            match head.as_slice() {
                ["cli", kind, slave, opts @ ..] => {
                    set_errno(field("errno", opts).parse().unwrap_or(0));
                    let r = cli_op(kind, slave, &parts[1..]);
                    // keep the head options in the rewritten line
                    r.map(|(l, res)| {
                        if opts.is_empty() {
                            (l, res)
                        } else {
                            let head = format!("cli {kind} {slave}");
                            (l.replacen(&head, &format!("{head} {}", opts.join(" ")), 1), res)
                        }
                    })
                }
                ["srv", kind, fields @ ..] => srv_op(kind, fields),
                ["sync", kind, slave, opts @ ..] => crate::net::sync_op(kind, slave, opts, &parts[1..]),
                ["conc", kind] => crate::net::conc_op(kind, &parts[1..]),
                ["accept", kind, setups] => crate::net::accept_op(kind, setups, false),
                ["accept", kind, setups, "abort"] => crate::net::accept_op(kind, setups, true),
                _ => None,
            }
        }
    }
}

extern "C" {
    fn __errno_location() -> *mut i32;
}

/// ambient OS error state, as left behind by an unrelated failing system call
pub fn set_errno(v: i32) {
    unsafe {
        *__errno_location() = v;
    }
}

// ---------------------------------------------------------------- streams

/// what a codec remembers besides the read buffer (RTU: the record of dropped bytes)
trait CodecState {
    fn dropped_len(&self) -> Option<usize> {
        None
    }
}
impl CodecState for verif_hooks::tcp::ServerCodec {}
impl CodecState for verif_hooks::tcp::ClientCodec {}
impl CodecState for verif_hooks::tcp::AduDecoder {}
impl CodecState for verif_hooks::rtu::ServerCodec {
    fn dropped_len(&self) -> Option<usize> {
        Some(verif_hooks::rtu::ServerCodec::dropped_len(self))
    }
}
impl CodecState for verif_hooks::rtu::ClientCodec {
    fn dropped_len(&self) -> Option<usize> {
        Some(verif_hooks::rtu::ClientCodec::dropped_len(self))
    }
}

fn stream_run<C>(
    codec: C,
    evs: &[ReadEv],
    render: impl Fn(&C::Item) -> String,
) -> (Vec<ReadEv>, String)
where
    C: Decoder<Error = std::io::Error> + CodecState,
{
    let io = ScriptedIo::new();
    io.push_reads(evs);
    let mut framed = Framed::new(io.clone(), codec);
    let mut out: Vec<String> = vec![];
    let mut guard = 0usize;
    loop {
        guard += 1;
        if guard > 10_000_000 {
            out.push("fuel".into());
            break;
        }
        match drive(&io, framed.next(), None) {
            Driven::Done(Some(Ok(item))) => out.push(format!("item {}", render(&item))),
            Driven::Done(Some(Err(e))) => out.push(format!("err:{}", kind_tok(e.kind()))),
            Driven::Done(None) => {
                out.push("done".into());
                if io.with(|s| s.reads.is_empty()) {
                    break;
                }
            }
            Driven::Blocked | Driven::Abandoned => {
                out.push("blocked".into());
                break;
            }
        }
    }
    let buf = framed.read_buffer().len();
    let dropped = match framed.codec().dropped_len() {
        Some(n) => format!(" ; dropped {n}"),
        None => String::new(),
    };
    let mut delivered = io.take_delivered();
    delivered.extend(io.with(|s| s.reads.drain(..).collect::<Vec<_>>()));
    (delivered, format!("{} ; buf {}{dropped}", out.join(" | "), buf))
}

fn stream_op(codec: &str, evs: &[ReadEv]) -> Option<(String, String)> {
    // a bare decoder is polled until its script is used up: the sticky end of the stream is for
    // clients and servers only
    if evs.contains(&ReadEv::EofSticky) {
        return None;
    }
    let (delivered, res) = match codec {
        "tcpsrv" => stream_run(verif_hooks::tcp::ServerCodec::default(), evs, |(t, u, r)| {
            format!("{}:{}:{}", hex16(*t), hex8(*u), request(r))
        }),
        "tcpcli" => stream_run(verif_hooks::tcp::ClientCodec::default(), evs, |(t, u, r)| {
            format!("{}:{}:{}", hex16(*t), hex8(*u), response_result(r))
        }),
        "tcpadu" => stream_run(verif_hooks::tcp::AduDecoder::default(), evs, |(t, u, p)| {
            format!("{}:{}:{}", hex16(*t), hex8(*u), hex(p))
        }),
        "rtusrv" => stream_run(verif_hooks::rtu::ServerCodec::default(), evs, |(u, r)| {
            format!("{}:{}", hex8(*u), request(r))
        }),
        "rtucli" => stream_run(verif_hooks::rtu::ClientCodec::default(), evs, |(u, r)| {
            format!("{}:{}", hex8(*u), response_result(r))
        }),
        _ => return None,
    };
    let line = if delivered.is_empty() {
        format!("stream {codec}")
    } else {
        format!("stream {codec} {}", toks(&delivered, ReadEv::tok))
    };
    Some((line, res))
}

// ---------------------------------------------------------------- client histories

fn extend(io: &ScriptedIo, fields: &[&str]) -> Option<()> {
    io.push_reads(&p_list(field("r", fields), ReadEv::parse)?);
    io.push_writes(&p_list(field("w", fields), WriteEv::parse)?);
    io.push_flushes(&p_list(field("f", fields), CtlEv::parse)?);
    io.push_shutdowns(&p_list(field("s", fields), CtlEv::parse)?);
    Some(())
}

fn effects_tok(log: &[Logged]) -> String {
    let ws: Vec<String> = log
        .iter()
        .filter_map(|l| match l {
            Logged::Write(b) => Some(hex(b)),
            _ => None,
        })
        .collect();
    let sd = log.iter().filter(|l| matches!(l, Logged::Shutdown)).count();
    format!(
        "w={} sd={}",
        if ws.is_empty() {
            "-".to_string()
        } else {
            ws.join("+")
        },
        sd
    )
}

/// rebuild an op with the read events that were actually delivered
fn rewrite_op(op: &str, delivered: &[ReadEv]) -> String {
    let mut out: Vec<String> = vec![];
    for f in op.split(' ').filter(|s| !s.is_empty()) {
        if f.starts_with("r=") {
            continue;
        }
        out.push(f.to_string());
    }
    if !delivered.is_empty() {
        // keep the position right after the op's main arguments irrelevant: fields are keyed
        out.push(format!("r={}", toks(delivered, ReadEv::tok)));
    }
    out.join(" ")
}

#[derive(Debug, Clone)]
pub enum TypedOp {
    Rc(u16, u16),
    Rdi(u16, u16),
    Rhr(u16, u16),
    Rir(u16, u16),
    Rwm(u16, u16, u16, Vec<u16>),
    Wsc(u16, bool),
    Wsr(u16, u16),
    Wmc(u16, Vec<bool>),
    Wmr(u16, Vec<u16>),
    Mwr(u16, u16, u16),
}

impl TypedOp {
    pub fn parse(s: &str) -> Option<Self> {
        let p: Vec<&str> = s.split(':').collect();
        Some(match p.as_slice() {
            ["rc", a, c] => TypedOp::Rc(p_u16(a)?, p_u16(c)?),
            ["rdi", a, c] => TypedOp::Rdi(p_u16(a)?, p_u16(c)?),
            ["rhr", a, c] => TypedOp::Rhr(p_u16(a)?, p_u16(c)?),
            ["rir", a, c] => TypedOp::Rir(p_u16(a)?, p_u16(c)?),
            ["rwm", ra, c, wa, ws] => {
                TypedOp::Rwm(p_u16(ra)?, p_u16(c)?, p_u16(wa)?, p_words(ws)?)
            }
            ["wsc", a, b] => TypedOp::Wsc(p_u16(a)?, p_bool(b)?),
            ["wsr", a, w] => TypedOp::Wsr(p_u16(a)?, p_u16(w)?),
            ["wmc", a, cs] => TypedOp::Wmc(p_u16(a)?, p_bits(cs)?),
            ["wmr", a, ws] => TypedOp::Wmr(p_u16(a)?, p_words(ws)?),
            ["mwr", a, am, om] => TypedOp::Mwr(p_u16(a)?, p_u16(am)?, p_u16(om)?),
            _ => return None,
        })
    }
    pub fn tok(&self) -> String {
        match self {
            TypedOp::Rc(a, c) => format!("rc:{}:{}", hex16(*a), hex16(*c)),
            TypedOp::Rdi(a, c) => format!("rdi:{}:{}", hex16(*a), hex16(*c)),
            TypedOp::Rhr(a, c) => format!("rhr:{}:{}", hex16(*a), hex16(*c)),
            TypedOp::Rir(a, c) => format!("rir:{}:{}", hex16(*a), hex16(*c)),
            TypedOp::Rwm(ra, c, wa, ws) => format!(
                "rwm:{}:{}:{}:{}",
                hex16(*ra),
                hex16(*c),
                hex16(*wa),
                words(ws)
            ),
            TypedOp::Wsc(a, b) => format!("wsc:{}:{}", hex16(*a), b01(*b)),
            TypedOp::Wsr(a, w) => format!("wsr:{}:{}", hex16(*a), hex16(*w)),
            TypedOp::Wmc(a, cs) => format!("wmc:{}:{}", hex16(*a), bits(cs)),
            TypedOp::Wmr(a, ws) => format!("wmr:{}:{}", hex16(*a), words(ws)),
            TypedOp::Mwr(a, am, om) => {
                format!("mwr:{}:{}:{}", hex16(*a), hex16(*am), hex16(*om))
            }
        }
    }
    /// the request this operation is expected to issue (used by monitors only)
    pub fn request(&self) -> Request<'static> {
        use std::borrow::Cow;
        match self.clone() {
            TypedOp::Rc(a, c) => Request::ReadCoils(a, c),
            TypedOp::Rdi(a, c) => Request::ReadDiscreteInputs(a, c),
            TypedOp::Rhr(a, c) => Request::ReadHoldingRegisters(a, c),
            TypedOp::Rir(a, c) => Request::ReadInputRegisters(a, c),
            TypedOp::Rwm(ra, c, wa, ws) => {
                Request::ReadWriteMultipleRegisters(ra, c, wa, Cow::Owned(ws))
            }
            TypedOp::Wsc(a, b) => Request::WriteSingleCoil(a, b),
            TypedOp::Wsr(a, w) => Request::WriteSingleRegister(a, w),
            TypedOp::Wmc(a, cs) => Request::WriteMultipleCoils(a, Cow::Owned(cs)),
            TypedOp::Wmr(a, ws) => Request::WriteMultipleRegisters(a, Cow::Owned(ws)),
            TypedOp::Mwr(a, am, om) => Request::MaskWriteRegister(a, am, om),
        }
    }
}

fn typed_res<T>(r: &tokio_modbus::Result<T>, f: impl Fn(&T) -> String) -> String {
    match r {
        Ok(Ok(v)) => format!("ok {}", f(v)),
        Ok(Err(e)) => format!("exc {}", hex8(crate::wire::ex_num(*e))),
        Err(e) => wire::error(e),
    }
}

fn run_typed(
    io: &ScriptedIo,
    ctx: &mut client::Context,
    op: &TypedOp,
) -> Driven<String> {
    fn m<T>(d: Driven<tokio_modbus::Result<T>>, f: impl Fn(&T) -> String) -> Driven<String> {
        match d {
            Driven::Done(r) => Driven::Done(typed_res(&r, f)),
            Driven::Abandoned => Driven::Abandoned,
            Driven::Blocked => Driven::Blocked,
        }
    }
    let b = |v: &Vec<bool>| format!("bits:{}", bits(v));
    let w = |v: &Vec<u16>| format!("words:{}", words(v));
    let u = |_: &()| "unit".to_string();
    match op {
        TypedOp::Rc(a, c) => m(drive(io, ctx.read_coils(*a, *c), None), b),
        TypedOp::Rdi(a, c) => m(drive(io, ctx.read_discrete_inputs(*a, *c), None), b),
        TypedOp::Rhr(a, c) => m(drive(io, ctx.read_holding_registers(*a, *c), None), w),
        TypedOp::Rir(a, c) => m(drive(io, ctx.read_input_registers(*a, *c), None), w),
        TypedOp::Rwm(ra, c, wa, ws) => m(
            drive(io, ctx.read_write_multiple_registers(*ra, *c, *wa, ws), None),
            w,
        ),
        TypedOp::Wsc(a, v) => m(drive(io, ctx.write_single_coil(*a, *v), None), u),
        TypedOp::Wsr(a, v) => m(drive(io, ctx.write_single_register(*a, *v), None), u),
        TypedOp::Wmc(a, cs) => m(drive(io, ctx.write_multiple_coils(*a, cs), None), u),
        TypedOp::Wmr(a, ws) => m(drive(io, ctx.write_multiple_registers(*a, ws), None), u),
        TypedOp::Mwr(a, am, om) => m(
            drive(io, ctx.masked_write_register(*a, *am, *om), None),
            u,
        ),
    }
}

fn driven_tok(d: Driven<String>) -> String {
    match d {
        Driven::Done(s) => s,
        Driven::Abandoned => "abandoned".into(),
        Driven::Blocked => "blocked".into(),
    }
}

fn cli_op(kind: &str, slave: &str, ops: &[&str]) -> Option<(String, String)> {
    let io = ScriptedIo::new();
    let mut ctx = match (kind, slave) {
        ("tcp", "-") => client::tcp::attach(io.clone()),
        ("tcp", s) => client::tcp::attach_slave(io.clone(), Slave(p_u8(s)?)),
        ("rtu", "-") => client::rtu::attach(io.clone()),
        ("rtu", s) => client::rtu::attach_slave(io.clone(), Slave(p_u8(s)?)),
        _ => return None,
    };
    let mut outs: Vec<String> = vec![];
    let mut new_ops: Vec<String> = vec![];
    for op in ops {
        let f: Vec<&str> = op.split(' ').filter(|s| !s.is_empty()).collect();
        let res = match f.as_slice() {
            ["call", req, fields @ ..] => {
                let req = p_request(req)?;
                extend(&io, fields)?;
                let b = match field("b", fields) {
                    "" | "-" => None,
                    n => Some(n.parse::<usize>().ok()?),
                };
                let d = match drive(&io, ctx.call(req), b) {
                    Driven::Done(r) => Driven::Done(call_result(&r)),
                    Driven::Abandoned => Driven::Abandoned,
                    Driven::Blocked => Driven::Blocked,
                };
                format!("{} {}", driven_tok(d), effects_tok(&io.take_log()))
            }
            ["typed", top, fields @ ..] => {
                let top = TypedOp::parse(top)?;
                extend(&io, fields)?;
                let d = run_typed(&io, &mut ctx, &top);
                format!("{} {}", driven_tok(d), effects_tok(&io.take_log()))
            }
            ["slave", id, ..] => {
                ctx.set_slave(Slave(p_u8(id)?));
                "ok".to_string()
            }
            ["disc", fields @ ..] => {
                extend(&io, fields)?;
                let r = match drive(&io, ctx.disconnect(), None) {
                    Driven::Done(Ok(())) => "ok".to_string(),
                    Driven::Done(Err(e)) => format!("err:{}", kind_tok(e.kind())),
                    _ => "blocked".to_string(),
                };
                format!("{} {}", r, effects_tok(&io.take_log()))
            }
            _ => return None,
        };
        outs.push(res);
        new_ops.push(rewrite_op(op, &io.take_delivered()));
    }
    // events never consumed stay visible to the model at the last op
    let leftover: Vec<ReadEv> = io.with(|s| s.reads.drain(..).collect());
    if !leftover.is_empty() {
        if let Some(last) = new_ops.last_mut() {
            let t = toks(&leftover, ReadEv::tok);
            if let Some(pos) = last.find(" r=") {
                // r= is always the last field after rewriting
                let _ = pos;
                last.push(',');
                last.push_str(&t);
            } else {
                last.push_str(&format!(" r={t}"));
            }
        }
    }
    let mut line = format!("cli {kind} {slave}");
    for o in &new_ops {
        line.push_str(" | ");
        line.push_str(o);
    }
    Some((line, outs.join(" | ")))
}

// ---------------------------------------------------------------- server connections

#[derive(Debug, Clone)]
pub enum Svc {
    Reply(Response),
    Exception(ExceptionCode),
    Decline,
}

impl Svc {
    pub fn parse(s: &str) -> Option<Self> {
        if s == "D" {
            return Some(Svc::Decline);
        }
        if let Some(r) = s.strip_prefix("R=") {
            return Some(Svc::Reply(p_response(r)?));
        }
        Some(Svc::Exception(p_ex(s.strip_prefix("X=")?)?))
    }
    pub fn tok(&self) -> String {
        match self {
            Svc::Reply(r) => format!("R={}", response(r)),
            Svc::Exception(e) => format!("X={}", ex_tok(*e)),
            Svc::Decline => "D".into(),
        }
    }
}

pub struct ScriptedService {
    pub outcomes: Arc<Mutex<VecDeque<Svc>>>,
    pub io: ScriptedIo,
}

impl Service for ScriptedService {
    type Request = SlaveRequest<'static>;
    type Response = Option<Response>;
    type Exception = ExceptionCode;
    type Future = future::Ready<Result<Option<Response>, ExceptionCode>>;

    fn call(&self, req: Self::Request) -> Self::Future {
        let req = req.into_owned();
        self.io.with(|s| {
            s.log.push(Logged::Call(format!(
                "{} {}",
                hex8(req.slave),
                request(&req.request)
            )))
        });
        let o = self
            .outcomes
            .lock()
            .unwrap()
            .pop_front()
            .unwrap_or(Svc::Decline);
        future::ready(match o {
            Svc::Reply(r) => Ok(Some(r)),
            Svc::Exception(e) => Err(e),
            Svc::Decline => Ok(None),
        })
    }
}

/// a service typed on the plain `Request` (it never sees the unit / slave id)
pub struct PlainService(pub ScriptedService);

impl Service for PlainService {
    type Request = tokio_modbus::Request<'static>;
    type Response = Option<Response>;
    type Exception = ExceptionCode;
    type Future = future::Ready<Result<Option<Response>, ExceptionCode>>;

    fn call(&self, req: Self::Request) -> Self::Future {
        let req = req.into_owned();
        self.0.io.with(|s| s.log.push(Logged::Call(format!("?? {}", request(&req)))));
        let o = self.0.outcomes.lock().unwrap().pop_front().unwrap_or(Svc::Decline);
        future::ready(match o {
            Svc::Reply(r) => Ok(Some(r)),
            Svc::Exception(e) => Err(e),
            Svc::Decline => Ok(None),
        })
    }
}

fn srv_op(kind: &str, fields: &[&str]) -> Option<(String, String)> {
    let io = ScriptedIo::new();
    extend(&io, fields)?;
    let outcomes = p_list(field("svc", fields), Svc::parse)?;
    let service = ScriptedService {
        outcomes: Arc::new(Mutex::new(outcomes.into_iter().collect())),
        io: io.clone(),
    };
    let plain = field("svcty", fields) == "req";
    let d = match (kind, plain) {
        ("tcp", false) => drive(&io, tokio_modbus::server::tcp::verif_process(io.clone(), service), None),
        ("rtu", false) => drive(&io, tokio_modbus::server::rtu_over_tcp::verif_process(io.clone(), service), None),
        ("tcp", true) => drive(&io, tokio_modbus::server::tcp::verif_process(io.clone(), PlainService(service)), None),
        ("rtu", true) => {
            drive(&io, tokio_modbus::server::rtu_over_tcp::verif_process(io.clone(), PlainService(service)), None)
        }
        _ => return None,
    };
    let end = match d {
        Driven::Done(Ok(())) => "finished".to_string(),
        Driven::Done(Err(e)) => format!("failed:{}", kind_tok(e.kind())),
        Driven::Blocked | Driven::Abandoned => "blocked".to_string(),
    };
    let mut evs: Vec<String> = io
        .take_log()
        .iter()
        .filter_map(|l| match l {
            Logged::Call(c) => Some(format!("call {c}")),
            Logged::Write(b) => Some(format!("write {}", hex(b))),
            Logged::Shutdown => None,
        })
        .collect();
    evs.push(format!("end {end}"));
    let mut delivered = io.take_delivered();
    delivered.extend(io.with(|s| s.reads.drain(..).collect::<Vec<_>>()));
    let mut line = format!("srv {kind}");
    for f in fields {
        if !f.starts_with("r=") {
            line.push(' ');
            line.push_str(f);
        }
    }
    if !delivered.is_empty() {
        line.push_str(&format!(" r={}", toks(&delivered, ReadEv::tok)));
    }
    // the read buffer of the connection is not observable from outside: the model's
    // `buf` figure is compared only by the stream ops
    Some((line, evs.join(" | ")))
}
