//! Ops that need real sockets, a real runtime or the blocking client:
//!   sync   – the synchronous client against a scripted peer (loopback TCP, pty for RTU)
//!   conc   – N concurrent clients against one real server (multi-threaded runtime)
//!   accept – the accept loop (`Server::serve` / `serve_until`) over loopback

use std::{
    collections::{HashMap, VecDeque},

    io::{Read, Write},
    net::{SocketAddr, TcpListener as StdListener, TcpStream as StdStream},
    sync::{
        atomic::{AtomicUsize, Ordering},
        Arc, Mutex,
    },
    time::Duration,
};

use tokio_modbus::{
    client::sync::{self, Client as _, Reader as _, Writer as _},
    server::Service,
    slave::SlaveContext as _,
    ExceptionCode, Response, Slave, SlaveRequest,
};

use crate::{
    run::{Svc, TypedOp},
    script::ReadEv,
    spec,
    wire::*,
};

// ---------------------------------------------------------------- sync

/// what the peer does for one op: bytes to send after the request arrived, then maybe close
struct PeerStep {
    expect_len: usize,
    reply: Vec<u8>,
    close: bool,
    silent: bool,
}

fn peer_step(kind: &str, op: &str, fields: &[&str]) -> Option<PeerStep> {
    let evs = p_list(field("r", fields), ReadEv::parse)?;
    let mut reply = vec![];
    let mut close = false;
    for e in &evs {
        match e {
            ReadEv::Data(d) => reply.extend(d),
            ReadEv::Eof | ReadEv::EofSticky => close = true,
            _ => return None,
        }
    }
    // length of the frame the request is specified to have
    let parts: Vec<&str> = op.split(' ').filter(|s| !s.is_empty()).collect();
    let req = match parts.first().copied() {
        Some("call") => p_request(parts.get(1)?)?,
        Some("typed") => TypedOp::parse(parts.get(1)?)?.request(),
        _ => return None,
    };
    let pdu = spec::request_bytes(&req)?;
    let expect_len = if pdu.len() > 253 {
        0
    } else if kind == "tcp" {
        7 + pdu.len()
    } else {
        3 + pdu.len()
    };
    Some(PeerStep {
        expect_len,
        silent: reply.is_empty() && !close,
        reply,
        close,
    })
}

extern "C" {
    fn posix_openpt(flags: i32) -> i32;
    fn grantpt(fd: i32) -> i32;
    fn unlockpt(fd: i32) -> i32;
    fn ptsname_r(fd: i32, buf: *mut u8, len: usize) -> i32;
}

fn open_pty() -> Option<(std::fs::File, String)> {
    use std::os::fd::FromRawFd;
    unsafe {
        let fd = posix_openpt(0o2 | 0o400); // O_RDWR | O_NOCTTY
        if fd < 0 || grantpt(fd) != 0 || unlockpt(fd) != 0 {
            return None;
        }
        let mut buf = [0u8; 128];
        if ptsname_r(fd, buf.as_mut_ptr(), buf.len()) != 0 {
            return None;
        }
        let n = buf.iter().position(|b| *b == 0)?;
        let path = String::from_utf8(buf[..n].to_vec()).ok()?;
        Some((std::fs::File::from_raw_fd(fd), path))
    }
}

trait PeerIo: Read + Write + Send {
    fn set_timeout(&mut self, d: Duration);
    fn close(self: Box<Self>);
}

impl PeerIo for StdStream {
    fn set_timeout(&mut self, d: Duration) {
        let _ = self.set_read_timeout(Some(d));
    }
    fn close(self: Box<Self>) {
        let _ = self.shutdown(std::net::Shutdown::Both);
    }
}

struct PtyMaster(std::fs::File, i32);
impl Read for PtyMaster {
    fn read(&mut self, buf: &mut [u8]) -> std::io::Result<usize> {
        // poll with a deadline: the master side has no read timeout of its own
        use std::os::fd::AsRawFd;
        #[repr(C)]
        struct PollFd {
            fd: i32,
            events: i16,
            revents: i16,
        }
        extern "C" {
            fn poll(fds: *mut PollFd, n: u64, timeout: i32) -> i32;
        }
        let mut p = PollFd { fd: self.0.as_raw_fd(), events: 1, revents: 0 };
        let r = unsafe { poll(&mut p, 1, self.1) };
        if r <= 0 {
            return Err(std::io::Error::new(std::io::ErrorKind::TimedOut, "poll"));
        }
        self.0.read(buf)
    }
}
impl Write for PtyMaster {
    fn write(&mut self, buf: &[u8]) -> std::io::Result<usize> {
        self.0.write(buf)
    }
    fn flush(&mut self) -> std::io::Result<()> {
        self.0.flush()
    }
}
impl PeerIo for PtyMaster {
    fn set_timeout(&mut self, d: Duration) {
        self.1 = d.as_millis() as i32;
    }
    fn close(self: Box<Self>) {}
}

/// the peer: for every step read the request, answer as scripted; what was received is recorded
fn run_peer(mut io: Box<dyn PeerIo>, steps: Vec<PeerStep>, received: Arc<Mutex<Vec<Vec<u8>>>>, go: std::sync::mpsc::Receiver<()>) {
    io.set_timeout(Duration::from_millis(2000));
    for st in steps {
        // wait until the client side starts this op (keeps the per-op attribution exact)
        if go.recv().is_err() {
            break;
        }
        let mut got = vec![];
        let mut buf = [0u8; 4096];
        while got.len() < st.expect_len {
            match io.read(&mut buf) {
                Ok(0) => break,
                Ok(n) => got.extend(&buf[..n]),
                Err(_) => break,
            }
        }
        // anything beyond the expected frame that is already there
        if st.expect_len > 0 {
            io.set_timeout(Duration::from_millis(20));
            if let Ok(n) = io.read(&mut buf) {
                got.extend(&buf[..n]);
            }
            io.set_timeout(Duration::from_millis(2000));
        }
        received.lock().unwrap().push(got);
        if !st.reply.is_empty() {
            let _ = io.write_all(&st.reply);
            let _ = io.flush();
        }
        if st.close {
            io.close();
            return;
        }
        let _ = st.silent;
    }
    // keep the connection open until the client is done
    let _ = go.recv();
}

fn typed_sync(ctx: &mut sync::Context, op: &TypedOp) -> String {
    fn m<T>(r: tokio_modbus::Result<T>, f: impl Fn(&T) -> String) -> String {
        match r {
            Ok(Ok(v)) => format!("ok {}", f(&v)),
            Ok(Err(e)) => format!("exc {}", hex8(crate::wire::ex_num(e))),
            Err(e) => crate::wire::error(&e),
        }
    }
    let b = |v: &Vec<bool>| format!("bits:{}", bits(v));
    let w = |v: &Vec<u16>| format!("words:{}", words(v));
    let u = |_: &()| "unit".to_string();
    match op {
        TypedOp::Rc(a, c) => m(ctx.read_coils(*a, *c), b),
        TypedOp::Rdi(a, c) => m(ctx.read_discrete_inputs(*a, *c), b),
        TypedOp::Rhr(a, c) => m(ctx.read_holding_registers(*a, *c), w),
        TypedOp::Rir(a, c) => m(ctx.read_input_registers(*a, *c), w),
        TypedOp::Rwm(ra, c, wa, ws) => m(ctx.read_write_multiple_registers(*ra, *c, *wa, ws), w),
        TypedOp::Wsc(a, v) => m(ctx.write_single_coil(*a, *v), u),
        TypedOp::Wsr(a, v) => m(ctx.write_single_register(*a, *v), u),
        TypedOp::Wmc(a, cs) => m(ctx.write_multiple_coils(*a, cs), u),
        TypedOp::Wmr(a, ws) => m(ctx.write_multiple_registers(*a, ws), u),
        TypedOp::Mwr(a, am, om) => m(ctx.masked_write_register(*a, *am, *om), u),
    }
}

/// the ten typed methods of the asynchronous context over a real socket
fn typed_async(rt: &tokio::runtime::Runtime, ctx: &mut tokio_modbus::client::Context, op: &TypedOp) -> String {
    use tokio_modbus::client::{Reader, Writer};
    fn m<T>(r: tokio_modbus::Result<T>, f: impl Fn(&T) -> String) -> String {
        match r {
            Ok(Ok(v)) => format!("ok {}", f(&v)),
            Ok(Err(e)) => format!("exc {}", hex8(crate::wire::ex_num(e))),
            Err(e) => crate::wire::error(&e),
        }
    }
    let b = |v: &Vec<bool>| format!("bits:{}", bits(v));
    let w = |v: &Vec<u16>| format!("words:{}", words(v));
    let u = |_: &()| "unit".to_string();
    match op {
        TypedOp::Rc(a, c) => m(rt.block_on(ctx.read_coils(*a, *c)), b),
        TypedOp::Rdi(a, c) => m(rt.block_on(ctx.read_discrete_inputs(*a, *c)), b),
        TypedOp::Rhr(a, c) => m(rt.block_on(ctx.read_holding_registers(*a, *c)), w),
        TypedOp::Rir(a, c) => m(rt.block_on(ctx.read_input_registers(*a, *c)), w),
        TypedOp::Rwm(ra, c, wa, ws) => m(rt.block_on(ctx.read_write_multiple_registers(*ra, *c, *wa, ws)), w),
        TypedOp::Wsc(a, v) => m(rt.block_on(ctx.write_single_coil(*a, *v)), u),
        TypedOp::Wsr(a, v) => m(rt.block_on(ctx.write_single_register(*a, *v)), u),
        TypedOp::Wmc(a, cs) => m(rt.block_on(ctx.write_multiple_coils(*a, cs)), u),
        TypedOp::Wmr(a, ws) => m(rt.block_on(ctx.write_multiple_registers(*a, ws)), u),
        TypedOp::Mwr(a, am, om) => m(rt.block_on(ctx.masked_write_register(*a, *am, *om)), u),
    }
}

/// blocking context, or (option `async`) the asynchronous context connected with
/// `client::tcp::connect[_slave]` over a real socket and driven by `block_on`
enum AnyCtx {
    Sync(sync::Context),
    Async(tokio::runtime::Runtime, tokio_modbus::client::Context),
}

/// `sync <kind> <slave|-> [to=<ms>] [async] | op | op …`
pub fn sync_op(kind: &str, slave: &str, opts: &[&str], ops: &[&str]) -> Option<(String, String)> {
    let timeout = match field("to", opts) {
        "" => None,
        ms => Some(Duration::from_millis(ms.parse().ok()?)),
    };
    let mut steps = vec![];
    for op in ops {
        let f: Vec<&str> = op.split(' ').filter(|s| !s.is_empty()).collect();
        match f.first().copied() {
            Some("call") | Some("typed") => steps.push(peer_step(kind, op, &f[2..])?),
            Some("slave") | Some("timeout") => {}
            _ => return None,
        }
    }
    let step_closes: Vec<bool> = steps.iter().map(|s| s.close).collect();
    let mut call_idx = 0usize;
    let received: Arc<Mutex<Vec<Vec<u8>>>> = Default::default();
    let (go_tx, go_rx) = std::sync::mpsc::channel::<()>();
    let mut ctx: AnyCtx;
    let peer;
    let use_async = opts.contains(&"async");
    if kind == "tcp" && use_async {
        let listener = StdListener::bind("127.0.0.1:0").ok()?;
        let addr = listener.local_addr().ok()?;
        let rec = received.clone();
        peer = std::thread::spawn(move || {
            if let Ok((s, _)) = listener.accept() {
                run_peer(Box::new(s), steps, rec, go_rx);
            }
        });
        let rt = tokio::runtime::Builder::new_current_thread().enable_all().build().ok()?;
        let c = match slave {
            "-" => rt.block_on(tokio_modbus::client::tcp::connect(addr)).ok()?,
            s => rt.block_on(tokio_modbus::client::tcp::connect_slave(addr, Slave(p_u8(s)?))).ok()?,
        };
        ctx = AnyCtx::Async(rt, c);
    } else if kind == "tcp" {
        let listener = StdListener::bind("127.0.0.1:0").ok()?;
        let addr = listener.local_addr().ok()?;
        let rec = received.clone();
        peer = std::thread::spawn(move || {
            if let Ok((s, _)) = listener.accept() {
                run_peer(Box::new(s), steps, rec, go_rx);
            }
        });
        ctx = AnyCtx::Sync(match (slave, timeout) {
            ("-", None) => sync::tcp::connect(addr).ok()?,
            ("-", t) => sync::tcp::connect_with_timeout(addr, t).ok()?,
            (s, None) => sync::tcp::connect_slave(addr, Slave(p_u8(s)?)).ok()?,
            (s, t) => sync::tcp::connect_slave_with_timeout(addr, Slave(p_u8(s)?), t).ok()?,
        });
    } else {
        let (master, path) = open_pty()?;
        let rec = received.clone();
        peer = std::thread::spawn(move || run_peer(Box::new(PtyMaster(master, 2000)), steps, rec, go_rx));
        let builder = tokio_serial::new(path, 115_200);
        ctx = AnyCtx::Sync(match (slave, timeout) {
            ("-", None) => sync::rtu::connect(&builder).ok()?,
            ("-", t) => sync::rtu::connect_with_timeout(&builder, t).ok()?,
            (s, None) => sync::rtu::connect_slave(&builder, Slave(p_u8(s)?)).ok()?,
            (s, t) => sync::rtu::connect_slave_with_timeout(&builder, Slave(p_u8(s)?), t).ok()?,
        });
    }
    let mut outs = vec![];
    for op in ops {
        let f: Vec<&str> = op.split(' ').filter(|s| !s.is_empty()).collect();
        let res = match f.as_slice() {
            ["call", req, ..] => {
                let _ = go_tx.send(());
                let r = match &mut ctx {
                    AnyCtx::Sync(c) => c.call(p_request(req)?),
                    AnyCtx::Async(rt, c) => {
                        use tokio_modbus::client::Client as _;
                        rt.block_on(c.call(p_request(req)?))
                    }
                };
                Some(call_result(&r))
            }
            ["typed", top, ..] => {
                let _ = go_tx.send(());
                Some(match &mut ctx {
                    AnyCtx::Sync(c) => typed_sync(c, &TypedOp::parse(top)?),
                    AnyCtx::Async(rt, c) => typed_async(rt, c, &TypedOp::parse(top)?),
                })
            }
            ["slave", id, ..] => {
                match &mut ctx {
                    AnyCtx::Sync(c) => c.set_slave(Slave(p_u8(id)?)),
                    AnyCtx::Async(_, c) => {
                        use tokio_modbus::slave::SlaveContext as _;
                        c.set_slave(Slave(p_u8(id)?))
                    }
                }
                None
            }
            ["timeout", v, ..] => {
                let AnyCtx::Sync(ctx) = &mut ctx else { return None };
                // set_timeout / reset_timeout, read back through the getter
                let want = if *v == "-" { None } else { Some(Duration::from_millis(v.parse().ok()?)) };
                match want {
                    None => ctx.reset_timeout(),
                    Some(d) => ctx.set_timeout(d),
                }
                if ctx.timeout() != want {
                    return Some((ops.join(" | "), "timeout getter disagrees with setter".into()));
                }
                None
            }
            _ => return None,
        };
        match res {
            Some(r) => {
                // what the peer received for this op
                let idx = outs.iter().filter(|o: &&String| *o != "ok").count();
                let mut w = vec![];
                for _ in 0..1000 {
                    if let Some(x) = received.lock().unwrap().get(idx) {
                        w = x.clone();
                        break;
                    }
                    std::thread::sleep(Duration::from_millis(5));
                }
                // a pseudo-terminal has no orderly end of stream: when the master side closes, the
                // slave's read fails with EIO – or reports 0 bytes, depending on what the kernel
                // had queued.  Both say "the line is gone"; the step is rendered as the scripted
                // transport renders a close.
                let closes = call_idx < step_closes.len() && step_closes[call_idx];
                let r = if kind == "rtu" && closes && r.starts_with("tr:k?") { "tr:bp".to_string() } else { r };
                call_idx += 1;
                outs.push(format!("{r} w={} sd=0", hex(&w)));
            }
            None => outs.push("ok".into()),
        }
    }
    drop(go_tx);
    drop(ctx);
    let _ = peer.join();
    let line = format!(
        "sync {kind} {slave}{} | {}",
        if opts.is_empty() { String::new() } else { format!(" {}", opts.join(" ")) },
        ops.join(" | ")
    );
    Some((line, outs.join(" | ")))
}

// ---------------------------------------------------------------- servers over loopback

struct LazyService {
    peer: SocketAddr,
    scripts: Arc<Mutex<HashMap<SocketAddr, VecDeque<Svc>>>>,
    calls: Arc<Mutex<HashMap<SocketAddr, Vec<String>>>>,
}

impl Service for LazyService {
    type Request = SlaveRequest<'static>;
    type Response = Option<Response>;
    type Exception = ExceptionCode;
    type Future = std::pin::Pin<Box<dyn std::future::Future<Output = Result<Option<Response>, ExceptionCode>> + Send>>;

    fn call(&self, req: Self::Request) -> Self::Future {
        self.calls
            .lock()
            .unwrap()
            .entry(self.peer)
            .or_default()
            .push(format!("{}:{}", hex8(req.slave), request(&req.request)));
        let o = self
            .scripts
            .lock()
            .unwrap()
            .get_mut(&self.peer)
            .and_then(VecDeque::pop_front)
            .unwrap_or(Svc::Decline);
        let res = match o {
            Svc::Reply(r) => Ok(Some(r)),
            Svc::Exception(e) => Err(e),
            Svc::Decline => Ok(None),
        };
        // a real service takes its time: some calls answer at once, some yield to the scheduler,
        // some sleep a little – so that requests of other connections are decoded and answered
        // while this one is still being served
        let n = SERVICE_CALLS.fetch_add(1, Ordering::Relaxed);
        Box::pin(async move {
            match n % 5 {
                1 => tokio::task::yield_now().await,
                2 => tokio::time::sleep(Duration::from_micros(300)).await,
                3 => tokio::time::sleep(Duration::from_millis(2)).await,
                _ => {}
            }
            res
        })
    }
}

static SERVICE_CALLS: AtomicUsize = AtomicUsize::new(0);

/// SO_LINGER with a zero timeout: closing the socket sends RST instead of FIN
fn set_linger_zero(s: &StdStream) {
    use std::os::fd::AsRawFd;
    #[repr(C)]
    struct Linger {
        l_onoff: i32,
        l_linger: i32,
    }
    extern "C" {
        fn setsockopt(fd: i32, level: i32, name: i32, value: *const std::ffi::c_void, len: u32) -> i32;
    }
    let l = Linger { l_onoff: 1, l_linger: 0 };
    // SOL_SOCKET = 1, SO_LINGER = 13 (Linux)
    unsafe {
        setsockopt(s.as_raw_fd(), 1, 13, &l as *const Linger as *const std::ffi::c_void, std::mem::size_of::<Linger>() as u32);
    }
}

fn rt(workers: usize) -> tokio::runtime::Runtime {
    tokio::runtime::Builder::new_multi_thread()
        .worker_threads(workers)
        .enable_all()
        .build()
        .unwrap()
}

/// the crate-private request loop of the serial RTU server, driven through a pseudo-terminal:
/// the harness holds the master side, the server the slave side
fn serial_server(svc: Vec<Svc>, data: &[u8], expect: usize, ncalls: usize) -> Option<String> {
    let (master, path) = open_pty()?;
    let runtime = rt(2);
    let key: SocketAddr = "0.0.0.0:0".parse().ok()?;
    let scripts: Arc<Mutex<HashMap<SocketAddr, VecDeque<Svc>>>> = Default::default();
    let calls: Arc<Mutex<HashMap<SocketAddr, Vec<String>>>> = Default::default();
    scripts.lock().unwrap().insert(key, svc.into_iter().collect());
    let service = LazyService { peer: key, scripts: scripts.clone(), calls: calls.clone() };
    let (ready_tx, ready_rx) = std::sync::mpsc::channel::<bool>();
    // the public entry points, alternating: `serve_until` (stopped by its abort signal at the
    // end) and `serve_forever` (its task is aborted at the end)
    let until = data.len() % 2 == 0;
    let (abort_tx, abort_rx) = tokio::sync::oneshot::channel::<()>();
    let server = runtime.spawn(async move {
        match tokio_serial::SerialStream::open(&tokio_serial::new(path, 115_200)) {
            Ok(serial) => {
                let _ = ready_tx.send(true);
                let srv = tokio_modbus::server::rtu::Server::new(serial);
                if until {
                    let abort = Box::pin(async move {
                        let _ = abort_rx.await;
                    });
                    match srv.serve_until(service, abort).await {
                        Ok(tokio_modbus::server::Terminated::Aborted) => "ok",
                        Ok(tokio_modbus::server::Terminated::Finished) => "finished",
                        Err(_) => "failed",
                    }
                } else {
                    // returns only when the request loop fails
                    match srv.serve_forever(service).await {
                        Ok(()) => "finished",
                        Err(_) => "failed",
                    }
                }
            }
            Err(_) => {
                let _ = ready_tx.send(false);
                "bad"
            }
        }
    });
    // the line is in raw mode only once the server has opened it
    if !ready_rx.recv_timeout(Duration::from_millis(3000)).ok()? {
        return None;
    }
    let mut m = PtyMaster(master, 3000);
    let mut seed = 0x9E37_79B9_7F4A_7C15u64 ^ (data.len() as u64);
    let mut at = 0;
    while at < data.len() {
        seed ^= seed << 13;
        seed ^= seed >> 7;
        seed ^= seed << 17;
        let k = (1 + (seed % 9) as usize).min(data.len() - at);
        m.write_all(&data[at..at + k]).ok()?;
        at += k;
        if seed % 3 == 0 {
            std::thread::sleep(Duration::from_micros(200 + seed % 700));
        }
    }
    let mut got = vec![];
    let mut buf = [0u8; 4096];
    while got.len() < expect {
        match m.read(&mut buf) {
            Ok(0) | Err(_) => break,
            Ok(n) => got.extend(&buf[..n]),
        }
    }
    m.1 = 40;
    if let Ok(n) = m.read(&mut buf) {
        got.extend(&buf[..n]);
    }
    // requests the service declines produce no bytes to wait for: wait for the calls themselves
    for _ in 0..400 {
        if calls.lock().unwrap().get(&key).map_or(0, Vec::len) >= ncalls {
            break;
        }
        std::thread::sleep(Duration::from_millis(5));
    }
    // `serve_until` must end as `Aborted` when its signal fires – unless the request loop has
    // failed before, which ends both entry points with that error; `serve_forever` is given a
    // moment to return on its own and is aborted otherwise
    let ended = if until {
        let _ = abort_tx.send(());
        runtime.block_on(async { tokio::time::timeout(Duration::from_millis(3000), server).await })
            .ok()
            .and_then(Result::ok)
            .unwrap_or("bad")
    } else {
        for _ in 0..30 {
            if server.is_finished() {
                break;
            }
            std::thread::sleep(Duration::from_millis(5));
        }
        if server.is_finished() {
            runtime.block_on(server).unwrap_or("bad")
        } else {
            server.abort();
            "ok"
        }
    };
    runtime.shutdown_timeout(Duration::from_millis(200));
    let c = calls.lock().unwrap().get(&key).cloned().unwrap_or_default();
    Some(format!(
        "calls={} out={} peer={}",
        if c.is_empty() { "-".to_string() } else { c.join(",") },
        hex(&got),
        ended
    ))
}

/// `conc <kind> | svc=… r=d… | svc=… r=d… | …` – one part per concurrent connection
pub fn conc_op(kind: &str, conns: &[&str]) -> Option<(String, String)> {
    // per connection: service script, request bytes, reply bytes owed, service calls owed
    let mut specs: Vec<(Vec<Svc>, Vec<u8>, usize, usize)> = vec![];
    // `after=<j>`: this client connects before all the others but stays silent until
    // connection j has received everything it is owed
    let mut after: Vec<Option<usize>> = vec![];
    let mut late: Vec<Option<usize>> = vec![];
    // `rst=1`: this peer connects and resets its connection (SO_LINGER 0, close) before the
    // server has accepted it; it sends nothing
    let mut rst: Vec<bool> = vec![];
    for c in conns {
        let f: Vec<&str> = c.split(' ').filter(|s| !s.is_empty()).collect();
        rst.push(field("rst", &f) == "1");
        let svc = p_list(field("svc", &f), Svc::parse)?;
        let evs = p_list(field("r", &f), ReadEv::parse)?;
        after.push(match field("after", &f) {
            "" => None,
            j => Some(j.parse::<usize>().ok()?),
        });
        // `late=<j>`: this client connects only after connection j is over
        late.push(match field("late", &f) {
            "" => None,
            j => Some(j.parse::<usize>().ok()?),
        });
        let mut data = vec![];
        for e in evs {
            if let ReadEv::Data(d) = e {
                data.extend(d);
            }
        }
        // how many reply bytes to wait for: computed from the spec encoder
        let frames: Vec<(u16, u8, Vec<u8>)> = if kind == "tcp" {
            spec::split_mbap(&data)
                .into_iter()
                .filter_map(|f| match f {
                    spec::MbapItem::Frame(t, u, p) => Some((t, u, p)),
                    _ => None,
                })
                .collect()
        } else {
            crate::gen::rtu_frames_prefix(&data).into_iter().map(|(u, p)| (0, u, p)).collect()
        };
        let mut expect = 0usize;
        let mut ncalls = 0usize;
        for (i, (_, _, pdu)) in frames.iter().enumerate() {
            ncalls += 1;
            let n = match svc.get(i) {
                Some(Svc::Reply(r)) => spec::response_bytes(r).map(|b| b.len()),
                Some(Svc::Exception(_)) => Some(2),
                _ => None,
            };
            let _ = pdu;
            if let Some(n) = n {
                if n > 253 {
                    // a reply the server refuses to encode ends the connection
                    break;
                }
                expect += n + if kind == "tcp" { 7 } else { 3 };
            }
        }
        specs.push((svc, data, expect, ncalls));
    }
    if kind == "ser" {
        // the serial RTU server (src/server/rtu.rs) on the slave side of a pty: one "connection"
        let (svc, data, expect, ncalls) = specs.first()?.clone();
        let res = serial_server(svc, &data, expect, ncalls)?;
        return Some((format!("conc {kind} | {}", conns.join(" | ")), res));
    }
    let runtime = rt(4);
    let std_listener = StdListener::bind("127.0.0.1:0").ok()?;
    std_listener.set_nonblocking(true).ok()?;
    let addr = std_listener.local_addr().ok()?;
    let scripts: Arc<Mutex<HashMap<SocketAddr, VecDeque<Svc>>>> = Default::default();
    let calls: Arc<Mutex<HashMap<SocketAddr, Vec<String>>>> = Default::default();
    let seen_peers: Arc<Mutex<Vec<SocketAddr>>> = Default::default();
    let (sc, cl, sp) = (scripts.clone(), calls.clone(), seen_peers.clone());
    let kind_s = kind.to_string();
    // the resetting peers come and go while the connections wait in the listen queue
    let mut rst_locals: Vec<SocketAddr> = vec![];
    for is_rst in &rst {
        if *is_rst {
            if let Ok(s) = StdStream::connect(addr) {
                if let Ok(l) = s.local_addr() {
                    rst_locals.push(l);
                }
                set_linger_zero(&s);
                drop(s);
            }
        }
    }
    if !rst_locals.is_empty() {
        std::thread::sleep(Duration::from_millis(30));
    }
    let server = runtime.spawn(async move {
        let listener = tokio::net::TcpListener::from_std(std_listener).unwrap();
        let new_service = move |peer: SocketAddr| {
            sp.lock().unwrap().push(peer);
            Ok(Some(LazyService { peer, scripts: sc.clone(), calls: cl.clone() }))
        };
        if kind_s == "tcp" {
            let server = tokio_modbus::server::tcp::Server::new(listener);
            let on_connected = |stream, socket_addr| {
                let ns = new_service.clone();
                async move { tokio_modbus::server::tcp::accept_tcp_connection(stream, socket_addr, ns) }
            };
            let _ = server.serve(&on_connected, |_err| {}).await;
        } else {
            let server = tokio_modbus::server::rtu_over_tcp::Server::new(listener);
            let on_connected = |stream, socket_addr| {
                let ns = new_service.clone();
                async move { tokio_modbus::server::rtu_over_tcp::accept_tcp_connection(stream, socket_addr, ns) }
            };
            let _ = server.serve(&on_connected, |_err| {}).await;
        }
    });
    // the clients: plain blocking sockets on their own threads, sending in pieces
    let mut handles = vec![];
    // the silent clients connect first, one after the other, so that they are at the head of
    // the accept queue
    let mut early: Vec<Option<StdStream>> = after
        .iter()
        .map(|a| a.and_then(|_| StdStream::connect(addr).ok()))
        .collect();
    let finished: Arc<(Mutex<Vec<bool>>, std::sync::Condvar)> =
        Arc::new((Mutex::new(vec![false; specs.len()]), std::sync::Condvar::new()));
    for (i, (svc, data, expect, _)) in specs.iter().cloned().enumerate() {
        let scripts = scripts.clone();
        let pre = early[i].take();
        let wait_for = after[i];
        let connect_after = late[i];
        let finished = finished.clone();
        let is_rst = rst[i];
        handles.push(std::thread::spawn(move || -> Option<(SocketAddr, Vec<u8>)> {
            let done = |r: Option<(SocketAddr, Vec<u8>)>| {
                let (m, cv) = &*finished;
                m.lock().unwrap()[i] = true;
                cv.notify_all();
                r
            };
            if is_rst {
                return done(Some(("0.0.0.0:0".parse().unwrap(), vec![])));
            }
            if let Some(j) = connect_after {
                {
                    let (m, cv) = &*finished;
                    let mut g = m.lock().unwrap();
                    while !g.get(j).copied().unwrap_or(true) {
                        g = cv.wait(g).unwrap();
                    }
                }
                // connection j's socket is closed by now; give its server task time to end
                std::thread::sleep(Duration::from_millis(150));
            }
            let mut s = match pre {
                Some(s) => s,
                None => match StdStream::connect(addr) {
                    Ok(s) => s,
                    Err(_) => return done(None),
                },
            };
            if let Some(j) = wait_for {
                let (m, cv) = &*finished;
                let mut g = m.lock().unwrap();
                while !g.get(j).copied().unwrap_or(true) {
                    g = cv.wait(g).unwrap();
                }
            }
            let r = (|| -> Option<(SocketAddr, Vec<u8>)> {
            let local = s.local_addr().ok()?;
            scripts.lock().unwrap().insert(local, svc.into_iter().collect());
            s.set_read_timeout(Some(Duration::from_millis(3000))).ok()?;
            let mut seed = (i as u64 + 1).wrapping_mul(0x9E37_79B9_7F4A_7C15);
            let mut at = 0;
            while at < data.len() {
                seed ^= seed << 13;
                seed ^= seed >> 7;
                seed ^= seed << 17;
                let k = (1 + (seed % 9) as usize).min(data.len() - at);
                // (a server that has ended this connection may refuse further bytes)
                if s.write_all(&data[at..at + k]).is_err() {
                    break;
                }
                at += k;
                if seed % 3 == 0 {
                    std::thread::sleep(Duration::from_micros(200 + seed % 700));
                }
            }
            let mut got = vec![];
            let mut buf = [0u8; 4096];
            while got.len() < expect {
                match s.read(&mut buf) {
                    Ok(0) => break,
                    Ok(n) => got.extend(&buf[..n]),
                    Err(_) => break,
                }
            }
            // a little longer: nothing else may arrive
            s.set_read_timeout(Some(Duration::from_millis(30))).ok()?;
            if let Ok(n) = s.read(&mut buf) {
                got.extend(&buf[..n]);
            }
            Some((local, got))
            })();
            done(r)
        }));
    }
    let mut outs = vec![];
    let mut locals = vec![];
    for (i, h) in handles.into_iter().enumerate() {
        let (local, got) = h.join().ok()??;
        locals.push(local);
        // requests the service declines produce no bytes the client could wait for: wait for the
        // calls themselves (bounded) before reading the log
        let owed = specs[i].3;
        for _ in 0..400 {
            if calls.lock().unwrap().get(&local).map_or(0, Vec::len) >= owed {
                break;
            }
            std::thread::sleep(Duration::from_millis(5));
        }
        let c = calls.lock().unwrap().get(&local).cloned().unwrap_or_default();
        outs.push((c, got));
    }
    server.abort();
    runtime.shutdown_timeout(Duration::from_millis(200));
    // every connection got its own service instance, created with that peer's address
    // (a peer that reset its connection may or may not have been given a service instance)
    let unspecified: SocketAddr = "0.0.0.0:0".parse().unwrap();
    let peers: Vec<SocketAddr> = seen_peers.lock().unwrap().iter().copied().filter(|p| !rst_locals.contains(p)).collect();
    let mut sorted_p = peers.clone();
    sorted_p.sort();
    let mut sorted_l: Vec<SocketAddr> = locals.iter().copied().filter(|l| *l != unspecified).collect();
    sorted_l.sort();
    let peer_ok = sorted_p == sorted_l;
    let res: Vec<String> = outs
        .iter()
        .map(|(c, got)| {
            format!(
                "calls={} out={} peer={}",
                if c.is_empty() { "-".to_string() } else { c.join(",") },
                hex(got),
                if peer_ok { "ok" } else { "bad" }
            )
        })
        .collect();
    Some((format!("conc {kind} | {}", conns.join(" | ")), res.join(" | ")))
}

/// `accept <kind> <setups> [abort]` – setups: a (accept, one good exchange), b (accept, then a
/// malformed frame), r (no service), s<kind> (setup fails)
pub fn accept_op(kind: &str, setups: &str, abort: bool) -> Option<(String, String)> {
    let list: Vec<String> = if setups == "-" { vec![] } else { setups.split(',').map(str::to_string).collect() };
    let runtime = rt(2);
    let std_listener = StdListener::bind("127.0.0.1:0").ok()?;
    std_listener.set_nonblocking(true).ok()?;
    let addr = std_listener.local_addr().ok()?;
    let counter = Arc::new(AtomicUsize::new(0));
    let callbacks = Arc::new(AtomicUsize::new(0));
    let spawned: Arc<Mutex<Vec<usize>>> = Default::default();
    let (abort_tx, abort_rx) = tokio::sync::oneshot::channel::<()>();
    let (cn, cb, sp, ls) = (counter.clone(), callbacks.clone(), spawned.clone(), list.clone());
    let kind_s = kind.to_string();
    let server = runtime.spawn(async move {
        let listener = tokio::net::TcpListener::from_std(std_listener).unwrap();
        let scripts: Arc<Mutex<HashMap<SocketAddr, VecDeque<Svc>>>> = Default::default();
        let calls: Arc<Mutex<HashMap<SocketAddr, Vec<String>>>> = Default::default();
        let decide = move |peer: SocketAddr| -> std::io::Result<Option<LazyService>> {
            let i = cn.fetch_add(1, Ordering::SeqCst);
            let s = ls.get(i).cloned().unwrap_or_else(|| "a".into());
            if let Some(k) = s.strip_prefix('s') {
                return Err(std::io::Error::new(parse_kind(k).unwrap_or(std::io::ErrorKind::Other), "setup failed"));
            }
            if s == "r" {
                return Ok(None);
            }
            sp.lock().unwrap().push(i);
            scripts.lock().unwrap().insert(peer, VecDeque::from(vec![Svc::Reply(Response::ReadHoldingRegisters(vec![i as u16]))]));
            Ok(Some(LazyService { peer, scripts: scripts.clone(), calls: calls.clone() }))
        };
        let on_err = move |_e: std::io::Error| {
            cb.fetch_add(1, Ordering::SeqCst);
        };
        let abort_signal = Box::pin(async move {
            let _ = abort_rx.await;
        });
        if kind_s == "tcp" {
            let server = tokio_modbus::server::tcp::Server::new(listener);
            let on_connected = |stream, socket_addr| {
                let d = decide.clone();
                async move { tokio_modbus::server::tcp::accept_tcp_connection(stream, socket_addr, d) }
            };
            server.serve_until(&on_connected, on_err, abort_signal).await
        } else {
            let server = tokio_modbus::server::rtu_over_tcp::Server::new(listener);
            let on_connected = |stream, socket_addr| {
                let d = decide.clone();
                async move { tokio_modbus::server::rtu_over_tcp::accept_tcp_connection(stream, socket_addr, d) }
            };
            server.serve_until(&on_connected, on_err, abort_signal).await
        }
    });
    let req_pdu = [0x03u8, 0, 1, 0, 1];
    let mut served = vec![];
    for (i, s) in list.iter().enumerate() {
        let Ok(mut c) = StdStream::connect(addr) else { break };
        c.set_read_timeout(Some(Duration::from_millis(3000))).ok()?;
        let good = if kind == "tcp" { spec::mbap(7, 1, &req_pdu) } else { spec::rtu_frame(1, &req_pdu) };
        let frame = if s == "b" {
            if kind == "tcp" {
                let mut f = good.clone();
                f[3] = 9;
                f
            } else {
                // undecodable PDU in a CRC-correct frame
                spec::rtu_frame(1, &[0x05, 0, 1, 0x12, 0x34])
            }
        } else {
            good
        };
        let _ = c.write_all(&frame);
        let mut buf = [0u8; 256];
        let n = c.read(&mut buf).unwrap_or(0);
        if n > 0 {
            served.push(i);
        }
        drop(c);
        if s.starts_with('s') {
            break;
        }
    }
    // let connection tasks finish their error reports
    let expected_cb = list.iter().take_while(|s| !s.starts_with('s')).filter(|s| *s == "b").count();
    for _ in 0..400 {
        if callbacks.load(Ordering::SeqCst) >= expected_cb {
            break;
        }
        std::thread::sleep(Duration::from_millis(5));
    }
    std::thread::sleep(Duration::from_millis(30));
    let end = if server.is_finished() {
        match runtime.block_on(server) {
            Ok(Ok(tokio_modbus::server::Terminated::Finished)) => "finished".to_string(),
            Ok(Ok(tokio_modbus::server::Terminated::Aborted)) => "aborted".to_string(),
            Ok(Err(e)) => format!("err:{}", kind_tok(e.kind())),
            Err(_) => "panicked".to_string(),
        }
    } else if abort {
        let _ = abort_tx.send(());
        match runtime.block_on(async { tokio::time::timeout(Duration::from_millis(3000), server).await }) {
            Ok(Ok(Ok(tokio_modbus::server::Terminated::Aborted))) => "aborted".to_string(),
            Ok(Ok(Ok(tokio_modbus::server::Terminated::Finished))) => "finished".to_string(),
            Ok(Ok(Err(e))) => format!("err:{}", kind_tok(e.kind())),
            _ => "stuck".to_string(),
        }
    } else {
        server.abort();
        "running".to_string()
    };
    runtime.shutdown_timeout(Duration::from_millis(200));
    let sp = spawned.lock().unwrap().clone();
    let tok = |v: &[usize]| if v.is_empty() { "-".to_string() } else { v.iter().map(|x| x.to_string()).collect::<Vec<_>>().join(",") };
    let line = format!("accept {kind} {setups}{}", if abort { " abort" } else { "" });
    Some((line, format!("spawned {} served {} cb={} {end}", tok(&sp), tok(&served), callbacks.load(Ordering::SeqCst))))
}
