//! Scripted transport: an `AsyncRead + AsyncWrite` whose every poll is decided by
//! event queues, and which records what it actually delivered / accepted.

use std::{
    collections::VecDeque,
    future::Future,
    io,
    pin::Pin,
    sync::{Arc, Mutex},
    task::{Context, Poll, RawWaker, RawWakerVTable, Waker},
};

use tokio::io::{AsyncRead, AsyncWrite, ReadBuf};

use crate::wire;

#[derive(Debug, Clone, PartialEq, Eq)]
pub enum ReadEv {
    Data(Vec<u8>),
    Eof,
    /// the peer has closed and stays closed: every further read reports the end of the stream
    /// (token `E`; what a real socket does – a single `e` is followed by whatever comes next)
    EofSticky,
    Err(io::ErrorKind),
    Pending,
}

#[derive(Debug, Clone, PartialEq, Eq)]
pub enum WriteEv {
    Accept(usize),
    Zero,
    Err(io::ErrorKind),
    Pending,
}

#[derive(Debug, Clone, PartialEq, Eq)]
pub enum CtlEv {
    Ok,
    Err(io::ErrorKind),
    Pending,
}

impl ReadEv {
    pub fn tok(&self) -> String {
        match self {
            ReadEv::Data(d) => format!("d{}", wire::hex_raw(d)),
            ReadEv::Eof => "e".into(),
            ReadEv::EofSticky => "E".into(),
            ReadEv::Err(k) => format!("x{}", wire::kind_tok(*k)),
            ReadEv::Pending => "p".into(),
        }
    }
    pub fn parse(s: &str) -> Option<Self> {
        Some(match s {
            "e" => ReadEv::Eof,
            "E" => ReadEv::EofSticky,
            "p" => ReadEv::Pending,
            _ => {
                if let Some(d) = s.strip_prefix('d') {
                    ReadEv::Data(if d.is_empty() { vec![] } else { wire::p_bytes(d)? })
                } else {
                    ReadEv::Err(wire::parse_kind(s.strip_prefix('x')?)?)
                }
            }
        })
    }
}

impl WriteEv {
    pub fn tok(&self) -> String {
        match self {
            WriteEv::Accept(n) => format!("a{n}"),
            WriteEv::Zero => "z".into(),
            WriteEv::Err(k) => format!("x{}", wire::kind_tok(*k)),
            WriteEv::Pending => "p".into(),
        }
    }
    pub fn parse(s: &str) -> Option<Self> {
        Some(match s {
            "z" => WriteEv::Zero,
            "p" => WriteEv::Pending,
            _ => {
                if let Some(n) = s.strip_prefix('a') {
                    WriteEv::Accept(n.parse().ok()?)
                } else {
                    WriteEv::Err(wire::parse_kind(s.strip_prefix('x')?)?)
                }
            }
        })
    }
}

impl CtlEv {
    pub fn tok(&self) -> String {
        match self {
            CtlEv::Ok => "o".into(),
            CtlEv::Err(k) => format!("x{}", wire::kind_tok(*k)),
            CtlEv::Pending => "p".into(),
        }
    }
    pub fn parse(s: &str) -> Option<Self> {
        Some(match s {
            "o" => CtlEv::Ok,
            "p" => CtlEv::Pending,
            _ => CtlEv::Err(wire::parse_kind(s.strip_prefix('x')?)?),
        })
    }
}

pub fn toks<T>(evs: &[T], f: impl Fn(&T) -> String) -> String {
    evs.iter().map(f).collect::<Vec<_>>().join(",")
}

/// What the transport did, in order (shared with the scripted service of server runs).
#[derive(Debug, Clone, PartialEq, Eq)]
pub enum Logged {
    Write(Vec<u8>),
    Shutdown,
    Call(String),
}

#[derive(Debug, Default)]
pub struct Script {
    pub reads: VecDeque<ReadEv>,
    pub writes: VecDeque<WriteEv>,
    pub flushes: VecDeque<CtlEv>,
    pub shutdowns: VecDeque<CtlEv>,
    /// the read events actually delivered (chunk sizes are limited by the reader's buffer)
    pub delivered: Vec<ReadEv>,
    pub log: Vec<Logged>,
    /// the last poll_read found the read queue empty
    pub starved: bool,
    /// how often the sticky end of the stream has been read
    pub sticky_reads: usize,
    /// wake the task on scripted `Pending`s (needed when driven by a real runtime)
    pub self_wake: bool,
}

#[derive(Debug, Clone, Default)]
pub struct ScriptedIo(pub Arc<Mutex<Script>>);

impl ScriptedIo {
    pub fn new() -> Self {
        Self::default()
    }
    pub fn with<R>(&self, f: impl FnOnce(&mut Script) -> R) -> R {
        f(&mut self.0.lock().unwrap())
    }
    pub fn push_reads(&self, evs: &[ReadEv]) {
        self.with(|s| s.reads.extend(evs.iter().cloned()));
    }
    pub fn push_writes(&self, evs: &[WriteEv]) {
        self.with(|s| s.writes.extend(evs.iter().cloned()));
    }
    pub fn push_flushes(&self, evs: &[CtlEv]) {
        self.with(|s| s.flushes.extend(evs.iter().cloned()));
    }
    pub fn push_shutdowns(&self, evs: &[CtlEv]) {
        self.with(|s| s.shutdowns.extend(evs.iter().cloned()));
    }
    pub fn take_log(&self) -> Vec<Logged> {
        self.with(|s| std::mem::take(&mut s.log))
    }
    pub fn take_delivered(&self) -> Vec<ReadEv> {
        self.with(|s| std::mem::take(&mut s.delivered))
    }
    pub fn starved(&self) -> bool {
        self.with(|s| s.starved)
    }
}

impl AsyncRead for ScriptedIo {
    fn poll_read(
        self: Pin<&mut Self>,
        cx: &mut Context<'_>,
        buf: &mut ReadBuf<'_>,
    ) -> Poll<io::Result<()>> {
        let mut s = self.0.lock().unwrap();
        s.starved = false;
        match s.reads.pop_front() {
            None => {
                s.starved = true;
                Poll::Pending
            }
            Some(ReadEv::Pending) => {
                s.delivered.push(ReadEv::Pending);
                if s.self_wake {
                    cx.waker().wake_by_ref();
                }
                Poll::Pending
            }
            Some(ReadEv::Eof) => {
                s.delivered.push(ReadEv::Eof);
                Poll::Ready(Ok(()))
            }
            Some(ReadEv::EofSticky) => {
                // stays at the head of the queue; each read of it is recorded as one `e`
                s.reads.push_front(ReadEv::EofSticky);
                s.delivered.push(ReadEv::Eof);
                s.sticky_reads += 1;
                if s.sticky_reads > 200_000 {
                    // reading the end of the stream over and over: a busy loop
                    crate::run::spinning();
                }
                Poll::Ready(Ok(()))
            }
            Some(ReadEv::Err(k)) => {
                s.delivered.push(ReadEv::Err(k));
                Poll::Ready(Err(io::Error::new(k, "scripted read error")))
            }
            Some(ReadEv::Data(d)) => {
                if d.is_empty() {
                    s.delivered.push(ReadEv::Eof);
                    return Poll::Ready(Ok(()));
                }
                let n = d.len().min(buf.remaining());
                assert!(n > 0, "reader offered no buffer space");
                buf.put_slice(&d[..n]);
                s.delivered.push(ReadEv::Data(d[..n].to_vec()));
                if n < d.len() {
                    s.reads.push_front(ReadEv::Data(d[n..].to_vec()));
                }
                Poll::Ready(Ok(()))
            }
        }
    }
}

impl AsyncWrite for ScriptedIo {
    fn poll_write(
        self: Pin<&mut Self>,
        cx: &mut Context<'_>,
        buf: &[u8],
    ) -> Poll<io::Result<usize>> {
        let mut s = self.0.lock().unwrap();
        match s.writes.pop_front() {
            None => {
                s.log.push(Logged::Write(buf.to_vec()));
                Poll::Ready(Ok(buf.len()))
            }
            Some(WriteEv::Accept(n)) => {
                let n = n.min(buf.len());
                if n > 0 {
                    s.log.push(Logged::Write(buf[..n].to_vec()));
                }
                Poll::Ready(Ok(n))
            }
            Some(WriteEv::Zero) => Poll::Ready(Ok(0)),
            Some(WriteEv::Err(k)) => Poll::Ready(Err(io::Error::new(k, "scripted write error"))),
            Some(WriteEv::Pending) => {
                if s.self_wake {
                    cx.waker().wake_by_ref();
                }
                Poll::Pending
            }
        }
    }

    fn poll_flush(self: Pin<&mut Self>, cx: &mut Context<'_>) -> Poll<io::Result<()>> {
        let mut s = self.0.lock().unwrap();
        match s.flushes.pop_front() {
            None | Some(CtlEv::Ok) => Poll::Ready(Ok(())),
            Some(CtlEv::Err(k)) => Poll::Ready(Err(io::Error::new(k, "scripted flush error"))),
            Some(CtlEv::Pending) => {
                if s.self_wake {
                    cx.waker().wake_by_ref();
                }
                Poll::Pending
            }
        }
    }

    fn poll_shutdown(self: Pin<&mut Self>, cx: &mut Context<'_>) -> Poll<io::Result<()>> {
        let mut s = self.0.lock().unwrap();
        match s.shutdowns.pop_front() {
            None | Some(CtlEv::Ok) => {
                s.log.push(Logged::Shutdown);
                Poll::Ready(Ok(()))
            }
            Some(CtlEv::Err(k)) => {
                s.log.push(Logged::Shutdown);
                Poll::Ready(Err(io::Error::new(k, "scripted shutdown error")))
            }
            Some(CtlEv::Pending) => {
                if s.self_wake {
                    cx.waker().wake_by_ref();
                }
                Poll::Pending
            }
        }
    }
}

// ---------------------------------------------------------------- manual polling

fn noop_raw() -> RawWaker {
    fn clone(_: *const ()) -> RawWaker {
        noop_raw()
    }
    fn noop(_: *const ()) {}
    static VT: RawWakerVTable = RawWakerVTable::new(clone, noop, noop, noop);
    RawWaker::new(std::ptr::null(), &VT)
}

pub fn noop_waker() -> Waker {
    unsafe { Waker::from_raw(noop_raw()) }
}

#[derive(Debug)]
pub enum Driven<T> {
    Done(T),
    /// dropped after the granted number of polls
    Abandoned,
    /// the read script is exhausted: pending forever
    Blocked,
}

/// Poll `fut` by hand.  `budget` = number of polls granted (`None` = unlimited);
/// stops as `Blocked` when a poll returned `Pending` because the read script ran dry.
pub fn drive<F: Future>(io: &ScriptedIo, fut: F, budget: Option<usize>) -> Driven<F::Output> {
    let mut fut = Box::pin(fut);
    let waker = noop_waker();
    let mut cx = Context::from_waker(&waker);
    let mut polls = 0usize;
    loop {
        if let Some(b) = budget {
            if polls >= b {
                return Driven::Abandoned;
            }
        }
        io.with(|s| s.starved = false);
        match fut.as_mut().poll(&mut cx) {
            Poll::Ready(v) => return Driven::Done(v),
            Poll::Pending => {
                polls += 1;
                if io.starved() {
                    return Driven::Blocked;
                }
                if polls > 10_000_000 {
                    panic!("future does not make progress");
                }
            }
        }
    }
}
