//! Collector for generated cases: runs each case on the implementation, prints
//! `C\t<case>\t<result>` lines for the model comparison, records monitor failures
//! (`M\t<prop>\t<detail>\t<case>`) and the input distribution (`S\t<json>`).

use std::{
    collections::{hash_map::DefaultHasher, BTreeMap, HashSet},
    hash::{Hash, Hasher},
    io::{BufWriter, Write},
};

use crate::run::run_line;

pub struct Out {
    pub prop: String,
    pub w: BufWriter<std::io::Stdout>,
    pub cases: u64,
    pub distinct: HashSet<u64>,
    pub nontrivial: HashSet<u64>,
    pub hist: BTreeMap<String, u64>,
    pub monitor_checks: u64,
    pub monitor_failures: u64,
    pub samples: Vec<String>,
    /// only run monitors, do not print cases (used when replaying)
    pub quiet: bool,
    /// universal histories are also judged by the (generic) monitor of the property
    pub monitored: bool,
    /// the case as generated (before the read events were rewritten to what was delivered)
    pub orig: String,
    /// client histories are judged by the history-independence monitor
    pub metamorphic: bool,
    /// monitor failures written out in full (the rest is only counted: a change that makes
    /// every call of a 65 537-call history fail must not produce gigabytes of replay lines)
    pub m_printed: u64,
    pub m_bytes: u64,
}

impl Out {
    pub fn new(prop: &str) -> Self {
        Out {
            prop: prop.to_string(),
            w: BufWriter::with_capacity(1 << 20, std::io::stdout()),
            cases: 0,
            distinct: HashSet::new(),
            nontrivial: HashSet::new(),
            hist: BTreeMap::new(),
            metamorphic: false,
            monitor_checks: 0,
            monitor_failures: 0,
            samples: vec![],
            quiet: false,
            monitored: false,
            orig: String::new(),
            m_printed: 0,
            m_bytes: 0,
        }
    }

    /// Run a case; returns (case as the model sees it, implementation result).
    pub fn case(&mut self, line: &str) -> (String, String) {
        let (l, r) = run_line(line);
        self.cases += 1;
        let mut h = DefaultHasher::new();
        l.hash(&mut h);
        let hv = h.finish();
        self.distinct.insert(hv);
        // non-trivial: the implementation did something other than reject the input outright
        if !(r.starts_with("err") || r == "bad-case") {
            self.nontrivial.insert(hv);
        }
        let op = l.split(' ').next().unwrap_or("").to_string();
        *self.hist.entry(format!("op:{op}")).or_insert(0) += 1;
        let class = result_class(&r);
        *self.hist.entry(format!("res:{op}:{class}")).or_insert(0) += 1;
        if self.samples.len() < 12 && (self.cases % 997 == 1 || self.samples.len() < 3) {
            let mut s = format!("{l} => {r}");
            if s.len() > 400 {
                s.truncate(400);
                s.push('…');
            }
            self.samples.push(s);
        }
        if !self.quiet {
            let _ = writeln!(self.w, "C\t{l}\t{r}");
        }
        (l, r)
    }

    pub fn tally(&mut self, key: &str) {
        *self.hist.entry(key.to_string()).or_insert(0) += 1;
    }

    /// A property monitor verdict for `line`.
    pub fn check(&mut self, ok: bool, detail: impl FnOnce() -> String, line: &str) {
        self.monitor_checks += 1;
        if !ok {
            self.monitor_failures += 1;
            if self.m_printed >= 400 || self.m_bytes >= (64 << 20) {
                return;
            }
            let prop = self.prop.clone();
            let d = detail().replace(['\t', '\n'], " ");
            self.m_printed += 1;
            self.m_bytes += (d.len() + line.len()) as u64;
            let _ = writeln!(self.w, "M\t{prop}\t{d}\t{line}");
        }
    }

    /// like `check`, for monitors whose replay line is expensive to build
    pub fn check_with(&mut self, ok: bool, detail: impl FnOnce() -> String, line: impl FnOnce() -> String) {
        if ok {
            self.monitor_checks += 1;
        } else {
            let l = line();
            self.check(false, detail, &l);
        }
    }

    pub fn finish(mut self) {
        let hist: Vec<String> = self
            .hist
            .iter()
            .map(|(k, v)| format!("\"{}\":{}", k.replace('"', "'"), v))
            .collect();
        let samples: Vec<String> = self
            .samples
            .iter()
            .map(|s| format!("\"{}\"", s.replace('\\', "\\\\").replace('"', "'")))
            .collect();
        let _ = writeln!(
            self.w,
            "S\t{{\"cases\":{},\"distinct\":{},\"distinct_nontrivial\":{},\"monitor_checks\":{},\"monitor_failures\":{},\"hist\":{{{}}},\"samples\":[{}]}}",
            self.cases,
            self.distinct.len(),
            self.nontrivial.len(),
            self.monitor_checks,
            self.monitor_failures,
            hist.join(","),
            samples.join(",")
        );
        let _ = self.w.flush();
    }
}

fn result_class(r: &str) -> String {
    let first = r.split(' ').next().unwrap_or("");
    if first.starts_with("err") {
        "err".into()
    } else if first.starts_with("tr:") {
        "transport".into()
    } else if first.starts_with("item") {
        "items".into()
    } else if first.len() > 12 || (first.len() == 4 && first.bytes().all(|b| b.is_ascii_hexdigit())) {
        "value".into()
    } else {
        first.to_string()
    }
}
