//! C17 (blocking client = async client), C18 (concurrent connections), the accept loop of
//! C14 and the timeout scenarios of C16: generators and monitors for the socket-level ops.

use super::*;
use crate::run::{Svc, TypedOp};
use crate::spec::MbapItem;

fn frame(kind: &str, tid: u16, unit: u8, pdu: &[u8]) -> Vec<u8> {
    if kind == "tcp" {
        spec::mbap(tid, unit, pdu)
    } else {
        spec::rtu_frame(unit, pdu)
    }
}

fn typed_and_reply(rng: &mut Rng) -> (TypedOp, Vec<u8>) {
    use Response::*;
    match rng.below(10) {
        0 => {
            let n = rng.range(1, 40);
            let bits = rng.bits(n);
            (TypedOp::Rc(rng.u16(), n as u16), spec::response_bytes(&ReadCoils(bits)).unwrap())
        }
        1 => {
            let n = rng.range(1, 40);
            let bits = rng.bits(n);
            (TypedOp::Rdi(rng.u16(), n as u16), spec::response_bytes(&ReadDiscreteInputs(bits)).unwrap())
        }
        2 => {
            let n = rng.range(1, 20);
            (TypedOp::Rhr(rng.u16(), n as u16), spec::response_bytes(&ReadHoldingRegisters(rng.words(n))).unwrap())
        }
        3 => {
            let n = rng.range(1, 20);
            (TypedOp::Rir(rng.u16(), n as u16), spec::response_bytes(&ReadInputRegisters(rng.words(n))).unwrap())
        }
        4 => {
            let n = rng.range(1, 20);
            (
                TypedOp::Rwm(rng.u16(), n as u16, rng.u16(), rng.words_in(0, 6)),
                spec::response_bytes(&ReadWriteMultipleRegisters(rng.words(n))).unwrap(),
            )
        }
        5 => {
            let (a, b) = (rng.u16(), rng.bool());
            (TypedOp::Wsc(a, b), spec::response_bytes(&WriteSingleCoil(a, b)).unwrap())
        }
        6 => {
            let (a, w) = (rng.u16(), rng.u16());
            (TypedOp::Wsr(a, w), spec::response_bytes(&WriteSingleRegister(a, w)).unwrap())
        }
        7 => {
            let (a, cs) = (rng.u16(), rng.bits_in(1, 30));
            let n = cs.len() as u16;
            (TypedOp::Wmc(a, cs), spec::response_bytes(&WriteMultipleCoils(a, n)).unwrap())
        }
        8 => {
            let (a, ws) = (rng.u16(), rng.words_in(1, 10));
            let n = ws.len() as u16;
            (TypedOp::Wmr(a, ws), spec::response_bytes(&WriteMultipleRegisters(a, n)).unwrap())
        }
        _ => {
            let (a, am, om) = (rng.u16(), rng.u16(), rng.u16());
            (TypedOp::Mwr(a, am, om), spec::response_bytes(&MaskWriteRegister(a, am, om)).unwrap())
        }
    }
}

// ================================================================ C17

/// every typed method at the sizes where a convenience wrapper could take a different path
/// (one element, a byte boundary, the protocol maximum)
pub fn typed_boundary_ops(rng: &mut Rng) -> Vec<(TypedOp, Vec<u8>)> {
    use Response::*;
    let mut v = vec![];
    for n in [1usize, 8, 9, 2000] {
        v.push((TypedOp::Rc(rng.u16(), n as u16), spec::response_bytes(&ReadCoils(rng.bits(n))).unwrap()));
        v.push((TypedOp::Rdi(rng.u16(), n as u16), spec::response_bytes(&ReadDiscreteInputs(rng.bits(n))).unwrap()));
    }
    for n in [1usize, 2, 125] {
        v.push((TypedOp::Rhr(rng.u16(), n as u16), spec::response_bytes(&ReadHoldingRegisters(rng.words(n))).unwrap()));
        v.push((TypedOp::Rir(rng.u16(), n as u16), spec::response_bytes(&ReadInputRegisters(rng.words(n))).unwrap()));
    }
    for (n, w) in [(1usize, 1usize), (1, 2), (125, 121), (2, 0)] {
        v.push((
            TypedOp::Rwm(rng.u16(), n as u16, rng.u16(), rng.words(w)),
            spec::response_bytes(&ReadWriteMultipleRegisters(rng.words(n))).unwrap(),
        ));
    }
    for b in [false, true] {
        let a = rng.u16();
        v.push((TypedOp::Wsc(a, b), spec::response_bytes(&WriteSingleCoil(a, b)).unwrap()));
    }
    let (a, w) = (rng.u16(), rng.u16());
    v.push((TypedOp::Wsr(a, w), spec::response_bytes(&WriteSingleRegister(a, w)).unwrap()));
    for n in [0usize, 1, 8, 9, 1968, 1976] {
        let a = rng.u16();
        v.push((TypedOp::Wmc(a, rng.bits(n)), spec::response_bytes(&WriteMultipleCoils(a, n as u16)).unwrap()));
    }
    for n in [0usize, 1, 2, 123] {
        let a = rng.u16();
        v.push((TypedOp::Wmr(a, rng.words(n)), spec::response_bytes(&WriteMultipleRegisters(a, n as u16)).unwrap()));
    }
    let (a, am, om) = (rng.u16(), rng.u16(), rng.u16());
    v.push((TypedOp::Mwr(a, am, om), spec::response_bytes(&MaskWriteRegister(a, am, om)).unwrap()));
    v
}

/// the values at which a 16-bit argument could be treated specially (all zeros, all ones, one
/// byte zero, the sign bit, the neighbours)
pub const BORDER16: &[u16] = &[0x0000, 0x0001, 0x00FF, 0x0100, 0x7FFF, 0x8000, 0xFF00, 0xFFFE, 0xFFFF];

/// every typed method with every combination of border values for its scalar arguments (a
/// convenience path that short-cuts "no-op" arguments – a mask write that changes nothing, a
/// write of what is assumed to be there already – has to show up here)
pub fn typed_border_products(rng: &mut Rng) -> Vec<TypedOp> {
    let mut v = vec![];
    for &a in BORDER16 {
        for &b in BORDER16 {
            v.push(TypedOp::Wsr(a, b));
            for &c in BORDER16 {
                v.push(TypedOp::Mwr(a, b, c));
            }
            v.push(TypedOp::Rhr(a, b));
            v.push(TypedOp::Rir(a, b));
            v.push(TypedOp::Rc(a, b));
            v.push(TypedOp::Rdi(a, b));
        }
        for bit in [false, true] {
            v.push(TypedOp::Wsc(a, bit));
        }
        for n in [1usize, 2, 8, 9, 16] {
            // all-zero and all-one payloads too
            v.push(TypedOp::Wmc(a, vec![false; n]));
            v.push(TypedOp::Wmc(a, vec![true; n]));
            v.push(TypedOp::Wmc(a, rng.bits(n)));
        }
        for n in [1usize, 2, 3] {
            v.push(TypedOp::Wmr(a, vec![0; n]));
            v.push(TypedOp::Wmr(a, vec![0xFFFF; n]));
            for &b in BORDER16 {
                v.push(TypedOp::Rwm(a, 1, b, vec![b; n]));
            }
        }
    }
    v
}

pub fn gen_c17(out: &mut Out, rng: &mut Rng, thorough: bool) {
    // every typed method of the blocking client at its boundary sizes, two per connection
    for kind in ["tcp", "rtu"] {
        let ops = typed_boundary_ops(rng);
        for pair in ops.chunks(2) {
            let unit = rng.unit();
            let mut line = format!("sync {kind} {}", hex8(unit));
            for (tid, (op, pdu)) in pair.iter().enumerate() {
                line.push_str(&format!(" | typed {} r=d{}", op.tok(), hex_raw(&frame(kind, tid as u16, unit, pdu))));
            }
            monitor_line(out, &line);
        }
    }
    // every way of connecting: with / without explicit slave, with / without timeout; followed by
    // a later set_slave
    for kind in ["tcp", "rtu"] {
        for explicit in [false, true] {
            for to in ["", " to=1500"] {
                let default_unit = if kind == "tcp" { 255 } else { 0 };
                let s0 = rng.u8();
                let (tok, unit) = if explicit { (hex8(s0), s0) } else { ("-".to_string(), default_unit) };
                let s1 = rng.u8();
                let pdu = [0x03u8, 0x02, 0x12, 0x34];
                monitor_line(
                    out,
                    &format!(
                        "sync {kind} {tok}{to} | call RHR:0001:0001 r=d{} | slave {} | call RHR:0001:0001 r=d{}",
                        hex_raw(&frame(kind, 0, unit, &pdu)),
                        hex8(s1),
                        hex_raw(&frame(kind, 1, s1, &pdu))
                    ),
                );
            }
        }
    }
    // slave selection histories that come *back*: to the slave the context was connected with, to
    // the default, to the one before (re-selecting must not be lost)
    for kind in ["tcp", "rtu"] {
        for explicit in [false, true] {
            let default_unit = if kind == "tcp" { 255 } else { 0 };
            let s0 = rng.unit();
            let (tok, u0) = if explicit { (hex8(s0), s0) } else { ("-".to_string(), default_unit) };
            let s1 = loop {
                let x = rng.u8();
                if x != u0 {
                    break x;
                }
            };
            let pdu = [0x03u8, 0x02, 0x12, 0x34];
            let mut line = format!("sync {kind} {tok} to=1500");
            for (tid, u) in [u0, s1, u0, u0, s1, s1, u0].iter().enumerate() {
                line.push_str(&format!(" | slave {} | call RHR:0001:0001 r=d{}", hex8(*u), hex_raw(&frame(kind, tid as u16, *u, &pdu))));
            }
            monitor_line(out, &line);
            // the same without the very first explicit selection
            let mut line = format!("sync {kind} {tok}");
            line.push_str(&format!(" | call RHR:0001:0001 r=d{}", hex_raw(&frame(kind, 0, u0, &pdu))));
            for (i, u) in [s1, u0, s1].iter().enumerate() {
                line.push_str(&format!(" | slave {} | call RHR:0001:0001 r=d{}", hex8(*u), hex_raw(&frame(kind, i as u16 + 1, *u, &pdu))));
            }
            monitor_line(out, &line);
        }
    }
    // acknowledgements that do not echo what was written (address or quantity / value off by
    // one): the blocking client must report what the asynchronous one reports
    for kind in ["tcp", "rtu"] {
        let unit = rng.unit();
        let (a, v) = (rng.u16() | 1, rng.u16() | 1);
        let cases: Vec<(TypedOp, Response)> = vec![
            (TypedOp::Wsc(a, true), Response::WriteSingleCoil(a ^ 1, true)),
            (TypedOp::Wsc(a, true), Response::WriteSingleCoil(a, false)),
            (TypedOp::Wsr(a, v), Response::WriteSingleRegister(a, v ^ 1)),
            (TypedOp::Wsr(a, v), Response::WriteSingleRegister(a ^ 1, v)),
            (TypedOp::Wmc(a, vec![true; 9]), Response::WriteMultipleCoils(a, 10)),
            (TypedOp::Wmc(a, vec![true; 9]), Response::WriteMultipleCoils(a ^ 1, 9)),
            (TypedOp::Wmr(a, vec![v; 3]), Response::WriteMultipleRegisters(a, 4)),
            (TypedOp::Wmr(a, vec![v; 3]), Response::WriteMultipleRegisters(a ^ 1, 3)),
            (TypedOp::Mwr(a, v, 0), Response::MaskWriteRegister(a, v ^ 1, 0)),
            (TypedOp::Mwr(a, v, 0), Response::MaskWriteRegister(a, v, 1)),
            (TypedOp::Rhr(a, 2), Response::ReadHoldingRegisters(vec![v])),
            (TypedOp::Rc(a, 9), Response::ReadCoils(vec![true; 8])),
        ];
        for (op, rsp) in cases {
            let pdu = spec::response_bytes(&rsp).unwrap();
            monitor_line(out, &format!("sync {kind} {} | typed {} r=d{}", hex8(unit), op.tok(), hex_raw(&frame(kind, 0, unit, &pdu))));
        }
    }
    // the FIRST selection after connecting is a special one: the default of the framing, the
    // slave the context was connected with, a class border (a selection that a cache holds to be
    // "already in effect" must really be in effect)
    for kind in ["tcp", "rtu"] {
        let default_unit = if kind == "tcp" { 255u8 } else { 0 };
        let pdu = [0x03u8, 0x02, 0x12, 0x34];
        let r = rng.u8();
        for (i, c) in [None, Some(0u8), Some(1), Some(0xF7), Some(0xFF), Some(r)].iter().enumerate() {
            let (tok, _u0) = match c {
                None => ("-".to_string(), default_unit),
                Some(c) => (hex8(*c), *c),
            };
            for (j, s) in [0u8, 1, 255, 0xF8, c.unwrap_or(default_unit)].iter().enumerate() {
                let to = if (i + j) % 2 == 0 { "" } else { " to=1500" };
                monitor_line(
                    out,
                    &format!(
                        "sync {kind} {tok}{to} | slave {} | call RHR:0001:0001 r=d{}",
                        hex8(*s),
                        hex_raw(&frame(kind, 0, *s, &pdu))
                    ),
                );
            }
        }
    }
    // the asynchronous client over a real socket: `client::tcp::connect` / `connect_slave`
    // (the reference the blocking client is compared with must itself be what `attach` is)
    for explicit in [false, true] {
        let s0 = rng.u8();
        let (tok, unit) = if explicit { (hex8(s0), s0) } else { ("-".to_string(), 255) };
        let s1 = rng.u8();
        let pdu = [0x03u8, 0x02, 0x12, 0x34];
        let ops = typed_boundary_ops(rng);
        let (top, tpdu) = &ops[rng.below(ops.len())];
        monitor_line(
            out,
            &format!(
                "sync tcp {tok} async | call RHR:0001:0001 r=d{} | slave {} | typed {} r=d{}",
                hex_raw(&frame("tcp", 0, unit, &pdu)),
                hex8(s1),
                top.tok(),
                hex_raw(&frame("tcp", 1, s1, tpdu))
            ),
        );
    }
    let n = if thorough { 2000 } else { 100 };
    for i in 0..n {
        let kind = if i % 4 == 3 { "rtu" } else { "tcp" };
        let slave_tok = if rng.chance(1, 3) { "-".to_string() } else { hex8(rng.u8()) };
        let mut unit: u8 = match slave_tok.as_str() {
            "-" => {
                if kind == "tcp" {
                    255
                } else {
                    0
                }
            }
            s => p_u8(s).unwrap(),
        };
        let mut line = format!("sync {kind} {slave_tok}");
        let mut tid: u16 = 0;
        let nops = rng.range(1, 5);
        for step in 0..nops {
            if rng.chance(1, 4) {
                unit = rng.unit();
                line.push_str(&format!(" | slave {}", hex8(unit)));
            }
            let last = step == nops - 1;
            // server behaviours: reply, exception, mismatch, close (last op only)
            let behaviour = if last { rng.below(5) } else { rng.below(4) };
            if rng.bool() {
                let (op, pdu) = typed_and_reply(rng);
                let reply = match behaviour {
                    0 | 4 if behaviour == 0 => frame(kind, tid, unit, &pdu),
                    1 => frame(kind, tid, unit, &[pdu[0] | 0x80, rng.exc_code()]),
                    2 => frame(kind, tid.wrapping_add(1), unit ^ 0x10, &pdu),
                    3 => frame(kind, tid, unit, &[0x07, 0x55]),
                    _ => vec![],
                };
                let r = if behaviour == 4 { "e".to_string() } else { format!("d{}", hex_raw(&reply)) };
                line.push_str(&format!(" | typed {} r={r}", op.tok()));
            } else {
                let req = loop {
                    let hint = rng.below(4);
                    let r = gen_request(rng, Some(hint));
                    if kind == "rtu" && matches!(r, Request::Custom(..)) {
                        continue;
                    }
                    break r;
                };
                let rsp = answer_for(rng, &req);
                let pdu = spec::response_bytes(&rsp).unwrap_or(vec![0x07, 0]);
                let reply = match behaviour {
                    0 => frame(kind, tid, unit, &pdu),
                    1 => frame(kind, tid, unit, &[pdu[0] | 0x80, rng.exc_code()]),
                    2 => frame(kind, tid.wrapping_add(1), unit ^ 0x10, &pdu),
                    3 => frame(kind, tid, unit, &[0x07, 0x55]),
                    _ => vec![],
                };
                let r = if behaviour == 4 { "e".to_string() } else { format!("d{}", hex_raw(&reply)) };
                line.push_str(&format!(" | call {} r={r}", request(&req)));
            }
            tid = tid.wrapping_add(1);
        }
        monitor_line(out, &line);
    }
}

pub fn mon_c17(out: &mut Out, l: &str, r: &str) {
    if !l.starts_with("sync ") {
        return;
    }
    // the asynchronous client on the same script: same frames, same results
    let async_line = l.replacen("sync ", "cli ", 1);
    let (l2, r2) = out.case(&async_line);
    let norm = |s: &str| s.replace('+', "");
    out.check(norm(r) == norm(&r2), || {
        let a: Vec<&str> = r.split(" | ").collect();
        let b: Vec<&str> = r2.split(" | ").collect();
        let i = a.iter().zip(b.iter()).position(|(x, y)| norm(x) != norm(y)).unwrap_or(a.len().min(b.len()));
        format!("operation {i}: blocking client `{}` vs asynchronous client `{}`", super::codec::trunc(a.get(i).copied().unwrap_or("<none>")), super::codec::trunc(b.get(i).copied().unwrap_or("<none>")))
    }, &l2);
}

// ================================================================ C01 (blocking client as issuer)

/// every typed method of the blocking client at its boundary sizes: what reaches the wire must be
/// the Modbus encoding of exactly the request the method stands for
pub fn gen_c01_sync(out: &mut Out, rng: &mut Rng, thorough: bool) {
    for kind in if thorough { vec!["tcp", "rtu"] } else { vec!["tcp"] } {
        let ops = typed_boundary_ops(rng);
        for pair in ops.chunks(3) {
            let unit = rng.unit();
            let mut line = format!("sync {kind} {}", hex8(unit));
            for (tid, (op, pdu)) in pair.iter().enumerate() {
                line.push_str(&format!(" | typed {} r=d{}", op.tok(), hex_raw(&frame(kind, tid as u16, unit, pdu))));
            }
            monitor_line(out, &line);
        }
    }
}

pub fn mon_c01_sync(out: &mut Out, l: &str, r: &str) {
    let Some(rest) = l.strip_prefix("sync ") else { return };
    let mut parts_l = rest.split(" | ");
    let head: Vec<&str> = parts_l.next().unwrap_or("").split(' ').collect();
    let kind = head[0];
    let mut unit: u8 = match head.get(1).copied() {
        Some("-") | None => {
            if kind == "tcp" {
                255
            } else {
                0
            }
        }
        Some(s) => p_u8(s).unwrap_or(0),
    };
    let res: Vec<&str> = r.split(" | ").collect();
    let mut tid: u16 = 0;
    for (i, op) in parts_l.enumerate() {
        let f: Vec<&str> = op.split(' ').filter(|s| !s.is_empty()).collect();
        match f.as_slice() {
            ["slave", id, ..] => unit = p_u8(id).unwrap_or(unit),
            ["typed", top, ..] => {
                let Some(t) = TypedOp::parse(top) else { continue };
                let Some(reqb) = spec::request_bytes(&t.request()) else { continue };
                let want = frame(kind, tid, unit, &reqb);
                let got = res.get(i).copied().unwrap_or("");
                let w = got.split(" w=").nth(1).and_then(|x| x.split(' ').next()).unwrap_or("");
                out.check(w == hex(&want), || format!("typed op {i} `{top}` went out as {} instead of {}", super::codec::trunc(w), super::codec::trunc(&hex(&want))), l);
                tid = tid.wrapping_add(1);
            }
            ["call", ..] => tid = tid.wrapping_add(1),
            _ => {}
        }
    }
}

// ================================================================ C16 (sync timeouts)

pub fn gen_c16_sync(out: &mut Out, rng: &mut Rng, thorough: bool) {
    for i in 0..(if thorough { 12 } else { 3 }) {
        let kind = if i % 3 == 2 { "rtu" } else { "tcp" };
        let unit = rng.unit();
        // silent server, then prompt replies: timed out, then usable again (wide margins: the
        // prompt reply has 1.5 s to arrive)
        let good = |tid: u16| format!("d{}", hex_raw(&frame(kind, tid, unit, &[0x03, 0x02, 0x12, 0x34])));
        monitor_line(out, &format!("sync {kind} {} to=1500 | call RHR:0001:0001 r=- | call RHR:0001:0001 r={}", hex8(unit), good(1)));
        monitor_line(out, &format!("sync {kind} {} to=1500 | call RHR:0001:0001 r={} | call RHR:0001:0001 r={}", hex8(unit), good(0), good(1)));
        // the timeout configured, changed and removed after connecting
        monitor_line(out, &format!("sync {kind} {} | timeout 1500 | call RHR:0001:0001 r=- | call RHR:0001:0001 r={}", hex8(unit), good(1)));
        monitor_line(out, &format!("sync {kind} {} to=60000 | timeout 1500 | call RHR:0001:0001 r=- | timeout - | call RHR:0001:0001 r={}", hex8(unit), good(1)));
    }
}

pub fn mon_c16_sync(out: &mut Out, l: &str, r: &str) {
    if !l.starts_with("sync ") {
        return;
    }
    let ops: Vec<&str> = l.split(" | ").skip(1).collect();
    let res: Vec<&str> = r.split(" | ").collect();
    for (i, o) in ops.iter().enumerate() {
        let got = res.get(i).copied().unwrap_or("").split(" w=").next().unwrap_or("");
        if o.contains(" r=-") {
            out.check(got == "tr:to", || format!("silent server: expected a TimedOut transport error, got `{got}`"), l);
        } else if o.contains("r=d") && o.starts_with("call RHR:0001:0001") {
            // after a timeout over TCP the late state must not leak; a prompt reply succeeds
            out.check(got == "ok RHR:1234", || format!("prompt reply: expected success, got `{got}`"), l);
        }
    }
}

// ================================================================ C13 through the blocking client

/// a reply cut at every byte offset, then the peer closes the connection: the blocking call,
/// with and without a timeout configured, must return a transport error, never data
pub fn gen_c13_sync(out: &mut Out, rng: &mut Rng, thorough: bool) {
    let rounds = if thorough { 4 } else { 1 };
    for _ in 0..rounds {
        let unit = rng.unit();
        let full = frame("tcp", 0, unit, &[0x03, 0x02, 0x12, 0x34]);
        for cut in 0..full.len() {
            for to in ["", " to=1500"] {
                let part = if cut == 0 { "E".to_string() } else { format!("d{},E", hex_raw(&full[..cut])) };
                monitor_line(out, &format!("sync tcp {}{to} | call RHR:0001:0001 r={part}", hex8(unit)));
            }
        }
        // the whole reply and then the close: success
        monitor_line(out, &format!("sync tcp {} to=1500 | call RHR:0001:0001 r=d{},E", hex8(unit), hex_raw(&full)));
    }
}

pub fn mon_c13_sync(out: &mut Out, l: &str, r: &str) {
    if !l.starts_with("sync ") {
        return;
    }
    let ops: Vec<&str> = l.split(" | ").skip(1).collect();
    let res: Vec<&str> = r.split(" | ").collect();
    for (i, o) in ops.iter().enumerate() {
        let got = res.get(i).copied().unwrap_or("").split(" w=").next().unwrap_or("");
        let Some(rf) = o.split(' ').find_map(|f| f.strip_prefix("r=")) else { continue };
        let sent: usize = rf.split(',').filter_map(|e| e.strip_prefix('d')).map(|d| d.len() / 2).sum();
        if rf.ends_with('E') && sent < 11 {
            out.check(got.starts_with("tr:") && got != "tr:to",
                || format!("reply cut after {sent} bytes, then end of stream: expected a closed-connection transport error, got `{got}`"), l);
        } else if rf.ends_with('E') {
            out.check(got == "ok RHR:1234", || format!("whole reply, then end of stream: expected success, got `{got}`"), l);
        }
    }
}

// ================================================================ C18

pub fn gen_c18(out: &mut Out, rng: &mut Rng, thorough: bool) {
    let runs = if thorough { 400 } else { 40 };
    for run in 0..runs {
        let kind = if run % 2 == 0 { "tcp" } else { "rtu" };
        let nconn = *rng.pick(&[2usize, 3, 5, 8, 16, 32]);
        // every fifth run: some clients are connected (first in the accept queue) but stay
        // silent until another connection has been served completely
        let silent = run % 5 < 2;
        let mut line = format!("conc {kind}");
        // every fourth run: one or two peers connect and reset their connection while it waits
        // in the listen queue – the other connections must not notice
        let resets = if run % 4 == 3 { rng.range(1, 2) } else { 0 };
        for _ in 0..resets {
            line.push_str(" | svc=D r=- rst=1");
        }
        for c in 0..nconn {
            if silent && c < nconn - 1 && (c == 0 || rng.chance(1, 4)) {
                line.push_str(&format!(" | after={}", nconn - 1 + resets));
                let req = Request::ReadHoldingRegisters(c as u16, 1);
                line.push_str(&format!(
                    " svc={} r=d{}",
                    Svc::Reply(Response::ReadHoldingRegisters(vec![c as u16])).tok(),
                    hex_raw(&frame(kind, rng.u16(), 9, &spec::request_bytes(&req).unwrap()))
                ));
                continue;
            }
            let nreq = rng.range(1, if thorough { 50 } else { 12 });
            let faulty = rng.chance(1, 3);
            let mut data = vec![];
            let mut svc = vec![];
            for q in 0..nreq {
                // replies are tagged with connection and sequence number
                let tag = vec![c as u16, q as u16, rng.u16()];
                // mostly the tagged register read; now and then a bit read of some quantity, a write
                let (req, other): (Request<'static>, Option<Response>) = match rng.below(6) {
                    0 => {
                        let n = rng.range(1, 40);
                        (Request::ReadCoils(q as u16, n as u16), Some(Response::ReadCoils(rng.bits(n.div_ceil(8) * 8))))
                    }
                    1 => {
                        let n = rng.range(1, 40);
                        (Request::ReadDiscreteInputs(q as u16, n as u16), Some(Response::ReadDiscreteInputs(rng.bits(n.div_ceil(8) * 8))))
                    }
                    2 => (Request::WriteSingleRegister(q as u16, c as u16), Some(Response::WriteSingleRegister(q as u16, c as u16))),
                    _ => (Request::ReadHoldingRegisters(q as u16, 3), None),
                };
                // (in every third run no client counts: all requests of all connections carry
                // transaction id 0 and the same unit – only the connection tells them apart)
                let (tid, unit) = if run % 3 == 1 { (0, 0x11) } else { (rng.u16(), (c % 200) as u8 + 1) };
                data.extend(frame(kind, tid, unit, &spec::request_bytes(&req).unwrap()));
                svc.push(match rng.below(8) {
                    0 => Svc::Decline,
                    1 => Svc::Exception(crate::wire::ex_from_spec(1 + (q % 4) as u8)),
                    // now and then a response the server must refuse to encode: it ends this
                    // connection and must leave every other one alone (last request of the
                    // connection, so that the server closes with nothing unread: no RST)
                    2 | 3 | 4 if faulty && q == nreq - 1 => Svc::Reply(Response::ReadHoldingRegisters(rng.words(127))),
                    _ => Svc::Reply(other.unwrap_or(Response::ReadHoldingRegisters(tag))),
                });
            }
            line.push_str(&format!(
                " | svc={} r=d{}",
                svc.iter().map(Svc::tok).collect::<Vec<_>>().join(","),
                hex_raw(&data)
            ));
        }
        monitor_line(out, &line);
    }
    // connections that end in the middle of a request (the client dies), and connections that are
    // made only after such a one is over: what a dead connection left unread is nobody else's
    for run in 0..(if thorough { 60 } else { 8 }) {
        let kind = if run % 2 == 0 { "rtu" } else { "tcp" };
        let mut line = format!("conc {kind}");
        let ndirty = rng.range(1, 3);
        let nlate = rng.range(1, 4);
        for c in 0..ndirty {
            let unit = 0x11u8;
            let req = Request::ReadHoldingRegisters(c as u16, 3);
            let whole = frame(kind, rng.u16(), unit, &spec::request_bytes(&req).unwrap());
            // the head of a further request: a write announcing many bytes, or a request that is
            // one byte short – the missing byte being what the next client sends first
            let tail = match rng.below(3) {
                0 => {
                    let f = frame(kind, 0, 0x07, &[0x10, 0x00, 0x00, 0x00, 0x7B, 0xF6]);
                    f[..f.len() - if kind == "tcp" { 0 } else { 2 }].to_vec()
                }
                1 => {
                    let f = frame(kind, 0, unit, &spec::request_bytes(&Request::WriteSingleRegister(0x0BAD, 0x00D6)).unwrap());
                    f[..f.len() - 1].to_vec()
                }
                _ => {
                    let f = frame(kind, 0, unit, &spec::request_bytes(&Request::ReadCoils(1, 1)).unwrap());
                    f[..rng.range(1, f.len() - 1)].to_vec()
                }
            };
            line.push_str(&format!(
                " | svc={} r=d{},d{}",
                Svc::Reply(Response::ReadHoldingRegisters(vec![c as u16, 0xD1, 0xD2])).tok(),
                hex_raw(&whole),
                hex_raw(&tail)
            ));
        }
        for c in 0..nlate {
            let unit = if c == 0 { 0x01 } else { rng.u8() };
            let req = Request::ReadHoldingRegisters(0x100 + c as u16, 2);
            line.push_str(&format!(
                " | late={} svc={} r=d{}",
                rng.below(ndirty),
                Svc::Reply(Response::ReadHoldingRegisters(vec![0x1A7E, c as u16])).tok(),
                hex_raw(&frame(kind, rng.u16(), unit, &spec::request_bytes(&req).unwrap()))
            ));
        }
        monitor_line(out, &line);
    }
}

/// the serial RTU server (src/server/rtu.rs) on a pseudo-terminal: pipelined typed requests of
/// every variant, answered / declined / failing, written to the line in small pieces
pub fn gen_serial_server(out: &mut Out, rng: &mut Rng, n: usize) {
    for line_no in 0..n {
        let nreq = rng.range(1, 8);
        // the first runs keep to one slave id at a border of the address classes – broadcast
        // first: the default of `client::rtu::attach` –, the rest mix ids
        let fixed_unit = [0x00u8, 0xFF, 0x01, 0xF7, 0xF8].get(line_no).copied();
        let mut data = vec![];
        let mut svc = vec![];
        for q in 0..nreq {
            let req = loop {
                let hint = rng.range(0, 6);
                let r = gen_request(rng, Some(hint));
                if !matches!(r, Request::Custom(..)) {
                    break r;
                }
            };
            let unit = fixed_unit.unwrap_or_else(|| rng.unit());
            data.extend(frame("ser", 0, unit, &spec::request_bytes(&req).unwrap()));
            svc.push(match rng.below(12) {
                0 | 1 => Svc::Decline,
                2 | 3 => Svc::Exception(crate::wire::ex_from_spec(1 + (q % 4) as u8)),
                // a reply beyond the PDU limit: the loop must end there, with an error
                4 if q > 0 => Svc::Reply(Response::ReadHoldingRegisters(rng.words_in(126, 160))),
                _ => Svc::Reply(answer_for(rng, &req)),
            });
        }
        monitor_line(
            out,
            &format!(
                "conc ser | svc={} r=d{}",
                svc.iter().map(Svc::tok).collect::<Vec<_>>().join(","),
                hex_raw(&data)
            ),
        );
    }
}

pub fn mon_c18(out: &mut Out, l: &str, r: &str) {
    if !l.starts_with("conc ") {
        return;
    }
    let kind = &l[5..8];
    let conns: Vec<&str> = l.split(" | ").skip(1).collect();
    let res: Vec<&str> = r.split(" | ").collect();
    out.check(res.len() == conns.len(), || "a connection got no result".into(), l);
    for (i, c) in conns.iter().enumerate() {
        let f: Vec<&str> = c.split(' ').collect();
        let Some(svc) = p_list(field("svc", &f), Svc::parse) else { continue };
        let data = super::stream::parse_events(field("r", &f)).data;
        let frames: Vec<((u16, u8), Vec<u8>)> = if kind == "tcp" {
            spec::split_mbap(&data)
                .into_iter()
                .filter_map(|x| match x {
                    MbapItem::Frame(t, u, p) => Some(((t, u), p)),
                    _ => None,
                })
                .collect()
        } else {
            super::rtu_frames_prefix(&data).into_iter().map(|(u, p)| ((0, u), p)).collect()
        };
        // what this connection – and only this one – must see
        let mut expect_calls = vec![];
        let mut expect_out = vec![];
        let mut refused = false;
        for (q, ((tid, unit), pdu)) in frames.iter().enumerate() {
            if let Verdict::Accept(req) = spec::classify_request(pdu) {
                expect_calls.push(format!("{}:{}", hex8(*unit), request(&req)));
            }
            match svc.get(q) {
                Some(Svc::Reply(rsp)) => {
                    let b = spec::response_bytes(rsp).unwrap_or_default();
                    if b.is_empty() || b.len() > 253 {
                        // a response the encoder must refuse: this connection ends here – and only
                        // this one
                        refused = true;
                        break;
                    }
                    expect_out.extend(frame(kind, *tid, *unit, &b))
                }
                Some(Svc::Exception(e)) => {
                    let code: u8 = crate::wire::ex_num(*e);
                    expect_out.extend(frame(kind, *tid, *unit, &[pdu[0] | 0x80, code]));
                }
                _ => {}
            }
        }
        // the serial server is its one connection: a reply that cannot be written ends it with
        // that error, whichever entry point runs it
        let expect = format!(
            "calls={} out={} peer={}",
            if expect_calls.is_empty() { "-".to_string() } else { expect_calls.join(",") },
            hex(&expect_out),
            if refused && kind == "ser" { "failed" } else { "ok" }
        );
        let got = res.get(i).copied().unwrap_or("");
        out.check(got == expect, || format!("connection {i}: expected `{}` got `{}`", super::codec::trunc(&expect), super::codec::trunc(got)), l);
    }
}

// ================================================================ C14 (accept loop)

pub fn gen_c14_accept(out: &mut Out, rng: &mut Rng, thorough: bool) {
    // a connection setup that fails with each error kind in turn (connection kinds, resource
    // kinds, `Other`), after a good connection, on both servers: the loop must stop with it
    for kind in ["tcp", "rtu"] {
        for k in 0..crate::wire::INJECTED.len() {
            let pre = *rng.pick(&["a", "a,r", "r,a", "b,a"]);
            monitor_line(out, &format!("accept {kind} {pre},sk{k},a"));
        }
        for k in ["ot", "id", "ue", "bp", "nc", "to"] {
            monitor_line(out, &format!("accept {kind} a,s{k},a"));
        }
    }
    let n = if thorough { 200 } else { 24 };
    for i in 0..n {
        let kind = if i % 2 == 0 { "tcp" } else { "rtu" };
        let len = rng.range(1, 6);
        let mut setups: Vec<String> = (0..len)
            .map(|_| match rng.below(4) {
                0 => "r".to_string(),
                1 => "b".to_string(),
                _ => "a".to_string(),
            })
            .collect();
        let fail = rng.chance(1, 3);
        if fail {
            let at = rng.below(setups.len() + 1);
            setups.insert(at, format!("sk{}", rng.below(6)));
        }
        let abort = !fail && rng.bool();
        monitor_line(out, &format!("accept {kind} {}{}", setups.join(","), if abort { " abort" } else { "" }));
    }
}

pub fn mon_c14_accept(out: &mut Out, l: &str, r: &str) {
    if !l.starts_with("accept ") {
        return;
    }
    let t: Vec<&str> = l.split(' ').collect();
    let setups: Vec<&str> = t[2].split(',').collect();
    let abort = t.get(3) == Some(&"abort");
    let mut spawned = vec![];
    let mut served = vec![];
    let mut cb = 0;
    let mut end = if abort { "aborted".to_string() } else { "running".to_string() };
    for (i, s) in setups.iter().enumerate() {
        match *s {
            "a" => {
                spawned.push(i.to_string());
                served.push(i.to_string());
            }
            "b" => {
                spawned.push(i.to_string());
                cb += 1;
            }
            "r" => {}
            k => {
                end = format!("err:{}", &k[1..]);
                break;
            }
        }
    }
    let tok = |v: &Vec<String>| if v.is_empty() { "-".to_string() } else { v.join(",") };
    let expect = format!("spawned {} served {} cb={cb} {end}", tok(&spawned), tok(&served));
    out.check(r == expect, || format!("accept loop: expected `{expect}` got `{r}`"), l);
}
