//! C04 (RTU CRC), C05 (MBAP framing), C11 (RTU resynchronisation)
use super::*;

pub fn gen_c04(_out: &mut Out, _rng: &mut Rng, _thorough: bool) {}
pub fn mon_c04(_out: &mut Out, _l: &str, _r: &str) {}
pub fn gen_c05(_out: &mut Out, _rng: &mut Rng, _thorough: bool) {}
pub fn mon_c05(_out: &mut Out, _l: &str, _r: &str) {}
pub fn gen_c11(_out: &mut Out, _rng: &mut Rng, _thorough: bool) {}
pub fn mon_c11(_out: &mut Out, _l: &str, _r: &str) {}
