//! C04 (RTU CRC), C05 (MBAP framing), C11 (RTU resynchronisation)

use super::*;
use crate::spec::MbapItem;

// ================================================================ helpers

/// data bytes of a read script, and what follows them
pub struct ParsedEvents {
    pub data: Vec<u8>,
    pub chunks: Vec<usize>,
    /// the script contains something else than data / pending (eof, error)
    pub has_fault: bool,
    pub ends_with_eof: bool,
}

pub fn parse_events(evs: &str) -> ParsedEvents {
    let mut p = ParsedEvents {
        data: vec![],
        chunks: vec![],
        has_fault: false,
        ends_with_eof: false,
    };
    if evs.is_empty() || evs == "-" {
        return p;
    }
    for e in evs.split(',') {
        p.ends_with_eof = false;
        if let Some(h) = e.strip_prefix('d') {
            let b = if h.is_empty() { vec![] } else { p_bytes(h).unwrap() };
            p.chunks.push(b.len());
            p.data.extend(b);
        } else if e == "e" || e == "E" {
            p.has_fault = true;
            p.ends_with_eof = true;
        } else if e == "p" {
        } else {
            p.has_fault = true;
        }
    }
    p
}

/// bytes that can never be taken for a function code by the RTU length tables
pub fn non_fc(b: u8) -> bool {
    b == 0x00 || b == 0x80 || (0x41..=0x48).contains(&b) || (0x64..=0x6E).contains(&b)
}

/// PDU length of an RTU request / response by function code (Modbus PDU layouts);
/// `None` = unsupported code, `Some(None)` = need more bytes
fn rtu_pdu_len(s: &[u8], request: bool) -> Option<Option<usize>> {
    let fc = *s.get(1)?;
    let at = |i: usize| s.get(i).map(|b| usize::from(*b));
    if request {
        Some(match fc {
            0x01..=0x06 => Some(5),
            0x07 | 0x0B | 0x0C | 0x11 => Some(1),
            0x0F | 0x10 => at(6).map(|bc| 6 + bc),
            0x16 => Some(7),
            0x18 => Some(3),
            0x17 => at(10).map(|bc| 10 + bc),
            _ => return None,
        })
    } else {
        Some(match fc {
            0x01..=0x04 | 0x0C | 0x11 | 0x17 => at(2).map(|bc| 2 + bc),
            0x05 | 0x06 | 0x0B | 0x0F | 0x10 => Some(5),
            0x07 => Some(2),
            0x16 => Some(7),
            0x18 => match (at(2), at(3)) {
                (Some(h), Some(l)) => Some(3 + h * 256 + l),
                _ => None,
            },
            0x81..=0xAB => Some(2),
            _ => return None,
        })
    }
}

/// Split a stream that consists only of valid RTU frames; `None` if it does not.
pub fn split_rtu_clean(s: &[u8], request: bool) -> Option<Vec<(u8, Vec<u8>)>> {
    let mut out = vec![];
    let mut i = 0;
    while i < s.len() {
        let len = rtu_pdu_len(&s[i..], request)??;
        let end = i + 1 + len + 2;
        if end > s.len() {
            return None;
        }
        if spec::crc_wire(&s[i..i + 1 + len]) != s[i + 1 + len..end] {
            return None;
        }
        out.push((s[i], s[i + 1..i + 1 + len].to_vec()));
        i = end;
    }
    Some(out)
}

fn render_req_item(slave_tok: &str, pdu: &[u8]) -> Option<String> {
    match spec::classify_request(pdu) {
        Verdict::Accept(r) => Some(format!("item {slave_tok}:{}", request(&r))),
        Verdict::Reject => Some("err".into()),
        Verdict::Unspecified => None,
    }
}

fn render_rsp_item(slave_tok: &str, pdu: &[u8]) -> Option<String> {
    if pdu.first().is_some_and(|b| *b >= 0x80) {
        if pdu.len() >= 2 {
            return Some(format!(
                "item {slave_tok}:E={}:{}",
                hex8(pdu[0] - 0x80),
                hex8(pdu[1])
            ));
        }
        return Some("err".into());
    }
    match spec::classify_response(pdu) {
        Verdict::Accept(r) => Some(format!("item {slave_tok}:R={}", response(&r))),
        Verdict::Reject => Some("err".into()),
        Verdict::Unspecified => None,
    }
}

fn strip_err_kinds(tokens: &[&str]) -> Vec<String> {
    tokens
        .iter()
        .map(|t| {
            if t.starts_with("err:") {
                "err".to_string()
            } else {
                (*t).to_string()
            }
        })
        .collect()
}

fn result_tokens(r: &str) -> Vec<String> {
    let body = r.split(" ; buf ").next().unwrap_or("");
    strip_err_kinds(&body.split(" | ").collect::<Vec<_>>())
}

// ================================================================ C05

fn gen_tcp_frame(rng: &mut Rng, codec: &str) -> Vec<u8> {
    let tid = rng.u16();
    let unit = rng.unit();
    let pdu = match codec {
        "tcpsrv" => spec::request_bytes(&gen_request(rng, None)).unwrap_or(vec![0x11]),
        "tcpcli" => {
            if rng.chance(1, 5) {
                vec![rng.u8() | 0x80, rng.u8()]
            } else {
                spec::response_bytes(&gen_response(rng, None)).unwrap_or(vec![0x07, 0])
            }
        }
        _ => {
            let n = match rng.below(8) {
                0 => 0,
                1 => 1,
                2 => 252,
                3 => 253,
                4 => 254,
                5 => rng.range(255, 2000),
                _ => rng.range(0, 40),
            };
            rng.bytes(n)
        }
    };
    let pdu = if pdu.len() > 65534 { pdu[..65534].to_vec() } else { pdu };
    spec::mbap(tid, unit, &pdu)
}

pub fn gen_c05(out: &mut Out, rng: &mut Rng, thorough: bool) {
    // exhaustive compositions of short streams (1 or 2 minimal frames, header fragments)
    let max_exh = if thorough { 17 } else { 14 };
    let mut shorts: Vec<Vec<u8>> = vec![];
    for _ in 0..(if thorough { 6 } else { 3 }) {
        // two frames: empty PDU + tiny PDU
        let mut s = spec::mbap(rng.u16(), rng.u8(), &[]);
        let k = max_exh - 14;
        s.extend(spec::mbap(rng.u16(), rng.u8(), &rng.bytes_in(0, k)));
        shorts.push(s);
        // one frame with a few PDU bytes
        shorts.push(spec::mbap(rng.u16(), rng.u8(), &rng.bytes_in(1, max_exh - 7)));
        // a frame followed by a header fragment
        let mut s = spec::mbap(rng.u16(), rng.u8(), &rng.bytes_in(0, 2));
        s.extend(&spec::mbap(rng.u16(), rng.u8(), &[1, 2, 3])[..rng.range(1, 5)]);
        shorts.push(s);
        // invalid protocol id, zero length
        let mut bad = spec::mbap(rng.u16(), rng.u8(), &rng.bytes_in(0, 3));
        let pid = rng.nonzero_be16();
        bad[2] = pid[0];
        bad[3] = pid[1];
        shorts.push(bad);
        let mut bad = spec::mbap(rng.u16(), rng.u8(), &[]);
        bad[5] = 0;
        bad.extend(rng.bytes_in(0, 3));
        shorts.push(bad);
    }
    for s in &shorts {
        for chunks in all_chunkings(s) {
            monitor_line(out, &format!("stream tcpadu {}", chunks_tok(&chunks)));
        }
    }
    // every value class of the length field, pipelined frames, random chunkings
    let n = if thorough { 200_000 } else { 6_000 };
    for i in 0..n {
        let codec = ["tcpadu", "tcpsrv", "tcpcli"][i % 3];
        let frames = rng.range(1, 4);
        let mut s = vec![];
        for _ in 0..frames {
            s.extend(gen_tcp_frame(rng, codec));
        }
        match rng.below(12) {
            0 => {
                // non-zero protocol id in a random frame position: simply corrupt the first one
                let pid = rng.nonzero_be16();
                s[2] = pid[0];
                s[3] = pid[1];
            }
            1 => {
                let mut z = spec::mbap(rng.u16(), rng.u8(), &[]);
                z[5] = 0;
                z[4] = 0;
                s.extend(z);
                s.extend(rng.bytes_in(0, 9));
            }
            2 => {
                // truncated tail
                let k = rng.below(s.len());
                s.truncate(k);
            }
            _ => {}
        }
        let parts = rng.composition(s.len());
        let mut evs = chunks_tok(&chunk(&s, &parts));
        if rng.chance(1, 4) {
            evs.push_str(if evs.is_empty() { "e" } else { ",e" });
        }
        if rng.chance(1, 8) {
            evs = evs.replacen(",", ",p,", 1);
        }
        monitor_line(out, &format!("stream {codec} {evs}"));
    }
    // every small value of the length field, one frame each, followed by a second frame
    for len_field in 1usize..=300 {
        let pdu = rng.bytes(len_field - 1);
        let mut s = spec::mbap(rng.u16(), rng.u8(), &pdu);
        s.extend(spec::mbap(7, 7, &[0x42]));
        let cut = rng.range(1, s.len() - 1);
        let codec = ["tcpadu", "tcpsrv", "tcpcli"][len_field % 3];
        monitor_line(out, &format!("stream {codec} d{},d{}", hex_raw(&s[..cut]), hex_raw(&s[cut..])));
    }
    // the extreme length field values
    for len_field in [1usize, 2, 254, 255, 256, 257, 4096, 65534, 65535] {
        let pdu = rng.bytes(len_field - 1);
        let mut s = spec::mbap(rng.u16(), rng.u8(), &pdu);
        s.extend(spec::mbap(7, 7, &[0x42]));
        let mut chunks = vec![];
        let mut at = 0;
        while at < s.len() {
            let k = rng.range(1, 3000).min(s.len() - at);
            chunks.push(s[at..at + k].to_vec());
            at += k;
        }
        monitor_line(out, &format!("stream tcpadu {}", chunks_tok(&chunks)));
    }
    // … also when earlier bytes are still waiting in the write buffer
    for _ in 0..(if thorough { 20_000 } else { 1_500 }) {
        let pre = rng.bytes_in(1, 12);
        let r = gen_request(rng, None);
        monitor_line(out, &format!("tcpreq {} {} {} pre={}", hex16(rng.u16()), hex8(rng.u8()), request(&r), hex_raw(&pre)));
        let r = gen_response(rng, None);
        monitor_line(out, &format!("tcprsp {} {} R={} pre={}", hex16(rng.u16()), hex8(rng.u8()), response(&r), hex_raw(&pre)));
    }
    // transmitted frames: protocol id 0, length = PDU length + 1
    for _ in 0..(if thorough { 40_000 } else { 3_000 }) {
        let r = gen_request(rng, None);
        monitor_line(out, &format!("tcpreq {} {} {}", hex16(rng.u16()), hex8(rng.u8()), request(&r)));
        let r = gen_response(rng, None);
        monitor_line(out, &format!("tcprsp {} {} R={}", hex16(rng.u16()), hex8(rng.u8()), response(&r)));
        let fc = rng.u8() & 0x7F;
        monitor_line(out, &format!("tcprsp {} {} E={}:{}", hex16(rng.u16()), hex8(rng.u8()), hex8(fc), hex8(rng.u8())));
    }
}

pub fn mon_c05(out: &mut Out, l: &str, r: &str) {
    let t: Vec<&str> = l.split(' ').collect();
    match t.as_slice() {
        ["stream", codec, evs] => {
            let pe = parse_events(evs);
            let items = spec::split_mbap(&pe.data);
            let got = result_tokens(r);
            let mut expect: Vec<String> = vec![];
            let mut open_end = false;
            for it in &items {
                match it {
                    MbapItem::Frame(tid, unit, pdu) => {
                        let h = format!("{}:{}", hex16(*tid), hex8(*unit));
                        let e = match *codec {
                            "tcpadu" => Some(format!("item {h}:{}", hex(pdu))),
                            "tcpsrv" => render_req_item(&h, pdu),
                            "tcpcli" => render_rsp_item(&h, pdu),
                            _ => None,
                        };
                        match e {
                            Some(e) => {
                                let is_err = e == "err";
                                expect.push(e);
                                if is_err {
                                    open_end = true;
                                    break;
                                }
                            }
                            None => {
                                open_end = true;
                                break;
                            }
                        }
                    }
                    MbapItem::Invalid => {
                        expect.push("err".into());
                        open_end = true;
                        break;
                    }
                    MbapItem::Incomplete => {
                        // nothing may be delivered for it; at end of stream it is an error
                        expect.push(if pe.ends_with_eof { "err".into() } else { "blocked".into() });
                        open_end = true;
                        break;
                    }
                }
            }
            let n = expect.len();
            let ok_prefix = got.len() >= n && got[..n] == expect[..];
            out.check(ok_prefix, || format!("frames delivered differ from the MBAP split of the stream: expected {:?}… got {:?}", trunc_v(&expect), trunc_v(&got)), l);
            if !open_end && ok_prefix {
                // the whole stream was clean frames: nothing else may be delivered
                let rest_ok = got[n..].iter().all(|t| t == "blocked" || t == "done" || (pe.has_fault && t.starts_with("err")));
                out.check(rest_ok, || format!("something was delivered beyond the frames of the stream: {:?}", trunc_v(&got[n..].to_vec())), l);
            }
        }
        ["tcpreq", tid, u, _] | ["tcprsp", tid, u, _] | ["tcpreq", tid, u, _, _] | ["tcprsp", tid, u, _, _] => {
            out.check(!r.contains("damaged"), || format!("encoder touched bytes already waiting in the buffer: {}", super::codec::trunc(r)), l);
            if let Some(h) = r.strip_prefix("ok ") {
                let f = p_bytes(h).unwrap();
                let ok = f.len() >= 7
                    && f[0..2] == p_bytes(tid).unwrap()[..]
                    && f[2] == 0
                    && f[3] == 0
                    && usize::from(f[4]) * 256 + usize::from(f[5]) == f.len() - 6
                    && f[6] == p_u8(u).unwrap();
                out.check(ok, || format!("transmitted MBAP header is wrong: {}", hex(&f[..f.len().min(7)])), l);
            }
        }
        _ => {}
    }
}

fn trunc_v(v: &Vec<String>) -> Vec<String> {
    v.iter().take(6).map(|s| super::codec::trunc(s)).collect()
}

// ================================================================ C04

fn gen_rtu_frame(rng: &mut Rng, request: bool, slave: Option<u8>) -> Vec<u8> {
    let slave = slave.unwrap_or_else(|| rng.u8());
    loop {
        let pdu = if request {
            match rng.below(10) {
                0 => vec![*rng.pick(&[0x07u8, 0x0B, 0x0C, 0x11])],
                1 => vec![0x18, rng.u8(), rng.u8()],
                _ => {
                    let r = gen_request(rng, None);
                    if matches!(r, Request::Custom(..)) {
                        continue;
                    }
                    match spec::request_bytes(&r) {
                        Some(b) if b.len() <= 253 => b,
                        _ => continue,
                    }
                }
            }
        } else {
            match rng.below(10) {
                0 => vec![(rng.u8() % 0x2B) + 0x81, rng.u8()],
                1 => match rng.below(3) {
                    0 => vec![0x07, rng.u8()],
                    1 => {
                        // Get Comm Event Log: a byte count and that many bytes
                        let n = rng.range(0, 40);
                        let mut p = vec![0x0C, n as u8];
                        p.extend(rng.bytes(n));
                        p
                    }
                    _ => {
                        // Read FIFO Queue: the only reply with a 16-bit byte count
                        let n = *rng.pick(&[0usize, 1, 2, 4, 6, 30, 62, 250]);
                        let mut p = vec![0x18, (n >> 8) as u8, n as u8];
                        p.extend(rng.bytes(n));
                        p
                    }
                },
                2 => vec![0x0B, rng.u8(), rng.u8(), rng.u8(), rng.u8()],
                _ => {
                    let r = gen_response(rng, None);
                    if matches!(r, Response::Custom(..)) {
                        continue;
                    }
                    match spec::response_bytes(&r) {
                        Some(b) if b.len() <= 253 => b,
                        _ => continue,
                    }
                }
            }
        };
        return spec::rtu_frame(slave, &pdu);
    }
}

fn one_chunk_or_random(rng: &mut Rng, s: &[u8]) -> String {
    if rng.chance(1, 3) {
        chunks_tok(&[s.to_vec()])
    } else {
        let parts = rng.composition(s.len());
        chunks_tok(&chunk(s, &parts))
    }
}

pub fn gen_c04(out: &mut Out, rng: &mut Rng, thorough: bool) {
    // the CRC function itself
    monitor_line(out, "crc -");
    for a in 0..=255u8 {
        monitor_line(out, &format!("crc {}", hex8(a)));
    }
    for a in 0..=255u8 {
        for b in 0..=255u8 {
            if thorough || (usize::from(a) * 256 + usize::from(b)) % 7 == 0 {
                monitor_line(out, &format!("crc {}{}", hex8(a), hex8(b)));
            }
        }
    }
    monitor_line(out, &format!("crc {}", hex(b"123456789")));
    for _ in 0..(if thorough { 200_000 } else { 10_000 }) {
        let d = rng.bytes_in(0, 300);
        monitor_line(out, &format!("crc {}", hex(&d)));
    }
    // transmitted frames
    for _ in 0..(if thorough { 40_000 } else { 3_000 }) {
        let r = gen_request(rng, None);
        monitor_line(out, &format!("rtureq {} {}", hex8(rng.u8()), request(&r)));
        let r = gen_response(rng, None);
        monitor_line(out, &format!("rtursp {} R={}", hex8(rng.u8()), response(&r)));
        let fc = rng.u8() & 0x7F;
        monitor_line(out, &format!("rtursp {} E={}:{}", hex8(rng.u8()), hex8(fc), hex8(rng.u8())));
    }
    // … also when earlier bytes are still waiting in the write buffer
    for _ in 0..(if thorough { 20_000 } else { 1_500 }) {
        let pre = rng.bytes_in(1, 12);
        let r = gen_request(rng, None);
        monitor_line(out, &format!("rtureq {} {} pre={}", hex8(rng.u8()), request(&r), hex_raw(&pre)));
        let r = gen_response(rng, None);
        monitor_line(out, &format!("rtursp {} R={} pre={}", hex8(rng.u8()), response(&r), hex_raw(&pre)));
    }
    // … and through a client whose previous call was abandoned in the middle of its write
    for _ in 0..(if thorough { 5_000 } else { 400 }) {
        let unit = rng.unit();
        let r1 = loop {
            let r = gen_request(rng, Some(2));
            if !matches!(r, Request::Custom(..)) {
                break r;
            }
        };
        let k = rng.range(1, 5);
        monitor_line(
            out,
            &format!(
                "cli rtu {} | call {} b=1 w=a{k},p | call RHR:0001:0001 r=d{}",
                hex8(unit),
                request(&r1),
                hex_raw(&spec::rtu_frame(unit, &[0x03, 0x02, 0x00, 0x07]))
            ),
        );
    }
    // … and through a client that had to refuse a request before (beyond the PDU limit): what
    // reaches the line afterwards is still CRC-correct frames only
    for i in 0..(if thorough { 400 } else { 40 }) {
        let unit = rng.unit();
        let (n1, n2, n3) = (2 * rng.range(124, 140), rng.range(253, 300), 2 * rng.range(122, 130));
        let fc = *rng.pick(&[0x07u8, 0x0B, 0x0C, 0x18]);
        let big = match i % 3 {
            0 => format!("WMR:0000:{}", hex_raw(&rng.bytes(n1))),
            1 => format!("CU:{}:{}", hex8(fc), hex_raw(&rng.bytes(n2))),
            _ => format!("RWM:0000:0001:0000:{}", hex_raw(&rng.bytes(n3))),
        };
        let again = if i % 4 == 0 { format!(" | call {big}") } else { String::new() };
        monitor_line(
            out,
            &format!(
                "cli rtu {} | call {big}{again} | call RHR:0001:0001 r=d{}",
                hex8(unit),
                hex_raw(&spec::rtu_frame(unit, &[0x03, 0x02, 0x00, 0x07]))
            ),
        );
    }
    // corruptions of valid frames
    // (thorough: every one of the 65536 CRC values for each sample - 24 samples are 1.6 million streams)
    let samples = if thorough { 24 } else { 16 };
    for i in 0..samples {
        let request = i % 2 == 0;
        let codec = if request { "rtusrv" } else { "rtucli" };
        let frame = loop {
            let f = gen_rtu_frame(rng, request, None);
            if f.len() <= 40 {
                break f;
            }
        };
        let tail = gen_rtu_frame(rng, request, None);
        let send = |out: &mut Out, rng: &mut Rng, damaged: &[u8]| {
            // the damaged frame is followed by an intact one
            let mut s = damaged.to_vec();
            s.extend(&tail);
            let evs = one_chunk_or_random(rng, &s);
            monitor_line(out, &format!("stream {codec} {evs}"));
        };
        // every single-bit corruption
        for bit in 0..frame.len() * 8 {
            let mut d = frame.clone();
            d[bit / 8] ^= 1 << (bit % 8);
            send(out, rng, &d);
        }
        // … and every single-bit corruption of a frame that the same decoder has just delivered
        // intact (a decoder that remembers what it verified must not wave a look-alike through)
        for bit in 0..frame.len() * 8 {
            let mut d = frame.clone();
            d[bit / 8] ^= 1 << (bit % 8);
            let mut s = frame.clone();
            if bit % 3 == 0 {
                s.extend(&frame);
            }
            s.extend(&d);
            s.extend(&tail);
            let evs = if bit % 2 == 0 { chunks_tok(&[frame.clone(), s[frame.len()..].to_vec()]) } else { one_chunk_or_random(rng, &s) };
            monitor_line(out, &format!("stream {codec} {evs}"));
        }
        // … and a longer frame that ends like the frame delivered before it (same last PDU bytes,
        // same CRC field), for every sample: [slave, fc, count, filler…, tail of the previous frame]
        for _ in 0..8 {
            let n = frame.len();
            let keep = rng.range(3, n.min(9)); // last PDU bytes + CRC field of the delivered frame
            let fill = rng.range(0, 6);
            let slave = if rng.bool() { frame[0] } else { rng.u8() };
            let body_len = fill + keep - 2; // what follows the count byte, before the CRC field
            let mut d = if request {
                // a write-multiple-registers request whose byte count covers filler and tail
                let q = (body_len / 2) as u8;
                vec![slave, 0x10, rng.u8(), rng.u8(), 0x00, q, body_len as u8]
            } else {
                vec![slave, *rng.pick(&[0x03u8, 0x04, 0x01, 0x17]), body_len as u8]
            };
            d.extend(rng.bytes(fill));
            d.extend(&frame[n - keep..]);
            let mut s = frame.clone();
            s.extend(&d);
            s.extend(&tail);
            let evs = one_chunk_or_random(rng, &s);
            monitor_line(out, &format!("stream {codec} {evs}"));
        }
        // all 65536 values of the CRC field (thinned in the quick tier)
        let n = frame.len();
        let step = if thorough { 1 } else { 16 };
        let off = rng.below(step);
        for v in (off..65536).step_by(step) {
            let mut d = frame.clone();
            d[n - 2] = (v >> 8) as u8;
            d[n - 1] = v as u8;
            send(out, rng, &d);
        }
        // double-bit corruptions and bursts of up to 16 bits
        for _ in 0..(if thorough { 3000 } else { 400 }) {
            let mut d = frame.clone();
            if rng.bool() {
                let a = rng.below(n * 8);
                let mut b = rng.below(n * 8);
                if a == b {
                    b = (b + 1) % (n * 8);
                }
                d[a / 8] ^= 1 << (a % 8);
                d[b / 8] ^= 1 << (b % 8);
            } else {
                let len = rng.range(2, 16);
                let start = rng.below(n * 8 - len + 1);
                // a burst: first and last bit flipped, the ones in between at random
                for k in 0..len {
                    if k == 0 || k == len - 1 || rng.bool() {
                        let bit = start + k;
                        d[bit / 8] ^= 1 << (bit % 8);
                    }
                }
            }
            send(out, rng, &d);
        }
    }
    // a CRC-rejected candidate ending exactly at a read boundary: one stray byte in front makes the
    // frame's address byte look like a function code; two inserted bytes sit where that
    // candidate's CRC field would be; the rest of the real frame arrives with the next read
    for i in 0..(if thorough { 40_000 } else { 4_000 }) {
        let request = i % 2 == 0;
        let codec = if request { "rtusrv" } else { "rtucli" };
        let slave = if request { 1 + rng.u8() % 6 } else { 1 + rng.u8() % 4 };
        let f = gen_rtu_frame(rng, request, Some(slave));
        // PDU length the table infers for the candidate [z, slave, f[1], …]
        let k = if request { 5 } else { 2 + usize::from(f[1]) };
        if k >= f.len() || k < 1 {
            continue;
        }
        let z = rng.u8();
        let mut first = vec![z];
        first.extend(&f[..k]);
        first.extend([rng.u8(), rng.u8()]);
        let second = f[k..].to_vec();
        monitor_line(out, &format!("stream {codec} {}", chunks_tok(&[first, second])));
    }
    // random noise with embedded frames
    for i in 0..(if thorough { 60_000 } else { 3_000 }) {
        let request = i % 2 == 0;
        let codec = if request { "rtusrv" } else { "rtucli" };
        let mut s = vec![];
        for _ in 0..rng.range(1, 4) {
            match rng.below(3) {
                0 => s.extend(rng.bytes_in(0, 12)),
                1 => {
                    let n = rng.range(0, 12);
                    s.extend((0..n).map(|_| if rng.bool() { 0x00 } else { 0x80 + (rng.u8() & 1) * 0xC5 }));
                }
                _ => {}
            }
            s.extend(gen_rtu_frame(rng, request, None));
        }
        let evs = one_chunk_or_random(rng, &s);
        monitor_line(out, &format!("stream {codec} {evs}"));
    }
}

/// Locate each delivered frame in the received stream: CRC-valid slices, in stream
/// order, not overlapping.  Returns an error description for the first frame that
/// cannot be located.
fn locate_items(stream: &[u8], items: &[String], request: bool) -> Result<(), String> {
    let mut cur = 0usize;
    for it in items {
        let mut best: Option<usize> = None;
        for p in cur..stream.len() {
            // running CRC over stream[p..p+l]
            let slave_tok = hex8(stream[p]);
            let max_l = (stream.len() - p).saturating_sub(2).min(259);
            let mut reg = 0xFFFFu16;
            for l in 1..=max_l {
                reg = spec::crc_step(reg, stream[p + l - 1]);
                if l < 2 {
                    continue;
                }
                let end = p + l + 2;
                if let Some(b) = best {
                    if end >= b {
                        break;
                    }
                }
                if spec::crc_fin(reg) != stream[p + l..end] {
                    continue;
                }
                let pdu = &stream[p + 1..p + l];
                let rendered = if request {
                    render_req_item(&slave_tok, pdu)
                } else {
                    render_rsp_item(&slave_tok, pdu)
                };
                if rendered.as_deref() == Some(it.as_str()) {
                    best = Some(end);
                }
            }
        }
        match best {
            Some(end) => cur = end,
            None => {
                return Err(format!(
                    "delivered frame `{}` is not a CRC-valid slice of the received stream after offset {cur}",
                    super::codec::trunc(it)
                ))
            }
        }
    }
    Ok(())
}

pub fn mon_c04(out: &mut Out, l: &str, r: &str) {
    let t: Vec<&str> = l.split(' ').collect();
    match t.as_slice() {
        ["crc", h] => {
            let d = p_bytes(h).unwrap();
            let expect = hex16(spec::crc16_modbus(&d).swap_bytes());
            out.check(r == expect, || format!("CRC-16/MODBUS of the data is {expect}, library computed {r}"), l);
        }
        ["cli", "rtu", ..] => {
            // every frame the client ever put on the wire ends with the CRC of its address and PDU
            let all: Vec<u8> = r
                .split(" | ")
                .flat_map(|p| {
                    let w = p.split(' ').find_map(|t| t.strip_prefix("w=")).unwrap_or("-");
                    if w == "-" {
                        vec![]
                    } else {
                        w.split('+').flat_map(|h| p_bytes(h).unwrap()).collect::<Vec<u8>>()
                    }
                })
                .collect();
            if r.split(" | ").last().is_some_and(|p| p.starts_with("ok ") || p.starts_with("exc ")) {
                out.check(split_rtu_clean(&all, true).is_some(), || format!("bytes transmitted over the client's lifetime are not CRC-correct frames: {}", hex(&all)), l);
            }
        }
        ["rtureq", ..] | ["rtursp", ..] => {
            out.check(!r.contains("damaged"), || format!("encoder touched bytes already waiting in the buffer: {}", super::codec::trunc(r)), l);
            if let Some(h) = r.strip_prefix("ok ") {
                let f = p_bytes(h).unwrap();
                let n = f.len();
                let ok = n >= 4 && spec::crc_wire(&f[..n - 2]) == f[n - 2..];
                out.check(ok, || format!("transmitted frame does not end with the CRC of its address and PDU: {}", super::codec::trunc(h)), l);
            }
        }
        ["stream", codec, evs] if codec.starts_with("rtu") => {
            let pe = parse_events(evs);
            let got = result_tokens(r);
            let items: Vec<String> = got.iter().filter(|t| t.starts_with("item ")).cloned().collect();
            let res = locate_items(&pe.data, &items, *codec == "rtusrv");
            out.check(res.is_ok(), || res.clone().unwrap_err(), l);
        }
        _ => {}
    }
}

// ================================================================ C11

pub fn gen_c11(out: &mut Out, rng: &mut Rng, thorough: bool) {
    // clean pipelined streams: exhaustive compositions for short ones, random beyond
    let exh = if thorough { 16 } else { 13 };
    for i in 0..(if thorough { 40 } else { 12 }) {
        let request = i % 2 == 0;
        let codec = if request { "rtusrv" } else { "rtucli" };
        let mut s = vec![];
        loop {
            let f = gen_rtu_frame(rng, request, None);
            if s.len() + f.len() > exh {
                if s.is_empty() {
                    continue;
                }
                break;
            }
            s.extend(f);
        }
        for chunks in all_chunkings(&s) {
            monitor_line(out, &format!("stream {codec} {}", chunks_tok(&chunks)));
        }
    }
    for i in 0..(if thorough { 100_000 } else { 4_000 }) {
        let request = i % 2 == 0;
        let codec = if request { "rtusrv" } else { "rtucli" };
        let mut s = vec![];
        for _ in 0..rng.range(1, 5) {
            s.extend(gen_rtu_frame(rng, request, None));
        }
        let parts = rng.composition(s.len());
        monitor_line(out, &format!("stream {codec} {}", chunks_tok(&chunk(&s, &parts))));
    }
    // noise that cannot be mistaken for the start of a frame, then a frame
    let alphabet: Vec<u8> = (0..=255u8).filter(|b| non_fc(*b)).collect();
    let frames = if thorough { 2_000 } else { 120 };
    let max_noise = if thorough { 4096 } else { 25 };
    for i in 0..frames {
        let request = i % 2 == 0;
        let codec = if request { "rtusrv" } else { "rtucli" };
        let slave = *rng.pick(&alphabet);
        let frame = gen_rtu_frame(rng, request, Some(slave));
        // long runs too: around the decoder's own bookkeeping limits (20 retries, a record of 256
        // dropped bytes) and their multiples, in both tiers
        let lens: Vec<usize> = if thorough && i % 50 == 0 {
            vec![max_noise, 1000, 257, 256, 255, 100]
        } else if i % 40 == 1 {
            vec![100, 254, 255, 256, 257, 258, 259, 513, 514, 515, 516, 773, 1031]
        } else {
            (0..=25).collect()
        };
        for &n in &lens {
            let noise: Vec<u8> = (0..n).map(|_| *rng.pick(&alphabet)).collect();
            let mut s = noise.clone();
            s.extend(&frame);
            // byte by byte: any amount of noise
            let bytewise: Vec<Vec<u8>> = s.iter().map(|b| vec![*b]).collect();
            monitor_line(out, &format!("stream {codec} {}", chunks_tok(&bytewise)));
            if n <= 25 {
                // one chunk and random chunkings
                monitor_line(out, &format!("stream {codec} {}", chunks_tok(&[s.clone()])));
                for _ in 0..(if thorough { 20 } else { 4 }) {
                    let parts = rng.composition(s.len());
                    monitor_line(out, &format!("stream {codec} {}", chunks_tok(&chunk(&s, &parts))));
                }
            }
        }
    }
    // the length tables themselves
    for fc in 0..=255u8 {
        for bc in [0u8, 1, 2, 7, 0x7F, 0xFF] {
            for len in [0usize, 1, 2, 3, 4, 7, 11, 12] {
                let mut b = vec![0x11, fc, bc, bc, 0, 0, bc, 0, 0, 0, bc, 0];
                b.truncate(len);
                monitor_line(out, &format!("reqlen {}", hex(&b)));
                monitor_line(out, &format!("rsplen {}", hex(&b)));
            }
        }
    }
}

pub fn mon_c11(out: &mut Out, l: &str, r: &str) {
    let t: Vec<&str> = l.split(' ').collect();
    if let ["stream", codec, evs] = t.as_slice() {
        if !codec.starts_with("rtu") {
            return;
        }
        let request = *codec == "rtusrv";
        let pe = parse_events(evs);
        if pe.has_fault {
            return;
        }
        let got = result_tokens(r);
        let render = |frames: &[(u8, Vec<u8>)]| -> Option<Vec<String>> {
            frames
                .iter()
                .map(|(s, pdu)| {
                    let e = if request {
                        render_req_item(&hex8(*s), pdu)
                    } else {
                        render_rsp_item(&hex8(*s), pdu)
                    };
                    // only frames whose PDU the library is specified to accept
                    e.filter(|x| x != "err")
                })
                .collect()
        };
        // (a) a stream of valid frames only
        if let Some(frames) = split_rtu_clean(&pe.data, request) {
            if let Some(mut expect) = render(&frames) {
                expect.push("blocked".into());
                out.check(got == expect, || format!("clean stream not delivered completely and in order: expected {:?} got {:?}", trunc_v(&expect), trunc_v(&got)), l);
            }
            return;
        }
        // (b) noise that cannot be mistaken for a frame start, then one valid frame
        let k = pe.data.iter().take_while(|b| non_fc(**b)).count();
        // the frame's slave id is itself such a byte: try every split point of the prefix
        for cut in (0..=k).rev() {
            if cut == pe.data.len() {
                continue;
            }
            if let Some(frames) = split_rtu_clean(&pe.data[cut..], request) {
                if frames.len() != 1 || !non_fc(frames[0].0) {
                    continue;
                }
                let noise = cut;
                let bytewise = pe.chunks.iter().all(|c| *c <= 1);
                if noise == 0 || !(bytewise || noise <= 16) {
                    return;
                }
                if let Some(mut expect) = render(&frames) {
                    expect.push("blocked".into());
                    out.check(got == expect, || format!("frame after {noise} noise byte(s) not delivered exactly once: expected {:?} got {:?}", trunc_v(&expect), trunc_v(&got)), l);
                }
                return;
            }
        }
    }
}
