//! Random histories over *all* dimensions of the scripted transports at once: operations,
//! request and reply shapes, outcome classes, surplus bytes, fragmentation, pendings, faults of
//! every kind at any point on the read and on the write side, poll budgets.  They are run through
//! the correspondence only (model and implementation must agree on every one of them); the
//! property monitors keep judging the scenarios their own generators build.

use super::*;
use crate::run::{Svc, TypedOp};

fn frame(kind: &str, tid: u16, unit: u8, pdu: &[u8]) -> Vec<u8> {
    if kind == "tcp" {
        spec::mbap(tid, unit, pdu)
    } else {
        spec::rtu_frame(unit, pdu)
    }
}

/// a well-formed PDU, damaged before it is framed (so that the frame around it stays valid):
/// cut at any length down to nothing, grown, one byte overwritten, the function code replaced
/// (any byte, including the exception range), or plain random bytes
pub fn damaged_pdu(rng: &mut Rng, good: &[u8]) -> Vec<u8> {
    let mut p = good.to_vec();
    match rng.below(6) {
        0 => p.truncate(rng.below(good.len().max(1))),
        1 => p.extend(rng.bytes_in(1, 4)),
        2 if !p.is_empty() => {
            let i = rng.below(p.len());
            p[i] = rng.u8();
        }
        3 if !p.is_empty() => {
            // the function code replaced: any byte, often one at the border of the exception range
            p[0] = if rng.bool() { *rng.pick(&[0x00u8, 0x7F, 0x80, 0x81, 0xFF]) } else { rng.u8() };
        }
        4 if p.len() > 1 => {
            // the field that usually carries a count
            let i = if p.len() > 5 && rng.bool() { 5 } else { 1 };
            p[i] = *rng.pick(&[0u8, 1, 0x7D, 0x7E, 0xF6, 0xFA, 0xFB, 0xFC, 0xFF]);
        }
        _ => p = rng.bytes_in(0, 12),
    }
    p.truncate(253);
    p
}

fn emit(out: &mut Out, line: &str) {
    if out.monitored || out.metamorphic {
        monitor_line(out, line);
    } else {
        out.case(line);
    }
}

fn err_tok(rng: &mut Rng) -> String {
    // every kind, including those the library itself produces (InvalidData, InvalidInput, …):
    // a kind must never be taken as proof of where an error came from
    match rng.below(12) {
        0 => "xbp".into(),
        1 => "xnc".into(),
        2 => "xto".into(),
        3 => "xot".into(),
        4 => "xid".into(),
        5 => "xii".into(),
        6 => "xue".into(),
        7 => "xwz".into(),
        _ => format!("xk{}", rng.below(crate::wire::INJECTED.len())),
    }
}

/// the events of one reply: the reply proper (by outcome class), surplus, cut into reads, with
/// pendings and possibly a fault somewhere
fn reply_events(rng: &mut Rng, kind: &str, tid: u16, unit: u8, req: &Request<'_>) -> String {
    let good = spec::response_bytes(&answer_for(rng, req)).unwrap_or_else(|| vec![0x03, 0x02, 0, 1]);
    let fc = spec::request_bytes(req).map_or(3, |b| b[0]);
    let mut data: Vec<u8> = match rng.below(14) {
        0..=3 => frame(kind, tid, unit, &good),
        4 => frame(kind, tid, unit, &[fc | 0x80, rng.exc_code()]),
        5 => frame(kind, tid.wrapping_add(1 + (rng.u16() % 5)), unit, &good),
        6 => frame(kind, tid, unit.wrapping_add(1 + rng.u8() % 254), &good),
        7 => frame(kind, tid, unit, &[(fc % 0x17) + 1, 0x02, 0x00, 0x01]),
        8 => {
            let mut f = frame(kind, tid, unit, &good);
            if kind == "tcp" {
                match rng.below(3) {
                    0 => {
                        let pid = rng.nonzero_be16();
                        f[2] = pid[0];
                        f[3] = pid[1];
                    }
                    1 => {
                        f[4] = 0;
                        f[5] = 0;
                    }
                    _ => f[5] = f[5].wrapping_add(1 + rng.u8() % 3),
                }
            } else {
                let n = f.len();
                f[n - 1] ^= 1 << rng.below(8);
            }
            f
        }
        9 if rng.bool() => frame(kind, tid, unit, &damaged_pdu(rng, &good)),
        9 => {
            // a PDU the decoder must reject: surplus byte, wrong byte count, beyond the limit
            let mut p = good.clone();
            match rng.below(3) {
                0 => p.push(rng.u8()),
                1 if p.len() > 2 => p[1] = p[1].wrapping_add(1),
                _ => {
                    p.truncate(1);
                    p.push(0xFC);
                    p.extend(rng.bytes(252));
                }
            }
            frame(kind, tid, unit, &p)
        }
        10 => rng.bytes_in(1, 40),
        11 => vec![],
        12 => frame(kind, tid, unit, &[fc, rng.u8(), rng.u8()]),
        _ => {
            let k = rng.range(0, 6);
            frame(kind, tid, unit, &[0x41, 1, 2, 3, 4, 5, 6][..=k])
        }
    };
    if rng.chance(1, 4) {
        if rng.bool() {
            data.extend(rng.bytes_in(1, 12));
        } else {
            data.extend(frame(kind, tid.wrapping_sub(1), unit, &good));
        }
    }
    let mut evs: Vec<String> = vec![];
    if !data.is_empty() {
        let head = if kind == "tcp" { 7 } else { 3 };
        let chunks: Vec<Vec<u8>> = match rng.below(5) {
            0 if data.len() > head => vec![data[..head].to_vec(), data[head..].to_vec()],
            1 => {
                let parts = rng.composition(data.len());
                chunk(&data, &parts)
            }
            2 if data.len() <= 24 => data.iter().map(|b| vec![*b]).collect(),
            _ => vec![data],
        };
        for c in chunks {
            if rng.chance(1, 5) {
                evs.push("p".into());
            }
            evs.push(format!("d{}", hex_raw(&c)));
        }
    }
    // a fault somewhere (possibly with more data behind it), or the end of the stream
    match rng.below(10) {
        0 => {
            let at = rng.below(evs.len() + 1);
            evs.insert(at, err_tok(rng));
        }
        1 => {
            let at = rng.below(evs.len() + 1);
            evs.insert(at, "e".into());
        }
        2 => evs.push(if rng.chance(1, 4) { "E" } else { "e" }.into()),
        _ => {}
    }
    if evs.is_empty() {
        "-".into()
    } else {
        evs.join(",")
    }
}

fn write_script(rng: &mut Rng) -> String {
    match rng.below(10) {
        0 => {
            // pieces and pendings
            let mut w = vec![];
            for _ in 0..rng.range(1, 6) {
                if rng.chance(1, 3) {
                    w.push("p".to_string());
                }
                w.push(format!("a{}", rng.range(1, 9)));
            }
            w.push("a300".into());
            format!(" w={}", w.join(","))
        }
        1 => {
            // a fault after some bytes
            let fault = match rng.below(3) {
                0 => "z".to_string(),
                _ => err_tok(rng),
            };
            if rng.bool() {
                format!(" w=a{},{fault}", rng.range(1, 12))
            } else {
                format!(" w={fault}")
            }
        }
        2 => format!(" f={}", *rng.pick(&["p,o", "p,p,o", "o"])),
        3 if rng.bool() => format!(" f={}", err_tok(rng)),
        _ => String::new(),
    }
}

fn typed_op(rng: &mut Rng) -> TypedOp {
    // every so often a boundary size (0, 1, byte boundaries, the protocol maximum and beyond)
    if rng.chance(1, 4) {
        let ops = super::netgen::typed_boundary_ops(rng);
        let i = rng.below(ops.len());
        return ops[i].0.clone();
    }
    if rng.chance(1, 10) {
        return match rng.below(6) {
            0 => TypedOp::Rc(rng.u16(), *rng.pick(&[0u16, 2001, 65528, 65535])),
            1 => TypedOp::Rhr(rng.u16(), *rng.pick(&[0u16, 126, 32768, 65535])),
            2 => { let n = *rng.pick(&[1969usize, 1977, 2000]); TypedOp::Wmc(rng.u16(), rng.bits(n)) }
            3 => { let n = *rng.pick(&[124usize, 125, 200]); TypedOp::Wmr(rng.u16(), rng.words(n)) }
            4 => { let n = *rng.pick(&[0usize, 121, 122]); TypedOp::Rwm(rng.u16(), *rng.pick(&[0u16, 125, 126, 65535]), rng.u16(), rng.words(n)) }
            _ => TypedOp::Rir(rng.u16(), *rng.pick(&[0u16, 125, 126, 65535])),
        };
    }
    match rng.below(10) {
        0 => TypedOp::Rc(rng.u16(), rng.range(0, 40) as u16),
        1 => TypedOp::Rdi(rng.u16(), rng.range(0, 40) as u16),
        2 => TypedOp::Rhr(rng.u16(), rng.range(0, 20) as u16),
        3 => TypedOp::Rir(rng.u16(), rng.range(0, 20) as u16),
        4 => TypedOp::Rwm(rng.u16(), rng.range(0, 20) as u16, rng.u16(), rng.words_in(0, 6)),
        5 => TypedOp::Wsc(rng.u16(), rng.bool()),
        6 => TypedOp::Wsr(rng.u16(), rng.u16()),
        7 => TypedOp::Wmc(rng.u16(), rng.bits_in(0, 30)),
        8 => TypedOp::Wmr(rng.u16(), rng.words_in(0, 10)),
        _ => TypedOp::Mwr(rng.u16(), rng.u16(), rng.u16()),
    }
}

/// random client histories
pub fn gen_cli_histories(out: &mut Out, rng: &mut Rng, n: usize) {
    for i in 0..n {
        let kind = if i % 2 == 0 { "tcp" } else { "rtu" };
        let (slave_tok, mut unit) = if rng.chance(1, 3) {
            ("-".to_string(), if kind == "tcp" { 255u8 } else { 0 })
        } else {
            let u = rng.unit();
            (hex8(u), u)
        };
        let mut line = format!("cli {kind} {slave_tok}");
        let mut tid: u16 = 0;
        // mostly short histories; every twentieth one is long (state that builds up over many
        // operations: ids, buffers, latches)
        let nops = if i % 20 == 7 { rng.range(12, 40) } else { rng.range(1, 7) };
        for _ in 0..nops {
            match rng.below(12) {
                0 => {
                    unit = rng.unit();
                    line.push_str(&format!(" | slave {}", hex8(unit)));
                }
                1 if rng.chance(1, 3) => {
                    let s = match rng.below(4) {
                        0 => String::new(),
                        1 => " s=o".to_string(),
                        2 => " s=p,o".to_string(),
                        _ => format!(" s={}", err_tok(rng)),
                    };
                    line.push_str(&format!(" | disc{s}"));
                }
                2 | 3 => {
                    let t = typed_op(rng);
                    let req = t.request();
                    let r = reply_events(rng, kind, tid, unit, &req);
                    let w = write_script(rng);
                    line.push_str(&format!(" | typed {}{w} r={r}", t.tok()));
                    tid = tid.wrapping_add(1);
                }
                _ => {
                    let req = loop {
                        // now and then a custom code in the exception range: the client sends what it is given
                        if rng.chance(1, 25) {
                            let k = rng.below(6);
                            break Request::Custom(rng.u8() | 0x80, std::borrow::Cow::Owned(rng.bytes(k)));
                        }
                        let r = gen_request(rng, None);
                        if kind == "rtu" && matches!(r, Request::Custom(..)) && rng.chance(3, 4) {
                            continue;
                        }
                        break r;
                    };
                    let r = reply_events(rng, kind, tid, unit, &req);
                    let w = write_script(rng);
                    let b = if rng.chance(1, 4) { format!(" b={}", rng.range(0, 6)) } else { String::new() };
                    let polled = !b.ends_with("b=0");
                    line.push_str(&format!(" | call {}{b}{w} r={r}", request(&req)));
                    if polled {
                        tid = tid.wrapping_add(1);
                    }
                }
            }
        }
        emit(out, &line);
    }
}

/// random server connections
pub fn gen_srv_histories(out: &mut Out, rng: &mut Rng, n: usize) {
    for i in 0..n {
        let kind = if i % 2 == 0 { "tcp" } else { "rtu" };
        let mut data: Vec<u8> = vec![];
        let mut svc: Vec<Svc> = vec![];
        // (every fourth connection: all requests under one and the same header)
        let fixed = if rng.chance(1, 4) { Some((rng.unit(), rng.u16())) } else { None };
        for _ in 0..rng.range(0, 6) {
            let (unit, tid) = fixed.unwrap_or_else(|| (rng.unit(), rng.u16()));
            match rng.below(10) {
                0 => data.extend(rng.bytes_in(1, 20)),
                1 if rng.bool() => {
                    // a damaged request inside a valid frame
                    let good = spec::request_bytes(&gen_request(rng, None)).unwrap_or_else(|| vec![3, 0, 0, 0, 1]);
                    let p = damaged_pdu(rng, &good);
                    data.extend(frame(kind, tid, unit, &p));
                    // (should the library take it for a request, the service has an outcome for it –
                    // an answer, a refusal or nothing)
                    svc.push(match rng.below(3) {
                        0 => Svc::Reply(Response::ReadCoils(vec![true; 8])),
                        1 => Svc::Exception(crate::wire::ex_from_spec(rng.exc_code())),
                        _ => Svc::Decline,
                    });
                }
                1 => {
                    // malformed but framed
                    let mut f = frame(kind, tid, unit, &[0x05, 0, 1, 0x12, 0x34]);
                    if kind == "tcp" && rng.bool() {
                        let pid = rng.nonzero_be16();
                        f[2] = pid[0];
                        f[3] = pid[1];
                    }
                    data.extend(f);
                }
                _ => {
                    let req = loop {
                        let r = gen_request(rng, None);
                        if kind == "rtu" && matches!(r, Request::Custom(..)) {
                            continue;
                        }
                        break r;
                    };
                    let Some(b) = spec::request_bytes(&req) else { continue };
                    if b.len() > 253 {
                        continue;
                    }
                    data.extend(frame(kind, tid, unit, &b));
                    svc.push(match rng.below(8) {
                        0 => Svc::Decline,
                        1 => Svc::Exception(crate::wire::ex_from_spec(rng.exc_code())),
                        2 => Svc::Reply(gen_response(rng, None)),
                        _ => Svc::Reply(answer_for(rng, &req)),
                    });
                }
            }
        }
        let mut evs: Vec<String> = vec![];
        if !data.is_empty() {
            let cut = if rng.chance(1, 4) { rng.below(data.len() + 1) } else { data.len() };
            let data = &data[..cut];
            if !data.is_empty() {
                let chunks = match rng.below(3) {
                    0 => vec![data.to_vec()],
                    _ => {
                        let parts = rng.composition(data.len());
                        chunk(data, &parts)
                    }
                };
                for c in chunks {
                    if rng.chance(1, 6) {
                        evs.push("p".into());
                    }
                    evs.push(format!("d{}", hex_raw(&c)));
                }
            }
        }
        match rng.below(6) {
            0 => evs.push("e".into()),
            1 => evs.push("E".into()),
            2 => {
                let at = rng.below(evs.len() + 1);
                evs.insert(at, err_tok(rng));
            }
            _ => {}
        }
        let w = write_script(rng);
        let ty = if rng.chance(1, 8) { " svcty=req" } else { "" };
        let svc_tok = if svc.is_empty() { "D".to_string() } else { svc.iter().map(Svc::tok).collect::<Vec<_>>().join(",") };
        emit(out, &format!("srv {kind} svc={svc_tok}{ty}{w} r={}", if evs.is_empty() { "-".to_string() } else { evs.join(",") }));
    }
}

/// random byte streams through each of the five stream decoders: valid frames of every kind,
/// damaged ones (flipped bits, cut short, bytes inserted or removed), junk in between, cut into
/// reads at random with pendings, ending open, with the end of the stream or with a read error
pub fn gen_stream_histories(out: &mut Out, rng: &mut Rng, n: usize) {
    let codecs = ["tcpsrv", "tcpcli", "tcpadu", "rtusrv", "rtucli"];
    for i in 0..n {
        let codec = codecs[i % codecs.len()];
        let tcp = codec.starts_with("tcp");
        let server = codec.ends_with("srv");
        let mut data: Vec<u8> = vec![];
        for _ in 0..rng.range(1, 5) {
            let pdu: Vec<u8> = if server || (codec == "tcpadu" && rng.bool()) {
                loop {
                    let r = gen_request(rng, None);
                    if !tcp && matches!(r, Request::Custom(..)) {
                        continue;
                    }
                    if let Some(b) = spec::request_bytes(&r) {
                        if b.len() <= 253 {
                            break b;
                        }
                    }
                }
            } else if rng.chance(1, 5) {
                vec![(rng.u8() % 0x2B + 1) | 0x80, rng.u8()]
            } else {
                loop {
                    let r = gen_response(rng, None);
                    if !tcp && matches!(r, Response::Custom(..)) {
                        continue;
                    }
                    if let Some(b) = spec::response_bytes(&r) {
                        if b.len() <= 253 {
                            break b;
                        }
                    }
                }
            };
            let pdu = if rng.chance(1, 5) { damaged_pdu(rng, &pdu) } else { pdu };
            let unit = if !tcp && rng.bool() { *rng.pick(&[0x00u8, 0x80, 0x41, 0x64]) } else { rng.u8() };
            let mut f = if tcp { spec::mbap(rng.u16(), unit, &pdu) } else { spec::rtu_frame(unit, &pdu) };
            match rng.below(8) {
                0 => {
                    let bit = rng.below(f.len() * 8);
                    f[bit / 8] ^= 1 << (bit % 8);
                }
                1 => {
                    let k = rng.below(f.len());
                    f.truncate(k);
                }
                2 => {
                    let at = rng.below(f.len() + 1);
                    let ins = rng.bytes_in(1, 3);
                    f.splice(at..at, ins);
                }
                3 => {
                    let at = rng.below(f.len());
                    f.remove(at);
                }
                _ => {}
            }
            if rng.chance(1, 4) {
                let junk = if tcp || rng.bool() {
                    rng.bytes_in(1, 12)
                } else {
                    let k = rng.range(1, 24);
                    (0..k).map(|_| *rng.pick(&[0x00u8, 0x80, 0x41, 0x48, 0x64, 0x6E])).collect()
                };
                data.extend(junk);
            }
            data.extend(f);
        }
        let mut evs: Vec<String> = vec![];
        let chunks = match rng.below(4) {
            0 => vec![data.clone()],
            1 if data.len() <= 40 => data.iter().map(|b| vec![*b]).collect(),
            _ => {
                let parts = rng.composition(data.len());
                chunk(&data, &parts)
            }
        };
        for c in chunks {
            if rng.chance(1, 6) {
                evs.push("p".into());
            }
            evs.push(format!("d{}", hex_raw(&c)));
        }
        match rng.below(6) {
            0 | 1 => evs.push("e".into()),
            2 => {
                let at = rng.below(evs.len() + 1);
                evs.insert(at, err_tok(rng));
            }
            _ => {}
        }
        emit(out, &format!("stream {codec} {}", evs.join(",")));
    }
}
