//! C19 (code tables, slave ids), C08 (PDU well-formedness), C03 (robustness of
//! the decoding surfaces), C09 (size limit).

use super::*;

// ================================================================ C19

pub fn gen_c19(out: &mut Out, rng: &mut Rng, thorough: bool) {
    for b in 0..=255u8 {
        monitor_line(out, &format!("fc {}", hex8(b)));
        monitor_line(out, &format!("ex {}", hex8(b)));
        monitor_line(out, &format!("slaved {}", hex8(b)));
    }
    // function code of every request / response variant = first byte of its encoding
    let reps = if thorough { 4000 } else { 400 };
    for _ in 0..reps {
        let r = gen_request(rng, None);
        monitor_line(out, &format!("reqfc {}", request(&r)));
        monitor_line(out, &format!("tcpreq 0000 00 {}", request(&r)));
        let r = gen_response(rng, None);
        monitor_line(out, &format!("rspfc {}", response(&r)));
        monitor_line(out, &format!("tcprsp 0000 00 R={}", response(&r)));
    }
    for fc in 0..=255u8 {
        monitor_line(out, &format!("reqfc CU:{}:-", hex8(fc)));
        monitor_line(out, &format!("rspfc CU:{}:-", hex8(fc)));
        // … and through the real encoders of both transports, for every byte as a custom code
        let n = rng.below(4);
        let d = hex(&rng.bytes(n));
        monitor_line(out, &format!("tcpreq 0000 00 CU:{}:{d}", hex8(fc)));
        monitor_line(out, &format!("rtureq 01 CU:{}:{d}", hex8(fc)));
        monitor_line(out, &format!("tcprsp 0000 00 R=CU:{}:{d}", hex8(fc)));
        monitor_line(out, &format!("rtursp 01 R=CU:{}:{d}", hex8(fc)));
    }
    // every spelling of 0..=65535
    for n in 0..=65535u32 {
        for s in [
            format!("{n}"),
            format!("0x{n:x}"),
            format!("0x{n:X}"),
            format!("0x{n:04x}"),
            format!("{n:06}"),
        ] {
            monitor_line(out, &format!("slave {}", hex_raw(s.as_bytes())));
        }
    }
    // junk strings
    let junk: &[&str] = &[
        "", " ", "0x", "x", "0X10", "-1", "+5", "+", "0x+5", "0x-1", "1 ", " 1", "0b1", "ff", "FF",
        "0xfg", "0x1_0", "1e2", "0x٣", "٣", "256", "0x100", "99999999999999999999999",
        "0xffffffffffffffffffffff", "00000000000000000000000255", "0x00000000000000000000ff",
    ];
    for s in junk {
        monitor_line(out, &format!("slave {}", hex(s.as_bytes())));
    }
    for _ in 0..(if thorough { 20000 } else { 2000 }) {
        let n = rng.range(0, 6);
        let alphabet = b"0123456789abcdefABCDEFxX+- g";
        let s: Vec<u8> = (0..n).map(|_| *rng.pick(alphabet)).collect();
        monitor_line(out, &format!("slave {}", hex(&s)));
    }
}

/// independent reading of a slave id spelling; `None` = the property does not say
/// the public conversions from bytes (`Request` / `Response` / `ExceptionResponse::try_from`):
/// every first byte, with payloads of a few lengths – "the function code reported equals the
/// first byte of the encoding" also for what these conversions build
pub fn gen_c19_conversions(out: &mut Out, rng: &mut Rng, _thorough: bool) {
    for b in 0..=255u8 {
        for len in [0usize, 1, 2, 4, 5, 9] {
            let mut p = vec![b];
            p.extend(rng.bytes(len));
            let h = hex(&p);
            monitor_line(out, &format!("reqdec {h}"));
            monitor_line(out, &format!("rspdec {h}"));
            monitor_line(out, &format!("excdec {h}"));
        }
    }
}

fn slave_oracle(s: &str) -> Option<Option<u8>> {
    let dec = !s.is_empty() && s.bytes().all(|b| b.is_ascii_digit());
    if dec {
        let t = s.trim_start_matches('0');
        if t.len() > 3 {
            return Some(None);
        }
        let v: u32 = if t.is_empty() { 0 } else { t.parse().ok()? };
        return Some(u8::try_from(v).ok());
    }
    if let Some(h) = s.strip_prefix("0x") {
        if !h.is_empty() && h.bytes().all(|b| b.is_ascii_hexdigit()) {
            let t = h.trim_start_matches('0');
            if t.len() > 2 {
                return Some(None);
            }
            let v = if t.is_empty() {
                0
            } else {
                u32::from_str_radix(t, 16).ok()?
            };
            return Some(u8::try_from(v).ok());
        }
    }
    None
}

pub fn mon_c19(out: &mut Out, l: &str, r: &str) {
    let t: Vec<&str> = l.split(' ').collect();
    match t.as_slice() {
        ["fc", b] | ["ex", b] => {
            let table = if t[0] == "fc" {
                spec::SPEC_FUNCTION_CODES
            } else {
                spec::SPEC_EXCEPTION_CODES
            };
            let v = p_u8(b).unwrap();
            let name = table
                .iter()
                .find(|(c, _)| *c == v)
                .map_or("Custom", |(_, n)| n);
            let expect = format!("{name} {}", hex8(v));
            out.check(r == expect, || format!("code table: expected `{expect}` got `{r}`"), l);
        }
        ["reqfc", q] => {
            let req = p_request(q).unwrap();
            let first = spec::request_bytes(&req).map(|b| b[0]);
            if let Some(first) = first {
                let ok = r.ends_with(&format!(" {}", hex8(first)));
                out.check(ok, || format!("function code of request is not its first byte {first:02X}: {r}"), l);
            }
        }
        ["rspfc", q] => {
            let rsp = p_response(q).unwrap();
            if let Some(b) = spec::response_bytes(&rsp) {
                let ok = r.ends_with(&format!(" {}", hex8(b[0])));
                out.check(ok, || format!("function code of response is not its first byte {:02X}: {r}", b[0]), l);
            }
        }
        ["reqdec", bs] | ["rspdec", bs] => {
            // what the public conversion from bytes builds reports the first byte as its function code
            if let Some(tok) = r.strip_prefix("ok ") {
                let bytes = p_bytes(bs).unwrap();
                let fc = if t[0] == "reqdec" {
                    p_request(tok).map(|q| crate::wire::fc_num(q.function_code()))
                } else {
                    p_response(tok).map(|q| crate::wire::fc_num(q.function_code()))
                };
                if let (Some(fc), Some(b0)) = (fc, bytes.first()) {
                    out.check(fc == *b0, || format!("value decoded from a PDU that begins with {b0:02X} reports function code {fc:02X}: {tok}"), l);
                }
            }
        }
        ["tcpreq", _, _, q] => {
            // first PDU byte of the real encoding = function code the library reports
            if let Some(h) = r.strip_prefix("ok ") {
                let bytes = p_bytes(h).unwrap();
                let req = p_request(q).unwrap();
                let fc = req.function_code().value();
                out.check(bytes.len() > 7 && bytes[7] == fc, || format!("first PDU byte differs from function_code() {fc:02X}: {r}"), l);
            }
        }
        ["tcprsp", _, _, q] => {
            if let Some(h) = r.strip_prefix("ok ") {
                let bytes = p_bytes(h).unwrap();
                if let Some(Ok(rsp)) = p_response_result(q) {
                    let fc = rsp.function_code().value();
                    out.check(bytes.len() > 7 && bytes[7] == fc, || format!("first PDU byte differs from function_code() {fc:02X}: {r}"), l);
                }
            }
        }
        ["rtureq", _, q] => {
            if let Some(h) = r.strip_prefix("ok ") {
                let bytes = p_bytes(h).unwrap();
                let req = p_request(q).unwrap();
                let fc = req.function_code().value();
                out.check(bytes.len() > 1 && bytes[1] == fc, || format!("first PDU byte differs from function_code() {fc:02X}: {r}"), l);
            }
        }
        ["rtursp", _, q] => {
            if let Some(h) = r.strip_prefix("ok ") {
                let bytes = p_bytes(h).unwrap();
                if let Some(Ok(rsp)) = p_response_result(q) {
                    let fc = rsp.function_code().value();
                    out.check(bytes.len() > 1 && bytes[1] == fc, || format!("first PDU byte differs from function_code() {fc:02X}: {r}"), l);
                }
            }
        }
        ["slave", s] => {
            let bytes = p_bytes(s).unwrap();
            if let Ok(st) = String::from_utf8(bytes) {
                if let Some(expect) = slave_oracle(&st) {
                    let e = match expect {
                        Some(v) => format!("ok {}", hex8(v)),
                        None => "err".to_string(),
                    };
                    out.check(r == e, || format!("slave id `{st}`: expected `{e}` got `{r}`"), l);
                }
            }
        }
        ["slaved", b] => {
            let v = p_u8(b).unwrap();
            let disp = format!("{} (0x{:02X})", v, v);
            let class = if v == 0 {
                "b1s0r0"
            } else if v <= 247 {
                "b0s1r0"
            } else {
                "b0s0r1"
            };
            let expect = format!("{} {}", hex(disp.as_bytes()), class);
            out.check(r == expect, || format!("display/classification of slave {v}: expected `{expect}` got `{r}`"), l);
        }
        _ => {}
    }
}

// ================================================================ PDU inputs shared by C08 and C03

/// boundary-laden PDUs: every function code × every length 0..=max_len, with count
/// fields that agree and disagree with the length
fn structured_pdus(rng: &mut Rng, max_len: usize, per: usize, f: &mut dyn FnMut(Vec<u8>)) {
    for fc in 0..=255u8 {
        for len in 0..=max_len {
            if len == 0 {
                if fc == 0 {
                    f(vec![]);
                }
                continue;
            }
            for variant in 0..per {
                let mut p = vec![fc];
                p.extend(rng.bytes(len - 1));
                // steer the count / byte-count fields
                let payload = len.saturating_sub(6);
                match (fc, variant) {
                    (0x0F, 0) if len >= 6 => {
                        p[5] = payload.min(255) as u8;
                        let q = (payload * 8).saturating_sub(rng.below(8)).min(65535);
                        p[3] = (q >> 8) as u8;
                        p[4] = q as u8;
                    }
                    (0x0F, 1) if len >= 6 => {
                        p[5] = payload.min(255) as u8;
                        let q = (payload * 8 + 1 + rng.below(9)).min(65535);
                        p[3] = (q >> 8) as u8;
                        p[4] = q as u8;
                    }
                    (0x10, 0) if len >= 6 => {
                        p[5] = payload.min(255) as u8;
                        let q = payload / 2;
                        p[3] = (q >> 8) as u8;
                        p[4] = q as u8;
                    }
                    (0x10, 1) if len >= 6 => {
                        // quantities whose double wraps around u16
                        let q = 0x8000usize + payload / 2;
                        p[5] = payload.min(255) as u8;
                        p[3] = (q >> 8) as u8;
                        p[4] = q as u8;
                    }
                    (0x17, 0) if len >= 10 => {
                        let payload = len - 10;
                        p[9] = payload.min(255) as u8;
                        let q = payload / 2;
                        p[7] = (q >> 8) as u8;
                        p[8] = q as u8;
                    }
                    (0x17, 1) if len >= 10 => {
                        let payload = len - 10;
                        let q = 0x8000usize + payload / 2;
                        p[9] = payload.min(255) as u8;
                        p[7] = (q >> 8) as u8;
                        p[8] = q as u8;
                    }
                    (0x01 | 0x02 | 0x03 | 0x04 | 0x11 | 0x17, 2) if len >= 2 => {
                        // response-style byte count in position 1
                        p[1] = (len - 2).min(255) as u8;
                        if fc == 0x11 && len >= 4 {
                            p[3] = *rng.pick(&[0x00u8, 0xFF, 0x01, 0xFE]);
                        }
                    }
                    (0x05, _) if len >= 5 => {
                        let v = *rng.pick(&[0x0000u16, 0xFF00, 0x00FF, 0xFF01, 0x0001, 0xFFFF]);
                        p[3] = (v >> 8) as u8;
                        p[4] = v as u8;
                    }
                    _ => {}
                }
                f(p);
            }
        }
    }
}

/// the values at which a 16-bit field of a PDU could be treated specially: zero, the limits of
/// the quantities (125, 123, 121, 2000, 1968), byte borders, the sign bit and the last values
/// before the field wraps
const FIELD_BORDERS: &[u16] = &[
    0, 1, 2, 7, 8, 9, 0x79, 0x7A, 0x7B, 0x7C, 0x7D, 0x7E, 0xFF, 0x100, 0x7B0, 0x7B1, 0x7CF, 0x7D0, 0x7D1, 0x7FFF, 0x8000,
    0xFF00, 0xFFF7, 0xFFF8, 0xFFF9, 0xFFFA, 0xFFFB, 0xFFFC, 0xFFFD, 0xFFFE, 0xFFFF,
];

/// every function code that has 16-bit fields × border values in its first two fields (one of
/// them sweeping all borders, the other a few) × what follows: nothing, further fields, a byte
/// count that is zero / right / wrong with a payload that is missing / right / one short
fn field_border_pdus(rng: &mut Rng, f: &mut dyn FnMut(Vec<u8>)) {
    const FCS: &[u8] = &[0x01, 0x02, 0x03, 0x04, 0x05, 0x06, 0x0F, 0x10, 0x14, 0x15, 0x16, 0x17, 0x18, 0x2B, 0x41];
    let few: &[u16] = &[0, 0x10, 0xFFFF];
    for &fc in FCS {
        let mut pairs: Vec<(u16, u16)> = vec![];
        for &a in FIELD_BORDERS {
            for &b in few {
                pairs.push((a, b));
                pairs.push((b, a));
            }
        }
        for (a, b) in pairs {
            let head = vec![fc, (a >> 8) as u8, a as u8, (b >> 8) as u8, b as u8];
            f(head.clone());
            // a byte count and a payload
            let right = match fc {
                0x0F => usize::from(b).div_ceil(8),
                _ => usize::from(b).saturating_mul(2),
            };
            for bc in [0usize, 1, right.min(255), 255] {
                for pl in [0usize, bc, bc.saturating_sub(1)] {
                    let mut p = head.clone();
                    p.push(bc as u8);
                    p.extend(rng.bytes(pl.min(260)));
                    f(p);
                }
            }
            // two further fields (0x16, 0x17) and then a byte count
            let (c, d) = (*rng.pick(FIELD_BORDERS), *rng.pick(FIELD_BORDERS));
            let mut p = head.clone();
            p.extend([(c >> 8) as u8, c as u8]);
            f(p.clone());
            p.extend([(d >> 8) as u8, d as u8]);
            f(p.clone());
            let bc = usize::from(d).saturating_mul(2).min(255);
            p.push(bc as u8);
            p.extend(rng.bytes(bc));
            f(p);
        }
    }
}

fn mutate(rng: &mut Rng, mut p: Vec<u8>) -> Vec<u8> {
    match rng.below(7) {
        0 if !p.is_empty() => {
            let i = rng.below(p.len());
            p[i] ^= 1 << rng.below(8);
        }
        1 if !p.is_empty() => {
            let n = rng.below(p.len());
            p.truncate(n);
        }
        2 => {
            let k = rng.range(1, 4);
            p.extend(rng.bytes(k));
        }
        3 if p.len() > 1 => {
            let i = rng.range(1, (p.len() - 1).min(10));
            p[i] = *rng.pick(&[0u8, 1, 2, 0x7F, 0x80, 0xFE, 0xFF]);
        }
        4 if p.len() > 2 => {
            let i = rng.below(p.len());
            p.remove(i);
        }
        5 if !p.is_empty() => {
            p[0] = rng.u8();
        }
        _ => {}
    }
    p
}

fn pdu_inputs(rng: &mut Rng, thorough: bool, light: bool, f: &mut dyn FnMut(&str, Vec<u8>)) {
    // exhaustive short strings
    f("both", vec![]);
    for a in 0..=255u8 {
        f("both", vec![a]);
        for b in 0..=255u8 {
            f("both", vec![a, b]);
        }
    }
    if thorough {
        // all 3-byte strings whose first byte is a modelled code or a neighbour
        let firsts: Vec<u8> = MODELLED_REQ
            .iter()
            .copied()
            .chain([0x00, 0x07, 0x7F, 0x80, 0x81, 0xFF])
            .collect();
        for a in firsts {
            for b in 0..=255u8 {
                for c in 0..=255u8 {
                    f("both", vec![a, b, c]);
                }
            }
        }
    }
    structured_pdus(rng, if light { 270 } else { 300 }, if light { 1 } else { 3 }, &mut |p| f("both", p));
    field_border_pdus(rng, &mut |p| f("both", p));
    // valid PDUs and mutations of them
    let n = if thorough { 300_000 } else if light { 8_000 } else { 30_000 };
    for _ in 0..n {
        let req = gen_request(rng, None);
        if let Some(b) = spec::request_bytes(&req) {
            if rng.chance(1, 3) {
                f("req", b);
            } else {
                let m = mutate(rng, b);
                f("req", m);
            }
        }
        let rsp = gen_response(rng, None);
        if let Some(b) = spec::response_bytes(&rsp) {
            if rng.chance(1, 3) {
                f("rsp", b);
            } else {
                let m = mutate(rng, b);
                f("rsp", m);
            }
        }
        if rng.chance(1, 10) {
            let k = rng.range(0, 6);
            let mut e = vec![rng.u8() | 0x80];
            e.extend(rng.bytes(k));
            f("exc", e);
        }
        if rng.chance(1, 10) {
            let k = rng.range(0, 320);
            f("both", rng.bytes(k));
        }
    }
}

// ================================================================ C08

pub fn gen_c08(out: &mut Out, rng: &mut Rng, thorough: bool) {
    pdu_inputs(rng, thorough, false, &mut |which, p| {
        let h = hex(&p);
        if which == "both" || which == "req" {
            monitor_line(out, &format!("reqdec {h}"));
        }
        if which == "both" || which == "rsp" {
            monitor_line(out, &format!("rspdec {h}"));
        }
        if which == "exc" || (which == "both" && p.len() <= 2) {
            monitor_line(out, &format!("excdec {h}"));
        }
    });
}

/// the same classification through the *framed* paths: what the TCP and RTU codecs of server
/// and client make of a frame that carries the PDU – long PDUs (around and beyond the limit of
/// 253 bytes, which only a frame can carry) and a sample of the others
pub fn gen_c08_framed(out: &mut Out, rng: &mut Rng, thorough: bool) {
    let mut n = 0usize;
    let every = if thorough { 3 } else { 40 };
    let mut lines: Vec<String> = vec![];
    pdu_inputs(rng, false, true, &mut |which, p| {
        n += 1;
        let long = p.len() >= 250;
        if !(long || n % every == 0) || p.is_empty() || p.len() > 300 {
            return;
        }
        let f = spec::mbap(n as u16, (n % 251) as u8, &p);
        if which == "both" || which == "req" {
            lines.push(format!("stream tcpsrv d{}", hex_raw(&f)));
        }
        if which == "both" || which == "rsp" || which == "exc" {
            lines.push(format!("stream tcpcli d{}", hex_raw(&f)));
        }
    });
    // the longest frames the MBAP length field of one byte above the limit can announce, filled
    // for the variable-size requests so that the byte count is right and surplus bytes follow
    for total in 250..=262usize {
        for fc in [0x0Fu8, 0x10, 0x17, 0x41, 0x07] {
            let mut p = vec![fc];
            match fc {
                0x0F => {
                    let bc = (total.saturating_sub(6)).min(247);
                    p.extend([0, 0, ((bc * 8) >> 8) as u8, (bc * 8) as u8, bc as u8]);
                }
                0x10 => {
                    let bc = (total.saturating_sub(6)).min(246) & !1;
                    p.extend([0, 0, 0, (bc / 2) as u8, bc as u8]);
                }
                0x17 => {
                    let bc = (total.saturating_sub(10)).min(242) & !1;
                    p.extend([0, 0, 0, 1, 0, 0, 0, (bc / 2) as u8, bc as u8]);
                }
                _ => {}
            }
            while p.len() < total {
                p.push(rng.u8());
            }
            let f = spec::mbap(rng.u16(), rng.unit(), &p);
            lines.push(format!("stream tcpsrv d{}", hex_raw(&f)));
        }
    }
    for l in lines {
        monitor_line(out, &l);
    }
}

fn small_hash(b: &[u8]) -> u64 {
    b.iter()
        .fold(0xcbf29ce484222325u64, |a, x| (a ^ u64::from(*x)).wrapping_mul(0x100000001b3))
}

pub fn mon_c08(out: &mut Out, l: &str, r: &str) {
    let t: Vec<&str> = l.split(' ').collect();
    match t.as_slice() {
        ["reqdec", h] => {
            let b = p_bytes(h).unwrap();
            if let Some(expect) = classify_req_tok(&b) {
                judge_decode(out, l, r, &expect);
            }
            out.check(r != "panic", || "request decoder panicked".into(), l);
            if let Some(v) = r.strip_prefix("ok ") {
                let req = p_request(v).unwrap();
                // whatever is accepted re-encodes to a PDU that decodes to the same value
                let (_, enc) = out.case(&format!("tcpreq 0000 00 {v}"));
                if let Some(eh) = enc.strip_prefix("ok ") {
                    let frame = p_bytes(eh).unwrap();
                    let (l2, again) = out.case(&format!("reqdec {}", hex(&frame[7..])));
                    out.check(again == r, || format!("re-encoded request decodes to `{again}` instead of `{r}`"), &l2);
                } else {
                    let big = spec::request_bytes(&req).is_none_or(|x| x.len() > 253);
                    out.check(big && enc == "err:ii", || format!("accepted request does not re-encode: {enc}"), l);
                }
                // no accepted standard PDU is a proper prefix of another
                if MODELLED_REQ.contains(&b[0]) {
                    let mut ext = b.clone();
                    let hsh = small_hash(&b);
                    ext.push(hsh as u8);
                    if hsh & 0x100 != 0 {
                        ext.push((hsh >> 16) as u8);
                    }
                    let (l2, r2) = out.case(&format!("reqdec {}", hex(&ext)));
                    out.check(r2.starts_with("err"), || format!("accepted PDU extended by trailing bytes is accepted too: {r2}"), &l2);
                }
            }
        }
        ["rspdec", h] => {
            let b = p_bytes(h).unwrap();
            if let Some(expect) = classify_rsp_tok(&b) {
                judge_decode(out, l, r, &expect);
            }
            out.check(r != "panic", || "response decoder panicked".into(), l);
            if let Some(v) = r.strip_prefix("ok ") {
                let rsp = p_response(v).unwrap();
                if b[0] < 0x80 {
                    let (_, enc) = out.case(&format!("tcprsp 0000 00 R={v}"));
                    if let Some(eh) = enc.strip_prefix("ok ") {
                        let frame = p_bytes(eh).unwrap();
                        let (l2, again) = out.case(&format!("rspdec {}", hex(&frame[7..])));
                        out.check(again == r, || format!("re-encoded response decodes to `{again}` instead of `{r}`"), &l2);
                    } else {
                        let big = spec::response_bytes(&rsp).is_none_or(|x| x.len() > 253);
                        out.check(big && enc == "err:ii", || format!("accepted response does not re-encode: {enc}"), l);
                    }
                }
                if MODELLED_RSP.contains(&b[0]) {
                    let mut ext = b.clone();
                    let hsh = small_hash(&b);
                    ext.push(hsh as u8);
                    if hsh & 0x100 != 0 {
                        ext.push((hsh >> 16) as u8);
                    }
                    let (l2, r2) = out.case(&format!("rspdec {}", hex(&ext)));
                    out.check(r2.starts_with("err"), || format!("accepted PDU extended by trailing bytes is accepted too: {r2}"), &l2);
                }
            }
        }
        ["excdec", h] => {
            let b = p_bytes(h).unwrap();
            out.check(r != "panic", || "exception decoder panicked".into(), l);
            // exception PDU: code byte >= 0x80 followed by the exception code
            if b.len() >= 2 && b[0] >= 0x80 {
                let expect = format!("ok {}:{}", hex8(b[0] - 0x80), hex8(b[1]));
                out.check(r == expect, || format!("exception PDU: expected `{expect}` got `{r}`"), l);
                // re-encode
                let (_, enc) = out.case(&format!("tcprsp 0000 00 E={}:{}", hex8(b[0] - 0x80), hex8(b[1])));
                if let Some(eh) = enc.strip_prefix("ok ") {
                    let frame = p_bytes(eh).unwrap();
                    out.check(frame[7..] == b[..2], || format!("exception re-encodes to {}", hex(&frame[7..])), l);
                } else {
                    out.check(false, || format!("exception does not re-encode: {enc}"), l);
                }
            } else {
                out.check(r.starts_with("err"), || format!("malformed exception PDU accepted: {r}"), l);
            }
        }
        _ => {}
    }
}

fn judge_decode(out: &mut Out, l: &str, r: &str, expect: &str) {
    if expect == "err" {
        out.check(r.starts_with("err"), || format!("ill-formed PDU is not rejected: {r}"), l);
    } else {
        out.check(r == expect, || format!("well-formed PDU: expected `{expect}` got `{r}`"), l);
    }
}

// ================================================================ C03 (decoding surfaces)

/// "one maximal frame" per surface (see DESIGN.md §6 C03)
pub const BUF_BOUND_RTU_REQ: usize = 268;
pub const BUF_BOUND_WIDE: usize = 65541;

fn junk_stream(rng: &mut Rng, len: usize) -> Vec<u8> {
    // junk that keeps the length inference busy: plausible function codes and small byte counts
    (0..len)
        .map(|_| match rng.below(5) {
            0 => *rng.pick(MODELLED_REQ),
            1 => rng.below(8) as u8,
            2 => *rng.pick(&[0x07u8, 0x0B, 0x0C, 0x18, 0x81, 0x83, 0xAB, 0x00, 0xFF]),
            _ => rng.u8(),
        })
        .collect()
}

pub fn gen_c03(out: &mut Out, rng: &mut Rng, thorough: bool) {
    // the three PDU surfaces
    pdu_inputs(rng, thorough, !thorough, &mut |which, p| {
        let h = hex(&p);
        if which == "both" || which == "req" {
            monitor_line(out, &format!("reqdec {h}"));
        }
        if which == "both" || which == "rsp" {
            monitor_line(out, &format!("rspdec {h}"));
        }
        if which == "exc" || (which == "both" && (p.len() <= 3 || p.len() % 16 == 0)) {
            monitor_line(out, &format!("excdec {h}"));
        }
        if p.len() <= 12 {
            monitor_line(out, &format!("reqlen {h}"));
            monitor_line(out, &format!("rsplen {h}"));
        }
    });
    // the stream surfaces under junk, random chunkings, eof / error tails
    let codecs = ["tcpsrv", "tcpcli", "tcpadu", "rtusrv", "rtucli"];
    let n = if thorough { 40_000 } else { 4_000 };
    for i in 0..n {
        let len = match rng.below(6) {
            0 => rng.range(0, 8),
            1 => rng.range(0, 40),
            2 => rng.range(200, 600),
            _ => rng.range(0, 120),
        };
        let mut data = junk_stream(rng, len);
        if rng.chance(1, 3) {
            // embed something that looks like a frame with a large length field
            let mut hdr = vec![rng.u8(), rng.u8(), 0, 0, rng.u8(), rng.u8(), rng.u8()];
            if rng.bool() {
                hdr[4] = *rng.pick(&[0u8, 0, 1, 0xFF]);
            }
            let at = rng.below(data.len() + 1);
            data.splice(at..at, hdr);
        }
        let parts = rng.composition(data.len());
        let mut evs = chunks_tok(&chunk(&data, &parts));
        match rng.below(4) {
            0 => evs.push_str(if evs.is_empty() { "e" } else { ",e" }),
            1 => evs.push_str(if evs.is_empty() { "xk1" } else { ",xk1" }),
            _ => {}
        }
        let codec = codecs[i % codecs.len()];
        monitor_line(out, &format!("stream {codec} {evs}"));
    }
    // junk that dribbles in: more than a maximal frame of it, a few bytes per read, so that no
    // single decode call runs out of retries – whatever the decoder keeps must stay bounded
    for i in 0..(if thorough { 400 } else { 40 }) {
        let total = rng.range(300, if thorough { 6000 } else { 1500 });
        // half of them bytes that are never a function code: each is dropped as soon as the next
        // one arrives, so a decode call never sees more than one read's worth of them
        let data = if i % 4 < 2 {
            const NON_FC: &[u8] = &[0x00, 0x80, 0x41, 0x44, 0x48, 0x64, 0x6A, 0x6E];
            (0..total).map(|_| *rng.pick(NON_FC)).collect::<Vec<u8>>()
        } else {
            junk_stream(rng, total)
        };
        let mut chunks = vec![];
        let mut at = 0;
        let piece = rng.range(1, 19);
        while at < data.len() {
            let k = if rng.bool() { piece } else { rng.range(1, 19) }.min(data.len() - at);
            chunks.push(data[at..at + k].to_vec());
            at += k;
        }
        let codec = ["rtusrv", "rtucli"][i % 2];
        monitor_line(out, &format!("stream {codec} {}", chunks_tok(&chunks)));
    }
    // the client surfaces: what a peer's reply can do to a caller of the typed API and of `call`
    {
        let unit = rng.unit();
        let head = format!("cli tcp {}", hex8(unit));
        super::client::illformed_typed_replies(out, rng, &head, "tcp", unit, if thorough { 300 } else { 40 });
        for _ in 0..(if thorough { 3000 } else { 300 }) {
            let req = gen_request(rng, Some(2));
            let len = rng.range(0, 40);
            let data = junk_stream(rng, len);
            monitor_line(out, &format!("{head} | call {} r=d{},e", request(&req), hex_raw(&data)));
        }
    }
    // sustained junk through each stream decoder (soak): many kilobytes in one case
    let soaks = if thorough { 20 } else { 5 };
    for i in 0..soaks {
        // (the model's buffer is a list: its cost grows with the square of the stream length)
        let total = if thorough { 80_000 } else { 40_000 };
        let data = junk_stream(rng, total);
        let mut chunks = vec![];
        let mut at = 0;
        while at < data.len() {
            let k = rng.range(1, 700).min(data.len() - at);
            chunks.push(data[at..at + k].to_vec());
            at += k;
        }
        let codec = codecs[i % codecs.len()];
        monitor_line(out, &format!("stream {codec} {}", chunks_tok(&chunks)));
    }
    // pure line noise (bytes that are never function codes) in large reads: the decoders must
    // keep discarding, never accumulate
    for (i, total) in [300usize, 3_000, 30_000, 80_000, 80_000].iter().enumerate() {
        let codec = if i % 2 == 0 { "rtusrv" } else { "rtucli" };
        let data: Vec<u8> = (0..*total).map(|_| *rng.pick(&[0x00u8, 0x80, 0x41, 0x48, 0x64, 0x6E])).collect();
        let mut chunks = vec![];
        let mut at = 0;
        while at < data.len() {
            let k = rng.range(50, 700).min(data.len() - at);
            chunks.push(data[at..at + k].to_vec());
            at += k;
        }
        monitor_line(out, &format!("stream {codec} {}", chunks_tok(&chunks)));
    }
    // client calls fed arbitrary reply bytes, server connections fed arbitrary request bytes
    let n = if thorough { 20_000 } else { 2_000 };
    for i in 0..n {
        let len = rng.range(0, 80);
        let data = junk_stream(rng, len);
        let parts = rng.composition(data.len());
        let evs = chunks_tok(&chunk(&data, &parts));
        let kind = if i % 2 == 0 { "tcp" } else { "rtu" };
        let hint = rng.below(5);
        let req = gen_request(rng, Some(hint));
        let tail = *rng.pick(&["", ",e", ",xk1", ",p", ",E"]);
        let r = format!("{evs}{tail}");
        let r = r.trim_start_matches(',');
        monitor_line(out, &format!("cli {kind} - | call {} r={r} | call RSI r={r}", request(&req)));
        monitor_line(out, &format!("srv {kind} svc=R=RC:1,X=02,D,R=RSI:01:1:AA r={r}"));
    }
    // every byte as the function code of a request, whatever the service then does with it
    // (answers, refuses with an exception, declines): the connection task must not panic
    for kind in ["tcp", "rtu"] {
        for fc in 0..=255u8 {
            for svc in ["R=RC:1", "X=02", "X=0B", "D"] {
                let body = rng.bytes_in(0, 5);
                let mut pdu = vec![fc];
                pdu.extend(&body);
                let f = if kind == "tcp" { spec::mbap(rng.u16(), rng.unit(), &pdu) } else { spec::rtu_frame(rng.unit(), &pdu) };
                monitor_line(out, &format!("srv {kind} svc={svc} r=d{}", hex_raw(&f)));
            }
        }
    }
    // a validly framed but damaged reply / request and then the peer closes for good (every
    // further read reports the end of the stream): the call / the connection task must end
    for i in 0..(if thorough { 6_000 } else { 600 }) {
        let kind = if i % 2 == 0 { "tcp" } else { "rtu" };
        let hint = rng.below(5);
        let req = gen_request(rng, Some(hint));
        let unit = rng.unit();
        let good = spec::response_bytes(&answer_for(rng, &req)).unwrap_or_else(|| vec![3, 2, 0, 1]);
        let bad = super::universal::damaged_pdu(rng, &good);
        let f = if kind == "tcp" { spec::mbap(0, unit, &bad) } else { spec::rtu_frame(unit, &bad) };
        let parts = rng.composition(f.len());
        let evs = chunks_tok(&chunk(&f, &parts));
        monitor_line(out, &format!("cli {kind} {} | call {} r={evs},E | call RSI", hex8(unit), request(&req)));
        let goodq = spec::request_bytes(&req).unwrap_or_else(|| vec![3, 0, 0, 0, 1]);
        let badq = super::universal::damaged_pdu(rng, &goodq);
        let f = if kind == "tcp" { spec::mbap(rng.u16(), unit, &badq) } else { spec::rtu_frame(unit, &badq) };
        let parts = rng.composition(f.len());
        monitor_line(out, &format!("srv {kind} svc=R=RC:1,X=02 r={},E", chunks_tok(&chunk(&f, &parts))));
    }
}

pub fn mon_c03(out: &mut Out, l: &str, r: &str) {
    out.check(!r.contains("panic"), || format!("panic: {r}"), l);
    out.check(!r.contains("fuel"), || "decoder did not terminate within its step bound".into(), l);
    if let Some(rest) = l.strip_prefix("stream ") {
        let codec = rest.split(' ').next().unwrap_or("");
        let tail = r.rsplit(" ; buf ").next().unwrap_or("");
        let mut tf = tail.split(" ; dropped ");
        let buf = tf.next().and_then(|s| s.parse::<usize>().ok());
        if let Some(d) = tf.next().and_then(|s| s.parse::<usize>().ok()) {
            // the frame decoder's record of dropped bytes is part of what a connection holds
            out.check(d <= 256, || format!("{codec} remembers {d} dropped bytes (bound 256)"), l);
        }
        if let Some(b) = buf {
            let bound = if codec == "rtusrv" {
                BUF_BOUND_RTU_REQ
            } else {
                BUF_BOUND_WIDE
            };
            // a decoder that is *waiting* must not hold a whole maximal frame or more
            if r.contains("blocked") {
                out.check(b < bound, || format!("{codec} buffers {b} bytes while waiting (bound {bound})"), l);
            }
        }
    }
}

// ================================================================ C09

pub fn gen_c09(out: &mut Out, rng: &mut Rng, thorough: bool) {
    let max = if thorough { 5000 } else { 600 };
    let far: &[usize] = &[4096, 8191, 8192, 20000, 65535, 65536, 65537, 70000];
    let mut lens: Vec<usize> = (0..=max).collect();
    lens.extend(far);
    for &n in &lens {
        // requests
        let reqs: Vec<Request<'static>> = vec![
            Request::WriteMultipleCoils(rng.u16(), Cow::Owned(rng.bits(n))),
            Request::WriteMultipleRegisters(rng.u16(), Cow::Owned(rng.words(n))),
            Request::ReadWriteMultipleRegisters(rng.u16(), rng.u16(), rng.u16(), Cow::Owned(rng.words(n))),
            Request::Custom(gen_custom_fc(rng), Cow::Owned(rng.bytes(n))),
        ];
        // coil vectors are 8x longer at the same PDU size: cover their boundary too
        let coil_extra = if n <= 600 {
            vec![Request::WriteMultipleCoils(rng.u16(), Cow::Owned(rng.bits_in(n * 8, n * 8 + 7)))]
        } else {
            vec![]
        };
        for r in reqs.iter().chain(coil_extra.iter()) {
            let t = request(r);
            monitor_line(out, &format!("tcpreq {} {} {t}", hex16(rng.u16()), hex8(rng.u8())));
            monitor_line(out, &format!("rtureq {} {t}", hex8(rng.u8())));
        }
        let rsps: Vec<Response> = vec![
            Response::ReadCoils(rng.bits(n)),
            Response::ReadDiscreteInputs(rng.bits_in(n * 8, n * 8 + 7)),
            Response::ReadHoldingRegisters(rng.words(n)),
            Response::ReadInputRegisters(rng.words(n)),
            Response::ReadWriteMultipleRegisters(rng.words(n)),
            Response::ReportServerId(rng.u8(), rng.bool(), rng.bytes(n)),
            Response::Custom(gen_custom_fc(rng), Bytes::from(rng.bytes(n))),
        ];
        for r in &rsps {
            if n > 8192 && matches!(r, Response::ReadDiscreteInputs(_)) {
                continue;
            }
            let t = response(r);
            monitor_line(out, &format!("tcprsp {} {} R={t}", hex16(rng.u16()), hex8(rng.u8())));
            monitor_line(out, &format!("rtursp {} R={t}", hex8(rng.u8())));
        }
    }
    // `Custom` under EVERY function code – the named ones included, whose other variants have a
    // fixed size – at the sizes around the limit
    for fc in 0..=0x7Fu8 {
        for n in [0usize, 4, 251, 252, 253, 254, 300] {
            let t = request(&Request::Custom(fc, Cow::Owned(rng.bytes(n))));
            monitor_line(out, &format!("tcpreq {} {} {t}", hex16(rng.u16()), hex8(rng.u8())));
            monitor_line(out, &format!("rtureq {} {t}", hex8(rng.u8())));
            let t = response(&Response::Custom(fc, Bytes::from(rng.bytes(n))));
            monitor_line(out, &format!("tcprsp {} {} R={t}", hex16(rng.u16()), hex8(rng.u8())));
            monitor_line(out, &format!("rtursp {} R={t}", hex8(rng.u8())));
        }
    }
    // fixed-size variants and exceptions go out intact as well
    for _ in 0..(if thorough { 20000 } else { 2000 }) {
        let r = gen_request(rng, None);
        monitor_line(out, &format!("tcpreq {} {} {}", hex16(rng.u16()), hex8(rng.u8()), request(&r)));
        monitor_line(out, &format!("rtureq {} {}", hex8(rng.u8()), request(&r)));
        let r = gen_response(rng, None);
        monitor_line(out, &format!("tcprsp {} {} R={}", hex16(rng.u16()), hex8(rng.u8()), response(&r)));
        monitor_line(out, &format!("rtursp {} R={}", hex8(rng.u8()), response(&r)));
        let fc = rng.u8() & 0x7F;
        monitor_line(out, &format!("tcprsp {} {} E={}:{}", hex16(rng.u16()), hex8(rng.u8()), hex8(fc), hex8(rng.u8())));
        monitor_line(out, &format!("rtursp {} E={}:{}", hex8(rng.u8()), hex8(fc), hex8(rng.u8())));
    }
    // an oversized call writes nothing and leaves the client usable; an oversized
    // service response is never written and ends the connection with an error
    for i in 0..(if thorough { 3000 } else { 300 }) {
        let kind = if i % 2 == 0 { "tcp" } else { "rtu" };
        let over = match rng.below(4) {
            0 => Request::WriteMultipleRegisters(rng.u16(), Cow::Owned(rng.words_in(124, 400))),
            1 => Request::WriteMultipleCoils(rng.u16(), Cow::Owned(rng.bits_in(1977, 4000))),
            2 => Request::ReadWriteMultipleRegisters(1, 1, 1, Cow::Owned(rng.words_in(122, 300))),
            _ => Request::Custom(gen_custom_fc(rng), Cow::Owned(rng.bytes_in(253, 600))),
        };
        let good = Request::ReadHoldingRegisters(rng.u16(), 1);
        let slave = rng.unit();
        let w = *rng.pick(&["", " w=a1,a2,p,a3"]);
        // the reply to the good request: tid is 1 after one consumed id over TCP
        let reply_pdu = spec::response_bytes(&Response::ReadHoldingRegisters(vec![0xBEEF])).unwrap();
        let reply = if kind == "tcp" {
            spec::mbap(1, slave, &reply_pdu)
        } else {
            spec::rtu_frame(slave, &reply_pdu)
        };
        monitor_line(
            out,
            &format!(
                "cli {kind} {} | call {}{w} | call {} r=d{}",
                hex8(slave),
                request(&over),
                request(&good),
                hex_raw(&reply)
            ),
        );
        // the typed write methods around the limit (the quantity the method is given, not a
        // ready-made request)
        if i < 24 {
            let a = rng.u16();
            let op = match i / 2 {
                0 => crate::run::TypedOp::Wmc(a, rng.bits(1968)),
                1 => crate::run::TypedOp::Wmc(a, rng.bits(1969)),
                2 => crate::run::TypedOp::Wmc(a, rng.bits(1976)),
                3 => crate::run::TypedOp::Wmc(a, rng.bits(1977)),
                4 => crate::run::TypedOp::Wmc(a, rng.bits(2000)),
                5 => crate::run::TypedOp::Wmr(a, rng.words(123)),
                6 => crate::run::TypedOp::Wmr(a, rng.words(124)),
                7 => crate::run::TypedOp::Rwm(a, 1, a, rng.words(121)),
                8 => crate::run::TypedOp::Rwm(a, 1, a, rng.words(122)),
                9 => crate::run::TypedOp::Wmc(a, rng.bits(1)),
                10 => crate::run::TypedOp::Wmr(a, rng.words(1)),
                _ => crate::run::TypedOp::Rwm(a, 125, a, rng.words(1)),
            };
            monitor_line(out, &format!("cli {kind} {} | typed {}", hex8(slave), op.tok()));
        }
        // server side
        let big = match rng.below(3) {
            0 => Response::ReadHoldingRegisters(rng.words_in(126, 300)),
            1 => Response::ReadCoils(rng.bits_in(2009, 4000)),
            _ => Response::Custom(gen_custom_fc(rng), Bytes::from(rng.bytes_in(253, 500))),
        };
        let req_pdu = spec::request_bytes(&Request::ReadHoldingRegisters(0, 1)).unwrap();
        let frame = if kind == "tcp" {
            spec::mbap(rng.u16(), slave, &req_pdu)
        } else {
            spec::rtu_frame(slave, &req_pdu)
        };
        let mut two = frame.clone();
        two.extend(&frame);
        monitor_line(
            out,
            &format!("srv {kind} svc=R={},R=RHR:0001 r=d{}", response(&big), hex_raw(&two)),
        );
    }
}

pub fn mon_c09(out: &mut Out, l: &str, r: &str) {
    let t: Vec<&str> = l.split(' ').collect();
    let judge = |out: &mut Out, pdu: Option<Vec<u8>>, frame: &dyn Fn(&[u8]) -> Vec<u8>| match pdu {
        Some(p) if p.len() <= 253 => {
            let expect = format!("ok {}", hex(&frame(&p)));
            out.check(r == expect, || format!("PDU of {} bytes not transmitted intact: expected `{}` got `{}`", p.len(), trunc(&expect), trunc(r)), l);
        }
        _ => {
            out.check(r == "err:ii", || format!("oversized PDU not refused with InvalidInput before writing: `{}`", trunc(r)), l);
        }
    };
    match t.as_slice() {
        ["tcpreq", tid, u, q] => {
            let (tid, u) = (p_u16(tid).unwrap(), p_u8(u).unwrap());
            judge(out, spec::request_bytes(&p_request(q).unwrap()), &|p| spec::mbap(tid, u, p));
        }
        ["rtureq", u, q] => {
            let u = p_u8(u).unwrap();
            judge(out, spec::request_bytes(&p_request(q).unwrap()), &|p| spec::rtu_frame(u, p));
        }
        ["tcprsp", tid, u, q] => {
            let (tid, u) = (p_u16(tid).unwrap(), p_u8(u).unwrap());
            let pdu = match p_response_result(q).unwrap() {
                Ok(rsp) => spec::response_bytes(&rsp),
                Err(e) => Some(vec![crate::wire::fc_num(e.function) | 0x80, crate::wire::ex_num(e.exception)]),
            };
            judge(out, pdu, &|p| spec::mbap(tid, u, p));
        }
        ["rtursp", u, q] => {
            let u = p_u8(u).unwrap();
            let pdu = match p_response_result(q).unwrap() {
                Ok(rsp) => spec::response_bytes(&rsp),
                Err(e) => Some(vec![crate::wire::fc_num(e.function) | 0x80, crate::wire::ex_num(e.exception)]),
            };
            judge(out, pdu, &|p| spec::rtu_frame(u, p));
        }
        ["cli", kind, unit, "|", "typed", top, ..] => {
            // a typed write at / around the limit: up to 253 bytes it goes out intact, beyond it is
            // refused with InvalidInput and nothing is written
            let Some(op) = crate::run::TypedOp::parse(top) else { return };
            let Some(pdu) = spec::request_bytes(&op.request()) else { return };
            let u = p_u8(unit).unwrap_or(0);
            let got = parts(r)[0];
            if pdu.len() > 253 {
                out.check(got == "tr:ii w=- sd=0", || format!("oversized typed call: expected InvalidInput and no write, got `{}`", trunc(got)), l);
            } else {
                let f = if *kind == "tcp" { spec::mbap(0, u, &pdu) } else { spec::rtu_frame(u, &pdu) };
                let want = format!(" w={} ", hex(&f));
                out.check(got.contains(&want), || format!("typed request of {} bytes was not transmitted intact: `{}`", pdu.len(), trunc(got)), l);
            }
        }
        ["cli", ..] => {
            let ps = parts(r);
            if ps.len() == 2 {
                out.check(ps[0] == "tr:ii w=- sd=0", || format!("oversized call: expected InvalidInput and no write, got `{}`", trunc(ps[0])), l);
                out.check(ps[1].starts_with("ok RHR:BEEF "), || format!("call after an oversized call does not succeed: `{}`", trunc(ps[1])), l);
                // … and goes out intact: exactly its own frame, nothing of the refused request
                // in front of it
                let ops: Vec<&str> = l.split(" | ").collect();
                if let (Some(kind), Some(unit), Some(op2)) = (t.get(1), t.get(2).and_then(|u| p_u8(u)), ops.get(2)) {
                    let f2: Vec<&str> = op2.split(' ').collect();
                    if let Some(pdu) = f2.get(1).and_then(|q| p_request(q)).and_then(|q| spec::request_bytes(&q)) {
                        let want = if *kind == "tcp" { spec::mbap(1, unit, &pdu) } else { spec::rtu_frame(unit, &pdu) };
                        let got = super::client::written(ps[1]);
                        out.check(got == want, || format!("the request after a refused one did not go out intact: wrote {} expected {}", hex(&got), hex(&want)), l);
                    }
                }
            }
        }
        ["srv", ..] => {
            let ps = parts(r);
            out.check(ps.iter().all(|p| !p.starts_with("write")), || format!("oversized response written: `{}`", trunc(r)), l);
            out.check(ps.last() == Some(&"end failed:ii"), || format!("oversized response does not end the connection with an InvalidInput report: `{}`", trunc(r)), l);
            out.check(ps.iter().filter(|p| p.starts_with("call")).count() == 1, || "requests after the failed one were served".into(), l);
        }
        _ => {}
    }
}

pub fn trunc(s: &str) -> String {
    if s.len() > 160 {
        format!("{}…", &s[..160])
    } else {
        s.to_string()
    }
}
