//! Server-side properties: C07 (one reply per request, in order, own header),
//! C14 (how a connection ends).

use super::stream::{parse_events, split_rtu_clean};
use super::*;
use crate::run::Svc;
use crate::spec::MbapItem;

fn frame(kind: &str, tid: u16, unit: u8, pdu: &[u8]) -> Vec<u8> {
    if kind == "tcp" {
        spec::mbap(tid, unit, pdu)
    } else {
        spec::rtu_frame(unit, pdu)
    }
}

/// a request the server of this kind can receive and decode
fn srv_request(rng: &mut Rng, kind: &str) -> Request<'static> {
    loop {
        let r = gen_request(rng, None);
        if spec::request_bytes(&r).is_none_or(|b| b.len() > 253) {
            continue;
        }
        if let Request::Custom(fc, _) = &r {
            if kind == "rtu" {
                let fc = *rng.pick(&[0x07u8, 0x0B, 0x0C, 0x18]);
                return Request::Custom(fc, Cow::Owned(if fc == 0x18 { rng.bytes(2) } else { vec![] }));
            }
            if MODELLED_REQ.contains(fc) {
                continue;
            }
        }
        return r;
    }
}

fn gen_outcome(rng: &mut Rng, req: &Request<'_>) -> Svc {
    match rng.below(6) {
        0 => Svc::Decline,
        1 => Svc::Exception(crate::wire::ex_from_spec(rng.exc_code())),
        2 => loop {
            // services may answer with anything that fits
            let r = gen_response(rng, None);
            if spec::response_bytes(&r).is_some_and(|b| b.len() <= 253) {
                break Svc::Reply(r);
            }
        },
        _ => loop {
            let r = answer_for(rng, req);
            if spec::response_bytes(&r).is_some_and(|b| b.len() <= 253) {
                break Svc::Reply(r);
            }
        },
    }
}

struct Seq {
    stream: Vec<u8>,
    svc: Vec<Svc>,
    /// offsets at which a frame ends
    bounds: Vec<usize>,
}

fn gen_sequence(rng: &mut Rng, kind: &str, n: usize) -> Seq {
    let mut s = Seq { stream: vec![], svc: vec![], bounds: vec![] };
    // every fourth connection comes from a client that does not count: all its requests carry
    // the same transaction id and unit id (different requests under identical headers)
    let fixed = if rng.chance(1, 4) { Some((rng.u16(), rng.unit())) } else { None };
    for _ in 0..n {
        let req = srv_request(rng, kind);
        let (tid, unit) = fixed.unwrap_or_else(|| (rng.u16(), rng.unit()));
        let f = frame(kind, tid, unit, &spec::request_bytes(&req).unwrap());
        s.stream.extend(f);
        s.bounds.push(s.stream.len());
        s.svc.push(gen_outcome(rng, &req));
    }
    s
}

fn svc_tok(svc: &[Svc]) -> String {
    svc.iter().map(Svc::tok).collect::<Vec<_>>().join(",")
}

// ================================================================ connection-prefix independence

/// **What a connection does with a request does not depend on the requests served before it**
/// (C07: every request is answered on its own, under its own header; C14: all complete requests
/// before a point are served and what follows is judged as it stands).  The stream of a
/// connection is cut at a read boundary behind which nothing is buffered – the prefix is a
/// sequence of whole, well-formed requests, each of which got its answer – and the rest is fed to
/// a *fresh* connection whose service continues where the first one stopped.  Prefix result
/// followed by suffix result must be the result of the whole.  The implementation is compared
/// with itself; no model is involved.
pub fn mon_prefix_independence(out: &mut Out, l: &str, r: &str) {
    let t: Vec<&str> = l.split(' ').collect();
    if t[0] != "srv" || t.len() < 3 {
        return;
    }
    let kind = t[1];
    let fields = &t[2..];
    if !field("w", fields).is_empty() {
        return;
    }
    let evs: Vec<&str> = field("r", fields).split(',').filter(|e| !e.is_empty() && *e != "-").collect();
    let Some(svc) = p_list(field("svc", fields), Svc::parse) else { return };
    if evs.len() < 2 {
        return;
    }
    // the longest proper prefix of read events that is data only and ends on a frame boundary
    let mut best: Option<(usize, usize)> = None; // (events in the prefix, requests in it)
    let mut data: Vec<u8> = vec![];
    for (i, e) in evs.iter().enumerate().take(evs.len() - 1) {
        if *e == "p" {
            continue;
        }
        let Some(h) = e.strip_prefix('d') else { break };
        let Some(b) = p_bytes(h) else { break };
        if b.is_empty() {
            break;
        }
        data.extend(b);
        let frames: Option<Vec<Vec<u8>>> = if kind == "tcp" {
            let items = spec::split_mbap(&data);
            items.iter().map(|x| if let MbapItem::Frame(_, _, p) = x { Some(p.clone()) } else { None }).collect()
        } else {
            let fs = super::rtu_frames_prefix(&data);
            let used: usize = fs.iter().map(|(_, p)| p.len() + 3).sum();
            if used == data.len() { Some(fs.into_iter().map(|(_, p)| p).collect()) } else { None }
        };
        if let Some(fs) = frames {
            let all_served = !fs.is_empty()
                && fs.len() <= svc.len()
                && fs.iter().all(|p| matches!(spec::classify_request(p), Verdict::Accept(_)))
                && svc.iter().take(fs.len()).all(|s| match s {
                    Svc::Reply(r) => spec::response_bytes(r).is_some_and(|b| b.len() <= 253),
                    _ => true,
                });
            if all_served {
                best = Some((i + 1, fs.len()));
            }
        }
    }
    let Some((cut, nreq)) = best else { return };
    let other: Vec<&str> = fields.iter().copied().filter(|f| !f.starts_with("r=") && !f.starts_with("svc=")).collect();
    let extra = if other.is_empty() { String::new() } else { format!(" {}", other.join(" ")) };
    let pre = format!("srv {kind} svc={}{extra} r={}", svc_tok(&svc), evs[..cut].join(","));
    let rest_svc = if nreq < svc.len() { svc_tok(&svc[nreq..]) } else { "D".to_string() };
    let suf = format!("srv {kind} svc={rest_svc}{extra} r={}", evs[cut..].join(","));
    let (_, rp) = crate::run::run_line(&pre);
    let (_, rx) = crate::run::run_line(&suf);
    let Some(rp_body) = rp.strip_suffix("end blocked") else { return };
    // the prefix must have made exactly its calls (otherwise the service lists do not line up)
    if rp_body.matches("call ").count() != nreq {
        return;
    }
    let glued = format!("{rp_body}{rx}");
    out.check(glued == r, || format!("the connection treats what follows {nreq} served request(s) differently from a fresh connection: whole `{}`, prefix then rest `{}`", super::codec::trunc(r), super::codec::trunc(&glued)), l);
}

// ================================================================ C07

pub fn gen_c07(out: &mut Out, rng: &mut Rng, thorough: bool) {
    // every unit / slave id, both framings: an answered request, one the service fails, and one
    // it answers again, pipelined
    for kind in ["tcp", "rtu"] {
        for unit in 0..=255u8 {
            let a = rng.u16();
            let mut data = frame(kind, rng.u16(), unit, &spec::request_bytes(&Request::ReadHoldingRegisters(a, 2)).unwrap());
            data.extend(frame(kind, rng.u16(), unit, &spec::request_bytes(&Request::WriteSingleRegister(a, 9)).unwrap()));
            data.extend(frame(kind, rng.u16(), unit, &spec::request_bytes(&Request::ReadCoils(a, 3)).unwrap()));
            let svc = [
                Svc::Reply(Response::ReadHoldingRegisters(rng.words(2))),
                Svc::Exception(crate::wire::ex_from_spec(rng.exc_code())),
                Svc::Reply(Response::ReadCoils(rng.bits(8))),
            ];
            monitor_line(out, &format!("srv {kind} svc={} r=d{}", svc_tok(&svc), hex_raw(&data)));
        }
    }
    // every request variant × every service outcome × the units at the borders of the address
    // classes (broadcast, first and last device, first reserved, the TCP default), both framings;
    // a second request behind it shows whether the first one's treatment leaked
    for kind in ["tcp", "rtu"] {
        for unit in [0x00u8, 0x01, 0xF7, 0xF8, 0xFF] {
            for &fc in MODELLED_REQ {
                let req = super::client::request_with_code(rng, fc, false);
                let Some(reqb) = spec::request_bytes(&req) else { continue };
                if reqb.len() > 253 {
                    continue;
                }
                for outcome in 0..3 {
                    let first = match outcome {
                        0 => Svc::Reply(answer_for(rng, &req)),
                        1 => Svc::Exception(crate::wire::ex_from_spec(rng.exc_code())),
                        _ => Svc::Decline,
                    };
                    if matches!(&first, Svc::Reply(r) if spec::response_bytes(r).is_none_or(|b| b.len() > 253)) {
                        continue;
                    }
                    let mut data = frame(kind, rng.u16(), unit, &reqb);
                    data.extend(frame(kind, rng.u16(), unit, &spec::request_bytes(&Request::ReadHoldingRegisters(7, 1)).unwrap()));
                    let svc = [first, Svc::Reply(Response::ReadHoldingRegisters(vec![0xBEEF]))];
                    monitor_line(out, &format!("srv {kind} svc={} r=d{}", svc_tok(&svc), hex_raw(&data)));
                }
            }
        }
    }
    let n = if thorough { 100_000 } else { 5_000 };
    for i in 0..n {
        let kind = if i % 2 == 0 { "tcp" } else { "rtu" };
        let nreq = rng.range(1, 6);
        let s = gen_sequence(rng, kind, nreq);
        let evs = match rng.below(4) {
            0 => chunks_tok(&[s.stream.clone()]),
            1 => chunks_tok(&s.stream.iter().map(|b| vec![*b]).collect::<Vec<_>>()),
            _ => {
                let parts = rng.composition(s.stream.len());
                chunks_tok(&chunk(&s.stream, &parts))
            }
        };
        let tail = if rng.chance(1, 3) { ",e" } else { "" };
        let w = if rng.chance(1, 5) { " w=a1,p,a3,a2,p,a100" } else { "" };
        // every eighth connection is served by a service typed on the plain `Request`
        let ty = if i % 8 == 5 { " svcty=req" } else { "" };
        monitor_line(out, &format!("srv {kind} svc={}{ty}{w} r={evs}{tail}", svc_tok(&s.svc)));
    }
    // short sequences under every fragmentation
    for kind in ["tcp", "rtu"] {
        for _ in 0..(if thorough { 6 } else { 2 }) {
            let unit = rng.unit();
            let f1 = frame(kind, rng.u16(), unit, &[0x11]);
            let f2 = frame(kind, rng.u16(), unit, if kind == "tcp" { &[0x07] } else { &[0x0B] });
            let mut s = f1.clone();
            s.extend(&f2);
            if s.len() > 16 {
                s.truncate(f1.len());
            }
            for ch in all_chunkings(&s) {
                monitor_line(out, &format!("srv {kind} svc=X=04,R=RSI:01:1:AB r={}", chunks_tok(&ch)));
            }
        }
    }
}

/// the event log a correct connection produces for a clean request stream
fn expected_log(kind: &str, frames: &[((u16, u8), Vec<u8>)], svc: &[Svc]) -> Option<Vec<String>> {
    let mut log = vec![];
    for (i, ((tid, unit), pdu)) in frames.iter().enumerate() {
        let Verdict::Accept(req) = spec::classify_request(pdu) else { return None };
        log.push(format!("call {} {}", hex8(*unit), request(&req)));
        match svc.get(i).unwrap_or(&Svc::Decline) {
            Svc::Decline => {}
            Svc::Reply(r) => {
                let b = spec::response_bytes(r)?;
                if b.len() > 253 {
                    return None;
                }
                log.push(format!("write {}", hex(&frame(kind, *tid, *unit, &b))));
            }
            Svc::Exception(e) => {
                let code: u8 = crate::wire::ex_num(*e);
                log.push(format!("write {}", hex(&frame(kind, *tid, *unit, &[pdu[0] | 0x80, code]))));
            }
        }
    }
    Some(log)
}

fn split_frames(kind: &str, data: &[u8]) -> Option<Vec<((u16, u8), Vec<u8>)>> {
    if kind == "tcp" {
        spec::split_mbap(data)
            .into_iter()
            .map(|f| match f {
                MbapItem::Frame(t, u, p) => Some(((t, u), p)),
                _ => None,
            })
            .collect()
    } else {
        Some(split_rtu_clean(data, true)?.into_iter().map(|(u, p)| ((0, u), p)).collect())
    }
}

/// merge consecutive `write` entries (the transport may accept a frame in pieces)
fn merge_writes(ps: &[&str]) -> Vec<String> {
    let mut out: Vec<String> = vec![];
    for p in ps {
        if let (Some(h), Some(last)) = (p.strip_prefix("write "), out.last_mut()) {
            if last.starts_with("write ") {
                last.push_str(h);
                continue;
            }
        }
        out.push((*p).to_string());
    }
    out
}

pub fn mon_c07(out: &mut Out, l: &str, r: &str) {
    let t: Vec<&str> = l.split(' ').collect();
    if t[0] != "srv" {
        return;
    }
    let kind = t[1];
    let fields = &t[2..];
    let pe = parse_events(field("r", fields));
    let Some(svc) = p_list(field("svc", fields), Svc::parse) else { return };
    let Some(frames) = split_frames(kind, &pe.data) else { return };
    let Some(mut expect) = expected_log(kind, &frames, &svc) else { return };
    if field("svcty", fields) == "req" {
        // a service typed on the plain request does not see the unit / slave id
        for e in expect.iter_mut() {
            if let Some(rest) = e.strip_prefix("call ") {
                *e = format!("call ??{}", &rest[2..]);
            }
        }
    }
    // write faults are C14's business
    if field("w", fields).contains('x') || field("w", fields).contains('z') {
        return;
    }
    expect.push(if pe.ends_with_eof { "end finished".into() } else { "end blocked".into() });
    let ps = parts(r);
    let got = merge_writes(&ps);
    out.check(got == expect, || {
        let i = got.iter().zip(expect.iter()).position(|(a, b)| a != b).unwrap_or(got.len().min(expect.len()));
        format!("connection log differs at entry {i}: expected `{}` got `{}`", super::codec::trunc(expect.get(i).map_or("<nothing>", |s| s)), super::codec::trunc(got.get(i).map_or("<nothing>", |s| s)))
    }, l);
}

// ================================================================ C14

pub fn gen_c14(out: &mut Out, rng: &mut Rng, thorough: bool) {
    let seqs = if thorough { 500 } else { 50 };
    for i in 0..seqs {
        let kind = if i % 2 == 0 { "tcp" } else { "rtu" };
        let nreq = rng.range(1, 4);
        let s = gen_sequence(rng, kind, nreq);
        if s.stream.len() > 120 {
            continue;
        }
        let svc = svc_tok(&s.svc);
        // end of stream at every byte offset
        for cut in 0..=s.stream.len() {
            let pre = &s.stream[..cut];
            let evs = if pre.is_empty() {
                "e".to_string()
            } else {
                let parts = rng.composition(pre.len());
                format!("{},e", chunks_tok(&chunk(pre, &parts)))
            };
            monitor_line(out, &format!("srv {kind} svc={svc} r={evs}"));
        }
        // a read error at a few offsets
        for _ in 0..3 {
            let cut = rng.below(s.stream.len() + 1);
            let pre = &s.stream[..cut];
            let evs = if pre.is_empty() { "xk1".to_string() } else { format!("d{},xk1", hex_raw(pre)) };
            monitor_line(out, &format!("srv {kind} svc={svc} r={evs}"));
        }
        // a reply that cannot be written, at every byte offset of the reply stream
        let total_out: usize = 40;
        for cut in 0..total_out {
            let fault = *rng.pick(&["xk1", "xbp", "z", "xk2"]);
            let w = if cut == 0 { fault.to_string() } else { format!("a{cut},{fault}") };
            monitor_line(out, &format!("srv {kind} svc={svc} w={w} r=d{}", hex_raw(&s.stream)));
        }
    }
    // every class of malformed input, after some good requests
    for i in 0..(if thorough { 20_000 } else { 1_500 }) {
        let kind = if i % 2 == 0 { "tcp" } else { "rtu" };
        let nreq = rng.range(0, 3);
        let s = gen_sequence(rng, kind, nreq);
        let mut stream = s.stream.clone();
        let bad: Vec<u8> = match (kind, rng.below(8)) {
            // a well-formed request PDU, damaged: cut short at any length (down to the empty
            // PDU), grown by surplus bytes, one field overwritten – inside a valid frame
            (_, 5..=7) => {
                let req = srv_request(rng, kind);
                let good = spec::request_bytes(&req).unwrap();
                let mut pdu = good.clone();
                let mut tries = 0;
                loop {
                    pdu = good.clone();
                    match rng.below(4) {
                        0 => pdu.truncate(rng.below(good.len())),
                        1 => pdu.extend((0..rng.range(1, 4)).map(|_| rng.u8())),
                        2 => {
                            let i = rng.range(1, good.len().max(2)).min(good.len() - 1);
                            pdu[i] = rng.u8();
                        }
                        _ => pdu = (0..rng.range(1, 12)).map(|_| rng.u8()).collect(),
                    }
                    tries += 1;
                    // RTU takes the frame length from the function code: a PDU of another length is
                    // line noise there (C11), not a malformed request
                    let rtu_len_ok = kind == "tcp" || (pdu.len() == good.len() && pdu[0] == good[0]);
                    if (matches!(spec::classify_request(&pdu), Verdict::Reject) && rtu_len_ok) || tries > 20 {
                        break;
                    }
                }
                if !matches!(spec::classify_request(&pdu), Verdict::Reject) {
                    pdu = vec![0x05, 0x00, 0x01, 0x12, 0x34];
                }
                frame(kind, rng.u16(), rng.u8(), &pdu)
            }
            ("tcp", 0) => {
                let mut f = spec::mbap(rng.u16(), rng.u8(), &[0x11]);
                let pid = rng.nonzero_be16();
                f[2] = pid[0];
                f[3] = pid[1];
                f
            }
            ("tcp", 1) => {
                let mut f = spec::mbap(rng.u16(), rng.u8(), &[]);
                f[5] = 0;
                f
            }
            (_, 2) => frame(kind, rng.u16(), rng.u8(), &[0x05, 0x00, 0x01, 0x12, 0x34]),
            (_, 3) => frame(kind, rng.u16(), rng.u8(), &[0x10, 0x00, 0x01, 0x00, 0x02, 0x03, 1, 2, 3]),
            ("tcp", _) => frame(kind, rng.u16(), rng.u8(), &[0x80 | rng.u8(), 1, 2]),
            _ => (0..30).map(|_| 0x80 | (rng.u8() & 0x40)).collect(),
        };
        stream.extend(&bad);
        // more good requests after the bad one must not be served
        let after = gen_sequence(rng, kind, 1);
        stream.extend(&after.stream);
        let mut svc = s.svc.clone();
        svc.push(Svc::Reply(Response::ReadCoils(vec![true; 8])));
        svc.push(Svc::Reply(Response::ReadCoils(vec![false; 8])));
        let evs = if rng.bool() {
            chunks_tok(&[stream.clone()])
        } else {
            let parts = rng.composition(stream.len());
            chunks_tok(&chunk(&stream, &parts))
        };
        monitor_line(out, &format!("srv {kind} svc={} r={evs}", svc_tok(&svc)));
    }
}

/// line noise that arrives in several bursts (RTU): each burst is too short to exhaust the
/// decoder's patience, the bursts together are not; a request behind them is still served and
/// a close on the frame boundary behind it is silent
/// a run of bytes that can start no frame, longer than the RTU decoder's patience (20 retries)
/// and delivered in ONE read, then a valid request: the connection ends with one report of the
/// malformed input and the request behind it is not served
pub fn gen_c14_junk_runs(out: &mut Out, rng: &mut Rng, _thorough: bool) {
    let req = frame("rtu", 0, 0x11, &[0x03, 0x00, 0x01, 0x00, 0x01]);
    for n in 21..=48usize {
        let b = *rng.pick(&[0x66u8, 0x64, 0x6E, 0x41]);
        let junk = vec![b; n];
        monitor_line(out, &format!("srv rtu svc=R=RHR:0001 r=d{},d{} junkrun=1", hex_raw(&junk), hex_raw(&req)));
        let mut both = junk.clone();
        both.extend(&req);
        monitor_line(out, &format!("srv rtu svc=R=RHR:0001 r=d{} junkrun=1", hex_raw(&both)));
    }
}

pub fn mon_c14_junk_runs(out: &mut Out, l: &str, r: &str) -> bool {
    if !l.contains(" junkrun=1") {
        return false;
    }
    let ps = parts(r);
    let end = ps.last().copied().unwrap_or("");
    out.check(end == "end failed:id", || format!("more than 20 bytes that start no frame, in one read: the connection must end with one InvalidData report, got `{end}`"), l);
    out.check(!ps.iter().any(|p| p.starts_with("call ")), || "a request behind the malformed input was served".into(), l);
    true
}

/// a write fault of every kind inside the second reply of a pipelined pair, both servers
pub fn gen_c07_write_faults(out: &mut Out, rng: &mut Rng, _thorough: bool) {
    for kind in ["tcp", "rtu"] {
        let unit = rng.unit();
        let mut data = vec![];
        for i in 0..3u16 {
            data.extend(frame(kind, i + 1, unit, &spec::request_bytes(&Request::ReadHoldingRegisters(i, 1)).unwrap()));
        }
        let svc = "R=RHR:0001,R=RHR:0002,R=RHR:0003";
        let first = if kind == "tcp" { 11 } else { 7 };
        let mut faults: Vec<String> = (0..crate::wire::INJECTED.len()).map(|k| format!("xk{k}")).collect();
        faults.extend(["xot", "xbp", "xto", "z"].iter().map(|s| s.to_string()));
        for f in faults {
            let k = rng.range(0, 4);
            let w = if k == 0 { format!("a{first},{f}") } else { format!("a{first},a{k},{f}") };
            monitor_line(out, &format!("srv {kind} svc={svc} w={w} r=d{} wf=1", hex_raw(&data)));
        }
    }
}

pub fn gen_c14_noise_bursts(out: &mut Out, rng: &mut Rng, thorough: bool) {
    for _ in 0..(if thorough { 400 } else { 40 }) {
        let mut evs: Vec<String> = vec![];
        let mut total = 0;
        for _ in 0..rng.range(2, 5) {
            let k = rng.range(1, 19);
            total += k;
            let noise: Vec<u8> = (0..k).map(|_| *rng.pick(&[0x00u8, 0x80, 0x41, 0x48, 0x64, 0x6E])).collect();
            evs.push(format!("d{}", hex_raw(&noise)));
            if rng.chance(1, 3) {
                evs.push("p".into());
            }
        }
        let _ = total;
        // (a slave id that is itself no function code: otherwise the last noise byte and the slave id
        // look like the head of a frame, and where the decoder then stands is C11's business)
        let unit = *rng.pick(&[0x00u8, 0x80, 0x41, 0x44, 0x48, 0x64, 0x6A, 0x6E]);
        let req = Request::ReadHoldingRegisters(rng.u16(), 2);
        let f = frame("rtu", 0, unit, &spec::request_bytes(&req).unwrap());
        evs.push(format!("d{}", hex_raw(&f)));
        evs.push("e".into());
        monitor_line(out, &format!("srv rtu svc={} r={}", Svc::Reply(Response::ReadHoldingRegisters(vec![1, 2])).tok(), evs.join(",")));
    }
}

fn mon_c14_noise_bursts(out: &mut Out, l: &str, r: &str) -> bool {
    // lines of the generator above: never-function-code noise in short bursts, one request, `e`
    let t: Vec<&str> = l.split(' ').collect();
    if t.len() != 4 || t[0] != "srv" || t[1] != "rtu" || !t[3].ends_with(",e") {
        return false;
    }
    let evs: Vec<&str> = field("r", &t[2..]).split(',').collect();
    let datas: Vec<Vec<u8>> = evs.iter().filter_map(|e| e.strip_prefix('d').and_then(p_bytes)).collect();
    if datas.len() < 3 {
        return false;
    }
    let (last, noise) = datas.split_last().unwrap();
    if !noise.iter().all(|d| d.len() < 20 && d.iter().all(|b| super::stream::non_fc(*b))) {
        return false;
    }
    let Some(fs) = split_rtu_clean(last, true) else { return false };
    if fs.len() != 1 {
        return false;
    }
    let ps = parts(r);
    let calls = ps.iter().filter(|p| p.starts_with("call ")).count();
    let writes = ps.iter().filter(|p| p.starts_with("write ")).count();
    out.check(calls == 1 && writes == 1, || format!("the request behind line noise in short bursts was not served: `{}`", super::codec::trunc(r)), l);
    out.check(ps.last().copied() == Some("end finished"), || format!("close on the frame boundary behind noise and a served request ended with `{}`", ps.last().copied().unwrap_or("")), l);
    true
}

pub fn mon_c14(out: &mut Out, l: &str, r: &str) {
    if mon_c14_noise_bursts(out, l, r) || mon_c14_junk_runs(out, l, r) {
        return;
    }
    let t: Vec<&str> = l.split(' ').collect();
    if t[0] != "srv" {
        return;
    }
    let kind = t[1];
    let fields = &t[2..];
    let pe = parse_events(field("r", fields));
    let Some(svc) = p_list(field("svc", fields), Svc::parse) else { return };
    let ps = parts(r);
    let end = ps.last().copied().unwrap_or("");
    let calls: Vec<&str> = ps.iter().copied().filter(|p| p.starts_with("call ")).collect();
    out.check(!r.contains("panic"), || "connection task panicked".into(), l);
    // the complete well-formed requests at the head of the stream
    let mut good: Vec<((u16, u8), Vec<u8>)> = vec![];
    let mut clean_end = true; // the data ends on a frame boundary and everything before is well-formed
    let mut i = 0usize;
    let data = &pe.data;
    while i < data.len() {
        let item = if kind == "tcp" {
            match spec::split_mbap(&data[i..]).into_iter().next() {
                Some(MbapItem::Frame(t, u, p)) => Some(((t, u), p.clone(), 7 + p.len())),
                _ => None,
            }
        } else {
            // one clean RTU frame at the head?
            (4..=(data.len() - i).min(260)).find_map(|n| {
                split_rtu_clean(&data[i..i + n], true).filter(|v| v.len() == 1).map(|v| ((0u16, v[0].0), v[0].1.clone(), n))
            })
        };
        match item {
            Some((h, p, n)) if matches!(spec::classify_request(&p), Verdict::Accept(_)) => {
                good.push((h, p));
                i += n;
            }
            _ => {
                clean_end = false;
                break;
            }
        }
    }
    let wf = field("w", fields);
    let write_fault = wf.contains('x') || wf.contains('z');
    if write_fault {
        // exactly one error report; nothing is served after the request whose reply failed
        out.check(end.starts_with("end failed:") || end == "end blocked" || end == "end finished", || format!("unexpected end `{end}`"), l);
        let replies_before_fault = svc.iter().take(calls.len().saturating_sub(1)).filter(|s| !matches!(s, Svc::Decline)).count();
        let _ = replies_before_fault;
        if end.starts_with("end failed:") {
            let fault = wf.split(',').find(|e| e.starts_with('x') || *e == "z").unwrap_or("");
            let expect = if fault == "z" { "end failed:wz".to_string() } else { format!("end failed:{}", &fault[1..]) };
            out.check(end == expect, || format!("write fault `{fault}` must end the connection with `{expect}`, got `{end}`"), l);
            // the failing reply belongs to the last request served
            out.check(calls.len() <= good.len(), || "more requests served than were received".into(), l);
        }
        // exactly which reply meets the fault: play the write script against the replies owed
        // (each write call takes one event; an exhausted script takes everything).  Judged when
        // the read side has no fault before its last data and no flush script interferes.
        let revs: Vec<&str> = field("r", fields).split(',').collect();
        let first_fault = revs.iter().position(|e| !(e.starts_with('d') || *e == "p"));
        let data_after_fault = first_fault.is_some_and(|i| revs[i..].iter().any(|e| e.starts_with('d') && e.len() > 1));
        if !data_after_fault && field("f", fields).is_empty() {
            if let Some(log) = expected_log(kind, &good, &svc) {
                let mut evs: std::collections::VecDeque<&str> = wf.split(',').filter(|e| !e.is_empty()).collect();
                let mut ncalls = 0usize;
                let mut hit: Option<(usize, String)> = None;
                'outer: for entry in &log {
                    if entry.starts_with("call ") {
                        ncalls += 1;
                        continue;
                    }
                    let mut remaining = (entry.len() - "write ".len()) / 2;
                    while remaining > 0 {
                        match evs.pop_front() {
                            None => remaining = 0,
                            Some("p") => {}
                            Some("z") => {
                                hit = Some((ncalls, "wz".into()));
                                break 'outer;
                            }
                            Some(e) if e.starts_with('x') => {
                                hit = Some((ncalls, e[1..].to_string()));
                                break 'outer;
                            }
                            Some(e) if e.starts_with('a') => match e[1..].parse::<usize>() {
                                Ok(0) => {
                                    hit = Some((ncalls, "wz".into()));
                                    break 'outer;
                                }
                                Ok(n) => remaining -= n.min(remaining),
                                Err(_) => return,
                            },
                            Some(_) => return,
                        }
                    }
                }
                if let Some((nc, k)) = hit {
                    let expect_calls: Vec<String> = log.iter().filter(|e| e.starts_with("call ")).take(nc).cloned().collect();
                    out.check(
                        end == format!("end failed:{k}"),
                        || format!("the reply to request {nc} cannot be written (`{k}`): the connection must end with one report of it, got `{end}`"),
                        l,
                    );
                    out.check(
                        calls.iter().map(|c| c.to_string()).collect::<Vec<_>>() == expect_calls,
                        || format!("a reply could not be written after {nc} request(s), but {} request(s) were served", calls.len()),
                        l,
                    );
                }
            }
        }
        return;
    }
    let expect_calls: Vec<String> = good
        .iter()
        .map(|((_, u), p)| match spec::classify_request(p) {
            Verdict::Accept(q) => format!("call {} {}", hex8(*u), request(&q)),
            _ => unreachable!(),
        })
        .collect();
    // responses that cannot be encoded end the connection early: not this property's inputs
    if svc.iter().take(good.len()).any(|s| matches!(s, Svc::Reply(r) if spec::response_bytes(r).is_none_or(|b| b.len() > 253))) {
        return;
    }
    // "served" includes the replies: everything owed for the complete requests has been
    // written before the connection ends (replies that cannot be encoded were excluded above)
    if let Some(owed) = expected_log(kind, &good, &svc) {
        let got = merge_writes(&ps[..ps.len().saturating_sub(1)]);
        let ok = got.len() >= owed.len() && got[..owed.len()] == owed[..];
        out.check(ok, || {
            let i = got.iter().zip(owed.iter()).position(|(a, b)| a != b).unwrap_or(got.len().min(owed.len()));
            format!("the complete requests before the end of the connection were not all served and answered: entry {i}: expected `{}` got `{}`", super::codec::trunc(owed.get(i).map_or("<nothing>", |s| s)), super::codec::trunc(got.get(i).map_or("<nothing>", |s| s)))
        }, l);
    }
    let last_ev = field("r", fields).rsplit(',').next().unwrap_or("");
    if clean_end {
        out.check(calls == expect_calls, || format!("served requests differ from the complete requests received: {} vs {}", calls.len(), expect_calls.len()), l);
        if last_ev == "e" {
            out.check(end == "end finished", || format!("peer closed on a frame boundary but the connection ended with `{end}`"), l);
        } else if let Some(k) = last_ev.strip_prefix('x') {
            out.check(end == format!("end failed:{k}"), || format!("read error `{k}` must end the connection with one report of it, got `{end}`"), l);
        } else {
            out.check(end == "end blocked", || format!("connection ended with `{end}` while the peer is still connected"), l);
        }
    } else {
        // something malformed or incomplete follows the good requests: they are all served,
        // nothing after them is, and the task ends with an error report once the input is
        // known to be bad (for an incomplete frame: at end of stream)
        if kind == "tcp" {
            out.check(calls == expect_calls, || format!("served requests differ from the complete requests before the fault: {:?} vs {:?}", calls.len(), expect_calls.len()), l);
        } else {
            // RTU resynchronises after line noise: later frames may legitimately be served
            let ok = calls.len() >= expect_calls.len() && calls[..expect_calls.len()] == expect_calls[..];
            out.check(ok, || format!("the complete requests before the fault were not all served: {:?} vs {:?}", calls.len(), expect_calls.len()), l);
        }
        let rest = &data[i..];
        let incomplete_only = if kind == "tcp" {
            matches!(spec::split_mbap(rest).first(), Some(MbapItem::Incomplete))
        } else {
            false
        };
        if last_ev == "e" {
            out.check(end.starts_with("end failed:"), || format!("stream ended inside a frame / after malformed input, but the connection ended with `{end}`"), l);
        } else if incomplete_only && !pe.has_fault {
            out.check(end == "end blocked", || format!("incomplete frame: expected the task to wait, got `{end}`"), l);
        } else if kind == "tcp" && !pe.has_fault {
            out.check(end.starts_with("end failed:"), || format!("malformed input must end the connection with an error report, got `{end}`"), l);
        }
    }
}
