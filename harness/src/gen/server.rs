//! server-side properties
use super::*;

pub fn gen_c07(_out: &mut Out, _rng: &mut Rng, _thorough: bool) {}
pub fn mon_c07(_out: &mut Out, _l: &str, _r: &str) {}
pub fn gen_c14(_out: &mut Out, _rng: &mut Rng, _thorough: bool) {}
pub fn mon_c14(_out: &mut Out, _l: &str, _r: &str) {}
