//! client-side properties
use super::*;

pub fn gen_c01(_out: &mut Out, _rng: &mut Rng, _thorough: bool) {}
pub fn mon_c01(_out: &mut Out, _l: &str, _r: &str) {}
pub fn gen_c02(_out: &mut Out, _rng: &mut Rng, _thorough: bool) {}
pub fn mon_c02(_out: &mut Out, _l: &str, _r: &str) {}
pub fn gen_c06(_out: &mut Out, _rng: &mut Rng, _thorough: bool) {}
pub fn mon_c06(_out: &mut Out, _l: &str, _r: &str) {}
pub fn gen_c10(_out: &mut Out, _rng: &mut Rng, _thorough: bool) {}
pub fn mon_c10(_out: &mut Out, _l: &str, _r: &str) {}
pub fn gen_c12(_out: &mut Out, _rng: &mut Rng, _thorough: bool) {}
pub fn mon_c12(_out: &mut Out, _l: &str, _r: &str) {}
pub fn gen_c13(_out: &mut Out, _rng: &mut Rng, _thorough: bool) {}
pub fn mon_c13(_out: &mut Out, _l: &str, _r: &str) {}
pub fn gen_c15(_out: &mut Out, _rng: &mut Rng, _thorough: bool) {}
pub fn mon_c15(_out: &mut Out, _l: &str, _r: &str) {}
pub fn gen_c16(_out: &mut Out, _rng: &mut Rng, _thorough: bool) {}
pub fn mon_c16(_out: &mut Out, _l: &str, _r: &str) {}
pub fn gen_c20(_out: &mut Out, _rng: &mut Rng, _thorough: bool) {}
pub fn mon_c20(_out: &mut Out, _l: &str, _r: &str) {}
