//! Client-side properties: C01, C02, C06, C10, C12, C13, C15, C16, C20.

use super::stream::{parse_events, split_rtu_clean};
use super::*;
use crate::run::TypedOp;
use crate::spec::MbapItem;

// ================================================================ helpers

fn frame(kind: &str, tid: u16, unit: u8, pdu: &[u8]) -> Vec<u8> {
    if kind == "tcp" {
        spec::mbap(tid, unit, pdu)
    } else {
        spec::rtu_frame(unit, pdu)
    }
}

/// function codes whose *responses* the RTU client can delimit
const RTU_RSP_CODES: &[u8] = &[
    0x01, 0x02, 0x03, 0x04, 0x05, 0x06, 0x07, 0x0B, 0x0C, 0x0F, 0x10, 0x11, 0x16, 0x17, 0x18,
];
/// function codes whose *requests* the RTU servers can delimit
const RTU_REQ_CODES: &[u8] = &[
    0x01, 0x02, 0x03, 0x04, 0x05, 0x06, 0x07, 0x0B, 0x0C, 0x0F, 0x10, 0x11, 0x16, 0x17, 0x18,
];

/// a valid response PDU whose function code is `fc` (< 0x80)
fn response_pdu_with_code(rng: &mut Rng, fc: u8, rtu: bool) -> Vec<u8> {
    use Response::*;
    let r = match fc {
        0x01 => ReadCoils(rng.bits_in(0, 40)),
        0x02 => ReadDiscreteInputs(rng.bits_in(0, 40)),
        0x03 => ReadHoldingRegisters(rng.words_in(0, 10)),
        0x04 => ReadInputRegisters(rng.words_in(0, 10)),
        0x05 => WriteSingleCoil(rng.u16(), rng.bool()),
        0x06 => WriteSingleRegister(rng.u16(), rng.u16()),
        0x0F => WriteMultipleCoils(rng.u16(), rng.u16()),
        0x10 => WriteMultipleRegisters(rng.u16(), rng.u16()),
        0x11 => ReportServerId(rng.u8(), rng.bool(), rng.bytes_in(0, 10)),
        0x16 => MaskWriteRegister(rng.u16(), rng.u16(), rng.u16()),
        0x17 => ReadWriteMultipleRegisters(rng.words_in(0, 10)),
        _ => {
            let data = if rtu {
                // what the RTU response length table expects for the unmodelled codes
                match fc {
                    0x07 => rng.bytes(1),
                    0x0B => rng.bytes(4),
                    0x0C => {
                        let d = rng.bytes_in(0, 6);
                        let mut v = vec![d.len() as u8];
                        v.extend(d);
                        v
                    }
                    0x18 => {
                        let d = rng.bytes_in(0, 6);
                        let mut v = vec![0, d.len() as u8];
                        v.extend(d);
                        v
                    }
                    _ => rng.bytes_in(0, 6),
                }
            } else {
                rng.bytes_in(0, 8)
            };
            Custom(fc, Bytes::from(data))
        }
    };
    spec::response_bytes(&r).unwrap()
}

/// a request whose function code is `fc` (< 0x80); typed variant for modelled codes (or raw custom)
pub fn request_with_code(rng: &mut Rng, fc: u8, raw: bool) -> Request<'static> {
    use Request::*;
    if raw || !MODELLED_REQ.contains(&fc) {
        return Custom(fc, Cow::Owned(rng.bytes_in(0, 6)));
    }
    match fc {
        0x01 => ReadCoils(rng.u16(), rng.u16()),
        0x02 => ReadDiscreteInputs(rng.u16(), rng.u16()),
        0x03 => ReadHoldingRegisters(rng.u16(), rng.u16()),
        0x04 => ReadInputRegisters(rng.u16(), rng.u16()),
        0x05 => WriteSingleCoil(rng.u16(), rng.bool()),
        0x06 => WriteSingleRegister(rng.u16(), rng.u16()),
        0x0F => WriteMultipleCoils(rng.u16(), Cow::Owned(rng.bits_in(0, 20))),
        0x10 => WriteMultipleRegisters(rng.u16(), Cow::Owned(rng.words_in(0, 5))),
        0x11 => ReportServerId,
        0x16 => MaskWriteRegister(rng.u16(), rng.u16(), rng.u16()),
        _ => ReadWriteMultipleRegisters(rng.u16(), rng.u16(), rng.u16(), Cow::Owned(rng.words_in(0, 5))),
    }
}

/// Render the decoded form of a reply PDU as the library's result carries it.
fn reply_rr(pdu: &[u8]) -> Option<String> {
    if pdu.first()? >= &0x80 {
        if pdu.len() < 2 {
            return None;
        }
        return Some(format!("E={}:{}", hex8(pdu[0] - 0x80), hex8(pdu[1])));
    }
    match spec::classify_response(pdu) {
        Verdict::Accept(r) => Some(format!("R={}", response(&r))),
        _ => None,
    }
}

struct OpView<'a> {
    name: &'a str,
    arg: &'a str,
    fields: Vec<&'a str>,
}

fn ops_of(l: &str) -> (Vec<&str>, Vec<OpView<'_>>) {
    let ps: Vec<&str> = l.split(" | ").collect();
    let head: Vec<&str> = ps[0].split(' ').collect();
    let ops = ps[1..]
        .iter()
        .map(|o| {
            let f: Vec<&str> = o.split(' ').filter(|s| !s.is_empty()).collect();
            let name = f.first().copied().unwrap_or("");
            let (arg, fields) = match name {
                "call" | "typed" | "slave" => (f.get(1).copied().unwrap_or(""), f.get(2..).unwrap_or(&[]).to_vec()),
                _ => ("", f.get(1..).unwrap_or(&[]).to_vec()),
            };
            OpView { name, arg, fields }
        })
        .collect();
    (head, ops)
}

/// header the `idx`-th op's request is expected to carry: (tid, unit)
fn expected_hdr(head: &[&str], ops: &[OpView<'_>], idx: usize) -> (u16, u8) {
    let kind = head[1];
    let mut unit = match head[2] {
        "-" => {
            if kind == "tcp" {
                255
            } else {
                0
            }
        }
        s => p_u8(s).unwrap(),
    };
    let mut tid: u16 = 0;
    for o in &ops[..idx] {
        match o.name {
            "call" | "typed" => {
                // a future that is never polled does nothing at all
                if field("b", &o.fields) != "0" {
                    tid = tid.wrapping_add(1);
                }
            }
            "slave" => unit = p_u8(o.arg).unwrap(),
            _ => {}
        }
    }
    (if kind == "tcp" { tid } else { 0 }, unit)
}

fn op_request(o: &OpView<'_>) -> Option<Request<'static>> {
    match o.name {
        "call" => p_request(o.arg),
        "typed" => Some(TypedOp::parse(o.arg)?.request()),
        _ => None,
    }
}

pub fn written(res_part: &str) -> Vec<u8> {
    // "... w=AA+BB sd=N"
    let w = res_part
        .split(' ')
        .find_map(|t| t.strip_prefix("w="))
        .unwrap_or("-");
    if w == "-" {
        return vec![];
    }
    w.split('+').flat_map(|h| p_bytes(h).unwrap()).collect()
}

fn outcome_of(res_part: &str) -> &str {
    res_part.split(" w=").next().unwrap_or("")
}

// ================================================================ history independence

/// **What a call returns does not depend on the calls before it** (C12 "whatever happened in
/// earlier calls", C06 "after any sequence of earlier calls", C13 "determined by what the
/// transport did alone").  For every call of a history whose predecessors all ran to completion
/// on a transport that took their writes and stayed open, the same call – the same request, the
/// same read events it consumed – is made on a *fresh* client that was connected with the same
/// unit and has made the same number of (trivial) calls before, so that it stamps the same
/// transaction id.  Result and transmitted bytes must be the same.  No model is involved: the
/// implementation is compared with itself.
pub fn mon_history_independence(out: &mut Out, l: &str, r: &str) {
    let (head, ops) = ops_of(l);
    if head[0] != "cli" || head.len() != 3 || ops.len() < 2 {
        return;
    }
    let kind = head[1];
    let res = parts(r);
    if res.len() != ops.len() {
        return;
    }
    let mut clean_so_far = true;
    let mut judged = 0;
    for (k, o) in ops.iter().enumerate() {
        let is_call = o.name == "call" || o.name == "typed";
        if k > 0 && is_call && clean_so_far && judged < 3 {
            // the op itself may be anything (faults, budgets, write scripts): only its past matters
            let (tid, unit) = expected_hdr(&head, &ops, k);
            if tid <= 300 {
                let mut fresh = format!("cli {kind} {}", hex8(unit));
                for _ in 0..tid {
                    fresh.push_str(" | call RSI r=e");
                }
                if kind == "rtu" {
                    // (no transaction ids over RTU: nothing to age)
                }
                let this_op = l.split(" | ").nth(k + 1).unwrap_or("");
                // leftover events appended to the last op belong to nobody
                fresh.push_str(" | ");
                fresh.push_str(this_op);
                let (_, r2) = crate::run::run_line(&fresh);
                let last = r2.rsplit(" | ").next().unwrap_or("");
                let here = res[k];
                // shutdown counters etc. are part of the rendered result; compare as rendered
                let same = last == here || (k + 1 == ops.len() && outcome_of(last) == outcome_of(here) && written(last) == written(here));
                out.check(same, || format!("call {k} returns `{}` in this history but `{}` on a fresh client that has made the same number of calls", super::codec::trunc(here), super::codec::trunc(last)), l);
                judged += 1;
            }
        }
        // does this op leave the client as a completed exchange on an open transport would?
        match o.name {
            "slave" => {}
            "call" | "typed" => {
                let evs = field("r", &o.fields);
                let closed = evs.split(',').any(|e| e == "e" || e == "E");
                let outcome = outcome_of(res[k]);
                if !o.fields.iter().all(|f| f.starts_with("r=")) || closed || outcome == "blocked" || outcome == "abandoned" {
                    clean_so_far = false;
                }
            }
            _ => clean_so_far = false,
        }
    }
}

// ================================================================ C06

pub fn gen_c06(out: &mut Out, rng: &mut Rng, thorough: bool) {
    let reps = if thorough { 6 } else { 1 };
    for _ in 0..reps {
        for kind in ["tcp", "rtu"] {
            for req_fc in 0..0x80u8 {
                for rsp_code in 0..=255u8 {
                    let base = rsp_code & 0x7F;
                    if kind == "rtu" && (!RTU_RSP_CODES.contains(&base) || (rsp_code >= 0x80 && base > 0x2B)) {
                        continue;
                    }
                    // thin the full cross product in the quick tier, keep every diagonal and near-diagonal pair
                    let near = base == req_fc || rsp_code == req_fc;
                    if !thorough && !near && rng.below(4) != 0 {
                        continue;
                    }
                    let raw = rng.bool();
                    let req = request_with_code(rng, req_fc, raw);
                    let slave = rng.unit();
                    let pdu = if rsp_code < 0x80 {
                        response_pdu_with_code(rng, rsp_code, kind == "rtu")
                    } else {
                        vec![rsp_code, rng.u8()]
                    };
                    // the pairs on the diagonal – the reply or the exception of the request's own
                    // function – under every header variant: the verdict is the conjunction of
                    // the header test and the function test
                    if near {
                        // (wrong transaction ids that differ in one byte only, or in the top bit only)
                        for (tid, unit) in [
                            (0u16, slave),
                            (rng.u16() | 1, slave),
                            (0x0100, slave),
                            (0xFF00, slave),
                            (0x8000, slave),
                            (0x00FF, slave),
                            (0, slave.wrapping_add(1 + rng.u8() % 254)),
                            (0, slave ^ 0x80),
                            (0, if slave == 0xFF { 0 } else { 0xFF }),
                        ] {
                            if kind == "rtu" && tid != 0 {
                                continue;
                            }
                            monitor_line(
                                out,
                                &format!("cli {kind} {} | call {} r=d{}", hex8(slave), request(&req), hex_raw(&frame(kind, tid, unit, &pdu))),
                            );
                        }
                    }
                    // header variants: right, wrong tid, wrong unit
                    let hv = rng.below(6);
                    let (tid, unit) = match hv {
                        0 if kind == "tcp" => {
                            let any = rng.u16() | 1;
                            (*rng.pick(&[any, any, 0x0100, 0x0200, 0xFF00, 0x8000, 0x0001, 0x00FF]), slave)
                        }
                        1 => (0, slave.wrapping_add(1 + rng.u8() % 254)),
                        _ => (0, slave),
                    };
                    // every so often another complete frame right behind the reply (same read or the
                    // next): under the request's header or a foreign one, same kind / another / exception
                    let trailing = if rng.chance(1, 6) {
                        let tp = match rng.below(3) {
                            0 => pdu.clone(),
                            1 => vec![rsp_code | 0x80, rng.exc_code()],
                            _ => {
                                let c = *rng.pick(RTU_RSP_CODES);
                                response_pdu_with_code(rng, c, kind == "rtu")
                            }
                        };
                        let (tt, tu) = if rng.bool() { (0, slave) } else { (rng.u16(), rng.u8()) };
                        let f = frame(kind, tt, tu, &tp);
                        if rng.bool() { hex_raw(&f) } else { format!(",d{}", hex_raw(&f)) }
                    } else {
                        String::new()
                    };
                    monitor_line(
                        out,
                        &format!(
                            "cli {kind} {} | call {} r=d{}{trailing}",
                            hex8(slave),
                            request(&req),
                            hex_raw(&frame(kind, tid, unit, &pdu))
                        ),
                    );
                }
            }
        }
    }
    // after random earlier calls and set_slave changes
    for i in 0..(if thorough { 100_000 } else { 6_000 }) {
        let kind = if i % 2 == 0 { "tcp" } else { "rtu" };
        let mut line = format!("cli {kind} {}", if rng.bool() { "-".into() } else { hex8(rng.u8()) });
        let mut tid: u16 = 0;
        let mut unit: u8 = match &line[8..] {
            "-" => {
                if kind == "tcp" {
                    255
                } else {
                    0
                }
            }
            s => p_u8(s).unwrap(),
        };
        let n = rng.range(0, 4);
        for step in 0..=n {
            if rng.chance(1, 3) {
                unit = rng.unit();
                line.push_str(&format!(" | slave {}", hex8(unit)));
            }
            let fc = if kind == "rtu" { *rng.pick(RTU_RSP_CODES) } else { rng.u8() & 0x7F };
            let raw = rng.chance(1, 4);
            let req = request_with_code(rng, fc, raw);
            let last = step == n;
            let (rfc, rtid, runit) = if last {
                match rng.below(6) {
                    0 => (fc, tid.wrapping_add(rng.u16() | 1), unit),
                    1 => (fc, tid, unit ^ (1 << rng.below(8))),
                    2 => (if kind == "rtu" { *rng.pick(RTU_RSP_CODES) } else { rng.u8() & 0x7F }, tid, unit),
                    _ => (fc, tid, unit),
                }
            } else {
                (fc, tid, unit)
            };
            let pdu = if rng.chance(1, 4) {
                vec![rfc | 0x80, rng.exc_code()]
            } else {
                response_pdu_with_code(rng, rfc, kind == "rtu")
            };
            line.push_str(&format!(
                " | call {} r=d{}",
                request(&req),
                hex_raw(&frame(kind, rtid, runit, &pdu))
            ));
            tid = tid.wrapping_add(1);
        }
        monitor_line(out, &line);
    }
    gen_c06_after_partial(out, rng, thorough);
}

/// "after any sequence of earlier calls": the earlier call ended half-way through a reply
/// (abandoned, transport error, or a pending tail) whose head looked like the head of the
/// *next* call's reply; the next call then gets a complete reply under a foreign header
fn gen_c06_after_partial(out: &mut Out, rng: &mut Rng, thorough: bool) {
    for i in 0..(if thorough { 6000 } else { 600 }) {
        let kind = if i % 4 == 3 { "rtu" } else { "tcp" };
        let unit = rng.unit();
        let n = rng.range(1, 10);
        let pdu_of = |rng: &mut Rng| spec::response_bytes(&Response::ReadHoldingRegisters(rng.words(n))).unwrap();
        // the fragment: header of call #2 (tid 1, same unit), cut anywhere from the complete
        // head to one byte before the end
        let frag = frame(kind, 1, unit, &pdu_of(rng));
        let head = if kind == "tcp" { 7 } else { 3 };
        let k = rng.range(head, frag.len() - 1);
        let (ftid, funit) = match rng.below(3) {
            0 => (rng.u16() | 2, unit),
            1 => (1, unit ^ (1 << rng.below(8))),
            _ => (rng.u16() | 2, unit.wrapping_add(1 + rng.u8() % 254)),
        };
        let foreign = frame(kind, ftid, funit, &pdu_of(rng));
        let how = match rng.below(3) {
            0 => format!("b=2 r=d{},p,p", hex_raw(&frag[..k])),
            1 => format!("r=d{},xk{}", hex_raw(&frag[..k]), rng.range(1, 5)),
            _ => format!("b=3 r=d{},p,p,p", hex_raw(&frag[..k])),
        };
        monitor_line(
            out,
            &format!(
                "cli {kind} {} | call RHR:0000:{} {how} | call RHR:0102:{} r=d{}",
                hex8(unit),
                hex16(n as u16),
                hex16(n as u16),
                hex_raw(&foreign)
            ),
        );
    }
}

pub fn mon_c06(out: &mut Out, l: &str, r: &str) {
    let (head, ops) = ops_of(l);
    if head[0] != "cli" {
        return;
    }
    let kind = head[1];
    let res = parts(r);
    for (i, o) in ops.iter().enumerate() {
        if o.name != "call" {
            continue;
        }
        let Some(req) = op_request(o) else { continue };
        let Some(reqb) = spec::request_bytes(&req) else { continue };
        let (tid, unit) = expected_hdr(&head, &ops, i);
        let pe = parse_events(field("r", &o.fields));
        if pe.has_fault {
            continue;
        }
        // the reply is the first well-formed frame; whole frames behind it are surplus that must
        // not change the verdict on the reply
        let (rh, pdu) = if kind == "tcp" {
            let items = spec::split_mbap(&pe.data);
            if !items.iter().all(|x| matches!(x, MbapItem::Frame(..))) {
                continue;
            }
            match items.first() {
                Some(MbapItem::Frame(t, u, p)) => ((*t, *u), p.clone()),
                _ => continue,
            }
        } else {
            match split_rtu_clean(&pe.data, false) {
                Some(v) if !v.is_empty() => ((0, v[0].0), v[0].1.clone()),
                _ => continue,
            }
        };
        let Some(rr) = reply_rr(&pdu) else { continue };
        let got = outcome_of(res.get(i).copied().unwrap_or(""));
        let same_hdr = rh == (tid, unit);
        let rsp_fc = pdu[0] & 0x7F;
        let expect = if !same_hdr {
            format!("hm {rr}")
        } else if rsp_fc != reqb[0] {
            format!("fm {rr}")
        } else if pdu[0] >= 0x80 {
            format!("exc {}", hex8(pdu[1]))
        } else {
            format!("ok {}", &rr[2..])
        };
        out.check(got == expect, || format!("call {i}: request header ({tid:04X},{unit:02X}) fc {:02X}, reply header ({:04X},{:02X}) code {:02X}: expected `{}` got `{}`", reqb[0], rh.0, rh.1, pdu[0], super::codec::trunc(&expect), super::codec::trunc(got)), l);
    }
}

// ================================================================ C10

pub fn gen_c10(out: &mut Out, rng: &mut Rng, thorough: bool) {
    // more than one (quick) / two (thorough) full wraps, interleaved with failing calls,
    // exceptions, oversized requests and set_slave
    let total = if thorough { 140_000 } else { 70_000 };
    let mut line = String::from("cli tcp -");
    let mut tid: u16 = 0;
    let mut unit: u8 = 255;
    for i in 0..total {
        // the long stretches are plain calls; every so often something else happens
        match if i % 64 == 0 { rng.below(8) } else { 7 } {
            0 => {
                unit = rng.unit();
                line.push_str(&format!(" | slave {}", hex8(unit)));
                line.push_str(" | call RSI r=e");
            }
            1 => {
                // rejected before transmission
                line.push_str(&format!(" | call CU:41:{} r=-", hex_raw(&rng.bytes(260))));
            }
            2 => {
                // exception reply
                line.push_str(&format!(" | call RSI r=d{}", hex_raw(&spec::mbap(tid, unit, &[0x91, rng.exc_code()]))));
            }
            3 => {
                // good reply
                line.push_str(&format!(" | call RHR:0000:0001 r=d{}", hex_raw(&spec::mbap(tid, unit, &[0x03, 0x02, 0xAB, 0xCD]))));
            }
            4 => line.push_str(" | call RSI r=xk1"),
            5 => {
                // mismatching reply
                line.push_str(&format!(" | call RSI r=d{}", hex_raw(&spec::mbap(tid.wrapping_add(5), unit, &[0x11, 0x02, 0x01, 0xFF]))));
            }
            6 => line.push_str(" | call RSI w=xk3"),
            _ => line.push_str(" | call RSI r=e"),
        }
        tid = tid.wrapping_add(1);
    }
    monitor_line(out, &line);
    // random shorter histories
    for _ in 0..(if thorough { 10_000 } else { 300 }) {
        let mut line = String::from("cli tcp -");
        for _ in 0..rng.range(1, 40) {
            match rng.below(6) {
                0 => line.push_str(&format!(" | slave {}", hex8(rng.u8()))),
                1 => line.push_str(&format!(" | call CU:41:{}", hex_raw(&rng.bytes(300)))),
                2 => line.push_str(" | call RSI r=xk2"),
                3 => line.push_str(&format!(" | call {} r=e", request(&gen_request(rng, Some(3))))),
                4 => line.push_str(" | call RSI w=z"),
                _ => line.push_str(" | call RSI r=e"),
            }
        }
        monitor_line(out, &line);
    }
    // "regardless of how earlier calls ended": every way a send can fail after (part of) the
    // frame - and with it the id - has reached the transport, followed by ordinary calls
    for _ in 0..(if thorough { 4000 } else { 400 }) {
        let mut line = String::from("cli tcp -");
        for _ in 0..rng.range(2, 12) {
            // the error kinds include those the library produces itself (InvalidData, InvalidInput,
            // UnexpectedEof, WriteZero …): where an error comes from cannot be told from its kind
            let k = match rng.below(8) {
                0 => "id".to_string(),
                1 => "ii".to_string(),
                2 => "ue".to_string(),
                3 => "bp".to_string(),
                _ => format!("k{}", rng.range(1, 5)),
            };
            match rng.below(8) {
                0 => line.push_str(&format!(" | call RSI w=a{},x{k}", rng.range(1, 7))),
                1 => line.push_str(&format!(" | call RSI w=a8 f=x{k}")),
                2 => line.push_str(&format!(" | call RSI w=a{},z", rng.range(1, 7))),
                3 => line.push_str(&format!(" | call RSI w=p,a8 f=p,x{k}")),
                4 => line.push_str(&format!(" | call RSI w=x{k}")),
                _ => line.push_str(" | call RSI r=e"),
            }
        }
        monitor_line(out, &line);
    }
    // "receiving errors does not reset or reuse ids": every exception code, for units of every
    // class (broadcast, single device, reserved, the TCP default), each followed by the next call
    for unit in [0x00u8, 0x01, 0x11, 0xF7, 0xF8, 0xFF] {
        let mut line = format!("cli tcp {}", hex8(unit));
        let mut tid: u16 = 0;
        for code in 0..=255u8 {
            let fc = *rng.pick(&[0x03u8, 0x06, 0x10, 0x11, 0x16, 0x17]);
            let req = request_with_code(rng, fc, false);
            line.push_str(&format!(" | call {} r=d{}", request(&req), hex_raw(&spec::mbap(tid, unit, &[fc | 0x80, code]))));
            tid = tid.wrapping_add(1);
        }
        line.push_str(" | call RSI r=e");
        monitor_line(out, &line);
    }
}

/// the history up to and including op `i` (a failing history replays from its prefix)
fn prefix_line(l: &str, i: usize) -> String {
    l.split(" | ").take(i + 2).collect::<Vec<_>>().join(" | ")
}

pub fn mon_c10(out: &mut Out, l: &str, r: &str) {
    let (head, ops) = ops_of(l);
    if head[0] != "cli" || head[1] != "tcp" {
        return;
    }
    let res = parts(r);
    // ids consumed never run ahead of the calls made, and every transmitted frame takes a fresh one
    let mut last: Option<u16> = None;
    let mut unwrapped: u64 = 0;
    let mut calls_so_far: u64 = 0;
    let mut ids: Vec<u16> = vec![];
    let mut wire: Vec<u8> = vec![];
    for (i, o) in ops.iter().enumerate() {
        if o.name != "call" && o.name != "typed" {
            continue;
        }
        if field("b", &o.fields) != "0" {
            calls_so_far += 1;
        }
        // frames completed on the transport during this call (what an earlier failed or abandoned
        // write left unsent – a whole frame or the tail of one – goes out first)
        wire.extend(written(res.get(i).copied().unwrap_or("")));
        let items = spec::split_mbap(&wire);
        let mut used = 0;
        let mut done: Vec<u16> = vec![];
        for f in &items {
            let MbapItem::Frame(tid, _, p) = f else { break };
            done.push(*tid);
            used += 7 + p.len();
        }
        wire.drain(..used);
        for tid in done {
            match last {
                None => unwrapped = u64::from(tid),
                Some(prev) => {
                    let d = u64::from(tid.wrapping_sub(prev));
                    out.check_with(d >= 1, || format!("transaction id {tid:04X} transmitted in call {i} repeats the previous one"), || prefix_line(l, i));
                    unwrapped += d;
                }
            }
            let ok = unwrapped + 1 <= calls_so_far;
            out.check_with(ok, || format!("transaction id {tid:04X} transmitted in call {i}: {} ids used up by {calls_so_far} calls", unwrapped + 1), || prefix_line(l, i));
            if !ok {
                return;
            }
            last = Some(tid);
            ids.push(tid);
        }
    }
    // without failed writes every call's frame goes out during that very call: exact accounting
    let clean = ops.iter().all(|o| field("w", &o.fields).is_empty());
    if clean {
        let mut idx: u64 = 0;
        for (i, o) in ops.iter().enumerate() {
            if o.name != "call" && o.name != "typed" {
                continue;
            }
            // (a call that is dropped before its first poll has not run at all)
            if field("b", &o.fields) == "0" {
                continue;
            }
            let w = written(res.get(i).copied().unwrap_or(""));
            if w.len() >= 2 {
                let tid = u16::from(w[0]) << 8 | u16::from(w[1]);
                out.check_with(u64::from(tid) == idx % 65536, || format!("call number {idx} carries transaction id {tid:04X}"), || prefix_line(l, i));
            }
            idx += 1;
        }
    }
    // Pairwise distinctness within 65536 consecutive calls follows from the two checks above
    // (every transmitted frame advances the unwrapped id by at least one, and the ids used up
    // never exceed the calls made); `ids` is kept for the evidence only.
    let _ = ids;
}

// ================================================================ C12

fn c12_outcome(rng: &mut Rng, kind: &str, which: usize, tid: u16, unit: u8) -> String {
    let good_req = Request::ReadHoldingRegisters(rng.u16(), 2);
    let good_pdu = vec![0x03, 0x04, rng.u8(), rng.u8(), rng.u8(), rng.u8()];
    let rq = request(&good_req);
    // the bytes of the reply proper
    let reply: Vec<u8> = match which {
        // good reply
        0 | 7 => frame(kind, tid, unit, &good_pdu),
        // exception
        1 => frame(kind, tid, unit, &[0x83, rng.exc_code()]),
        // wrong header
        2 => frame(kind, tid.wrapping_add(1), unit.wrapping_add(1), &good_pdu),
        // wrong function
        3 => frame(kind, tid, unit, &[0x04, 0x02, 0x00, 0x01]),
        // undecodable frame
        4 if kind == "tcp" && rng.chance(1, 5) => {
            // … whose length field announces more than any PDU may have, arriving in two segments
            // (the call must still take all of it off the stream)
            let n = *rng.pick(&[254usize, 255, 300, 1000]);
            let f = frame(kind, tid, unit, &rng.bytes(n));
            let cut = rng.range(7, f.len() - 1);
            return format!("call {rq} r=d{},d{}", hex_raw(&f[..cut]), hex_raw(&f[cut..]));
        }
        4 => {
            if kind == "tcp" && rng.chance(1, 3) {
                let mut f = frame(kind, tid, unit, &good_pdu);
                let pid = rng.nonzero_be16(); // protocol id
                f[2] = pid[0];
                f[3] = pid[1];
                f
            } else if kind == "tcp" && rng.bool() {
                // well-framed, but the PDU breaks off early or is damaged in some other way: every
                // error class of the PDU decoder (a PDU that ends too soon is reported differently
                // from one with a wrong field)
                let short: &[&[u8]] = &[&[0x83], &[0x11, 0x05, 1, 2, 3], &[0x16, 0x00, 0x01, 0x00], &[0x03, 0x04, 1, 2], &[0x03], &[0x10, 0x00], &[]];
                let mut p: Vec<u8> = rng.pick(short).to_vec();
                if rng.bool() {
                    for _ in 0..20 {
                        let cand = super::universal::damaged_pdu(rng, &good_pdu);
                        if matches!(spec::classify_response(&cand), Verdict::Reject) {
                            p = cand;
                            break;
                        }
                    }
                }
                frame(kind, tid, unit, &p)
            } else {
                // well-framed, but the PDU is malformed (bad coil value)
                frame(kind, tid, unit, &[0x05, 0x00, 0x01, 0x12, 0x34])
            }
        }
        // noise beyond the retry limit (RTU) / invalid length field (TCP)
        5 => {
            if kind == "tcp" {
                vec![0, 1, 0, 0, 0, 0, 9, 9, 9]
            } else {
                (0..30).map(|_| 0x80 | (rng.u8() & 0x40)).collect()
            }
        }
        // transient read error
        6 => return format!("call {rq} r=xk{}", 1 + rng.below(2)),
        // the reply breaks off after its head (address, function, byte count, …) with a read error
        _ => {
            let f = frame(kind, tid, unit, &good_pdu);
            let k = rng.range(3, f.len() - 1);
            return format!("call {rq} r=d{},xk1", hex_raw(&f[..k]));
        }
    };
    // two modifiers, independent of the outcome: surplus bytes behind the reply in the same
    // read (always for outcome 7), and the way the reply is cut into reads
    let mut data = reply.clone();
    if which == 7 || rng.chance(1, 4) {
        if rng.bool() {
            data.extend(rng.bytes_in(1, 12));
        } else {
            // a complete stale frame
            data.extend(frame(kind, tid.wrapping_sub(1), unit, &good_pdu));
        }
    }
    let head = if kind == "tcp" { 7 } else { 3 };
    let chunks: Vec<Vec<u8>> = match rng.below(4) {
        0 if reply.len() > head => vec![data[..head].to_vec(), data[head..].to_vec()],
        1 => {
            let parts = rng.composition(data.len());
            chunk(&data, &parts)
        }
        _ => vec![data],
    };
    format!("call {rq} r={}", chunks_tok(&chunks))
}

const C12_FINAL_PDU: [u8; 4] = [0x03, 0x02, 0xBE, 0xEF];

pub fn gen_c12(out: &mut Out, rng: &mut Rng, thorough: bool) {
    let depth = if thorough { 5 } else { 4 };
    for kind in ["tcp", "rtu"] {
        let total = 9usize.pow(depth as u32);
        for code in 0..total {
            // all histories of length `depth` (shorter ones appear as prefixes ending in good exchanges)
            let unit = rng.unit();
            let mut line = format!("cli {kind} {}", hex8(unit));
            let mut c = code;
            for step in 0..depth {
                let which = c % 9;
                c /= 9;
                line.push_str(" | ");
                line.push_str(&c12_outcome(rng, kind, which, step as u16, unit));
            }
            // the final good exchange; its reply arrives in pieces
            let f = frame(kind, depth as u16, unit, &C12_FINAL_PDU);
            let parts = rng.composition(f.len());
            line.push_str(&format!(" | call RHR:0007:0001 r={}", chunks_tok(&chunk(&f, &parts))));
            monitor_line(out, &line);
        }
    }
}

/// "a call never gives up before consuming the reply to a request it has transmitted": when the
/// script of a call is exactly one MBAP frame (by its length field – decodable or not), the call
/// takes all of it off the transport; nothing of it is left for the next call to find
fn mon_c12_consumes_reply(out: &mut Out, l: &str, r: &str) {
    let orig = out.orig.clone();
    let (head, ops) = ops_of(l);
    let (ohead, oops) = ops_of(&orig);
    if head[0] != "cli" || head[1] != "tcp" || ohead.len() != head.len() || ops.len() != oops.len() {
        return;
    }
    // (the histories of C12's own generator: nothing in them leaves events behind on purpose)
    if ops.last().is_none_or(|o| o.arg != "RHR:0007:0001") {
        return;
    }
    let res = parts(r);
    for (k, (o, oo)) in ops.iter().zip(oops.iter()).enumerate() {
        // scripts and consumption are aligned only as long as every earlier op took exactly the
        // events that were scripted for it
        if k > 0 {
            let (po, poo) = (&ops[k - 1], &oops[k - 1]);
            if field("r", &po.fields) != field("r", &poo.fields) && parse_events(field("r", &po.fields)).data != parse_events(field("r", &poo.fields)).data {
                return;
            }
            if parse_events(field("r", &poo.fields)).has_fault {
                return;
            }
        }
        if o.name != "call" || oo.name != "call" || !oo.fields.iter().all(|f| f.starts_with("r=")) {
            continue;
        }
        let want = parse_events(field("r", &oo.fields));
        if want.has_fault || want.data.len() < 8 {
            continue;
        }
        let len = usize::from(want.data[4]) << 8 | usize::from(want.data[5]);
        if len == 0 || want.data.len() != 6 + len {
            continue;
        }
        let outcome = outcome_of(res.get(k).copied().unwrap_or(""));
        if outcome == "abandoned" || outcome == "blocked" {
            continue;
        }
        let got = parse_events(field("r", &o.fields));
        // (the last op also carries whatever nobody read)
        let taken = if k + 1 == ops.len() { got.data.len().min(want.data.len()) } else { got.data.len() };
        out.check(taken >= want.data.len(), || format!("call {k} returned `{outcome}` after taking {taken} of the {} bytes of the reply frame it was receiving: the rest is left for the next call", want.data.len()), l);
    }
}

pub fn mon_c12(out: &mut Out, l: &str, r: &str) {
    mon_c12_consumes_reply(out, l, r);
    let (head, ops) = ops_of(l);
    if head[0] != "cli" || ops.is_empty() {
        return;
    }
    let kind = head[1];
    let i = ops.len() - 1;
    let o = &ops[i];
    if o.name != "call" || o.arg != "RHR:0007:0001" {
        return;
    }
    let (tid, unit) = expected_hdr(&head, &ops, i);
    let pe = parse_events(field("r", &o.fields));
    if pe.has_fault || pe.data != frame(kind, tid, unit, &C12_FINAL_PDU) {
        return;
    }
    // the transport stayed open in all earlier ops?
    if ops[..i].iter().any(|o| parse_events(field("r", &o.fields)).ends_with_eof) {
        return;
    }
    let res = parts(r);
    let got = outcome_of(res.get(i).copied().unwrap_or(""));
    out.check(got == "ok RHR:BEEF", || format!("the final exchange was written and its matching reply delivered, but the call returned `{got}` (earlier results: {:?})", res[..i].iter().map(|s| outcome_of(s)).collect::<Vec<_>>()), l);
}

// ================================================================ C05 (after a rejected header)

/// a frame with an invalid MBAP header (protocol id, zero length) or an oversized length that
/// arrives in pieces – complete head first – is reported as an error; the well-formed reply to
/// the next request, of another length, must then be delivered intact
pub fn gen_c05_after_reject(out: &mut Out, rng: &mut Rng, thorough: bool) {
    for _ in 0..(if thorough { 3000 } else { 300 }) {
        let unit = rng.unit();
        let n = rng.range(1, 30);
        let mut bad = frame("tcp", 0, unit, &spec::response_bytes(&Response::ReadHoldingRegisters(rng.words(n))).unwrap());
        match rng.below(3) {
            0 => bad[3] = 1 + rng.u8() % 255,
            1 => bad[2] = 1 + rng.u8() % 255,
            _ => {
                bad[4] = 0;
                bad[5] = 0;
            }
        }
        let k = rng.range(7, bad.len() - 1);
        let chunks = match rng.below(3) {
            0 => vec![bad[..7].to_vec(), bad[7..].to_vec()],
            1 => vec![bad[..k].to_vec(), bad[k..].to_vec()],
            _ => {
                let parts = rng.composition(bad.len());
                chunk(&bad, &parts)
            }
        };
        let reply2 = frame("tcp", 1, unit, &[0x03, 0x02, 0xCA, 0xFE]);
        monitor_line(
            out,
            &format!(
                "cli tcp {} | call RHR:0000:{} r={} | call RHR:0102:0001 r=d{}",
                hex8(unit),
                hex16(n as u16),
                chunks_tok(&chunks),
                hex_raw(&reply2)
            ),
        );
    }
}

pub fn mon_c05_cli(out: &mut Out, l: &str, r: &str) {
    let (head, ops) = ops_of(l);
    if head[0] != "cli" || head[1] != "tcp" || ops.len() != 2 || ops[1].name != "call" {
        return;
    }
    let res = parts(r);
    if res.len() != 2 {
        return;
    }
    let (t2, u2) = expected_hdr(&head, &ops, 1);
    let r2 = parse_events(field("r", &ops[1].fields));
    if r2.data != frame("tcp", t2, u2, &[0x03, 0x02, 0xCA, 0xFE]) {
        return;
    }
    let got1 = outcome_of(res[0]);
    let got2 = outcome_of(res[1]);
    out.check(!got1.starts_with("ok "), || format!("a frame with an invalid header was delivered: `{got1}`"), l);
    out.check(got2 == "ok RHR:CAFE", || format!("the well-formed frame after a rejected one was not delivered intact: `{got2}`"), l);
}

// ================================================================ C13

pub fn gen_c13(out: &mut Out, rng: &mut Rng, thorough: bool) {
    // every request variant once per framing (the RTU decoder finds the end of a reply in a
    // different way for almost every function code), with custom codes the RTU framing can carry;
    // then random shapes
    let mut fixed: Vec<(&str, Request<'static>, Vec<u8>)> = vec![];
    for kind in ["tcp", "rtu"] {
        let a = rng.u16();
        let v: Vec<(Request<'static>, Response)> = vec![
            (Request::ReadCoils(a, 11), Response::ReadCoils(rng.bits(16))),
            (Request::ReadDiscreteInputs(a, 3), Response::ReadDiscreteInputs(rng.bits(8))),
            (Request::ReadHoldingRegisters(a, 2), Response::ReadHoldingRegisters(rng.words(2))),
            (Request::ReadInputRegisters(a, 1), Response::ReadInputRegisters(rng.words(1))),
            (Request::WriteSingleCoil(a, true), Response::WriteSingleCoil(a, true)),
            (Request::WriteSingleRegister(a, 7), Response::WriteSingleRegister(a, 7)),
            (Request::WriteMultipleCoils(a, Cow::Owned(vec![true; 9])), Response::WriteMultipleCoils(a, 9)),
            (Request::WriteMultipleRegisters(a, Cow::Owned(vec![1, 2])), Response::WriteMultipleRegisters(a, 2)),
            (Request::ReportServerId, Response::ReportServerId(rng.u8(), true, rng.bytes(3))),
            (Request::MaskWriteRegister(a, 1, 2), Response::MaskWriteRegister(a, 1, 2)),
            (Request::ReadWriteMultipleRegisters(a, 2, a, Cow::Owned(vec![5])), Response::ReadWriteMultipleRegisters(rng.words(2))),
        ];
        for (q, r) in v {
            fixed.push((kind, q, spec::response_bytes(&r).unwrap()));
        }
        // raw custom exchanges: layouts the RTU response table knows (0x07, 0x0B, 0x0C, 0x18)
        fixed.push((kind, Request::Custom(0x07, Cow::Owned(vec![])), vec![0x07, rng.u8()]));
        fixed.push((kind, Request::Custom(0x0B, Cow::Owned(vec![])), vec![0x0B, 0, 1, 0, 2]));
        fixed.push((kind, Request::Custom(0x0C, Cow::Owned(vec![])), vec![0x0C, 4, 9, 8, 7, 6]));
        fixed.push((kind, Request::Custom(0x18, Cow::Owned(vec![0, 1])), vec![0x18, 0, 4, 0, 1, 0xAB, 0xCD]));
    }
    let shapes = fixed.len() + if thorough { 40 } else { 6 };
    for si in 0..shapes {
        let (kind, req, rspb) = if si < fixed.len() {
            fixed[si].clone()
        } else {
            let kind = if si % 2 == 0 { "tcp" } else { "rtu" };
            let req = loop {
                let hint = rng.below(6);
                let r = gen_request(rng, Some(hint));
                if kind == "rtu" {
                    if let Request::Custom(..) = r {
                        continue;
                    }
                }
                break r;
            };
            let rsp = answer_for(rng, &req);
            let Some(rspb) = spec::response_bytes(&rsp) else { continue };
            (kind, req, rspb)
        };
        let unit = rng.unit();
        let reqb = spec::request_bytes(&req).unwrap();
        if rspb.len() > 60 {
            continue;
        }
        let reply = frame(kind, 0, unit, &rspb);
        let reqf = frame(kind, 0, unit, &reqb);
        let head = format!("cli {kind} {}", hex8(unit));
        let rq = request(&req);
        // reply cut at every offset by end of stream / read errors, under three ambient errno states
        for j in 0..=reply.len() {
            // (`E`: the peer has closed for good – every further read reports the end of the stream)
            for (fi, fault) in ["e", "xk1", "xk2", "xot", "E"].iter().enumerate() {
                // every ambient errno state at the frame boundary, a rotating one inside the frame
                let errnos: Vec<i32> = if j == 0 || j == reply.len() {
                    vec![0, 2, 13, 20, 104]
                } else {
                    vec![[0, 2, 13][(j + fi) % 3]]
                };
                for errno in errnos {
                    let pre = &reply[..j];
                    let chunks = if pre.is_empty() {
                        String::new()
                    } else {
                        let parts = rng.composition(pre.len());
                        format!("{},", chunks_tok(&chunk(pre, &parts)))
                    };
                    monitor_line(out, &format!("{head} errno={errno} | call {rq} r={chunks}{fault}"));
                }
            }
        }
        // every kind of read error (Interrupted and WouldBlock included) at the start, in the middle
        // and just before the end of the reply, with the rest of the reply ready behind the fault
        for k in 0..crate::wire::INJECTED.len() {
            for j in [0, reply.len() / 2, reply.len() - 1] {
                let pre = if j == 0 { String::new() } else { format!("d{},", hex_raw(&reply[..j])) };
                monitor_line(out, &format!("{head} | call {rq} r={pre}xk{k},d{}", hex_raw(&reply[j..])));
            }
        }
        // request cut at every offset by write errors / zero-length writes
        for j in 0..reqf.len() {
            for fault in ["xk1", "xk5", "z", "xbp"] {
                let w = if j == 0 { fault.to_string() } else { format!("a{j},{fault}") };
                monitor_line(out, &format!("{head} | call {rq} w={w} r=d{}", hex_raw(&reply)));
            }
        }
        // the transport takes every byte of the request and then fails the flush (with the reply
        // already waiting): a failure while sending, so a transport error
        for fault in ["xk1", "xk4", "xbp", "xot", "p,xk2", "p,p,xk3"] {
            let g = rng.range(1, reqf.len());
            let mut w = vec![];
            let mut left = reqf.len();
            while left > 0 {
                w.push(format!("a{}", g.min(left)));
                left = left.saturating_sub(g);
            }
            monitor_line(out, &format!("{head} | call {rq} w={} f={fault} r=d{}", w.join(","), hex_raw(&reply)));
            monitor_line(out, &format!("{head} | call {rq} f={fault} r=d{}", hex_raw(&reply)));
        }
        // every write granularity, with pending patterns: the frame still arrives once, in order
        for g in 1..=reqf.len().min(9) {
            let mut w = vec![];
            let mut left = reqf.len();
            while left > 0 {
                if rng.chance(1, 3) {
                    w.push("p".to_string());
                }
                w.push(format!("a{g}"));
                left = left.saturating_sub(g);
            }
            let f = if rng.bool() { " f=p,o" } else { "" };
            monitor_line(out, &format!("{head} | call {rq} w={}{f} r=d{}", w.join(","), hex_raw(&reply)));
        }
        for _ in 0..(if thorough { 300 } else { 20 }) {
            let mut w = vec![];
            let mut left = reqf.len();
            while left > 0 {
                match rng.below(4) {
                    0 => w.push("p".to_string()),
                    _ => {
                        let k = rng.range(1, left.min(7));
                        w.push(format!("a{k}"));
                        left -= k;
                    }
                }
            }
            monitor_line(out, &format!("{head} | call {rq} w={} r=d{}", w.join(","), hex_raw(&reply)));
        }
    }
}

/// the write side over two calls: the first send stops part-way (a write error at any offset, or
/// the transport stops taking bytes and the caller gives up), then the transport takes
/// everything again in small pieces: what reaches it is still frame 1 then frame 2, every byte
/// once and in order
pub fn gen_c13_second_send(out: &mut Out, rng: &mut Rng, thorough: bool) {
    for i in 0..(if thorough { 6000 } else { 400 }) {
        let kind = if i % 2 == 0 { "tcp" } else { "rtu" };
        let unit = rng.unit();
        let req1 = loop {
            let hint = rng.below(5);
            let r = gen_request(rng, Some(hint));
            if !(kind == "rtu" && matches!(r, Request::Custom(..))) && spec::request_bytes(&r).is_some_and(|b| b.len() <= 60) {
                break r;
            }
        };
        let f1 = frame(kind, 0, unit, &spec::request_bytes(&req1).unwrap());
        let k = rng.below(f1.len());
        let pre = if k == 0 { String::new() } else if rng.bool() { format!("a{k},") } else { format!("a{},p,a{},", k.div_ceil(2), k - k.div_ceil(2)).replace("a0,", "") };
        let first = match rng.below(3) {
            0 => format!("w={pre}{}", *rng.pick(&["xk1", "xbp", "xto", "xii", "xid", "xot"])),
            1 => format!("b={} w={pre}p,p,p,p", 1 + pre.matches('p').count()),
            _ => format!("w={pre}z"),
        };
        let second_w = *rng.pick(&["a1,a2,a3,a300", "a300", "p,a4,p,a300", "a2,p,a300"]);
        monitor_line(out, &format!("cli {kind} {} | call {} {first} | call RHR:0102:0001 w={second_w} r=e", hex8(unit), request(&req1)));
    }
}

pub fn is_second_send_line(l: &str) -> bool {
    let (head, ops) = ops_of(l);
    head[0] == "cli" && ops.len() == 2 && ops.iter().all(|o| o.name == "call") && l.ends_with(" r=e") && l.contains("| call RHR:0102:0001 w=")
}

pub fn mon_c13_second_send(out: &mut Out, l: &str, r: &str) {
    let (head, ops) = ops_of(l);
    let kind = head[1];
    let res = parts(r);
    let mut wire: Vec<u8> = vec![];
    let mut expect: Vec<u8> = vec![];
    for (i, o) in ops.iter().enumerate() {
        let Some(req) = op_request(o) else { return };
        let Some(reqb) = spec::request_bytes(&req) else { return };
        let (tid, unit) = expected_hdr(&head, &ops, i);
        expect.extend(frame(kind, tid, unit, &reqb));
        wire.extend(written(res.get(i).copied().unwrap_or("")));
    }
    let got2 = outcome_of(res.get(1).copied().unwrap_or(""));
    out.check(!r.contains("panic"), || "call panicked".into(), l);
    // the second call's send went through (it then met the end of the stream)
    if got2 == "tr:bp" {
        out.check(wire == expect, || format!("bytes that reached the transport over both calls are not frame 1 then frame 2: {} (expected {})", hex(&wire), hex(&expect)), l);
    } else {
        out.check(expect.starts_with(&wire), || format!("bytes that reached the transport are not a prefix of frame 1 then frame 2: {}", hex(&wire)), l);
    }
}

pub fn mon_c13(out: &mut Out, l: &str, r: &str) {
    let (head, ops) = ops_of(l);
    if is_second_send_line(l) {
        mon_c13_second_send(out, l, r);
        return;
    }
    if head[0] != "cli" || ops.len() != 1 || ops[0].name != "call" {
        return;
    }
    let kind = head[1];
    let o = &ops[0];
    let Some(req) = op_request(o) else { return };
    let Some(reqb) = spec::request_bytes(&req) else { return };
    let (tid, unit) = expected_hdr(&head, &ops, 0);
    let reqf = frame(kind, tid, unit, &reqb);
    let res = parts(r);
    let got = outcome_of(res[0]);
    let w = written(res[0]);
    out.check(!got.contains("panic"), || "call panicked".into(), l);
    // whatever happens, the bytes that reached the transport are a prefix of the frame
    out.check(reqf.starts_with(&w), || format!("bytes accepted by the transport are not a prefix of the request frame: {}", hex(&w)), l);
    let wevs = field("w", &o.fields);
    let write_fault = wevs.split(',').find(|e| e.starts_with('x') || *e == "z" || *e == "a0");
    if let Some(fault) = write_fault {
        let expect = if fault == "z" || fault == "a0" { "tr:wz".to_string() } else { format!("tr:{}", &fault[1..]) };
        out.check(got == expect, || format!("write fault `{fault}` must surface as `{expect}`, got `{got}`"), l);
        return;
    }
    // the flush after the last byte fails: still a failure while sending
    let fevs = field("f", &o.fields);
    if let Some(fault) = fevs.split(',').find(|e| e.starts_with('x')) {
        let expect = format!("tr:{}", &fault[1..]);
        out.check(got == expect, || format!("flush fault `{fault}` must surface as `{expect}`, got `{got}`"), l);
        return;
    }
    // no write fault: the frame arrives exactly once, in order
    if !got.starts_with("abandoned") && !got.starts_with("blocked") || !wevs.is_empty() {
        if got != "blocked" || w.len() == reqf.len() {
            out.check(w == reqf, || format!("bytes written differ from the request frame: {} vs {}", hex(&w), hex(&reqf)), l);
        }
    }
    let pe = parse_events(field("r", &o.fields));
    if !pe.has_fault {
        return;
    }
    // a reply cut short by end of stream or a read error: never success – whatever may be
    // readable *behind* the fault (a call must not read on past a failure)
    let revs = field("r", &o.fields);
    let mut before: Vec<u8> = vec![];
    let mut last = "";
    for e in revs.split(',') {
        if e == "e" || e.starts_with('x') {
            last = e;
            break;
        }
        if let Some(d) = e.strip_prefix('d') {
            before.extend(p_bytes(d).unwrap_or_default());
        }
    }
    // only judge cuts that fall strictly inside (or before) the one reply frame
    let complete = if kind == "tcp" {
        matches!(spec::split_mbap(&before).first(), Some(MbapItem::Frame(..)))
    } else {
        split_rtu_clean(&before, false).is_some_and(|v| !v.is_empty())
    };
    if complete {
        return;
    }
    out.check(got.starts_with("tr:"), || format!("reply cut at offset {} by `{last}` but the call returned `{got}`", before.len()), l);
    if let Some(k) = last.strip_prefix('x') {
        out.check(got == format!("tr:{k}"), || format!("read error `{k}` must be returned unchanged, got `{got}`"), l);
    } else if last == "e" && before.is_empty() {
        // orderly end of stream: a closed-connection kind
        let closed = ["tr:bp", "tr:k1", "tr:k2", "tr:ue", "tr:nc"];
        out.check(closed.contains(&got), || format!("orderly end of stream reported as `{got}`, which does not denote a closed connection"), l);
    }
    // determined by the transport alone: same result under another ambient errno
    if head.iter().any(|h| h.starts_with("errno=") && *h != "errno=0") {
        let plain: Vec<&str> = head.iter().copied().filter(|h| !h.starts_with("errno=")).collect();
        let l0 = format!("{} | {}", plain.join(" "), l.split(" | ").skip(1).collect::<Vec<_>>().join(" | "));
        let (_, r0) = out.case(&l0);
        out.check(r0 == r, || format!("result depends on the ambient OS error state: `{r}` vs `{r0}`"), l);
    }
}

// ================================================================ C15

pub fn gen_c15(out: &mut Out, rng: &mut Rng, thorough: bool) {
    // all interleavings of up to N ops over {call, slave, disconnect}, with every shutdown outcome
    let maxlen = if thorough { 7 } else { 5 };
    let mut shut: Vec<String> = vec!["".into(), "s=o".into(), "s=p,o".into(), "s=xnc".into(), "s=xbp".into(), "s=xid".into(), "s=xii".into(), "s=xue".into(), "s=xto".into(), "s=xwz".into(), "s=xot".into(), "s=p,p,xk5".into()];
    for k in 0..crate::wire::INJECTED.len() {
        shut.push(format!("s=xk{k}"));
    }
    for kind in ["tcp", "rtu"] {
        for len in 1..=maxlen {
            let total = 3usize.pow(len as u32);
            for code in 0..total {
                let mut c = code;
                let mut seq = vec![];
                for _ in 0..len {
                    seq.push(c % 3);
                    c /= 3;
                }
                if !seq.contains(&2) {
                    continue;
                }
                // one line per shutdown outcome for short sequences, a random one otherwise
                let outcomes: Vec<String> = if len <= 3 { shut.clone() } else { vec![rng.pick(&shut).clone()] };
                for so in outcomes {
                    let mut line = format!("cli {kind} -");
                    let mut first_disc = true;
                    let mut tid = 0u16;
                    let mut unit: u8 = if kind == "tcp" { 255 } else { 0 };
                    for s in &seq {
                        match s {
                            0 => {
                                let reply = frame(kind, tid, unit, &[0x03, 0x02, 0x12, 0x34]);
                                line.push_str(&format!(" | call RHR:0001:0001 r=d{}", hex_raw(&reply)));
                                tid = tid.wrapping_add(1);
                            }
                            1 => {
                                unit = rng.unit();
                                line.push_str(&format!(" | slave {}", hex8(unit)));
                            }
                            _ => {
                                if first_disc && !so.is_empty() {
                                    line.push_str(&format!(" | disc {so}"));
                                } else {
                                    line.push_str(" | disc");
                                }
                                first_disc = false;
                            }
                        }
                    }
                    monitor_line(out, &line);
                }
            }
        }
    }
}

/// a call abandoned (or failed) while its request is only partly written leaves bytes in the
/// write buffer; a disconnect must still do nothing but shut the transport down once
pub fn gen_c15_stale_wbuf(out: &mut Out, rng: &mut Rng, thorough: bool) {
    let shut = ["", "s=o", "s=xnc", "s=xbp", "s=xk1", "s=xk3", "s=xto", "s=p,o"];
    for i in 0..(if thorough { 2000 } else { 200 }) {
        let kind = if i % 2 == 0 { "tcp" } else { "rtu" };
        let k = rng.range(1, 6);
        let first = match rng.below(3) {
            // dropped while the transport takes no more
            0 => format!("call RHR:0001:0001 b=1 w=a{k},p"),
            1 => format!("call RHR:0001:0001 b=2 w=p,a{k},p"),
            // failed after a partial write
            _ => format!("call RHR:0001:0001 w=a{k},xk2"),
        };
        let so = rng.pick(&shut);
        // what the transport would do with further writes, should the disconnect try any
        let w = *rng.pick(&["", " w=a100", " w=xbp", " w=xk1", " w=z"]);
        monitor_line(out, &format!("cli {kind} {} | {first} | disc {so}{w} | call RHR:0001:0001 | disc", hex8(rng.u8())));
    }
}

/// the disconnect after a call that ended in each possible way (end of stream on and off a frame
/// boundary, read / write / flush faults of every kind, exception, mismatch, junk, success)
pub fn gen_c15_after_outcome(out: &mut Out, rng: &mut Rng, thorough: bool) {
    let shut = ["", "s=o", "s=xnc", "s=xbp", "s=xk1", "s=xto", "s=p,o", "s=xid"];
    let kinds = ["xnc", "xbp", "xid", "xii", "xue", "xto", "xwz", "xot", "xk1", "xk4"];
    for i in 0..(if thorough { 4000 } else { 500 }) {
        let kind = if i % 2 == 0 { "tcp" } else { "rtu" };
        let unit = rng.unit();
        let good = frame(kind, 0, unit, &[0x03, 0x02, 0x12, 0x34]);
        let k = *rng.pick(&kinds);
        let cut = rng.range(1, good.len());
        let first = match i / 2 % 12 {
            0 => "r=e".to_string(),
            1 => "r=p,e".to_string(),
            2 => format!("r=d{},e", hex_raw(&good[..cut])),
            3 => format!("r={k}"),
            4 => format!("r=d{},{k}", hex_raw(&good[..cut])),
            5 => format!("w={k}"),
            6 => format!("w=a{},{k}", rng.range(1, 6)),
            7 => "w=z".to_string(),
            8 => format!("f={k}"),
            9 => format!("r=d{}", hex_raw(&frame(kind, 0, unit, &[0x83, 0x02]))),
            10 => format!("r=d{}", hex_raw(&frame(kind, 7, unit.wrapping_add(1), &[0x03, 0x02, 0x12, 0x34]))),
            _ => format!("r=d{}", hex_raw(&good)),
        };
        let ncalls = rng.range(1, 3);
        let mut line = format!("cli {kind} {}", hex8(unit));
        for _ in 0..ncalls {
            line.push_str(&format!(" | call RHR:0001:0001 {first}"));
        }
        let so = rng.pick(&shut);
        line.push_str(&format!(" | disc {so} | call RHR:0001:0001 | disc | typed rhr:0001:0001"));
        monitor_line(out, line.trim_end());
    }
}

pub fn mon_c15(out: &mut Out, l: &str, r: &str) {
    let (head, ops) = ops_of(l);
    if head[0] != "cli" {
        return;
    }
    let res = parts(r);
    let mut disconnected = false;
    let mut shutdowns = 0usize;
    for (i, o) in ops.iter().enumerate() {
        let rp = res.get(i).copied().unwrap_or("");
        let sd: usize = rp.split(' ').find_map(|t| t.strip_prefix("sd=")).and_then(|s| s.parse().ok()).unwrap_or(0);
        shutdowns += sd;
        let got = outcome_of(rp);
        match o.name {
            "disc" => {
                if !disconnected {
                    let s = field("s", &o.fields);
                    let last = s.split(',').find(|e| *e != "p").unwrap_or("o");
                    let expect = match last {
                        "" | "o" | "xnc" | "xbp" => "ok".to_string(),
                        e => format!("err:{}", &e[1..]),
                    };
                    out.check(got == expect, || format!("first disconnect with shutdown outcome `{s}`: expected `{expect}` got `{got}`"), l);
                    out.check(sd == 1, || format!("first disconnect shut the transport down {sd} times"), l);
                    out.check(written(rp).is_empty(), || format!("disconnect wrote to the transport: `{rp}`"), l);
                    disconnected = true;
                } else {
                    out.check(got == "ok" && sd == 0 && written(rp).is_empty(), || format!("disconnecting again must succeed without touching the transport: `{rp}`"), l);
                }
            }
            "call" | "typed" => {
                // (a call that is dropped before its first poll – budget 0 – has not run at all)
                if disconnected && field("b", &o.fields) != "0" {
                    out.check(got == "tr:nc" && written(rp).is_empty() && sd == 0, || format!("call after disconnect: expected NotConnected and no write, got `{rp}`"), l);
                }
            }
            _ => {}
        }
    }
    out.check(shutdowns <= 1, || format!("transport shut down {shutdowns} times"), l);
}

// ================================================================ C16

pub fn gen_c16(out: &mut Out, rng: &mut Rng, thorough: bool) {
    // a client that has made many calls before one is abandoned (the transaction id is all that
    // tells a late reply from the real one: it must still be fresh after 65536 calls)
    for n in if thorough { vec![11usize, 255, 256, 65_534, 65_535, 65_536, 65_537, 70_000] } else { vec![256, 65_535, 65_537] } {
        let unit = rng.unit();
        let t1 = n as u16;
        let t2 = t1.wrapping_add(1);
        let mut line = format!("cli tcp {}", hex8(unit));
        for _ in 0..n {
            line.push_str(" | call RSI r=e");
        }
        let late = frame("tcp", t1, unit, &[0x03, 0x02, 0xDE, 0xAD]);
        let reply2 = frame("tcp", t2, unit, &[0x03, 0x02, 0xCA, 0xFE]);
        line.push_str(&format!(" | call RHR:0001:0001 b=2 r=p,p | call RHR:0102:0001 r=d{}{}", hex_raw(&late), hex_raw(&reply2)));
        monitor_line(out, &line);
    }
    let shapes = if thorough { 40 } else { 12 };
    let patterns = if thorough { 120 } else { 30 };
    for si in 0..shapes {
        let kind = if si % 2 == 0 { "tcp" } else { "rtu" };
        // the first shapes run on the units at the borders of the address classes (the TCP default
        // 255 among them), the rest on any
        let unit = if si < 10 { [0xFFu8, 0x00, 0x01, 0xF7, 0xF8][si / 2] } else { rng.unit() };
        let req1 = loop {
            let hint = rng.below(5);
            let r = gen_request(rng, Some(hint));
            if kind == "rtu" && matches!(r, Request::Custom(..)) {
                continue;
            }
            break r;
        };
        let rsp1 = answer_for(rng, &req1);
        let Some(rsp1b) = spec::response_bytes(&rsp1) else { continue };
        let reqf1 = frame(kind, 0, unit, &spec::request_bytes(&req1).unwrap());
        let req2 = Request::ReadHoldingRegisters(0x0102, 1);
        for _ in 0..patterns {
            // a write pattern with pending points; flush pending too
            let mut w = vec![];
            let mut left = reqf1.len();
            let mut pendings = 0;
            while left > 0 {
                if rng.chance(2, 5) {
                    w.push("p".to_string());
                    pendings += 1;
                } else {
                    let k = rng.range(1, left.min(6));
                    w.push(format!("a{k}"));
                    left -= k;
                }
            }
            let f = match rng.below(3) {
                0 => {
                    pendings += 1;
                    " f=p,o"
                }
                _ => "",
            };
            // the reply to call 1 may trickle in with pendings as well
            let reply1 = frame(kind, 0, unit, &rsp1b);
            let rparts = rng.composition(reply1.len());
            let mut r1: Vec<String> = vec![];
            for c in chunk(&reply1, &rparts) {
                if rng.chance(1, 2) {
                    r1.push("p".into());
                    pendings += 1;
                }
                r1.push(format!("d{}", hex_raw(&c)));
            }
            // drop the future at every poll index
            for b in 0..=pendings + 1 {
                // how call 2 sees the world: optionally a late reply to call 1 first (TCP)
                let late = b > 0 && kind == "tcp" && rng.bool();
                let tid2 = if b == 0 { 0 } else { 1 };
                let reply2 = frame(kind, tid2, unit, &[0x03, 0x02, 0xCA, 0xFE]);
                let r2 = format!("d{}", hex_raw(&reply2));
                // what the late reply carries: the answer to call 1, an exception for it, or –
                // under call 1's header – what would answer call 2: a reply or an exception of
                // call 2's function
                let reply1 = if late {
                    match rng.below(5) {
                        0 => frame(kind, 0, unit, &[spec::request_bytes(&req1).unwrap()[0] | 0x80, rng.exc_code()]),
                        1 => frame(kind, 0, unit, &[0x83, rng.exc_code()]),
                        2 => frame(kind, 0, unit, &[0x03, 0x02, 0xDE, 0xAD]),
                        _ => reply1.clone(),
                    }
                } else {
                    reply1.clone()
                };
                let line = format!(
                    "cli {kind} {} | call {} b={b} w={}{f} r={} | call {} r={}",
                    hex8(unit),
                    request(&req1),
                    w.join(","),
                    if late { "-".to_string() } else { r1.join(",") },
                    request(&req2),
                    if late { format!("d{},{}", hex_raw(&reply1), r2) } else { r2.clone() },
                );
                monitor_line(out, &line);
            }
        }
    }
}

/// a call dropped after part of its reply has been read; the rest of that reply never comes
pub fn gen_c16_partial(out: &mut Out, rng: &mut Rng, thorough: bool) {
    for i in 0..(if thorough { 4000 } else { 400 }) {
        let kind = if i % 2 == 0 { "tcp" } else { "rtu" };
        let unit = rng.unit();
        let n = rng.range(2, 20);
        let reply1 = frame(kind, 0, unit, &spec::response_bytes(&Response::ReadHoldingRegisters(rng.words(n))).unwrap());
        let k = rng.range(1, reply1.len() - 1);
        let reply2 = frame(kind, 1, unit, &[0x03, 0x02, 0xCA, 0xFE]);
        monitor_line(
            out,
            &format!(
                "cli {kind} {} | call RHR:0000:{} b=2 r=d{},p,p | call RHR:0102:0001 r=d{}",
                hex8(unit),
                hex16(n as u16),
                hex_raw(&reply1[..k]),
                hex_raw(&reply2)
            ),
        );
    }
}

pub fn mon_c16(out: &mut Out, l: &str, r: &str) {
    let (head, all_ops) = ops_of(l);
    // the pair under judgement is the last two calls; before them there may be a run of plain
    // exchanges that end with the peer's `e` (they only age the client: ids, buffers)
    let n0 = all_ops.len().saturating_sub(2);
    if head[0] != "cli" || all_ops.len() < 2 || all_ops[n0..].iter().any(|o| o.name != "call") {
        return;
    }
    if all_ops[..n0].iter().any(|o| o.name != "call" || o.arg != "RSI" || field("r", &o.fields) != "e" || o.fields.len() != 1) {
        return;
    }
    let kind = head[1];
    let all_res = parts(r);
    if all_res.len() != all_ops.len() {
        return;
    }
    let res = &all_res[n0..];
    let ops = &all_ops[n0..];
    let got1 = outcome_of(res[0]);
    let got2 = outcome_of(res[1]);
    out.check(!r.contains("panic"), || "panic".into(), l);
    let (Some(q1), Some(q2)) = (op_request(&ops[0]), op_request(&ops[1])) else { return };
    let (t1, u1) = expected_hdr(&head, &all_ops, n0);
    let (t2, u2) = expected_hdr(&head, &all_ops, n0 + 1);
    let f1 = frame(kind, t1, u1, &spec::request_bytes(&q1).unwrap());
    let f2 = frame(kind, t2, u2, &spec::request_bytes(&q2).unwrap());
    let mut all = written(res[0]);
    all.extend(written(res[1]));
    // lifetime bytes on the transport: whole frames only, each one of the requests issued
    let never_polled = field("b", &ops[0].fields) == "0";
    let mut expect = if never_polled { vec![] } else { f1.clone() };
    expect.extend(&f2);
    if got2 != "blocked" && !got2.starts_with("tr:") {
        out.check(all == expect, || format!("bytes that reached the transport are not the concatenation of the whole request frames: {} (expected {})", hex(&all), hex(&expect)), l);
    }
    if got1 != "abandoned" || never_polled {
        return;
    }
    // the next call performs a normal exchange; a late TCP reply is a mismatch, never an answer
    let r2 = parse_events(field("r", &ops[1].fields));
    let reply2 = frame(kind, t2, u2, &[0x03, 0x02, 0xCA, 0xFE]);
    if r2.data == reply2 {
        out.check(got2 == "ok RHR:CAFE", || format!("call after an abandoned call did not perform a normal exchange: `{got2}`"), l);
    } else if kind == "tcp" {
        // something else arrives first.  A *late reply to the abandoned request* is a complete,
        // aligned frame under that request's own header, followed by exactly this call's reply;
        // the residue of a reply that the abandoned call had already begun to read is not one
        // (its first part went with the cleared receive buffer, the rest is misaligned junk for
        // which only the "never a foreign answer" clause below is demanded)
        let items = spec::split_mbap(&r2.data);
        if let [MbapItem::Frame(t, u, _), MbapItem::Frame(tb, ub, pb)] = items.as_slice() {
            if (*t, *u) == (t1, u1) && t1 != t2 && (*tb, *ub) == (t2, u2) && pb == &[0x03, 0x02, 0xCA, 0xFE] {
                out.check(got2.starts_with("hm "), || format!("late reply to the abandoned request was not reported as a header mismatch: `{got2}`"), l);
            }
        }
        out.check(
            !(got2.starts_with("ok ") || got2.starts_with("exc ")) || got2 == "ok RHR:CAFE",
            || format!("call after an abandoned call returned a foreign answer: `{got2}`"),
            l,
        );
    }
}

// ================================================================ C20

pub fn gen_c20(out: &mut Out, rng: &mut Rng, thorough: bool) {
    let reps = if thorough { 40 } else { 2 };
    for _ in 0..reps {
        for kind in ["tcp", "rtu"] {
            let unit = rng.unit();
            let head = format!("cli {kind} {}", hex8(unit));
            // reads: item counts 0..2*cnt (bits: whole bytes), all five methods
            for cnt in [0u16, 1, 2, 7, 8, 9, 15, 16, 17, 60] {
                for have in 0..=(2 * usize::from(cnt) + 9) {
                    let a = rng.u16();
                    let (ops, pdus): (Vec<TypedOp>, Vec<Vec<u8>>) = {
                        let bits = rng.bits(have.div_ceil(8) * 8);
                        let ws = rng.words(have.min(125));
                        (
                            vec![
                                TypedOp::Rc(a, cnt),
                                TypedOp::Rdi(a, cnt),
                                TypedOp::Rhr(a, cnt),
                                TypedOp::Rir(a, cnt),
                                TypedOp::Rwm(a, cnt, rng.u16(), rng.words_in(0, 3)),
                            ],
                            vec![
                                spec::response_bytes(&Response::ReadCoils(bits.clone())).unwrap(),
                                spec::response_bytes(&Response::ReadDiscreteInputs(bits)).unwrap(),
                                spec::response_bytes(&Response::ReadHoldingRegisters(ws.clone())).unwrap(),
                                spec::response_bytes(&Response::ReadInputRegisters(ws.clone())).unwrap(),
                                spec::response_bytes(&Response::ReadWriteMultipleRegisters(ws)).unwrap(),
                            ],
                        )
                    };
                    for (op, pdu) in ops.iter().zip(pdus.iter()) {
                        monitor_line(out, &format!("{head} | typed {} r=d{}", op.tok(), hex_raw(&frame(kind, 0, unit, pdu))));
                    }
                }
            }
            // every count a reply can satisfy, with a reply of exactly that many items (bits: the
            // whole bytes that hold them): a fault tied to one particular count has nowhere to hide
            let step = if thorough { 1 } else { 1 };
            for cnt in (1..=2000u16).step_by(step) {
                let a = rng.u16();
                let bits = rng.bits(usize::from(cnt).div_ceil(8) * 8);
                let op = if cnt % 2 == 0 { TypedOp::Rc(a, cnt) } else { TypedOp::Rdi(a, cnt) };
                let rsp = if cnt % 2 == 0 { Response::ReadCoils(bits) } else { Response::ReadDiscreteInputs(bits) };
                monitor_line(out, &format!("{head} | typed {} r=d{}", op.tok(), hex_raw(&frame(kind, 0, unit, &spec::response_bytes(&rsp).unwrap()))));
            }
            for cnt in 1..=125u16 {
                let a = rng.u16();
                for which in 0..3 {
                    let ws = rng.words(usize::from(cnt));
                    let (op, rsp) = match which {
                        0 => (TypedOp::Rhr(a, cnt), Response::ReadHoldingRegisters(ws)),
                        1 => (TypedOp::Rir(a, cnt), Response::ReadInputRegisters(ws)),
                        _ => (TypedOp::Rwm(a, cnt, a, vec![cnt]), Response::ReadWriteMultipleRegisters(ws)),
                    };
                    monitor_line(out, &format!("{head} | typed {} r=d{}", op.tok(), hex_raw(&frame(kind, 0, unit, &spec::response_bytes(&rsp).unwrap()))));
                }
            }
            // the largest counts a caller can ask for: far beyond what any reply can hold
            for cnt in [2000u16, 2001, 2008, 65528, 65529, 65530, 65534, 65535] {
                for have in [0usize, 8, 2000, 2008] {
                    let bits = rng.bits(have);
                    let ws = rng.words(have.min(125));
                    let a = rng.u16();
                    let cases: Vec<(TypedOp, Response)> = vec![
                        (TypedOp::Rc(a, cnt), Response::ReadCoils(bits.clone())),
                        (TypedOp::Rdi(a, cnt), Response::ReadDiscreteInputs(bits)),
                        (TypedOp::Rhr(a, cnt), Response::ReadHoldingRegisters(ws.clone())),
                        (TypedOp::Rir(a, cnt), Response::ReadInputRegisters(ws.clone())),
                        (TypedOp::Rwm(a, cnt, 0, vec![1]), Response::ReadWriteMultipleRegisters(ws)),
                    ];
                    for (op, rsp) in cases {
                        let pdu = spec::response_bytes(&rsp).unwrap();
                        monitor_line(out, &format!("{head} | typed {} r=d{}", op.tok(), hex_raw(&frame(kind, 0, unit, &pdu))));
                    }
                }
            }
            // writes: echoes equal / different
            for _ in 0..(if thorough { 400 } else { 120 }) {
                let a = rng.u16();
                let v = rng.u16();
                let b = rng.bool();
                let cs = rng.bits_in(0, 30);
                let ws = rng.words_in(0, 10);
                let (am, om) = (rng.u16(), rng.u16());
                let twist = |rng: &mut Rng, x: u16| if rng.chance(1, 3) { x ^ (1 << rng.below(16)) } else { x };
                let cases: Vec<(TypedOp, Response)> = vec![
                    (TypedOp::Wsc(a, b), Response::WriteSingleCoil(twist(rng, a), if rng.chance(1, 4) { !b } else { b })),
                    (TypedOp::Wsr(a, v), Response::WriteSingleRegister(twist(rng, a), twist(rng, v))),
                    (TypedOp::Wmc(a, cs.clone()), Response::WriteMultipleCoils(twist(rng, a), twist(rng, cs.len() as u16))),
                    (TypedOp::Wmr(a, ws.clone()), Response::WriteMultipleRegisters(twist(rng, a), twist(rng, ws.len() as u16))),
                    (TypedOp::Mwr(a, am, om), Response::MaskWriteRegister(twist(rng, a), twist(rng, am), twist(rng, om))),
                ];
                for (op, rsp) in cases {
                    let pdu = spec::response_bytes(&rsp).unwrap();
                    monitor_line(out, &format!("{head} | typed {} r=d{}", op.tok(), hex_raw(&frame(kind, 0, unit, &pdu))));
                    // exception instead
                    if rng.chance(1, 6) {
                        let fc = pdu[0] | 0x80;
                        monitor_line(out, &format!("{head} | typed {} r=d{}", op.tok(), hex_raw(&frame(kind, 0, unit, &[fc, rng.u8()]))));
                    }
                }
            }
            // a write-single-coil acknowledgement whose state word is neither 0x0000 nor 0xFF00 is
            // no reply at all, whatever was written
            for b in [false, true] {
                for w in [0x00FFu16, 0x0001, 0x1234, 0xFF01, 0xFFFF, 0x0100] {
                    let a = rng.u16();
                    let pdu = [0x05, (a >> 8) as u8, a as u8, (w >> 8) as u8, w as u8];
                    monitor_line(out, &format!("{head} | typed {} r=d{}", TypedOp::Wsc(a, b).tok(), hex_raw(&frame(kind, 0, unit, &pdu))));
                }
            }
            if kind == "tcp" {
                illformed_typed_replies(out, rng, &head, kind, unit, if thorough { 600 } else { 150 });
            }
        }
    }
}

/// ill-formed replies under the right header and the right function code: surplus
/// bytes, a PDU beyond the size limit, truncation, a byte count that does not
/// match – a typed method must turn every one of them into an error, not a panic
pub fn illformed_typed_replies(out: &mut Out, rng: &mut Rng, head: &str, kind: &str, unit: u8, n: usize) {
    for _ in 0..n {
        let a = rng.u16();
        let cnt = rng.range(1, 20) as u16;
        let cs = rng.bits_in(1, 30);
        let ws = rng.words_in(1, 10);
        let cases: Vec<(TypedOp, Response)> = vec![
            (TypedOp::Rc(a, cnt), Response::ReadCoils(rng.bits(usize::from(cnt).div_ceil(8) * 8))),
            (TypedOp::Rdi(a, cnt), Response::ReadDiscreteInputs(rng.bits(usize::from(cnt).div_ceil(8) * 8))),
            (TypedOp::Rhr(a, cnt), Response::ReadHoldingRegisters(rng.words(usize::from(cnt)))),
            (TypedOp::Rir(a, cnt), Response::ReadInputRegisters(rng.words(usize::from(cnt)))),
            (TypedOp::Rwm(a, cnt, a, ws.clone()), Response::ReadWriteMultipleRegisters(rng.words(usize::from(cnt)))),
            (TypedOp::Wsc(a, true), Response::WriteSingleCoil(a, true)),
            (TypedOp::Wsr(a, cnt), Response::WriteSingleRegister(a, cnt)),
            (TypedOp::Wmc(a, cs.clone()), Response::WriteMultipleCoils(a, cs.len() as u16)),
            (TypedOp::Wmr(a, ws.clone()), Response::WriteMultipleRegisters(a, ws.len() as u16)),
            (TypedOp::Mwr(a, 1, 2), Response::MaskWriteRegister(a, 1, 2)),
        ];
        for (op, rsp) in cases {
            let good = spec::response_bytes(&rsp).unwrap();
            let mut pdu = good.clone();
            match rng.below(7) {
                // one field damaged, length kept (an echo with a foreign value field, a wrong count …)
                5 | 6 => {
                    let i = rng.range(1, pdu.len() - 1);
                    pdu[i] = if rng.bool() { pdu[i] ^ (1 << rng.below(8)) } else { rng.u8() };
                }
                0 => pdu.extend(rng.bytes_in(1, 4)),
                1 => {
                    // beyond the PDU limit, byte count consistent with the length
                    pdu.truncate(1);
                    pdu.push(0xFC);
                    pdu.extend(rng.bytes(252));
                }
                2 => {
                    let k = rng.range(1, pdu.len() - 1);
                    pdu.truncate(k);
                }
                3 if pdu.len() > 2 => pdu[1] = pdu[1].wrapping_add(1 + rng.u8() % 3),
                _ => pdu.extend(rng.bytes(260)),
            }
            monitor_line(out, &format!("{head} | typed {} r=d{}", op.tok(), hex_raw(&frame(kind, 0, unit, &pdu))));
        }
    }
}

pub fn mon_c20(out: &mut Out, l: &str, r: &str) {
    let (head, ops) = ops_of(l);
    if head[0] != "cli" || ops.len() != 1 || ops[0].name != "typed" {
        return;
    }
    let kind = head[1];
    let got = outcome_of(parts(r)[0]);
    out.check(!got.contains("panic"), || format!("typed method panicked: {r}"), l);
    let Some(op) = TypedOp::parse(ops[0].arg) else { return };
    let pe = parse_events(field("r", &ops[0].fields));
    let pdu = if kind == "tcp" {
        match spec::split_mbap(&pe.data).as_slice() {
            [MbapItem::Frame(_, _, p)] => p.clone(),
            _ => return,
        }
    } else {
        match split_rtu_clean(&pe.data, false) {
            Some(v) if v.len() == 1 => v[0].1.clone(),
            _ => return,
        }
    };
    let verdict = if pdu.is_empty() {
        Verdict::Reject
    } else if pdu[0] < 0x80 {
        spec::classify_response(&pdu)
    } else {
        Verdict::Unspecified
    };
    if verdict == Verdict::Reject {
        // not a reply of any kind (C08): no typed method may report success for it
        out.check(!got.starts_with("ok "), || format!("typed method reports success `{got}` for a malformed reply PDU {}", super::codec::trunc(&hex(&pdu))), l);
        return;
    }
    let Verdict::Accept(rsp) = verdict else { return };
    if let Some(v) = got.strip_prefix("ok ") {
        match (&op, &rsp) {
            (TypedOp::Rc(_, cnt), Response::ReadCoils(bs)) | (TypedOp::Rdi(_, cnt), Response::ReadDiscreteInputs(bs)) => {
                let n = usize::from(*cnt);
                let ok = bs.len() >= n && v == format!("bits:{}", bits(&bs[..n]));
                out.check(ok, || format!("typed bit read of {n} items returned `{v}` from a reply with {} items", bs.len()), l);
            }
            (TypedOp::Rhr(_, cnt), Response::ReadHoldingRegisters(ws))
            | (TypedOp::Rir(_, cnt), Response::ReadInputRegisters(ws))
            | (TypedOp::Rwm(_, cnt, _, _), Response::ReadWriteMultipleRegisters(ws)) => {
                let n = usize::from(*cnt);
                let ok = ws.len() == n && v == format!("words:{}", words(ws));
                out.check(ok, || format!("typed register read of {n} items returned `{v}` from a reply with {} items", ws.len()), l);
            }
            (TypedOp::Wsc(..), Response::WriteSingleCoil(..))
            | (TypedOp::Wsr(..), Response::WriteSingleRegister(..))
            | (TypedOp::Wmc(..), Response::WriteMultipleCoils(..))
            | (TypedOp::Wmr(..), Response::WriteMultipleRegisters(..))
            | (TypedOp::Mwr(..), Response::MaskWriteRegister(..)) => {
                out.check(v == "unit", || format!("typed write returned `{v}`"), l);
            }
            _ => out.check(false, || format!("typed method reports success `{v}` for a reply of another kind: {}", response(&rsp)), l),
        }
    }
}

// ================================================================ C01

fn c01_request(rng: &mut Rng, kind: &str) -> Request<'static> {
    loop {
        let r = gen_request(rng, None);
        if spec::request_bytes(&r).is_none_or(|b| b.len() > 253) {
            continue;
        }
        if let Request::Custom(fc, d) = &r {
            if kind == "rtu" {
                // what the RTU framing can carry as a raw request
                let fc = *rng.pick(&[0x07u8, 0x0B, 0x0C, 0x18]);
                return Request::Custom(fc, Cow::Owned(if fc == 0x18 { rng.bytes(2) } else { vec![] }));
            }
            let _ = (fc, d);
        }
        return r;
    }
}

fn typed_for(rng: &mut Rng) -> TypedOp {
    match rng.below(10) {
        0 => TypedOp::Rc(rng.u16(), rng.u16()),
        1 => TypedOp::Rdi(rng.u16(), rng.u16()),
        2 => TypedOp::Rhr(rng.u16(), rng.u16()),
        3 => TypedOp::Rir(rng.u16(), rng.u16()),
        4 => TypedOp::Rwm(rng.u16(), rng.u16(), rng.u16(), rng.words_in(0, 121)),
        5 => TypedOp::Wsc(rng.u16(), rng.bool()),
        6 => TypedOp::Wsr(rng.u16(), rng.u16()),
        7 => TypedOp::Wmc(rng.u16(), rng.bits_in(0, 1976)),
        8 => TypedOp::Wmr(rng.u16(), rng.words_in(0, 123)),
        _ => TypedOp::Mwr(rng.u16(), rng.u16(), rng.u16()),
    }
}

pub fn gen_c01(out: &mut Out, rng: &mut Rng, thorough: bool) {
    // every typed method at the sizes where a convenience path could differ (0, 1, a byte
    // boundary, the maximum)
    for kind in ["tcp", "rtu"] {
        for (op, _) in super::netgen::typed_boundary_ops(rng) {
            monitor_line(out, &format!("cli {kind} {} | typed {}", hex8(rng.u8()), op.tok()));
        }
    }
    // every typed method with every combination of border values for its scalar arguments
    for (i, op) in super::netgen::typed_border_products(rng).iter().enumerate() {
        let kind = if i % 2 == 0 { "tcp" } else { "rtu" };
        monitor_line(out, &format!("cli {kind} {} | typed {}", hex8(rng.unit()), op.tok()));
    }
    let n = if thorough { 100_000 } else { 5_000 };
    for i in 0..n {
        let kind = if i % 2 == 0 { "tcp" } else { "rtu" };
        // slave selection: default, attach_slave, set_slave histories
        let mut line = format!("cli {kind} {}", if rng.chance(1, 4) { "-".into() } else { hex8(rng.u8()) });
        for _ in 0..rng.below(3) {
            line.push_str(&format!(" | slave {}", hex8(rng.u8())));
        }
        if rng.chance(1, 3) {
            line.push_str(&format!(" | typed {}", typed_for(rng).tok()));
        } else {
            line.push_str(&format!(" | call {}", request(&c01_request(rng, kind))));
        }
        if rng.chance(1, 4) {
            line.push_str(" w=a1,p,a2,a3,p,a5");
        }
        monitor_line(out, &line);
    }
    // "exactly one frame" also right after a request the client had to refuse (over the limit)
    for kind in ["tcp", "rtu"] {
        for i in 0..(if thorough { 200 } else { 24 }) {
            let (n1, n2, n3) = (2 * rng.range(124, 200), rng.range(253, 400), 2 * rng.range(122, 130));
            let big = match i % 4 {
                0 => format!("WMR:0000:{}", hex_raw(&rng.bytes(n1))),
                1 => format!("CU:41:{}", hex_raw(&rng.bytes(n2))),
                2 => format!("RWM:0000:0001:0000:{}", hex_raw(&rng.bytes(n3))),
                _ => format!("CU:{}:{}", hex8(if kind == "rtu" { 0x07 } else { 0x2B }), hex_raw(&rng.bytes(300))),
            };
            let unit = rng.unit();
            let next = if rng.bool() { format!("call {}", request(&c01_request(rng, kind))) } else { format!("typed {}", typed_for(rng).tok()) };
            monitor_line(out, &format!("cli {kind} {} | call {big} | {next}", hex8(unit)));
        }
    }
    // every slave id, both framings
    for kind in ["tcp", "rtu"] {
        for id in 0..=255u8 {
            monitor_line(out, &format!("cli {kind} - | slave {} | call RHR:0001:0002", hex8(id)));
            monitor_line(out, &format!("cli {kind} {} | call WSC:0001:1", hex8(id)));
        }
    }
    // short frames under every fragmentation
    for kind in ["tcp", "rtu"] {
        for req in ["RSI", "RC:0102:0304", "CU:07:-"] {
            monitor_line(out, &format!("cli {kind} 2A exhaustive=1 | call {req}"));
        }
    }
}

pub fn mon_c01(out: &mut Out, l: &str, r: &str) {
    let (head, ops) = ops_of(l);
    if head[0] != "cli" || ops.is_empty() {
        return;
    }
    let kind = head[1];
    let i = ops.len() - 1;
    let Some(req) = op_request(&ops[i]) else { return };
    let Some(reqb) = spec::request_bytes(&req) else { return };
    if reqb.len() > 253 {
        return;
    }
    let (tid, unit) = expected_hdr(&head, &ops, i);
    let res = parts(r);
    let w = written(res.get(i).copied().unwrap_or(""));
    // (1) exactly one frame, whose PDU is the Modbus encoding of the request
    let f = frame(kind, tid, unit, &reqb);
    out.check(w == f, || format!("request {} for unit {unit:02X} was written as {} instead of {}", request(&req), super::codec::trunc(&hex(&w)), super::codec::trunc(&hex(&f))), l);
    if w != f {
        return;
    }
    // (2) a server built from the library hands its service one equal request with the same slave id
    let deliverable = match &req {
        Request::Custom(fc, d) => {
            // raw requests whose code the decoder models are delivered as their typed variant or rejected
            !MODELLED_REQ.contains(fc)
                && (kind == "tcp" || (RTU_REQ_CODES.contains(fc) && ((*fc == 0x18 && d.len() == 2) || (*fc != 0x18 && d.is_empty()))))
        }
        _ => true,
    };
    if !deliverable {
        return;
    }
    let expect = format!("call {} {} | end blocked", hex8(unit), request(&req));
    let chunkings: Vec<Vec<Vec<u8>>> = if head.iter().any(|h| *h == "exhaustive=1") && w.len() <= 13 {
        all_chunkings(&w).collect()
    } else {
        derived_chunkings(&w, 2)
    };
    for ch in chunkings {
        let (l2, r2) = out.case(&format!("srv {kind} svc=D r={}", chunks_tok(&ch)));
        out.check(r2 == expect, || format!("server side saw `{}` instead of `{}`", super::codec::trunc(&r2), super::codec::trunc(&expect)), &l2);
    }
    // … also as the second request of a connection, after a longer request that arrived in pieces
    let first = Request::WriteMultipleRegisters(0x0100, Cow::Owned(vec![1, 2, 3, 4, 5]));
    let ff = frame(kind, tid.wrapping_sub(1), unit, &spec::request_bytes(&first).unwrap());
    let mut chunks: Vec<Vec<u8>> = ff.chunks(4).map(<[u8]>::to_vec).collect();
    chunks.push(w.clone());
    let expect2 = format!("call {} {} | call {} {} | end blocked", hex8(unit), request(&first), hex8(unit), request(&req));
    let (l2, r2) = out.case(&format!("srv {kind} svc=D,D r={}", chunks_tok(&chunks)));
    out.check(r2 == expect2, || format!("second request of a connection: server side saw `{}` instead of `{}`", super::codec::trunc(&r2), super::codec::trunc(&expect2)), &l2);
}

// ================================================================ C02

pub fn gen_c02(out: &mut Out, rng: &mut Rng, thorough: bool) {
    let n = if thorough { 60_000 } else { 3_000 };
    for i in 0..n {
        let kind = if i % 2 == 0 { "tcp" } else { "rtu" };
        let unit = rng.unit();
        let req = c01_request(rng, kind);
        let reqf = frame(kind, 0, unit, &spec::request_bytes(&req).unwrap());
        let svc = if rng.chance(1, 4) {
            let code = rng.u8();
            if rng.chance(1, 5) {
                format!("X=c{}", hex8(code))
            } else {
                format!("X={}", hex8(code))
            }
        } else {
            let rsp = loop {
                let r = if rng.chance(1, 5) { gen_response_same_kind(rng, &req) } else { answer_for(rng, &req) };
                if spec::response_bytes(&r).is_some_and(|b| b.len() <= 253) {
                    break r;
                }
            };
            format!("R={}", response(&rsp))
        };
        // what is behind the request must not keep its reply back: nothing, the head of a next
        // request, a whole next request that the service declines, the end of the stream
        let next = frame(kind, 1, unit, &[0x03, 0x00, 0x07, 0x00, 0x01]);
        let (svc_tail, behind) = match rng.below(8) {
            0 => ("", hex_raw(&next[..rng.range(1, next.len() - 1)])),
            1 => (",D", hex_raw(&next)),
            2 => (",D", format!("{},e", hex_raw(&next))),
            3 => (",D", format!(",d{}", hex_raw(&next))),
            4 => ("", ",e".to_string()),
            5 => ("", ",E".to_string()),
            _ => ("", String::new()),
        };
        monitor_line(out, &format!("srv {kind} svc={svc}{svc_tail} r=d{}{behind}", hex_raw(&reqf)));
    }
    // every variable-size response at and just below the PDU limit (253 bytes), both framings
    for kind in ["tcp", "rtu"] {
        let unit = rng.unit();
        let mut cases: Vec<(Request<'static>, Response)> = vec![];
        for bits in [1999usize, 2000, 2001, 2007, 2008] {
            cases.push((Request::ReadCoils(0, 2000), Response::ReadCoils(rng.bits(bits))));
            cases.push((Request::ReadDiscreteInputs(0, 2000), Response::ReadDiscreteInputs(rng.bits(bits))));
        }
        for regs in [124usize, 125] {
            cases.push((Request::ReadHoldingRegisters(0, 125), Response::ReadHoldingRegisters(rng.words(regs))));
            cases.push((Request::ReadInputRegisters(0, 125), Response::ReadInputRegisters(rng.words(regs))));
            cases.push((
                Request::ReadWriteMultipleRegisters(0, 125, 0, Cow::Owned(vec![1])),
                Response::ReadWriteMultipleRegisters(rng.words(regs)),
            ));
        }
        for extra in [247usize, 248, 249] {
            cases.push((Request::ReportServerId, Response::ReportServerId(rng.u8(), rng.bool(), rng.bytes(extra))));
        }
        for (req, rsp) in cases {
            let reqf = frame(kind, 0, unit, &spec::request_bytes(&req).unwrap());
            monitor_line(out, &format!("srv {kind} svc=R={} r=d{}", response(&rsp), hex_raw(&reqf)));
        }
    }
    // all 256 exception codes
    for kind in ["tcp", "rtu"] {
        for code in 0..=255u8 {
            let reqf = frame(kind, 0, 0x11, &[0x03, 0, 1, 0, 1]);
            monitor_line(out, &format!("srv {kind} svc=X={} r=d{}", hex8(code), hex_raw(&reqf)));
        }
    }
}

/// a response of the kind that answers `req`, with maximal / random payload
fn gen_response_same_kind(rng: &mut Rng, req: &Request<'_>) -> Response {
    match req {
        Request::ReadCoils(..) => Response::ReadCoils(rng.bits_in(0, 2008)),
        Request::ReadDiscreteInputs(..) => Response::ReadDiscreteInputs(rng.bits_in(0, 2008)),
        Request::ReadHoldingRegisters(..) => Response::ReadHoldingRegisters(rng.words_in(0, 125)),
        Request::ReadInputRegisters(..) => Response::ReadInputRegisters(rng.words_in(0, 125)),
        Request::ReadWriteMultipleRegisters(..) => Response::ReadWriteMultipleRegisters(rng.words_in(0, 125)),
        Request::ReportServerId => Response::ReportServerId(rng.u8(), rng.bool(), rng.bytes_in(0, 249)),
        r => answer_for(rng, r),
    }
}

pub fn mon_c02(out: &mut Out, l: &str, r: &str) {
    let t: Vec<&str> = l.split(' ').collect();
    if t[0] != "srv" {
        return;
    }
    let kind = t[1];
    let fields = &t[2..];
    let svc = field("svc", fields);
    if svc.is_empty() {
        return;
    }
    // only the first request is answered (whatever follows is declined)
    let (svc, others) = svc.split_once(',').unwrap_or((svc, ""));
    if !others.split(',').all(|s| s.is_empty() || s == "D") {
        return;
    }
    let pe = parse_events(field("r", fields));
    // a request frame with transaction id 0 at the head of the stream
    let (unit, reqpdu) = if kind == "tcp" {
        match spec::split_mbap(&pe.data).first() {
            Some(MbapItem::Frame(0, u, p)) => (*u, p.clone()),
            _ => return,
        }
    } else {
        match (4..=pe.data.len().min(260)).find_map(|n| split_rtu_clean(&pe.data[..n], true).filter(|v| v.len() == 1)) {
            Some(v) => (v[0].0, v[0].1.clone()),
            _ => return,
        }
    };
    let Verdict::Accept(req) = spec::classify_request(&reqpdu) else { return };
    let produced = crate::run::Svc::parse(svc).unwrap();
    // what must come out of the client call
    let (pdu, expect_call) = match &produced {
        crate::run::Svc::Reply(rsp) => {
            let Some(b) = spec::response_bytes(rsp) else { return };
            if b.len() > 253 {
                return;
            }
            // the client only accepts it for a request with the same function code
            if b[0] != reqpdu[0] {
                return;
            }
            (b, format!("ok {}", response(&spec::pad8(rsp))))
        }
        crate::run::Svc::Exception(e) => {
            let code: u8 = crate::wire::ex_num(*e);
            (vec![reqpdu[0] | 0x80, code], format!("exc {}", hex8(code)))
        }
        crate::run::Svc::Decline => return,
    };
    let f = frame(kind, 0, unit, &pdu);
    let ps = parts(r);
    let writes: Vec<&str> = ps.iter().filter_map(|p| p.strip_prefix("write ")).collect();
    let all: Vec<u8> = writes.iter().flat_map(|h| p_bytes(h).unwrap()).collect();
    out.check(all == f, || format!("response was written as {} instead of {}", super::codec::trunc(&hex(&all)), super::codec::trunc(&hex(&f))), l);
    if all != f {
        return;
    }
    // over RTU the client must be able to delimit the reply
    if kind == "rtu" {
        let base = pdu[0] & 0x7F;
        if !RTU_RSP_CODES.contains(&base) || (pdu[0] >= 0x80 && base > 0x2B) {
            return;
        }
        if pdu[0] < 0x80 && !MODELLED_RSP.contains(&base) {
            // custom replies over RTU must follow the length table's layout
            return;
        }
    }
    for ch in derived_chunkings(&all, 2) {
        let (l2, r2) = out.case(&format!("cli {kind} {} | call {} r={}", hex8(unit), request(&req), chunks_tok(&ch)));
        let got = outcome_of(parts(&r2)[0]).to_string();
        out.check(got == expect_call, || format!("client call returned `{}` instead of `{}`", super::codec::trunc(&got), super::codec::trunc(&expect_call)), &l2);
    }
    // typed bit reads return exactly the requested count
    if let (Request::ReadCoils(a, q), crate::run::Svc::Reply(Response::ReadCoils(bs)))
    | (Request::ReadDiscreteInputs(a, q), crate::run::Svc::Reply(Response::ReadDiscreteInputs(bs))) = (&req, &produced)
    {
        if bs.len() == usize::from(*q) {
            let op = if matches!(req, Request::ReadCoils(..)) { TypedOp::Rc(*a, *q) } else { TypedOp::Rdi(*a, *q) };
            let (l2, r2) = out.case(&format!("cli {kind} {} | typed {} r=d{}", hex8(unit), op.tok(), hex_raw(&all)));
            let got = outcome_of(parts(&r2)[0]).to_string();
            let e = format!("ok bits:{}", bits(bs));
            out.check(got == e, || format!("typed bit read returned `{}` instead of `{}`", super::codec::trunc(&got), super::codec::trunc(&e)), &l2);
        }
    }
}
