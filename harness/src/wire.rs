//! Line protocol of the correspondence check: canonical rendering and parsing.
//! Mirrors /verif/lean/ModbusModel/Driver/Wire.lean.

use std::{borrow::Cow, io};

use tokio_modbus::{
    bytes::Bytes, Error, ExceptionCode, ExceptionResponse, FunctionCode, ProtocolError, Request,
    Response,
};

pub fn hex(bs: &[u8]) -> String {
    if bs.is_empty() {
        return "-".into();
    }
    let mut s = String::with_capacity(bs.len() * 2);
    for b in bs {
        s.push_str(&format!("{b:02X}"));
    }
    s
}

pub fn hex_raw(bs: &[u8]) -> String {
    let mut s = String::with_capacity(bs.len() * 2);
    for b in bs {
        s.push_str(&format!("{b:02X}"));
    }
    s
}

pub fn hex8(b: u8) -> String {
    format!("{b:02X}")
}

pub fn hex16(w: u16) -> String {
    format!("{w:04X}")
}

pub fn words(ws: &[u16]) -> String {
    if ws.is_empty() {
        return "-".into();
    }
    ws.iter().map(|w| hex16(*w)).collect()
}

pub fn bits(bs: &[bool]) -> String {
    if bs.is_empty() {
        return "-".into();
    }
    bs.iter().map(|b| if *b { '1' } else { '0' }).collect()
}

pub fn b01(b: bool) -> &'static str {
    if b {
        "1"
    } else {
        "0"
    }
}

/// io::ErrorKinds that are injected as `kN`
pub const INJECTED: &[io::ErrorKind] = &[
    io::ErrorKind::ConnectionRefused,
    io::ErrorKind::ConnectionReset,
    io::ErrorKind::ConnectionAborted,
    io::ErrorKind::AddrInUse,
    io::ErrorKind::AddrNotAvailable,
    io::ErrorKind::PermissionDenied,
    io::ErrorKind::AlreadyExists,
    io::ErrorKind::WouldBlock,
    io::ErrorKind::Interrupted,
    io::ErrorKind::Unsupported,
    io::ErrorKind::OutOfMemory,
    io::ErrorKind::NotFound,
    io::ErrorKind::HostUnreachable,
    io::ErrorKind::NetworkUnreachable,
    io::ErrorKind::NetworkDown,
    io::ErrorKind::NotADirectory,
    io::ErrorKind::IsADirectory,
    io::ErrorKind::DirectoryNotEmpty,
    io::ErrorKind::ReadOnlyFilesystem,
    io::ErrorKind::StaleNetworkFileHandle,
    io::ErrorKind::StorageFull,
    io::ErrorKind::NotSeekable,
    io::ErrorKind::QuotaExceeded,
    io::ErrorKind::FileTooLarge,
    io::ErrorKind::ResourceBusy,
    io::ErrorKind::ExecutableFileBusy,
    io::ErrorKind::Deadlock,
    io::ErrorKind::CrossesDevices,
    io::ErrorKind::TooManyLinks,
    io::ErrorKind::ArgumentListTooLong,
];

pub fn kind_tok(k: io::ErrorKind) -> String {
    use io::ErrorKind::*;
    match k {
        InvalidData => "id".into(),
        InvalidInput => "ii".into(),
        UnexpectedEof => "ue".into(),
        BrokenPipe => "bp".into(),
        NotConnected => "nc".into(),
        TimedOut => "to".into(),
        WriteZero => "wz".into(),
        Other => "ot".into(),
        k => match INJECTED.iter().position(|x| *x == k) {
            Some(i) => format!("k{i}"),
            None => format!("k?{k:?}"),
        },
    }
}

pub fn parse_kind(s: &str) -> Option<io::ErrorKind> {
    use io::ErrorKind::*;
    Some(match s {
        "id" => InvalidData,
        "ii" => InvalidInput,
        "ue" => UnexpectedEof,
        "bp" => BrokenPipe,
        "nc" => NotConnected,
        "to" => TimedOut,
        "wz" => WriteZero,
        "ot" => Other,
        _ => {
            let n: usize = s.strip_prefix('k')?.parse().ok()?;
            *INJECTED.get(n)?
        }
    })
}

pub fn fc_name(f: FunctionCode) -> String {
    match f {
        FunctionCode::Custom(_) => "Custom".into(),
        f => format!("{f:?}"),
    }
}

pub fn ex_name(e: ExceptionCode) -> String {
    match e {
        ExceptionCode::Custom(_) => "Custom".into(),
        e => format!("{e:?}"),
    }
}

/// the public function codes of the Modbus application protocol (V1.1b3, section 5.1) – the
/// harness's own table, for the same reason as `ex_from_spec`
pub fn fc_from_spec(v: u8) -> FunctionCode {
    use FunctionCode::*;
    match v {
        0x01 => ReadCoils,
        0x02 => ReadDiscreteInputs,
        0x03 => ReadHoldingRegisters,
        0x04 => ReadInputRegisters,
        0x05 => WriteSingleCoil,
        0x06 => WriteSingleRegister,
        0x07 => ReadExceptionStatus,
        0x08 => Diagnostics,
        0x0B => GetCommEventCounter,
        0x0C => GetCommEventLog,
        0x0F => WriteMultipleCoils,
        0x10 => WriteMultipleRegisters,
        0x11 => ReportServerId,
        0x14 => ReadFileRecord,
        0x15 => WriteFileRecord,
        0x16 => MaskWriteRegister,
        0x17 => ReadWriteMultipleRegisters,
        0x18 => ReadFifoQueue,
        0x2B => EncapsulatedInterfaceTransport,
        v => Custom(v),
    }
}

pub fn fc_num(f: FunctionCode) -> u8 {
    use FunctionCode::*;
    match f {
        ReadCoils => 0x01,
        ReadDiscreteInputs => 0x02,
        ReadHoldingRegisters => 0x03,
        ReadInputRegisters => 0x04,
        WriteSingleCoil => 0x05,
        WriteSingleRegister => 0x06,
        ReadExceptionStatus => 0x07,
        Diagnostics => 0x08,
        GetCommEventCounter => 0x0B,
        GetCommEventLog => 0x0C,
        WriteMultipleCoils => 0x0F,
        WriteMultipleRegisters => 0x10,
        ReportServerId => 0x11,
        ReadFileRecord => 0x14,
        WriteFileRecord => 0x15,
        MaskWriteRegister => 0x16,
        ReadWriteMultipleRegisters => 0x17,
        ReadFifoQueue => 0x18,
        EncapsulatedInterfaceTransport => 0x2B,
        Custom(v) => v,
    }
}

pub fn fc_tok(f: FunctionCode) -> String {
    let v = fc_num(f);
    if fc_from_spec(v) == f {
        hex8(v)
    } else {
        format!("c{}", hex8(v))
    }
}

/// the exception codes of the Modbus application protocol (V1.1b3, section 7) – the harness's
/// own table: tokens name a *variant* by the number the specification gives it, so that a
/// consistent renumbering inside the library (both of its tables changed alike) shows on the
/// wire and in what a call returns
pub fn ex_from_spec(v: u8) -> ExceptionCode {
    use ExceptionCode::*;
    match v {
        0x01 => IllegalFunction,
        0x02 => IllegalDataAddress,
        0x03 => IllegalDataValue,
        0x04 => ServerDeviceFailure,
        0x05 => Acknowledge,
        0x06 => ServerDeviceBusy,
        0x08 => MemoryParityError,
        0x0A => GatewayPathUnavailable,
        0x0B => GatewayTargetDevice,
        v => Custom(v),
    }
}

pub fn ex_num(e: ExceptionCode) -> u8 {
    use ExceptionCode::*;
    match e {
        IllegalFunction => 0x01,
        IllegalDataAddress => 0x02,
        IllegalDataValue => 0x03,
        ServerDeviceFailure => 0x04,
        Acknowledge => 0x05,
        ServerDeviceBusy => 0x06,
        MemoryParityError => 0x08,
        GatewayPathUnavailable => 0x0A,
        GatewayTargetDevice => 0x0B,
        Custom(v) => v,
    }
}

pub fn ex_tok(e: ExceptionCode) -> String {
    let v = ex_num(e);
    if ex_from_spec(v) == e {
        hex8(v)
    } else {
        format!("c{}", hex8(v))
    }
}

pub fn request(r: &Request<'_>) -> String {
    use Request::*;
    match r {
        ReadCoils(a, q) => format!("RC:{}:{}", hex16(*a), hex16(*q)),
        ReadDiscreteInputs(a, q) => format!("RDI:{}:{}", hex16(*a), hex16(*q)),
        WriteSingleCoil(a, b) => format!("WSC:{}:{}", hex16(*a), b01(*b)),
        WriteMultipleCoils(a, cs) => format!("WMC:{}:{}", hex16(*a), bits(cs)),
        ReadInputRegisters(a, q) => format!("RIR:{}:{}", hex16(*a), hex16(*q)),
        ReadHoldingRegisters(a, q) => format!("RHR:{}:{}", hex16(*a), hex16(*q)),
        WriteSingleRegister(a, w) => format!("WSR:{}:{}", hex16(*a), hex16(*w)),
        WriteMultipleRegisters(a, ws) => format!("WMR:{}:{}", hex16(*a), words(ws)),
        ReportServerId => "RSI".into(),
        MaskWriteRegister(a, am, om) => {
            format!("MWR:{}:{}:{}", hex16(*a), hex16(*am), hex16(*om))
        }
        ReadWriteMultipleRegisters(ra, q, wa, ws) => format!(
            "RWM:{}:{}:{}:{}",
            hex16(*ra),
            hex16(*q),
            hex16(*wa),
            words(ws)
        ),
        Custom(fc, d) => format!("CU:{}:{}", hex8(*fc), hex(d)),
    }
}

pub fn response(r: &Response) -> String {
    use Response::*;
    match r {
        ReadCoils(cs) => format!("RC:{}", bits(cs)),
        ReadDiscreteInputs(cs) => format!("RDI:{}", bits(cs)),
        WriteSingleCoil(a, b) => format!("WSC:{}:{}", hex16(*a), b01(*b)),
        WriteMultipleCoils(a, q) => format!("WMC:{}:{}", hex16(*a), hex16(*q)),
        ReadInputRegisters(ws) => format!("RIR:{}", words(ws)),
        ReadHoldingRegisters(ws) => format!("RHR:{}", words(ws)),
        WriteSingleRegister(a, w) => format!("WSR:{}:{}", hex16(*a), hex16(*w)),
        WriteMultipleRegisters(a, q) => format!("WMR:{}:{}", hex16(*a), hex16(*q)),
        ReportServerId(id, run, d) => format!("RSI:{}:{}:{}", hex8(*id), b01(*run), hex(d)),
        MaskWriteRegister(a, am, om) => {
            format!("MWR:{}:{}:{}", hex16(*a), hex16(*am), hex16(*om))
        }
        ReadWriteMultipleRegisters(ws) => format!("RWM:{}", words(ws)),
        Custom(fc, d) => format!("CU:{}:{}", hex8(*fc), hex(d)),
    }
}

pub fn exception(e: &ExceptionResponse) -> String {
    format!("{}:{}", fc_tok(e.function), ex_tok(e.exception))
}

pub fn response_result(r: &Result<Response, ExceptionResponse>) -> String {
    match r {
        Ok(r) => format!("R={}", response(r)),
        Err(e) => format!("E={}", exception(e)),
    }
}

pub fn io_res<T>(r: &io::Result<T>, f: impl Fn(&T) -> String) -> String {
    match r {
        Ok(v) => format!("ok {}", f(v)),
        Err(e) => format!("err:{}", kind_tok(e.kind())),
    }
}

pub fn call_result(r: &tokio_modbus::Result<Response>) -> String {
    match r {
        Ok(Ok(r)) => format!("ok {}", response(r)),
        Ok(Err(e)) => format!("exc {}", hex8(ex_num(*e))),
        Err(e) => error(e),
    }
}

pub fn error(e: &Error) -> String {
    match e {
        Error::Transport(e) => format!("tr:{}", kind_tok(e.kind())),
        Error::Protocol(ProtocolError::HeaderMismatch { result, .. }) => {
            format!("hm {}", response_result(result))
        }
        Error::Protocol(ProtocolError::FunctionCodeMismatch { result, .. }) => {
            format!("fm {}", response_result(result))
        }
    }
}

// ---------------------------------------------------------------- parsing

pub fn p_bytes(s: &str) -> Option<Vec<u8>> {
    if s == "-" {
        return Some(vec![]);
    }
    if s.len() % 2 != 0 {
        return None;
    }
    let b = s.as_bytes();
    let mut out = Vec::with_capacity(s.len() / 2);
    for i in (0..b.len()).step_by(2) {
        let h = (b[i] as char).to_digit(16)?;
        let l = (b[i + 1] as char).to_digit(16)?;
        out.push((h * 16 + l) as u8);
    }
    Some(out)
}

pub fn p_u8(s: &str) -> Option<u8> {
    let b = p_bytes(s)?;
    if b.len() == 1 {
        Some(b[0])
    } else {
        None
    }
}

pub fn p_u16(s: &str) -> Option<u16> {
    let b = p_bytes(s)?;
    if b.len() == 2 {
        Some(u16::from(b[0]) << 8 | u16::from(b[1]))
    } else {
        None
    }
}

pub fn p_words(s: &str) -> Option<Vec<u16>> {
    let b = p_bytes(s)?;
    if b.len() % 2 != 0 {
        return None;
    }
    Some(
        b.chunks(2)
            .map(|c| u16::from(c[0]) << 8 | u16::from(c[1]))
            .collect(),
    )
}

pub fn p_bits(s: &str) -> Option<Vec<bool>> {
    if s == "-" {
        return Some(vec![]);
    }
    s.chars()
        .map(|c| match c {
            '0' => Some(false),
            '1' => Some(true),
            _ => None,
        })
        .collect()
}

pub fn p_bool(s: &str) -> Option<bool> {
    match s {
        "0" => Some(false),
        "1" => Some(true),
        _ => None,
    }
}

pub fn p_fc(s: &str) -> Option<FunctionCode> {
    if let Some(r) = s.strip_prefix('c') {
        Some(FunctionCode::Custom(p_u8(r)?))
    } else {
        Some(fc_from_spec(p_u8(s)?))
    }
}

pub fn p_ex(s: &str) -> Option<ExceptionCode> {
    if let Some(r) = s.strip_prefix('c') {
        Some(ExceptionCode::Custom(p_u8(r)?))
    } else {
        Some(ex_from_spec(p_u8(s)?))
    }
}

pub fn p_request(s: &str) -> Option<Request<'static>> {
    use Request::*;
    let p: Vec<&str> = s.split(':').collect();
    Some(match p.as_slice() {
        ["RC", a, q] => ReadCoils(p_u16(a)?, p_u16(q)?),
        ["RDI", a, q] => ReadDiscreteInputs(p_u16(a)?, p_u16(q)?),
        ["WSC", a, b] => WriteSingleCoil(p_u16(a)?, p_bool(b)?),
        ["WMC", a, cs] => WriteMultipleCoils(p_u16(a)?, Cow::Owned(p_bits(cs)?)),
        ["RIR", a, q] => ReadInputRegisters(p_u16(a)?, p_u16(q)?),
        ["RHR", a, q] => ReadHoldingRegisters(p_u16(a)?, p_u16(q)?),
        ["WSR", a, w] => WriteSingleRegister(p_u16(a)?, p_u16(w)?),
        ["WMR", a, ws] => WriteMultipleRegisters(p_u16(a)?, Cow::Owned(p_words(ws)?)),
        ["RSI"] => ReportServerId,
        ["MWR", a, am, om] => MaskWriteRegister(p_u16(a)?, p_u16(am)?, p_u16(om)?),
        ["RWM", ra, q, wa, ws] => ReadWriteMultipleRegisters(
            p_u16(ra)?,
            p_u16(q)?,
            p_u16(wa)?,
            Cow::Owned(p_words(ws)?),
        ),
        ["CU", fc, d] => Custom(p_u8(fc)?, Cow::Owned(p_bytes(d)?)),
        _ => return None,
    })
}

pub fn p_response(s: &str) -> Option<Response> {
    use Response::*;
    let p: Vec<&str> = s.split(':').collect();
    Some(match p.as_slice() {
        ["RC", cs] => ReadCoils(p_bits(cs)?),
        ["RDI", cs] => ReadDiscreteInputs(p_bits(cs)?),
        ["WSC", a, b] => WriteSingleCoil(p_u16(a)?, p_bool(b)?),
        ["WMC", a, q] => WriteMultipleCoils(p_u16(a)?, p_u16(q)?),
        ["RIR", ws] => ReadInputRegisters(p_words(ws)?),
        ["RHR", ws] => ReadHoldingRegisters(p_words(ws)?),
        ["WSR", a, w] => WriteSingleRegister(p_u16(a)?, p_u16(w)?),
        ["WMR", a, q] => WriteMultipleRegisters(p_u16(a)?, p_u16(q)?),
        ["RSI", id, run, d] => ReportServerId(p_u8(id)?, p_bool(run)?, p_bytes(d)?),
        ["MWR", a, am, om] => MaskWriteRegister(p_u16(a)?, p_u16(am)?, p_u16(om)?),
        ["RWM", ws] => ReadWriteMultipleRegisters(p_words(ws)?),
        ["CU", fc, d] => Custom(p_u8(fc)?, Bytes::from(p_bytes(d)?)),
        _ => return None,
    })
}

pub fn p_response_result(s: &str) -> Option<Result<Response, ExceptionResponse>> {
    if let Some(r) = s.strip_prefix("R=") {
        Some(Ok(p_response(r)?))
    } else if let Some(e) = s.strip_prefix("E=") {
        let (f, x) = e.split_once(':')?;
        Some(Err(ExceptionResponse {
            function: p_fc(f)?,
            exception: p_ex(x)?,
        }))
    } else {
        None
    }
}

pub fn p_list<T>(s: &str, f: impl Fn(&str) -> Option<T>) -> Option<Vec<T>> {
    if s.is_empty() || s == "-" {
        return Some(vec![]);
    }
    s.split(',').map(f).collect()
}

/// `key=value` field of an op
pub fn field<'a>(key: &str, fields: &[&'a str]) -> &'a str {
    for f in fields {
        if let Some(v) = f.strip_prefix(key).and_then(|r| r.strip_prefix('=')) {
            return v;
        }
    }
    ""
}
