//! splitmix64: every random choice of a run derives from one seed.

#[derive(Debug, Clone)]
pub struct Rng {
    state: u64,
    /// the 16-bit values handed out last: now and then one of them is handed out again, so that
    /// fields which are drawn independently come out *equal* (address = quantity, two requests
    /// under one transaction id, an echo that happens to match …) far more often than by chance
    recent: [u16; 4],
    at: usize,
    recent_units: [u8; 2],
    at_unit: usize,
}

impl Rng {
    pub fn new(seed: u64) -> Self {
        Rng { state: seed ^ 0x9E37_79B9_7F4A_7C15, recent: [0; 4], at: 0, recent_units: [0xFF, 0], at_unit: 0 }
    }
    pub fn next(&mut self) -> u64 {
        self.state = self.state.wrapping_add(0x9E37_79B9_7F4A_7C15);
        let mut z = self.state;
        z = (z ^ (z >> 30)).wrapping_mul(0xBF58_476D_1CE4_E5B9);
        z = (z ^ (z >> 27)).wrapping_mul(0x94D0_49BB_1331_11EB);
        z ^ (z >> 31)
    }
    /// uniform in 0..n (n > 0)
    pub fn below(&mut self, n: usize) -> usize {
        (self.next() % (n as u64)) as usize
    }
    pub fn range(&mut self, lo: usize, hi_incl: usize) -> usize {
        lo + self.below(hi_incl - lo + 1)
    }
    /// an exception code: mostly one of those the Modbus documents define, sometimes any byte
    pub fn exc_code(&mut self) -> u8 {
        if self.chance(1, 5) {
            self.u8()
        } else {
            *self.pick(&[0x01u8, 0x02, 0x03, 0x04, 0x05, 0x06, 0x07, 0x08, 0x0A, 0x0B])
        }
    }
    /// a unit / slave id: every fourth one from the borders of the address classes (broadcast 0,
    /// single devices 1…247, reserved 248…255 with the TCP default 255)
    pub fn unit(&mut self) -> u8 {
        // (… and every eighth one is a unit that was drawn shortly before: histories that come back)
        if self.chance(1, 8) {
            return self.recent_units[self.below(2)];
        }
        let v = if self.chance(1, 4) { *self.pick(&[0x00u8, 0x01, 0xF7, 0xF8, 0xFE, 0xFF]) } else { self.u8() };
        self.recent_units[self.at_unit % 2] = v;
        self.at_unit += 1;
        v
    }
    /// a non-zero 16-bit value as two big-endian bytes, often with one of the two bytes zero
    pub fn nonzero_be16(&mut self) -> [u8; 2] {
        match self.below(4) {
            0 => [1 + self.u8() % 255, 0],
            1 => [0, 1 + self.u8() % 255],
            2 => *self.pick(&[[0x01, 0x00], [0x00, 0x01], [0x80, 0x00], [0xFF, 0x00], [0xFF, 0xFF], [0x00, 0x80]]),
            _ => loop {
                let v = [self.u8(), self.u8()];
                if v != [0, 0] {
                    break v;
                }
            },
        }
    }
    pub fn u8(&mut self) -> u8 {
        self.next() as u8
    }
    pub fn u16(&mut self) -> u16 {
        if self.chance(1, 10) {
            return self.recent[self.below(4)];
        }
        let v = self.fresh_u16();
        self.recent[self.at % 4] = v;
        self.at += 1;
        v
    }
    fn fresh_u16(&mut self) -> u16 {
        // favour boundary values
        match self.below(8) {
            0 => *self.pick(&[0u16, 1, 2, 0x7F, 0x80, 0xFF, 0x100, 0x7FFF, 0x8000, 0xFF00, 0xFFFE, 0xFFFF]),
            _ => self.next() as u16,
        }
    }
    pub fn bool(&mut self) -> bool {
        self.next() & 1 == 1
    }
    pub fn chance(&mut self, num: usize, den: usize) -> bool {
        self.below(den) < num
    }
    pub fn pick<'a, T>(&mut self, xs: &'a [T]) -> &'a T {
        &xs[self.below(xs.len())]
    }
    pub fn bytes(&mut self, n: usize) -> Vec<u8> {
        (0..n).map(|_| self.u8()).collect()
    }
    pub fn words(&mut self, n: usize) -> Vec<u16> {
        (0..n).map(|_| self.next() as u16).collect()
    }
    pub fn bits(&mut self, n: usize) -> Vec<bool> {
        (0..n).map(|_| self.bool()).collect()
    }
    pub fn bytes_in(&mut self, lo: usize, hi: usize) -> Vec<u8> {
        let n = self.range(lo, hi);
        self.bytes(n)
    }
    pub fn words_in(&mut self, lo: usize, hi: usize) -> Vec<u16> {
        let n = self.range(lo, hi);
        self.words(n)
    }
    pub fn bits_in(&mut self, lo: usize, hi: usize) -> Vec<bool> {
        let n = self.range(lo, hi);
        self.bits(n)
    }
    pub fn fork(&mut self) -> Rng {
        Rng { state: self.next(), recent: self.recent, at: self.at, recent_units: self.recent_units, at_unit: self.at_unit }
    }
    /// random composition of `n` into positive parts
    pub fn composition(&mut self, n: usize) -> Vec<usize> {
        let mut parts = vec![];
        let mut left = n;
        while left > 0 {
            let k = match self.below(4) {
                0 => 1,
                1 => self.range(1, left.min(3)),
                2 => self.range(1, left),
                _ => self.range(1, left.min(16)),
            };
            parts.push(k);
            left -= k;
        }
        parts
    }
}

/// split `data` according to a composition
pub fn chunk(data: &[u8], parts: &[usize]) -> Vec<Vec<u8>> {
    let mut out = vec![];
    let mut i = 0;
    for p in parts {
        out.push(data[i..i + p].to_vec());
        i += p;
    }
    assert_eq!(i, data.len());
    out
}

/// all compositions of n (2^(n-1) of them) by index
pub fn composition_by_index(n: usize, idx: u64) -> Vec<usize> {
    // bit i of idx set = cut after byte i
    let mut parts = vec![];
    let mut cur = 1;
    for i in 0..n.saturating_sub(1) {
        if idx >> i & 1 == 1 {
            parts.push(cur);
            cur = 1;
        } else {
            cur += 1;
        }
    }
    if n > 0 {
        parts.push(cur);
    }
    parts
}
