//! Independent, specification-derived oracles (MODBUS Application Protocol V1.1b3,
//! Modbus over Serial Line V1.02, MBAP).  Nothing in here calls tokio-modbus
//! codec code; the library's data types are only used as plain values.

use tokio_modbus::{Request, Response};

/// CRC-16/MODBUS by the Rocksoft model: poly 0x8005, init 0xFFFF, refin, refout, xorout 0.
/// Bit-serial, MSB-first register with explicit reflection (deliberately not the
/// right-shifting 0xA001 formulation the library uses).
pub fn crc16_modbus(data: &[u8]) -> u16 {
    let mut reg: u16 = 0xFFFF;
    for &byte in data {
        reg = crc_step(reg, byte);
    }
    reg.reverse_bits() // refout
}

/// feed one byte into the (unreflected) register
pub fn crc_step(mut reg: u16, byte: u8) -> u16 {
    let b = byte.reverse_bits(); // refin
    for i in (0..8).rev() {
        let inbit = (b >> i) & 1;
        let top = ((reg >> 15) & 1) as u8;
        reg <<= 1;
        if top ^ inbit == 1 {
            reg ^= 0x8005;
        }
    }
    reg
}

/// wire bytes (low byte first) of a register state
pub fn crc_fin(reg: u16) -> [u8; 2] {
    let c = reg.reverse_bits();
    [(c & 0xFF) as u8, (c >> 8) as u8]
}

/// the two CRC bytes in wire order (low byte first)
pub fn crc_wire(data: &[u8]) -> [u8; 2] {
    let c = crc16_modbus(data);
    [(c & 0xFF) as u8, (c >> 8) as u8]
}

fn be(w: u16) -> [u8; 2] {
    [(w >> 8) as u8, (w & 0xFF) as u8]
}

pub fn pack_bits(bits: &[bool]) -> Vec<u8> {
    let mut out = vec![0u8; bits.len().div_ceil(8)];
    for (i, b) in bits.iter().enumerate() {
        if *b {
            out[i / 8] |= 1 << (i % 8);
        }
    }
    out
}

pub fn unpack_bits(bytes: &[u8], n: usize) -> Vec<bool> {
    (0..n).map(|i| bytes[i / 8] >> (i % 8) & 1 == 1).collect()
}

/// Modbus wire encoding of a request PDU; `None` when a count does not fit its field.
pub fn request_bytes(r: &Request<'_>) -> Option<Vec<u8>> {
    use Request::*;
    let mut v = vec![];
    let two = |v: &mut Vec<u8>, fc: u8, a: u16, b: u16| {
        v.push(fc);
        v.extend(be(a));
        v.extend(be(b));
    };
    match r {
        ReadCoils(a, q) => two(&mut v, 0x01, *a, *q),
        ReadDiscreteInputs(a, q) => two(&mut v, 0x02, *a, *q),
        ReadHoldingRegisters(a, q) => two(&mut v, 0x03, *a, *q),
        ReadInputRegisters(a, q) => two(&mut v, 0x04, *a, *q),
        WriteSingleCoil(a, b) => two(&mut v, 0x05, *a, if *b { 0xFF00 } else { 0 }),
        WriteSingleRegister(a, w) => two(&mut v, 0x06, *a, *w),
        WriteMultipleCoils(a, cs) => {
            let packed = pack_bits(cs);
            v.push(0x0F);
            v.extend(be(*a));
            v.extend(be(u16::try_from(cs.len()).ok()?));
            v.push(u8::try_from(packed.len()).ok()?);
            v.extend(packed);
        }
        WriteMultipleRegisters(a, ws) => {
            v.push(0x10);
            v.extend(be(*a));
            v.extend(be(u16::try_from(ws.len()).ok()?));
            v.push(u8::try_from(ws.len() * 2).ok()?);
            for w in ws.iter() {
                v.extend(be(*w));
            }
        }
        ReportServerId => v.push(0x11),
        MaskWriteRegister(a, am, om) => {
            v.push(0x16);
            v.extend(be(*a));
            v.extend(be(*am));
            v.extend(be(*om));
        }
        ReadWriteMultipleRegisters(ra, q, wa, ws) => {
            v.push(0x17);
            v.extend(be(*ra));
            v.extend(be(*q));
            v.extend(be(*wa));
            v.extend(be(u16::try_from(ws.len()).ok()?));
            v.push(u8::try_from(ws.len() * 2).ok()?);
            for w in ws.iter() {
                v.extend(be(*w));
            }
        }
        Custom(fc, d) => {
            v.push(*fc);
            v.extend(d.iter());
        }
    }
    Some(v)
}

pub fn response_bytes(r: &Response) -> Option<Vec<u8>> {
    use Response::*;
    let mut v = vec![];
    let regs = |v: &mut Vec<u8>, fc: u8, ws: &[u16]| -> Option<()> {
        v.push(fc);
        v.push(u8::try_from(ws.len() * 2).ok()?);
        for w in ws {
            v.extend(be(*w));
        }
        Some(())
    };
    let bits = |v: &mut Vec<u8>, fc: u8, cs: &[bool]| -> Option<()> {
        let p = pack_bits(cs);
        v.push(fc);
        v.push(u8::try_from(p.len()).ok()?);
        v.extend(p);
        Some(())
    };
    let two = |v: &mut Vec<u8>, fc: u8, a: u16, b: u16| {
        v.push(fc);
        v.extend(be(a));
        v.extend(be(b));
    };
    match r {
        ReadCoils(cs) => bits(&mut v, 0x01, cs)?,
        ReadDiscreteInputs(cs) => bits(&mut v, 0x02, cs)?,
        ReadHoldingRegisters(ws) => regs(&mut v, 0x03, ws)?,
        ReadInputRegisters(ws) => regs(&mut v, 0x04, ws)?,
        ReadWriteMultipleRegisters(ws) => regs(&mut v, 0x17, ws)?,
        WriteSingleCoil(a, b) => two(&mut v, 0x05, *a, if *b { 0xFF00 } else { 0 }),
        WriteSingleRegister(a, w) => two(&mut v, 0x06, *a, *w),
        WriteMultipleCoils(a, q) => two(&mut v, 0x0F, *a, *q),
        WriteMultipleRegisters(a, q) => two(&mut v, 0x10, *a, *q),
        ReportServerId(id, run, d) => {
            v.push(0x11);
            v.push(u8::try_from(d.len() + 2).ok()?);
            v.push(*id);
            v.push(if *run { 0xFF } else { 0x00 });
            v.extend(d);
        }
        MaskWriteRegister(a, am, om) => {
            v.push(0x16);
            v.extend(be(*a));
            v.extend(be(*am));
            v.extend(be(*om));
        }
        Custom(fc, d) => {
            v.push(*fc);
            v.extend(d.iter());
        }
    }
    Some(v)
}

/// bit vectors padded with `false` to a whole byte (what travels on the wire)
pub fn pad8(r: &Response) -> Response {
    let pad = |cs: &Vec<bool>| {
        let mut c = cs.clone();
        while c.len() % 8 != 0 {
            c.push(false);
        }
        c
    };
    match r {
        Response::ReadCoils(cs) => Response::ReadCoils(pad(cs)),
        Response::ReadDiscreteInputs(cs) => Response::ReadDiscreteInputs(pad(cs)),
        r => r.clone(),
    }
}

pub fn mbap(tid: u16, unit: u8, pdu: &[u8]) -> Vec<u8> {
    let mut v = vec![];
    v.extend(be(tid));
    v.extend([0, 0]);
    v.extend(be((pdu.len() + 1) as u16));
    v.push(unit);
    v.extend(pdu);
    v
}

pub fn rtu_frame(slave: u8, pdu: &[u8]) -> Vec<u8> {
    let mut v = vec![slave];
    v.extend(pdu);
    let c = crc_wire(&v);
    v.extend(c);
    v
}

/// Verdict of the spec-derived PDU classifier.
#[derive(Debug, Clone, PartialEq)]
pub enum Verdict<T> {
    Accept(T),
    Reject,
    /// the property does not say (exception PDUs, function codes >= 0x80 as responses)
    Unspecified,
}

fn rd(b: &[u8], i: usize) -> u16 {
    u16::from(b[i]) << 8 | u16::from(b[i + 1])
}

/// C08 for request PDUs, transcribed from the property statement.
pub fn classify_request(b: &[u8]) -> Verdict<Request<'static>> {
    use Request::*;
    use Verdict::*;
    if b.is_empty() {
        return Reject;
    }
    let fc = b[0];
    let fixed4 = |f: fn(u16, u16) -> Request<'static>| {
        if b.len() == 5 {
            Accept(f(rd(b, 1), rd(b, 3)))
        } else {
            Reject
        }
    };
    match fc {
        0x01 => fixed4(ReadCoils),
        0x02 => fixed4(ReadDiscreteInputs),
        0x03 => fixed4(ReadHoldingRegisters),
        0x04 => fixed4(ReadInputRegisters),
        0x06 => fixed4(WriteSingleRegister),
        0x05 => {
            if b.len() != 5 {
                return Reject;
            }
            match rd(b, 3) {
                0xFF00 => Accept(WriteSingleCoil(rd(b, 1), true)),
                0x0000 => Accept(WriteSingleCoil(rd(b, 1), false)),
                _ => Reject,
            }
        }
        0x0F => {
            if b.len() < 6 || b.len() > 253 {
                return Reject;
            }
            let q = usize::from(rd(b, 3));
            let bc = usize::from(b[5]);
            if b.len() != 6 + bc || bc * 8 < q {
                return Reject;
            }
            Accept(WriteMultipleCoils(rd(b, 1), unpack_bits(&b[6..], q).into()))
        }
        0x10 => {
            if b.len() < 6 || b.len() > 253 {
                return Reject;
            }
            let q = usize::from(rd(b, 3));
            let bc = usize::from(b[5]);
            if bc != 2 * q || b.len() != 6 + bc {
                return Reject;
            }
            let ws: Vec<u16> = (0..q).map(|i| rd(b, 6 + 2 * i)).collect();
            Accept(WriteMultipleRegisters(rd(b, 1), ws.into()))
        }
        0x11 => {
            if b.len() == 1 {
                Accept(ReportServerId)
            } else {
                Reject
            }
        }
        0x16 => {
            if b.len() == 7 {
                Accept(MaskWriteRegister(rd(b, 1), rd(b, 3), rd(b, 5)))
            } else {
                Reject
            }
        }
        0x17 => {
            if b.len() < 10 || b.len() > 253 {
                return Reject;
            }
            let q = usize::from(rd(b, 7));
            let bc = usize::from(b[9]);
            if bc != 2 * q || b.len() != 10 + bc {
                return Reject;
            }
            let ws: Vec<u16> = (0..q).map(|i| rd(b, 10 + 2 * i)).collect();
            Accept(ReadWriteMultipleRegisters(
                rd(b, 1),
                rd(b, 3),
                rd(b, 5),
                ws.into(),
            ))
        }
        fc if fc < 0x80 => Accept(Custom(fc, b[1..].to_vec().into())),
        _ => Reject,
    }
}

/// C08 for (non-exception) response PDUs.
pub fn classify_response(b: &[u8]) -> Verdict<Response> {
    use Response::*;
    use Verdict::*;
    if b.is_empty() {
        return Reject;
    }
    let fc = b[0];
    let fixed4 = |f: fn(u16, u16) -> Response| {
        if b.len() == 5 {
            Accept(f(rd(b, 1), rd(b, 3)))
        } else {
            Reject
        }
    };
    let regs = |f: fn(Vec<u16>) -> Response| {
        if b.len() < 2 || b.len() > 253 {
            return Reject;
        }
        let bc = usize::from(b[1]);
        if bc % 2 != 0 || b.len() != 2 + bc {
            return Reject;
        }
        Accept(f((0..bc / 2).map(|i| rd(b, 2 + 2 * i)).collect()))
    };
    let bits = |f: fn(Vec<bool>) -> Response| {
        if b.len() < 2 || b.len() > 253 {
            return Reject;
        }
        let bc = usize::from(b[1]);
        if b.len() != 2 + bc {
            return Reject;
        }
        Accept(f(unpack_bits(&b[2..], bc * 8)))
    };
    match fc {
        0x01 => bits(ReadCoils),
        0x02 => bits(ReadDiscreteInputs),
        0x03 => regs(ReadHoldingRegisters),
        0x04 => regs(ReadInputRegisters),
        0x17 => regs(ReadWriteMultipleRegisters),
        0x05 => {
            if b.len() != 5 {
                return Reject;
            }
            match rd(b, 3) {
                0xFF00 => Accept(WriteSingleCoil(rd(b, 1), true)),
                0x0000 => Accept(WriteSingleCoil(rd(b, 1), false)),
                _ => Reject,
            }
        }
        0x06 => fixed4(WriteSingleRegister),
        0x0F => fixed4(WriteMultipleCoils),
        0x10 => fixed4(WriteMultipleRegisters),
        0x11 => {
            if b.len() < 2 || b.len() > 253 {
                return Reject;
            }
            let bc = usize::from(b[1]);
            if bc < 2 || b.len() != 2 + bc {
                return Reject;
            }
            let run = match b[3] {
                0x00 => false,
                0xFF => true,
                _ => return Reject,
            };
            Accept(ReportServerId(b[2], run, b[4..].to_vec()))
        }
        0x16 => {
            if b.len() == 7 {
                Accept(MaskWriteRegister(rd(b, 1), rd(b, 3), rd(b, 5)))
            } else {
                Reject
            }
        }
        fc if fc < 0x80 => Accept(Custom(fc, tokio_modbus::bytes::Bytes::from(b[1..].to_vec()))),
        _ => Unspecified,
    }
}

/// function codes defined by the specification: (value, variant name)
pub const SPEC_FUNCTION_CODES: &[(u8, &str)] = &[
    (0x01, "ReadCoils"),
    (0x02, "ReadDiscreteInputs"),
    (0x03, "ReadHoldingRegisters"),
    (0x04, "ReadInputRegisters"),
    (0x05, "WriteSingleCoil"),
    (0x06, "WriteSingleRegister"),
    (0x07, "ReadExceptionStatus"),
    (0x08, "Diagnostics"),
    (0x0B, "GetCommEventCounter"),
    (0x0C, "GetCommEventLog"),
    (0x0F, "WriteMultipleCoils"),
    (0x10, "WriteMultipleRegisters"),
    (0x11, "ReportServerId"),
    (0x14, "ReadFileRecord"),
    (0x15, "WriteFileRecord"),
    (0x16, "MaskWriteRegister"),
    (0x17, "ReadWriteMultipleRegisters"),
    (0x18, "ReadFifoQueue"),
    (0x2B, "EncapsulatedInterfaceTransport"),
];

pub const SPEC_EXCEPTION_CODES: &[(u8, &str)] = &[
    (0x01, "IllegalFunction"),
    (0x02, "IllegalDataAddress"),
    (0x03, "IllegalDataValue"),
    (0x04, "ServerDeviceFailure"),
    (0x05, "Acknowledge"),
    (0x06, "ServerDeviceBusy"),
    (0x08, "MemoryParityError"),
    (0x0A, "GatewayPathUnavailable"),
    (0x0B, "GatewayTargetDevice"),
];

/// Independent MBAP splitter: cuts a byte stream into (tid, unit, pdu) frames.
#[derive(Debug, Clone, PartialEq)]
pub enum MbapItem {
    Frame(u16, u8, Vec<u8>),
    /// invalid header (zero length, or non-zero protocol id of a complete frame)
    Invalid,
    /// stream ends inside a frame
    Incomplete,
}

pub fn split_mbap(s: &[u8]) -> Vec<MbapItem> {
    let mut out = vec![];
    let mut i = 0;
    while i < s.len() {
        if s.len() - i < 7 {
            out.push(MbapItem::Incomplete);
            break;
        }
        let len = usize::from(rd(s, i + 4));
        if len == 0 {
            out.push(MbapItem::Invalid);
            break;
        }
        if s.len() - i < 6 + len {
            out.push(MbapItem::Incomplete);
            break;
        }
        if rd(s, i + 2) != 0 {
            out.push(MbapItem::Invalid);
            break;
        }
        out.push(MbapItem::Frame(
            rd(s, i),
            s[i + 6],
            s[i + 7..i + 6 + len].to_vec(),
        ));
        i += 6 + len;
    }
    out
}
