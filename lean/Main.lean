import ModbusModel.Driver.Ops

partial def loop (inp out : IO.FS.Stream) : IO Unit := do
  let line ← inp.getLine
  if line.isEmpty then return ()
  let l := (line.dropEndWhile fun c => c = '\n' || c = '\r').toString
  out.putStrLn (Modbus.Wire.runLine l)
  loop inp out

def main : IO Unit := do
  let inp ← IO.getStdin
  let out ← IO.getStdout
  loop inp out
  out.flush
