import ModbusModel.Lemmas.RtuFraming
import ModbusModel.Lemmas.RtuNoise
import ModbusModel.Lemmas.RoundTrip
/-
  C11 – RTU framing delivers every clean frame and resynchronises after line noise.
-/
namespace Modbus.Props.C11
open Modbus

/-- **clean frame, one decode call**: when the length table names the PDU length of the frame at
    the head of the buffer, the frame is delivered at once – nothing is dropped, the bytes
    after it are untouched, the record of dropped bytes is reset -/
theorem clean_frame_delivered (lenFn : Bytes → Res (Option Nat)) (fd : FrameDecoder)
    (slave : UInt8) (pdu rest : Bytes)
    (hlen : lenFn (rtuFrame slave pdu ++ rest) = .ok (some pdu.length)) :
    rtuDecode lenFn fd (rtuFrame slave pdu ++ rest) = (.ok (some (slave, pdu)), { dropped := [] }, rest) := by
  unfold rtuDecode rtuDecodeLoop MAX_RETRIES
  simp only [hlen]
  have hb : rtuFrame slave pdu ++ rest
      = slave :: pdu ++ [UInt8.ofNat ((calcCrc (slave :: pdu)).toNat / 256), UInt8.ofNat ((calcCrc (slave :: pdu)).toNat % 256)] ++ rest := by
    simp [rtuFrame, crcBytes, be16]
  rw [hb, frameDecode_on_split]
  simp [rd16_be16]

/-- a byte that is never a function code (0x00, 0x80, 0x41–0x48, 0x64–0x6E: `nonFc`) has no
    entry in either length table, so both tables reject it in the function-code position -/
theorem nonFc_rejected (a b : UInt8) (rest : Bytes) (hb : nonFc b = true) :
    requestPduLen (a :: b :: rest) = .err .invalidData
    ∧ responsePduLen (a :: b :: rest) = .err .invalidData :=
  ⟨request_table_rejects a b rest (nonFc_no_arm b hb).1, response_table_rejects a b rest (nonFc_no_arm b hb).2⟩

/-- **noise, one retry**: a buffer whose second byte cannot be a function code loses exactly
    its first byte -/
theorem noise_byte_dropped (lenFn : Bytes → Res (Option Nat)) (n : Nat) (fd : FrameDecoder)
    (a b : UInt8) (rest : Bytes) (k : ErrKind) (h : lenFn (a :: b :: rest) = .err k) :
    ∃ fd', rtuDecodeLoop lenFn (n + 1) fd (a :: b :: rest) = rtuDecodeLoop lenFn n fd' (b :: rest) := by
  obtain ⟨fd', hr, _⟩ := recoverOnError_spec fd a (b :: rest)
  refine ⟨fd', ?_⟩
  rw [rtuDecodeLoop]
  simp only [h, hr]

/-- the request length table agrees with the encoder: for every typed request within the
    PDU limit, the table names exactly the length of its encoding once the frame is there -/
theorem request_table_agrees (slave : UInt8) (r : Request) (x : Bytes)
    (hs : requestPduSizeRaw r ≤ 253) (ht : ∀ fc d, r ≠ .custom fc d) :
    requestPduLen (slave :: encodeRequestPdu r ++ crcBytes (slave :: encodeRequestPdu r) ++ x)
      = .ok (some (encodeRequestPdu r).length) := by
  cases r with
  | custom fc d => exact absurd rfl (ht fc d)
  | readCoils a q => simp [requestPduLen, encodeRequestPdu, be16]
  | readDiscreteInputs a q => simp [requestPduLen, encodeRequestPdu, be16]
  | readInputRegisters a q => simp [requestPduLen, encodeRequestPdu, be16]
  | readHoldingRegisters a q => simp [requestPduLen, encodeRequestPdu, be16]
  | writeSingleCoil a b => simp [requestPduLen, encodeRequestPdu, be16]
  | writeSingleRegister a w => simp [requestPduLen, encodeRequestPdu, be16]
  | reportServerId => simp [requestPduLen, encodeRequestPdu]
  | maskWriteRegister a am om => simp [requestPduLen, encodeRequestPdu, be16]
  | writeMultipleCoils a cs =>
    have hp : packedCoilsSize cs.length ≤ 247 := by simp [requestPduSizeRaw] at hs; omega
    have e2 : (UInt8.ofNat (packedCoilsSize cs.length)).toNat = packedCoilsSize cs.length := by
      simp [UInt8.toNat_ofNat']; omega
    simp [requestPduLen, encodeRequestPdu, be16, e2, packCoils_length]
    omega
  | writeMultipleRegisters a ws =>
    have hl : ws.length ≤ 123 := by simp [requestPduSizeRaw] at hs; omega
    have e2 : (UInt8.ofNat (ws.length * 2)).toNat = ws.length * 2 := by simp [UInt8.toNat_ofNat']; omega
    simp [requestPduLen, encodeRequestPdu, be16, e2, encWords_length]
    omega
  | readWriteMultipleRegisters ra q wa ws =>
    have hl : ws.length ≤ 121 := by simp [requestPduSizeRaw] at hs; omega
    have e2 : (UInt8.ofNat (ws.length * 2)).toNat = ws.length * 2 := by simp [UInt8.toNat_ofNat']; omega
    simp [requestPduLen, encodeRequestPdu, be16, e2, encWords_length]
    omega

/-- **supported requests are delivered** (server side, whole frame in the buffer): the frame of
    every typed request within the limit, followed by anything, is delivered with its slave
    id and decodes to the request itself -/
theorem server_delivers_request (fd : FrameDecoder) (slave : UInt8) (r : Request) (x : Bytes)
    (hs : requestPduSizeRaw r ≤ 253) (ht : ∀ fc d, r ≠ .custom fc d) :
    rtuServerDecode fd (rtuFrame slave (encodeRequestPdu r) ++ x)
      = (.ok (some (slave, r)), { dropped := [] }, x) := by
  have hl := request_table_agrees slave r x hs ht
  have hc : r.canonical := by cases r <;> first | trivial | exact absurd rfl (ht _ _)
  have := clean_frame_delivered requestPduLen fd slave (encodeRequestPdu r) x
    (by simpa [rtuFrame, List.append_assoc] using hl)
  simp [rtuServerDecode, this, decodeRequest_encode r hs hc, Res.map]

-- non-vacuity: 16 noise bytes in front of a frame, all in one read: the frame is delivered
example :
    (rtuDecode requestPduLen {} (List.replicate 16 0x80 ++ rtuFrame 0x00 [0x11])).1
      = .ok (some (0x00, [0x11])) := by decide +kernel
-- … but not after 21 noise bytes in one read (the retry limit): an error, as the property allows
example :
    (rtuDecode requestPduLen {} (List.replicate 21 0x80 ++ rtuFrame 0x00 [0x11])).1
      = .err .invalidData := by decide +kernel

end Modbus.Props.C11

namespace Modbus.Props.C11
open Modbus

/-- the response length table agrees with the encoder: for every typed response within the
    PDU limit, the table names exactly the length of its encoding once the frame is there -/
theorem response_table_agrees (slave : UInt8) (r : Response) (x : Bytes)
    (hs : responsePduSizeRaw r ≤ 253) (ht : ∀ fc d, r ≠ .custom fc d) :
    responsePduLen (slave :: encodeResponsePdu r ++ crcBytes (slave :: encodeResponsePdu r) ++ x)
      = .ok (some (encodeResponsePdu r).length) := by
  cases r with
  | custom fc d => exact absurd rfl (ht fc d)
  | writeSingleCoil a b => simp [responsePduLen, encodeResponsePdu, be16]
  | writeMultipleCoils a q => simp [responsePduLen, encodeResponsePdu, be16]
  | writeMultipleRegisters a q => simp [responsePduLen, encodeResponsePdu, be16]
  | writeSingleRegister a w => simp [responsePduLen, encodeResponsePdu, be16]
  | maskWriteRegister a am om => simp [responsePduLen, encodeResponsePdu, be16]
  | readCoils cs =>
    have hp : packedCoilsSize cs.length ≤ 251 := by simp [responsePduSizeRaw] at hs; omega
    have e2 : (UInt8.ofNat (packedCoilsSize cs.length)).toNat = packedCoilsSize cs.length := by
      simp [UInt8.toNat_ofNat']; omega
    simp [responsePduLen, encodeResponsePdu, e2, packCoils_length]
    omega
  | readDiscreteInputs cs =>
    have hp : packedCoilsSize cs.length ≤ 251 := by simp [responsePduSizeRaw] at hs; omega
    have e2 : (UInt8.ofNat (packedCoilsSize cs.length)).toNat = packedCoilsSize cs.length := by
      simp [UInt8.toNat_ofNat']; omega
    simp [responsePduLen, encodeResponsePdu, e2, packCoils_length]
    omega
  | readInputRegisters ws =>
    have hl : ws.length ≤ 125 := by simp [responsePduSizeRaw] at hs; omega
    have e2 : (UInt8.ofNat (ws.length * 2)).toNat = ws.length * 2 := by simp [UInt8.toNat_ofNat']; omega
    simp [responsePduLen, encodeResponsePdu, e2, encWords_length]
    omega
  | readHoldingRegisters ws =>
    have hl : ws.length ≤ 125 := by simp [responsePduSizeRaw] at hs; omega
    have e2 : (UInt8.ofNat (ws.length * 2)).toNat = ws.length * 2 := by simp [UInt8.toNat_ofNat']; omega
    simp [responsePduLen, encodeResponsePdu, e2, encWords_length]
    omega
  | readWriteMultipleRegisters ws =>
    have hl : ws.length ≤ 125 := by simp [responsePduSizeRaw] at hs; omega
    have e2 : (UInt8.ofNat (ws.length * 2)).toNat = ws.length * 2 := by simp [UInt8.toNat_ofNat']; omega
    simp [responsePduLen, encodeResponsePdu, e2, encWords_length]
    omega
  | reportServerId id run data =>
    have hl : data.length ≤ 249 := by simp [responsePduSizeRaw] at hs; omega
    have e1 : (UInt8.ofNat data.length).toNat = data.length := by simp [UInt8.toNat_ofNat']; omega
    have e2 : (UInt8.ofNat (2 + data.length)).toNat = 2 + data.length := by simp [UInt8.toNat_ofNat']; omega
    simp [responsePduLen, encodeResponsePdu, e1, e2]
    omega

/-- … and with the exception encoder, for every function code the table knows as an exception -/
theorem exception_table_agrees (slave fc code : UInt8) (x : Bytes) (h1 : 1 ≤ fc) (h2 : fc ≤ 0x2B) :
    responsePduLen (slave :: [fc + 0x80, code] ++ crcBytes (slave :: [fc + 0x80, code]) ++ x) = .ok (some 2) := by
  revert fc
  have : ∀ fc : UInt8, 1 ≤ fc → fc ≤ 0x2B →
      ¬ ((1 ≤ fc + 0x80 ∧ fc + 0x80 ≤ 4) ∨ fc + 0x80 = 0x0C ∨ fc + 0x80 = 0x11 ∨ fc + 0x80 = 0x17)
      ∧ ¬ (fc + 0x80 = 0x05 ∨ fc + 0x80 = 0x06 ∨ fc + 0x80 = 0x0B ∨ fc + 0x80 = 0x0F ∨ fc + 0x80 = 0x10)
      ∧ fc + 0x80 ≠ 0x07 ∧ fc + 0x80 ≠ 0x16 ∧ fc + 0x80 ≠ 0x18 ∧ (0x81 ≤ fc + 0x80 ∧ fc + 0x80 ≤ 0xAB) := by
    apply forall_u8; decide +kernel
  intro fc h1 h2
  obtain ⟨a, b, c, d, e, f⟩ := this fc h1 h2
  simp only [responsePduLen, List.cons_append, List.getElem?_cons_succ, List.getElem?_cons_zero]
  simp [a, b, c, d, e, f]

/-! ### every fragmentation -/

/-- **rtu_chunking** (either direction, stated on PDUs): any stream of frames whose PDU length the
    table infers, for any slave ids, cut into reads in any way with any `Pending`s in between
    and followed by anything, is delivered completely, in order, each frame exactly once;
    what follows stays in the reader. -/
theorem rtu_chunking (lenFn : Bytes → Res (Option Nat)) (hst : PrefixStable lenFn)
    (frames : List (UInt8 × Bytes)) (evs : List ReadEv) (tail : Bytes)
    (hlen : ∀ p ∈ frames, ∀ rest, lenFn (rtuFrame p.1 p.2 ++ rest) = .ok (some p.2.length))
    (hfeed : ∀ e ∈ evs, e.isFeed = true)
    (hdata : dataOf evs = (frames.map fun p => rtuFrame p.1 p.2).flatten ++ tail) :
    ∃ fd r' evs', pullN (rtuRawDecoder lenFn) frames.length {} {} evs = (frames.map .item, fd, r', evs')
      ∧ r'.buffer ++ dataOf evs' = tail := by
  let F := rtuFraming lenFn hst
  have hv : ∀ f ∈ frames.map (fun p => rtuFrame p.1 p.2), F.Valid f := by
    intro f hf
    obtain ⟨p, hp, rfl⟩ := List.mem_map.mp hf
    exact ⟨p.1, p.2, rfl, hlen p hp⟩
  have hne : ∀ f ∈ frames.map (fun p => rtuFrame p.1 p.2), f ≠ [] := by
    intro f hf
    obtain ⟨p, _, rfl⟩ := List.mem_map.mp hf
    simp [rtuFrame]
  have r0e : ({} : ReadFrame).hasErrored = false := rfl
  have r0q : ({} : ReadFrame).eof = false := rfl
  have r0b : ({} : ReadFrame).isReadable = false → ({} : ReadFrame).buffer = [] := fun _ => rfl
  have hd0 : ({} : ReadFrame).buffer ++ dataOf evs
      = (frames.map fun p => rtuFrame p.1 p.2).flatten ++ tail := by
    show [] ++ dataOf evs = _
    rw [List.nil_append]; exact hdata
  have H := stream_delivers (D := rtuRawDecoder lenFn) F
    (frames.map fun p => rtuFrame p.1 p.2) evs ({} : FrameDecoder) ({} : ReadFrame) tail
  have H2 := H hv hne hfeed r0e r0q r0b hd0
  obtain ⟨s', r', evs', h1, h2, _⟩ := H2
  refine ⟨s', r', evs', ?_, h2⟩
  have hitems : (frames.map fun p => rtuFrame p.1 p.2).map (fun f => Polled.item (F.item f))
      = frames.map .item := by
    rw [List.map_map]
    apply List.map_congr_left
    intro p _
    simp only [Function.comp]
    congr 1
    exact rtuFraming_item lenFn hst p.1 p.2
  rw [hitems, List.length_map] at h1
  exact h1

/-- **rtu_chunking** (server side): the frames of supported (typed) requests -/
theorem rtu_chunking_requests (frames : List (UInt8 × Request)) (evs : List ReadEv) (tail : Bytes)
    (hs : ∀ p ∈ frames, requestPduSizeRaw p.2 ≤ 253) (ht : ∀ p ∈ frames, ∀ fc d, p.2 ≠ .custom fc d)
    (hfeed : ∀ e ∈ evs, e.isFeed = true)
    (hdata : dataOf evs = (frames.map fun p => rtuFrame p.1 (encodeRequestPdu p.2)).flatten ++ tail) :
    ∃ fd r' evs', pullN (rtuRawDecoder requestPduLen) frames.length {} {} evs
        = (frames.map (fun p => .item (p.1, encodeRequestPdu p.2)), fd, r', evs')
      ∧ r'.buffer ++ dataOf evs' = tail := by
  have H := rtu_chunking requestPduLen requestPduLen_stable (frames.map fun p => (p.1, encodeRequestPdu p.2)) evs tail
    (by
      intro p hp rest
      obtain ⟨q, hq, rfl⟩ := List.mem_map.mp hp
      have := request_table_agrees q.1 q.2 rest (hs q hq) (ht q hq)
      simpa [rtuFrame, List.append_assoc] using this)
    hfeed (by simpa [List.map_map, Function.comp_def] using hdata)
  simpa [List.map_map, Function.comp_def] using H

/-- **rtu_chunking** (client side): the frames of supported (typed) responses -/
theorem rtu_chunking_responses (frames : List (UInt8 × Response)) (evs : List ReadEv) (tail : Bytes)
    (hs : ∀ p ∈ frames, responsePduSizeRaw p.2 ≤ 253) (ht : ∀ p ∈ frames, ∀ fc d, p.2 ≠ .custom fc d)
    (hfeed : ∀ e ∈ evs, e.isFeed = true)
    (hdata : dataOf evs = (frames.map fun p => rtuFrame p.1 (encodeResponsePdu p.2)).flatten ++ tail) :
    ∃ fd r' evs', pullN (rtuRawDecoder responsePduLen) frames.length {} {} evs
        = (frames.map (fun p => .item (p.1, encodeResponsePdu p.2)), fd, r', evs')
      ∧ r'.buffer ++ dataOf evs' = tail := by
  have H := rtu_chunking responsePduLen responsePduLen_stable (frames.map fun p => (p.1, encodeResponsePdu p.2)) evs tail
    (by
      intro p hp rest
      obtain ⟨q, hq, rfl⟩ := List.mem_map.mp hp
      have := response_table_agrees q.1 q.2 rest (hs q hq) (ht q hq)
      simpa [rtuFrame, List.append_assoc] using this)
    hfeed (by simpa [List.map_map, Function.comp_def] using hdata)
  simpa [List.map_map, Function.comp_def] using H

-- non-vacuity: two request frames cut into odd pieces
example :
    (pullN (rtuRawDecoder requestPduLen) 2 {} {}
      [.data [0x11, 0x03, 0x00], .pending, .data [0x6B, 0x00, 0x03, 0x76], .data [0x87, 0x01, 0x11],
       .data [0xC0, 0x2C]]).1
    = [.item (0x11, [0x03, 0x00, 0x6B, 0x00, 0x03]), .item (0x01, [0x11])] := by decide +kernel

/-! ### resynchronisation -/

/-- **rtu_resync, every fragmentation** (either direction, stated on PDUs): a stream of frames,
    each preceded by up to 19 noise bytes that are never function codes (the frames' slave ids
    being such bytes too), cut into reads in any way, is delivered completely and in order
    with all the noise discarded.  (The property asks for 16; the retry limit of 20 gives 19.) -/
theorem rtu_resync_chunking (lenFn : Bytes → Res (Option Nat)) (hT : NoiseTable lenFn)
    (frames : List (Bytes × UInt8 × Bytes)) (evs : List ReadEv) (tail : Bytes)
    (hnoise : ∀ p ∈ frames, (∀ b ∈ p.1, nonFc b = true) ∧ p.1.length ≤ 19 ∧ nonFc p.2.1 = true)
    (hlen : ∀ p ∈ frames, ∀ rest, lenFn (rtuFrame p.2.1 p.2.2 ++ rest) = .ok (some p.2.2.length))
    (hfeed : ∀ e ∈ evs, e.isFeed = true)
    (hdata : dataOf evs = (frames.map fun p => p.1 ++ rtuFrame p.2.1 p.2.2).flatten ++ tail) :
    ∃ fd r' evs', pullN (rtuRawDecoder lenFn) frames.length {} {} evs
        = (frames.map (fun p => .item p.2), fd, r', evs')
      ∧ r'.buffer ++ dataOf evs' = tail := by
  let F := noisyFraming lenFn hT
  let enc := fun p : Bytes × UInt8 × Bytes => p.1 ++ rtuFrame p.2.1 p.2.2
  have hv : ∀ f ∈ frames.map enc, F.Valid f := by
    intro f hf
    obtain ⟨p, hp, rfl⟩ := List.mem_map.mp hf
    obtain ⟨h1, h2, h3⟩ := hnoise p hp
    exact ⟨p.1, p.2.1, p.2.2, h1, h2, h3, hlen p hp, rfl⟩
  have hne : ∀ f ∈ frames.map enc, f ≠ [] := by
    intro f hf
    obtain ⟨p, _, rfl⟩ := List.mem_map.mp hf
    simp [enc, rtuFrame]
  have r0e : ({} : ReadFrame).hasErrored = false := rfl
  have r0q : ({} : ReadFrame).eof = false := rfl
  have r0b : ({} : ReadFrame).isReadable = false → ({} : ReadFrame).buffer = [] := fun _ => rfl
  have hd0 : ({} : ReadFrame).buffer ++ dataOf evs = (frames.map enc).flatten ++ tail := by
    show [] ++ dataOf evs = _
    rw [List.nil_append]; exact hdata
  have H := stream_delivers (D := rtuRawDecoder lenFn) F (frames.map enc) evs
    ({} : FrameDecoder) ({} : ReadFrame) tail
  have H2 := H hv hne hfeed r0e r0q r0b hd0
  obtain ⟨s', r', evs', h1, h2, _⟩ := H2
  refine ⟨s', r', evs', ?_, h2⟩
  have hitems : (frames.map enc).map (fun f => Polled.item (F.item f))
      = frames.map (fun p => .item p.2) := by
    rw [List.map_map]
    apply List.map_congr_left
    intro p hp
    simp only [Function.comp]
    congr 1
    obtain ⟨h1, h2, h3⟩ := hnoise p hp
    exact noisyItem_eq lenFn hT p.1 p.2.1 p.2.2 h1 h2 h3 (hlen p hp)
  rw [hitems, List.length_map] at h1
  exact h1

/-- … for the requests a server reads -/
theorem rtu_resync_chunking_requests (frames : List (Bytes × UInt8 × Request)) (evs : List ReadEv) (tail : Bytes)
    (hnoise : ∀ p ∈ frames, (∀ b ∈ p.1, nonFc b = true) ∧ p.1.length ≤ 19 ∧ nonFc p.2.1 = true)
    (hs : ∀ p ∈ frames, requestPduSizeRaw p.2.2 ≤ 253) (ht : ∀ p ∈ frames, ∀ fc d, p.2.2 ≠ .custom fc d)
    (hfeed : ∀ e ∈ evs, e.isFeed = true)
    (hdata : dataOf evs = (frames.map fun p => p.1 ++ rtuFrame p.2.1 (encodeRequestPdu p.2.2)).flatten ++ tail) :
    ∃ fd r' evs', pullN (rtuRawDecoder requestPduLen) frames.length {} {} evs
        = (frames.map (fun p => .item (p.2.1, encodeRequestPdu p.2.2)), fd, r', evs')
      ∧ r'.buffer ++ dataOf evs' = tail := by
  have H := rtu_resync_chunking requestPduLen requestPduLen_noiseTable
    (frames.map fun p => (p.1, p.2.1, encodeRequestPdu p.2.2)) evs tail
    (by
      intro p hp
      obtain ⟨q, hq, rfl⟩ := List.mem_map.mp hp
      exact hnoise q hq)
    (by
      intro p hp rest
      obtain ⟨q, hq, rfl⟩ := List.mem_map.mp hp
      have := request_table_agrees q.2.1 q.2.2 rest (hs q hq) (ht q hq)
      simpa [rtuFrame, List.append_assoc] using this)
    hfeed (by simpa [List.map_map, Function.comp_def] using hdata)
  simpa [List.map_map, Function.comp_def] using H

/-- … and for the responses a client reads -/
theorem rtu_resync_chunking_responses (frames : List (Bytes × UInt8 × Response)) (evs : List ReadEv) (tail : Bytes)
    (hnoise : ∀ p ∈ frames, (∀ b ∈ p.1, nonFc b = true) ∧ p.1.length ≤ 19 ∧ nonFc p.2.1 = true)
    (hs : ∀ p ∈ frames, responsePduSizeRaw p.2.2 ≤ 253) (ht : ∀ p ∈ frames, ∀ fc d, p.2.2 ≠ .custom fc d)
    (hfeed : ∀ e ∈ evs, e.isFeed = true)
    (hdata : dataOf evs = (frames.map fun p => p.1 ++ rtuFrame p.2.1 (encodeResponsePdu p.2.2)).flatten ++ tail) :
    ∃ fd r' evs', pullN (rtuRawDecoder responsePduLen) frames.length {} {} evs
        = (frames.map (fun p => .item (p.2.1, encodeResponsePdu p.2.2)), fd, r', evs')
      ∧ r'.buffer ++ dataOf evs' = tail := by
  have H := rtu_resync_chunking responsePduLen responsePduLen_noiseTable
    (frames.map fun p => (p.1, p.2.1, encodeResponsePdu p.2.2)) evs tail
    (by
      intro p hp
      obtain ⟨q, hq, rfl⟩ := List.mem_map.mp hp
      exact hnoise q hq)
    (by
      intro p hp rest
      obtain ⟨q, hq, rfl⟩ := List.mem_map.mp hp
      have := response_table_agrees q.2.1 q.2.2 rest (hs q hq) (ht q hq)
      simpa [rtuFrame, List.append_assoc] using this)
    hfeed (by simpa [List.map_map, Function.comp_def] using hdata)
  simpa [List.map_map, Function.comp_def] using H

theorem awaitNextFuel_congr {σ ι} (D : Decoder σ ι) (n : Nat) (s s' : σ) (r r' : ReadFrame) (a b : List ReadEv)
    (h : pollNext D s r a = pollNext D s' r' b) :
    awaitNextFuel D (n + 1) s r a = awaitNextFuel D (n + 1) s' r' b := by
  rw [awaitNextFuel, awaitNextFuel, h]

/-- **rtu_resync, byte by byte**: any amount of noise (bytes that are never function codes)
    arriving one byte per read, followed by a frame (slave id such a byte too) in any
    fragmentation, is discarded and the frame delivered by the very next `next().await`; what
    follows the frame stays in the reader.  For both length tables. -/
theorem rtu_resync_bytewise (lenFn : Bytes → Res (Option Nat)) (hT : NoiseTable lenFn)
    (noise : Bytes) (slave : UInt8) (pdu : Bytes) (evs : List ReadEv) (tail : Bytes)
    (hn : ∀ b ∈ noise, nonFc b = true) (hsl : nonFc slave = true)
    (hlen : ∀ rest, lenFn (rtuFrame slave pdu ++ rest) = .ok (some pdu.length))
    (hfeed : ∀ e ∈ evs, e.isFeed = true) (hdata : dataOf evs = rtuFrame slave pdu ++ tail) :
    ∃ fd r' evs', awaitNext (rtuRawDecoder lenFn) {} {} (noise.map (fun b => ReadEv.data [b]) ++ evs)
        = (.item (slave, pdu), fd, r', evs')
      ∧ r'.buffer ++ dataOf evs' = tail := by
  have r0 : Resync ({} : ReadFrame) := ⟨rfl, rfl, rfl, Or.inl rfl⟩
  obtain ⟨fd1, r1, habs, hr1⟩ := pollNext_absorbs lenFn hT noise evs {} {} hn r0
  let F := noisyFraming lenFn hT
  have hheld : ∀ b ∈ r1.buffer, nonFc b = true := by
    rcases hr1.held with h | ⟨y, hy, h⟩
    · rw [h]; simp
    · rw [h]; simpa using hy
  have hheldlen : r1.buffer.length ≤ 19 := by
    rcases hr1.held with h | ⟨y, _, h⟩ <;> rw [h] <;> simp
  have hv : F.Valid (r1.buffer ++ rtuFrame slave pdu) :=
    ⟨r1.buffer, slave, pdu, hheld, hheldlen, hsl, hlen, rfl⟩
  have inv : FrameInv r1 (r1.buffer ++ rtuFrame slave pdu) :=
    ⟨hr1.noErr, hr1.noEof, fun _ => ⟨⟨_, rfl⟩, by
      intro e
      have := congrArg List.length e
      simp [rtuFrame] at this⟩⟩
  have hd : r1.buffer ++ dataOf evs = (r1.buffer ++ rtuFrame slave pdu) ++ tail := by
    rw [hdata, List.append_assoc]
  have H := next_delivers_fuel F tail ((noise.map (fun b => ReadEv.data [b]) ++ evs).length + 1) evs fd1 r1
    (r1.buffer ++ rtuFrame slave pdu) hv (by simp; omega) hfeed inv hd
  obtain ⟨s', r', evs', h1, h2, _⟩ := H
  refine ⟨s', r', evs', ?_, h2⟩
  have hitem : F.item (r1.buffer ++ rtuFrame slave pdu) = (slave, pdu) :=
    noisyItem_eq lenFn hT r1.buffer slave pdu hheld hheldlen hsl hlen
  rw [hitem] at h1
  unfold awaitNext
  rw [awaitNextFuel_congr _ _ _ _ _ _ _ _ habs]
  exact h1

/-- the same for the requests a server reads -/
theorem rtu_resync_bytewise_requests (noise : Bytes) (slave : UInt8) (r : Request) (evs : List ReadEv) (tail : Bytes)
    (hn : ∀ b ∈ noise, nonFc b = true) (hsl : nonFc slave = true)
    (hs : requestPduSizeRaw r ≤ 253) (ht : ∀ fc d, r ≠ .custom fc d)
    (hfeed : ∀ e ∈ evs, e.isFeed = true)
    (hdata : dataOf evs = rtuFrame slave (encodeRequestPdu r) ++ tail) :
    ∃ fd r' evs', awaitNext (rtuRawDecoder requestPduLen) {} {} (noise.map (fun b => ReadEv.data [b]) ++ evs)
        = (.item (slave, encodeRequestPdu r), fd, r', evs')
      ∧ r'.buffer ++ dataOf evs' = tail :=
  rtu_resync_bytewise requestPduLen requestPduLen_noiseTable noise slave (encodeRequestPdu r) evs tail hn hsl
    (fun rest => by
      have := request_table_agrees slave r rest hs ht
      simpa [rtuFrame, List.append_assoc] using this)
    hfeed hdata

/-- … and for the responses a client reads -/
theorem rtu_resync_bytewise_responses (noise : Bytes) (slave : UInt8) (r : Response) (evs : List ReadEv) (tail : Bytes)
    (hn : ∀ b ∈ noise, nonFc b = true) (hsl : nonFc slave = true)
    (hs : responsePduSizeRaw r ≤ 253) (ht : ∀ fc d, r ≠ .custom fc d)
    (hfeed : ∀ e ∈ evs, e.isFeed = true)
    (hdata : dataOf evs = rtuFrame slave (encodeResponsePdu r) ++ tail) :
    ∃ fd r' evs', awaitNext (rtuRawDecoder responsePduLen) {} {} (noise.map (fun b => ReadEv.data [b]) ++ evs)
        = (.item (slave, encodeResponsePdu r), fd, r', evs')
      ∧ r'.buffer ++ dataOf evs' = tail :=
  rtu_resync_bytewise responsePduLen responsePduLen_noiseTable noise slave (encodeResponsePdu r) evs tail hn hsl
    (fun rest => by
      have := response_table_agrees slave r rest hs ht
      simpa [rtuFrame, List.append_assoc] using this)
    hfeed hdata

-- non-vacuity: 25 noise bytes one at a time, then a frame in two pieces
example :
    (awaitNext (rtuRawDecoder requestPduLen) {} {}
      ((List.replicate 25 (0x80 : UInt8)).map (fun b => ReadEv.data [b]) ++ [.data ((rtuFrame 0x00 [0x11]).take 2), .data ((rtuFrame 0x00 [0x11]).drop 2)])).1
      = .item (0x00, [0x11]) := by decide +kernel

end Modbus.Props.C11
