import ModbusModel.Lemmas.RtuFraming
import ModbusModel.Lemmas.RoundTrip
/-
  C11 – RTU framing delivers every clean frame and resynchronises after line noise.
-/
namespace Modbus.Props.C11
open Modbus

/-- **clean frame, one decode call**: when the length table names the PDU length of the frame at
    the head of the buffer, the frame is delivered at once – nothing is dropped, the bytes
    after it are untouched, the record of dropped bytes is reset -/
theorem clean_frame_delivered (lenFn : Bytes → Res (Option Nat)) (fd : FrameDecoder)
    (slave : UInt8) (pdu rest : Bytes)
    (hlen : lenFn (rtuFrame slave pdu ++ rest) = .ok (some pdu.length)) :
    rtuDecode lenFn fd (rtuFrame slave pdu ++ rest) = (.ok (some (slave, pdu)), { dropped := [] }, rest) := by
  unfold rtuDecode rtuDecodeLoop MAX_RETRIES
  simp only [hlen]
  have hb : rtuFrame slave pdu ++ rest
      = slave :: pdu ++ [UInt8.ofNat ((calcCrc (slave :: pdu)).toNat / 256), UInt8.ofNat ((calcCrc (slave :: pdu)).toNat % 256)] ++ rest := by
    simp [rtuFrame, crcBytes, be16]
  rw [hb, frameDecode_on_split]
  simp [rd16_be16]

/-- the bytes that can never be read as a function code by either length table -/
def nonFc (b : UInt8) : Bool :=
  b = 0x00 || b = 0x80 || (0x41 ≤ b && b ≤ 0x48) || (0x64 ≤ b && b ≤ 0x6E)

/-- the function codes the request / response length tables have an entry for -/
def reqArm (fc : UInt8) : Bool :=
  (0x01 ≤ fc && fc ≤ 0x06) || fc = 0x07 || fc = 0x0B || fc = 0x0C || fc = 0x11 || fc = 0x0F || fc = 0x10
    || fc = 0x16 || fc = 0x18 || fc = 0x17

def rspArm (fc : UInt8) : Bool :=
  (0x01 ≤ fc && fc ≤ 0x04) || fc = 0x0C || fc = 0x11 || fc = 0x17 || fc = 0x05 || fc = 0x06 || fc = 0x0B
    || fc = 0x0F || fc = 0x10 || fc = 0x07 || fc = 0x16 || fc = 0x18 || (0x81 ≤ fc && fc ≤ 0xAB)

theorem request_table_rejects (a b : UInt8) (rest : Bytes) (h : reqArm b = false) :
    requestPduLen (a :: b :: rest) = .err .invalidData := by
  simp only [reqArm, Bool.or_eq_false_iff, Bool.and_eq_false_iff, decide_eq_false_iff_not] at h
  simp only [requestPduLen, List.getElem?_cons_succ, List.getElem?_cons_zero]
  obtain ⟨⟨⟨⟨⟨⟨⟨⟨⟨h1, h2⟩, h3⟩, h4⟩, h5⟩, h6⟩, h7⟩, h8⟩, h9⟩, h10⟩ := h
  have c1 : ¬ (1 ≤ b ∧ b ≤ 6) := by intro ⟨x, y⟩; rcases h1 with h1 | h1 <;> simp_all
  simp [c1, h2, h3, h4, h5, h6, h7, h8, h9, h10]

theorem response_table_rejects (a b : UInt8) (rest : Bytes) (h : rspArm b = false) :
    responsePduLen (a :: b :: rest) = .err .invalidData := by
  simp only [rspArm, Bool.or_eq_false_iff, Bool.and_eq_false_iff, decide_eq_false_iff_not] at h
  simp only [responsePduLen, List.getElem?_cons_succ, List.getElem?_cons_zero]
  obtain ⟨⟨⟨⟨⟨⟨⟨⟨⟨⟨⟨⟨h1, h2⟩, h3⟩, h4⟩, h5⟩, h6⟩, h7⟩, h8⟩, h9⟩, h10⟩, h11⟩, h12⟩, h13⟩ := h
  have c1 : ¬ (1 ≤ b ∧ b ≤ 4) := by intro ⟨x, y⟩; rcases h1 with h1 | h1 <;> simp_all
  have c2 : ¬ (0x81 ≤ b ∧ b ≤ 0xAB) := by intro ⟨x, y⟩; rcases h13 with h13 | h13 <;> simp_all
  simp [c1, c2, h2, h3, h4, h5, h6, h7, h8, h9, h10, h11, h12]

/-- a byte that can never be a function code has no entry in either table … -/
theorem nonFc_no_arm : ∀ b : UInt8, nonFc b = true → reqArm b = false ∧ rspArm b = false := by
  apply forall_u8; decide +kernel

/-- … so both length tables reject it in the function-code position -/
theorem nonFc_rejected (a b : UInt8) (rest : Bytes) (hb : nonFc b = true) :
    requestPduLen (a :: b :: rest) = .err .invalidData
    ∧ responsePduLen (a :: b :: rest) = .err .invalidData :=
  ⟨request_table_rejects a b rest (nonFc_no_arm b hb).1, response_table_rejects a b rest (nonFc_no_arm b hb).2⟩

/-- **noise, one retry**: a buffer whose second byte cannot be a function code loses exactly
    its first byte -/
theorem noise_byte_dropped (lenFn : Bytes → Res (Option Nat)) (n : Nat) (fd : FrameDecoder)
    (a b : UInt8) (rest : Bytes) (k : ErrKind) (h : lenFn (a :: b :: rest) = .err k) :
    ∃ fd', rtuDecodeLoop lenFn (n + 1) fd (a :: b :: rest) = rtuDecodeLoop lenFn n fd' (b :: rest) := by
  obtain ⟨fd', hr, _⟩ := recoverOnError_spec fd a (b :: rest)
  refine ⟨fd', ?_⟩
  rw [rtuDecodeLoop]
  simp only [h, hr]

/-- the request length table agrees with the encoder: for every typed request within the
    PDU limit, the table names exactly the length of its encoding once the frame is there -/
theorem request_table_agrees (slave : UInt8) (r : Request) (x : Bytes)
    (hs : requestPduSizeRaw r ≤ 253) (ht : ∀ fc d, r ≠ .custom fc d) :
    requestPduLen (slave :: encodeRequestPdu r ++ crcBytes (slave :: encodeRequestPdu r) ++ x)
      = .ok (some (encodeRequestPdu r).length) := by
  cases r with
  | custom fc d => exact absurd rfl (ht fc d)
  | readCoils a q => simp [requestPduLen, encodeRequestPdu, be16]
  | readDiscreteInputs a q => simp [requestPduLen, encodeRequestPdu, be16]
  | readInputRegisters a q => simp [requestPduLen, encodeRequestPdu, be16]
  | readHoldingRegisters a q => simp [requestPduLen, encodeRequestPdu, be16]
  | writeSingleCoil a b => simp [requestPduLen, encodeRequestPdu, be16]
  | writeSingleRegister a w => simp [requestPduLen, encodeRequestPdu, be16]
  | reportServerId => simp [requestPduLen, encodeRequestPdu]
  | maskWriteRegister a am om => simp [requestPduLen, encodeRequestPdu, be16]
  | writeMultipleCoils a cs =>
    have hp : packedCoilsSize cs.length ≤ 247 := by simp [requestPduSizeRaw] at hs; omega
    have e2 : (UInt8.ofNat (packedCoilsSize cs.length)).toNat = packedCoilsSize cs.length := by
      simp [UInt8.toNat_ofNat']; omega
    simp [requestPduLen, encodeRequestPdu, be16, e2, packCoils_length]
    omega
  | writeMultipleRegisters a ws =>
    have hl : ws.length ≤ 123 := by simp [requestPduSizeRaw] at hs; omega
    have e2 : (UInt8.ofNat (ws.length * 2)).toNat = ws.length * 2 := by simp [UInt8.toNat_ofNat']; omega
    simp [requestPduLen, encodeRequestPdu, be16, e2, encWords_length]
    omega
  | readWriteMultipleRegisters ra q wa ws =>
    have hl : ws.length ≤ 121 := by simp [requestPduSizeRaw] at hs; omega
    have e2 : (UInt8.ofNat (ws.length * 2)).toNat = ws.length * 2 := by simp [UInt8.toNat_ofNat']; omega
    simp [requestPduLen, encodeRequestPdu, be16, e2, encWords_length]
    omega

/-- **supported requests are delivered** (server side, whole frame in the buffer): the frame of
    every typed request within the limit, followed by anything, is delivered with its slave
    id and decodes to the request itself -/
theorem server_delivers_request (fd : FrameDecoder) (slave : UInt8) (r : Request) (x : Bytes)
    (hs : requestPduSizeRaw r ≤ 253) (ht : ∀ fc d, r ≠ .custom fc d) :
    rtuServerDecode fd (rtuFrame slave (encodeRequestPdu r) ++ x)
      = (.ok (some (slave, r)), { dropped := [] }, x) := by
  have hl := request_table_agrees slave r x hs ht
  have hc : r.canonical := by cases r <;> first | trivial | exact absurd rfl (ht _ _)
  have := clean_frame_delivered requestPduLen fd slave (encodeRequestPdu r) x
    (by simpa [rtuFrame, List.append_assoc] using hl)
  simp [rtuServerDecode, this, decodeRequest_encode r hs hc, Res.map]

-- non-vacuity: 16 noise bytes in front of a frame, all in one read: the frame is delivered
example :
    (rtuDecode requestPduLen {} (List.replicate 16 0x80 ++ rtuFrame 0x00 [0x11])).1
      = .ok (some (0x00, [0x11])) := by decide +kernel
-- … but not after 21 noise bytes in one read (the retry limit): an error, as the property allows
example :
    (rtuDecode requestPduLen {} (List.replicate 21 0x80 ++ rtuFrame 0x00 [0x11])).1
      = .err .invalidData := by decide +kernel

end Modbus.Props.C11

namespace Modbus.Props.C11
open Modbus

/-- frames of typed requests within the limit are frames of the request-side RTU framing -/
theorem request_frame_valid (slave : UInt8) (r : Request) (hs : requestPduSizeRaw r ≤ 253)
    (ht : ∀ fc d, r ≠ .custom fc d) :
    (rtuFraming requestPduLen requestPduLen_stable).Valid (rtuFrame slave (encodeRequestPdu r)) := by
  refine ⟨slave, encodeRequestPdu r, rfl, ?_⟩
  intro rest
  have := request_table_agrees slave r rest hs ht
  simpa [rtuFrame, List.append_assoc] using this

/-- **rtu_chunking** (server side): any stream consisting of the frames of supported (typed)
    requests, for any slave ids, cut into reads in any way with any `Pending`s in between and
    followed by anything, is delivered by the RTU frame decoder completely, in order, each
    frame exactly once; what follows stays in the reader. -/
theorem rtu_chunking_requests (frames : List (UInt8 × Request)) (evs : List ReadEv) (tail : Bytes)
    (hs : ∀ p ∈ frames, requestPduSizeRaw p.2 ≤ 253) (ht : ∀ p ∈ frames, ∀ fc d, p.2 ≠ .custom fc d)
    (hfeed : ∀ e ∈ evs, e.isFeed = true)
    (hdata : dataOf evs = (frames.map fun p => rtuFrame p.1 (encodeRequestPdu p.2)).flatten ++ tail) :
    ∃ fd r' evs', pullN (rtuRawDecoder requestPduLen) frames.length {} {} evs
        = (frames.map (fun p => .item (p.1, encodeRequestPdu p.2)), fd, r', evs')
      ∧ r'.buffer ++ dataOf evs' = tail := by
  let F := rtuFraming requestPduLen requestPduLen_stable
  have hv : ∀ f ∈ frames.map (fun p => rtuFrame p.1 (encodeRequestPdu p.2)), F.Valid f := by
    intro f hf
    obtain ⟨p, hp, rfl⟩ := List.mem_map.mp hf
    exact request_frame_valid p.1 p.2 (hs p hp) (ht p hp)
  have hne : ∀ f ∈ frames.map (fun p => rtuFrame p.1 (encodeRequestPdu p.2)), f ≠ [] := by
    intro f hf
    obtain ⟨p, _, rfl⟩ := List.mem_map.mp hf
    simp [rtuFrame]
  have r0e : ({} : ReadFrame).hasErrored = false := rfl
  have r0q : ({} : ReadFrame).eof = false := rfl
  have r0b : ({} : ReadFrame).isReadable = false → ({} : ReadFrame).buffer = [] := fun _ => rfl
  have hd0 : ({} : ReadFrame).buffer ++ dataOf evs
      = (frames.map fun p => rtuFrame p.1 (encodeRequestPdu p.2)).flatten ++ tail := by
    show [] ++ dataOf evs = _
    rw [List.nil_append]; exact hdata
  have H := stream_delivers (D := rtuRawDecoder requestPduLen) F
    (frames.map fun p => rtuFrame p.1 (encodeRequestPdu p.2)) evs ({} : FrameDecoder) ({} : ReadFrame) tail
  have H2 := H hv hne hfeed r0e r0q r0b hd0
  obtain ⟨s', r', evs', h1, h2, _⟩ := H2
  refine ⟨s', r', evs', ?_, h2⟩
  have hitems : (frames.map fun p => rtuFrame p.1 (encodeRequestPdu p.2)).map (fun f => Polled.item (F.item f))
      = frames.map (fun p => .item (p.1, encodeRequestPdu p.2)) := by
    rw [List.map_map]
    apply List.map_congr_left
    intro p _
    simp only [Function.comp]
    congr 1
    exact rtuFraming_item requestPduLen requestPduLen_stable p.1 (encodeRequestPdu p.2)
  rw [hitems, List.length_map] at h1
  exact h1

-- non-vacuity: two request frames cut into odd pieces
example :
    (pullN (rtuRawDecoder requestPduLen) 2 {} {}
      [.data [0x11, 0x03, 0x00], .pending, .data [0x6B, 0x00, 0x03, 0x76], .data [0x87, 0x01, 0x11],
       .data [0xC0, 0x2C]]).1
    = [.item (0x11, [0x03, 0x00, 0x6B, 0x00, 0x03]), .item (0x01, [0x11])] := by decide +kernel

end Modbus.Props.C11
