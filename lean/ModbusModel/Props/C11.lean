import ModbusModel.Lemmas.Rtu
import ModbusModel.Lemmas.RoundTrip
/-
  C11 – RTU framing delivers every clean frame and resynchronises after line noise.
-/
namespace Modbus.Props.C11
open Modbus

/-- a well-formed RTU frame: address, PDU, CRC of both -/
def rtuFrame (slave : UInt8) (pdu : Bytes) : Bytes := slave :: pdu ++ crcBytes (slave :: pdu)

/-- **clean frame, one decode call**: when the length table names the PDU length of the frame at
    the head of the buffer, the frame is delivered at once – nothing is dropped, the bytes
    after it are untouched, the record of dropped bytes is reset -/
theorem clean_frame_delivered (lenFn : Bytes → Res (Option Nat)) (fd : FrameDecoder)
    (slave : UInt8) (pdu rest : Bytes)
    (hlen : lenFn (rtuFrame slave pdu ++ rest) = .ok (some pdu.length)) :
    rtuDecode lenFn fd (rtuFrame slave pdu ++ rest) = (.ok (some (slave, pdu)), { dropped := [] }, rest) := by
  unfold rtuDecode rtuDecodeLoop MAX_RETRIES
  simp only [hlen]
  have hb : rtuFrame slave pdu ++ rest
      = slave :: pdu ++ [UInt8.ofNat ((calcCrc (slave :: pdu)).toNat / 256), UInt8.ofNat ((calcCrc (slave :: pdu)).toNat % 256)] ++ rest := by
    simp [rtuFrame, crcBytes, be16]
  rw [hb, frameDecode_on_split]
  simp [rd16_be16]

/-- the bytes that can never be read as a function code by either length table -/
def nonFc (b : UInt8) : Bool :=
  b = 0x00 || b = 0x80 || (0x41 ≤ b && b ≤ 0x48) || (0x64 ≤ b && b ≤ 0x6E)

/-- the function codes the request / response length tables have an entry for -/
def reqArm (fc : UInt8) : Bool :=
  (0x01 ≤ fc && fc ≤ 0x06) || fc = 0x07 || fc = 0x0B || fc = 0x0C || fc = 0x11 || fc = 0x0F || fc = 0x10
    || fc = 0x16 || fc = 0x18 || fc = 0x17

def rspArm (fc : UInt8) : Bool :=
  (0x01 ≤ fc && fc ≤ 0x04) || fc = 0x0C || fc = 0x11 || fc = 0x17 || fc = 0x05 || fc = 0x06 || fc = 0x0B
    || fc = 0x0F || fc = 0x10 || fc = 0x07 || fc = 0x16 || fc = 0x18 || (0x81 ≤ fc && fc ≤ 0xAB)

theorem request_table_rejects (a b : UInt8) (rest : Bytes) (h : reqArm b = false) :
    requestPduLen (a :: b :: rest) = .err .invalidData := by
  simp only [reqArm, Bool.or_eq_false_iff, Bool.and_eq_false_iff, decide_eq_false_iff_not] at h
  simp only [requestPduLen, List.getElem?_cons_succ, List.getElem?_cons_zero]
  obtain ⟨⟨⟨⟨⟨⟨⟨⟨⟨h1, h2⟩, h3⟩, h4⟩, h5⟩, h6⟩, h7⟩, h8⟩, h9⟩, h10⟩ := h
  have c1 : ¬ (1 ≤ b ∧ b ≤ 6) := by intro ⟨x, y⟩; rcases h1 with h1 | h1 <;> simp_all
  simp [c1, h2, h3, h4, h5, h6, h7, h8, h9, h10]

theorem response_table_rejects (a b : UInt8) (rest : Bytes) (h : rspArm b = false) :
    responsePduLen (a :: b :: rest) = .err .invalidData := by
  simp only [rspArm, Bool.or_eq_false_iff, Bool.and_eq_false_iff, decide_eq_false_iff_not] at h
  simp only [responsePduLen, List.getElem?_cons_succ, List.getElem?_cons_zero]
  obtain ⟨⟨⟨⟨⟨⟨⟨⟨⟨⟨⟨⟨h1, h2⟩, h3⟩, h4⟩, h5⟩, h6⟩, h7⟩, h8⟩, h9⟩, h10⟩, h11⟩, h12⟩, h13⟩ := h
  have c1 : ¬ (1 ≤ b ∧ b ≤ 4) := by intro ⟨x, y⟩; rcases h1 with h1 | h1 <;> simp_all
  have c2 : ¬ (0x81 ≤ b ∧ b ≤ 0xAB) := by intro ⟨x, y⟩; rcases h13 with h13 | h13 <;> simp_all
  simp [c1, c2, h2, h3, h4, h5, h6, h7, h8, h9, h10, h11, h12]

/-- a byte that can never be a function code has no entry in either table … -/
theorem nonFc_no_arm : ∀ b : UInt8, nonFc b = true → reqArm b = false ∧ rspArm b = false := by
  apply forall_u8; decide +kernel

/-- … so both length tables reject it in the function-code position -/
theorem nonFc_rejected (a b : UInt8) (rest : Bytes) (hb : nonFc b = true) :
    requestPduLen (a :: b :: rest) = .err .invalidData
    ∧ responsePduLen (a :: b :: rest) = .err .invalidData :=
  ⟨request_table_rejects a b rest (nonFc_no_arm b hb).1, response_table_rejects a b rest (nonFc_no_arm b hb).2⟩

/-- **noise, one retry**: a buffer whose second byte cannot be a function code loses exactly
    its first byte -/
theorem noise_byte_dropped (lenFn : Bytes → Res (Option Nat)) (n : Nat) (fd : FrameDecoder)
    (a b : UInt8) (rest : Bytes) (k : ErrKind) (h : lenFn (a :: b :: rest) = .err k) :
    ∃ fd', rtuDecodeLoop lenFn (n + 1) fd (a :: b :: rest) = rtuDecodeLoop lenFn n fd' (b :: rest) := by
  obtain ⟨fd', hr, _⟩ := recoverOnError_spec fd a (b :: rest)
  refine ⟨fd', ?_⟩
  rw [rtuDecodeLoop]
  simp only [h, hr]

/-- the request length table agrees with the encoder: for every typed request within the
    PDU limit, the table names exactly the length of its encoding once the frame is there -/
theorem request_table_agrees (slave : UInt8) (r : Request) (x : Bytes)
    (hs : requestPduSizeRaw r ≤ 253) (ht : ∀ fc d, r ≠ .custom fc d) :
    requestPduLen (slave :: encodeRequestPdu r ++ crcBytes (slave :: encodeRequestPdu r) ++ x)
      = .ok (some (encodeRequestPdu r).length) := by
  cases r with
  | custom fc d => exact absurd rfl (ht fc d)
  | readCoils a q => simp [requestPduLen, encodeRequestPdu, be16]
  | readDiscreteInputs a q => simp [requestPduLen, encodeRequestPdu, be16]
  | readInputRegisters a q => simp [requestPduLen, encodeRequestPdu, be16]
  | readHoldingRegisters a q => simp [requestPduLen, encodeRequestPdu, be16]
  | writeSingleCoil a b => simp [requestPduLen, encodeRequestPdu, be16]
  | writeSingleRegister a w => simp [requestPduLen, encodeRequestPdu, be16]
  | reportServerId => simp [requestPduLen, encodeRequestPdu]
  | maskWriteRegister a am om => simp [requestPduLen, encodeRequestPdu, be16]
  | writeMultipleCoils a cs =>
    have hp : packedCoilsSize cs.length ≤ 247 := by simp [requestPduSizeRaw] at hs; omega
    have e2 : (UInt8.ofNat (packedCoilsSize cs.length)).toNat = packedCoilsSize cs.length := by
      simp [UInt8.toNat_ofNat']; omega
    simp [requestPduLen, encodeRequestPdu, be16, e2, packCoils_length]
    omega
  | writeMultipleRegisters a ws =>
    have hl : ws.length ≤ 123 := by simp [requestPduSizeRaw] at hs; omega
    have e2 : (UInt8.ofNat (ws.length * 2)).toNat = ws.length * 2 := by simp [UInt8.toNat_ofNat']; omega
    simp [requestPduLen, encodeRequestPdu, be16, e2, encWords_length]
    omega
  | readWriteMultipleRegisters ra q wa ws =>
    have hl : ws.length ≤ 121 := by simp [requestPduSizeRaw] at hs; omega
    have e2 : (UInt8.ofNat (ws.length * 2)).toNat = ws.length * 2 := by simp [UInt8.toNat_ofNat']; omega
    simp [requestPduLen, encodeRequestPdu, be16, e2, encWords_length]
    omega

/-- **supported requests are delivered** (server side, whole frame in the buffer): the frame of
    every typed request within the limit, followed by anything, is delivered with its slave
    id and decodes to the request itself -/
theorem server_delivers_request (fd : FrameDecoder) (slave : UInt8) (r : Request) (x : Bytes)
    (hs : requestPduSizeRaw r ≤ 253) (ht : ∀ fc d, r ≠ .custom fc d) :
    rtuServerDecode fd (rtuFrame slave (encodeRequestPdu r) ++ x)
      = (.ok (some (slave, r)), { dropped := [] }, x) := by
  have hl := request_table_agrees slave r x hs ht
  have hc : r.canonical := by cases r <;> first | trivial | exact absurd rfl (ht _ _)
  have := clean_frame_delivered requestPduLen fd slave (encodeRequestPdu r) x
    (by simpa [rtuFrame, List.append_assoc] using hl)
  simp [rtuServerDecode, this, decodeRequest_encode r hs hc, Res.map]

-- non-vacuity: 16 noise bytes in front of a frame, all in one read: the frame is delivered
example :
    (rtuDecode requestPduLen {} (List.replicate 16 0x80 ++ rtuFrame 0x00 [0x11])).1
      = .ok (some (0x00, [0x11])) := by decide +kernel
-- … but not after 21 noise bytes in one read (the retry limit): an error, as the property allows
example :
    (rtuDecode requestPduLen {} (List.replicate 21 0x80 ++ rtuFrame 0x00 [0x11])).1
      = .err .invalidData := by decide +kernel

end Modbus.Props.C11
