import ModbusModel.Lemmas.Write
import ModbusModel.Props.C17
/-
  C16 – Abandoned and timed-out calls leave a usable, uncorrupted client.
-/
namespace Modbus.Props.C16
open Modbus

/-- the request frames of a history that may have been handed to the framing layer -/
def Op.effects : OpResult → List Effect := OpResult.effects

/-- **abandon_invariant (one call)**: wherever a call is abandoned, and whatever the write
    granularity and pending pattern, the bytes that reached the transport followed by the
    bytes still buffered are the previous buffer followed by nothing or by the call's one
    whole frame. -/
theorem abandon_invariant_call (c : Client) (req : Request) (t : Transport) (b : Budget) :
    ∃ x, (x = [] ∨ clientEncode c.kind (stampedHdr c) req = .ok x)
      ∧ writtenBytes (c.call req t b).2.2.2 ++ (c.call req t b).2.1.wbuf = c.wbuf ++ x :=
  call_write_invariant c req t b

/-- whole frames: concatenations of encodings of requests under some header -/
inductive WholeFrames (k : Kind) : Bytes → Prop
  | nil : WholeFrames k []
  | snoc (pre frame : Bytes) (h : Hdr) (req : Request) :
      WholeFrames k pre → clientEncode k h req = .ok frame → WholeFrames k (pre ++ frame)

theorem step_kind (c : Client) (t : Transport) (op : Op) : (stepOp c t op).2.1.kind = c.kind := by
  cases op with
  | call req ext b =>
    by_cases hb : b = some 0
    · subst hb; simp [stepOp, call_unpolled]
    · simpa [stepOp] using (call_frame c req (t.extend ext) b hb).2.1
  | setSlave id => simp [stepOp, Client.setSlave]
  | disconnect ext => simp only [stepOp, Client.disconnect]; split <;> simp

/-- **abandon_invariant (lifetime)**: over any history – calls dropped at any suspension point,
    completed calls, slave changes – the bytes the transport has received so far, followed by
    the bytes still waiting in the write buffer, are a concatenation of whole request frames.
    (After a disconnect the write buffer is gone and nothing is written any more.) -/
theorem lifetime_whole_frames (ops : List Op) (c : Client) (t : Transport) (sent : Bytes)
    (h : WholeFrames c.kind (sent ++ c.wbuf)) (hnodisc : ∀ op ∈ ops, ∀ e, op ≠ .disconnect e) :
    WholeFrames c.kind
      (sent ++ writtenBytes ((runOps c t ops).1.flatMap OpResult.effects) ++ (runOps c t ops).2.1.wbuf) := by
  induction ops generalizing c t sent with
  | nil => simpa [runOps, writtenBytes] using h
  | cons op ops ih =>
    simp only [runOps, List.flatMap_cons, writtenBytes_append]
    have hk := step_kind c t op
    cases op with
    | call req ext b =>
      obtain ⟨x, hx, hinv⟩ := call_write_invariant c req (t.extend ext) b
      have hstep : WholeFrames c.kind ((sent ++ writtenBytes (c.call req (t.extend ext) b).2.2.2)
          ++ (c.call req (t.extend ext) b).2.1.wbuf) := by
        rw [List.append_assoc, hinv, ← List.append_assoc]
        rcases hx with hx | hx
        · subst hx; simpa using h
        · exact WholeFrames.snoc _ _ _ _ h hx
      have := ih (stepOp c t (.call req ext b)).2.1 (stepOp c t (.call req ext b)).2.2
        (sent ++ writtenBytes (c.call req (t.extend ext) b).2.2.2)
        (by rw [hk]; simpa [stepOp] using hstep) (fun o ho => hnodisc o (by simp [ho]))
      rw [hk] at this
      simpa [stepOp, OpResult.effects, List.append_assoc] using this
    | setSlave id =>
      have := ih (stepOp c t (.setSlave id)).2.1 (stepOp c t (.setSlave id)).2.2 sent
        (by rw [hk]; simpa [stepOp, Client.setSlave, Client.wbuf] using h) (fun o ho => hnodisc o (by simp [ho]))
      rw [hk] at this
      simpa [stepOp, OpResult.effects, writtenBytes] using this
    | disconnect ext => exact absurd rfl (hnodisc _ (by simp) ext)

/-- the asynchronous session underneath a blocking session never disconnects -/
theorem asyncSession_no_disconnect (ops : List SyncOp) (to : Bool) :
    ∀ op ∈ asyncSession to ops, ∀ e, op ≠ .disconnect e := by
  induction ops generalizing to with
  | nil => simp [asyncSession]
  | cons o ops ih =>
    cases o with
    | setTimeout on => simpa [asyncSession] using ih on
    | call req ext d =>
      intro op hop e
      simp only [asyncSession, SyncOp.asyncOf, Option.toList, List.cons_append, List.nil_append,
        List.mem_cons] at hop
      rcases hop with rfl | hop
      · simp
      · exact ih to op hop e
    | typed top ext d =>
      intro op hop e
      simp only [asyncSession, SyncOp.asyncOf, Option.toList, List.cons_append, List.nil_append,
        List.mem_cons] at hop
      rcases hop with rfl | hop
      · simp
      · exact ih to op hop e
    | setSlave id =>
      intro op hop e
      simp only [asyncSession, SyncOp.asyncOf, Option.toList, List.cons_append, List.nil_append,
        List.mem_cons] at hop
      rcases hop with rfl | hop
      · simp
      · exact ih to op hop e

/-- **abandon_invariant (blocking lifetime)**: over any session of the blocking client – calls and
    typed methods that time out at any poll, completed ones, slave changes, timeouts switched on
    and off – the bytes the transport has received, followed by the bytes still buffered, are
    a concatenation of whole request frames -/
theorem blocking_lifetime_whole_frames (ops : List SyncOp) (s : SyncContext) (t : Transport)
    (sent : Bytes) (h : WholeFrames s.asyncCtx.kind (sent ++ s.asyncCtx.wbuf)) :
    WholeFrames s.asyncCtx.kind
      (sent ++ writtenBytes ((runSync s t ops).1.flatMap SyncOpResult.effects)
        ++ (runSync s t ops).2.1.asyncCtx.wbuf) := by
  rw [Props.C17.sync_session_same_effects, Props.C17.sync_session_simulates]
  exact lifetime_whole_frames _ s.asyncCtx t sent h (asyncSession_no_disconnect ops s.timeout)

/-- … in particular from every way of connecting the blocking client (premises satisfiable) -/
theorem blocking_lifetime_from_connect (k : Kind) (slave : Option UInt8) (to : Bool)
    (ops : List SyncOp) (t : Transport) :
    WholeFrames k
      (writtenBytes ((runSync (SyncContext.connect k slave to) t ops).1.flatMap SyncOpResult.effects)
        ++ (runSync (SyncContext.connect k slave to) t ops).2.1.asyncCtx.wbuf) := by
  have hk : (SyncContext.connect k slave to).asyncCtx.kind = k := by
    cases slave <;> cases k <;> simp [SyncContext.connect, Client.attach, Client.attachSlave]
  have hw : (SyncContext.connect k slave to).asyncCtx.wbuf = [] := by
    cases slave <;> cases k <;> simp [SyncContext.connect, Client.attach, Client.attachSlave, Client.wbuf]
  have := blocking_lifetime_whole_frames ops (SyncContext.connect k slave to) t []
    (by rw [hw]; exact WholeFrames.nil)
  rw [hk] at this
  simpa using this

/-- a call's send phase is over only when everything buffered – the rest of an abandoned
    frame and the call's own frame – has been handed to the transport -/
theorem send_completes_flush (fuel : Nat) (w : Bytes) (t : Transport) (b : Budget) (effs : List Effect)
    (h : (awaitFlush fuel w t b effs).1 = .done none) :
    (awaitFlush fuel w t b effs).2.1 = []
    ∧ writtenBytes (awaitFlush fuel w t b effs).2.2.2.2 = writtenBytes effs ++ w := by
  have he := awaitFlush_done_empty fuel w t b effs h
  have hc := awaitFlush_conserves fuel w t b effs
  rw [he, List.append_nil] at hc
  exact ⟨he, hc⟩

/-- **late_reply_tcp**: a reply carrying an earlier call's transaction id is a header mismatch
    for every later call fewer than 65536 calls away – never a success -/
theorem late_reply_is_mismatch (tid : UInt16) (unit : UInt8) (n : Nat) (hn : 0 < n) (hw : n < 65536)
    (reqFc : FunctionCode) (res : ResponseResult) :
    classify ⟨tid + UInt16.ofNat n, unit⟩ reqFc ⟨tid, unit⟩ res = .headerMismatch res := by
  unfold classify
  have : (⟨tid + UInt16.ofNat n, unit⟩ : Hdr) ≠ ⟨tid, unit⟩ := by
    intro h
    have h' := congrArg (fun x => x.tid.toNat) h
    simp [UInt16.toNat_add, UInt16.toNat_ofNat'] at h'
    have := tid.toNat_lt
    omega
  simp [this]

/-- **sync_timeout**: the blocking client's timeout wrapper – "not finished by the deadline"
    becomes a TimedOut transport error, a call that finishes in time is returned unchanged -/
def withTimeout (o : Outcome CallResult) : CallResult :=
  match o with
  | .done r => r
  | .abandoned => .transport .timedOut
  | .blocked => .transport .timedOut

theorem sync_timeout (r : CallResult) : withTimeout (.done r) = r ∧ withTimeout .abandoned = .transport .timedOut := by
  simp [withTimeout]

-- non-vacuity: a call dropped after one poll in the middle of a write, then a normal call
example :
    (runOps (Client.attach .tcp) {}
      [ .call .reportServerId { writes := [.accept 3, .pending, .accept 100] } (some 1),
        .call .reportServerId { reads := [.data [0, 1, 0, 0, 0, 5, 0xFF, 0x11, 2, 1, 0xFF]] } none ]).1
    = [ .call .abandoned [.write [0, 0, 0]],
        .call (.done (.ok (.reportServerId 1 true []))) [.write [0, 0, 2, 0xFF, 0x11, 0, 1, 0, 0, 0, 2, 0xFF, 0x11]] ] := by
  decide +kernel

end Modbus.Props.C16
