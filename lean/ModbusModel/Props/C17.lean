import ModbusModel.Model.Sync
import ModbusModel.Lemmas.Client
/-
  C17 – The blocking client does exactly what the async client does.
-/
namespace Modbus.Props.C17
open Modbus

/-- **sync_delegates (call)**: whenever the asynchronous call finishes (no timeout elapses), the
    blocking call returns the same result, puts the same bytes on the transport and leaves
    the same client state -/
theorem sync_call_delegates (s : SyncContext) (req : Request) (t : Transport) (deadline : Budget)
    (r : CallResult)
    (h : (s.asyncCtx.call req t (if s.timeout then deadline else none)).1 = .done r) :
    (s.call req t deadline).1 = r
    ∧ (s.call req t deadline).2.1.asyncCtx = (s.asyncCtx.call req t (if s.timeout then deadline else none)).2.1
    ∧ (s.call req t deadline).2.2.2 = (s.asyncCtx.call req t (if s.timeout then deadline else none)).2.2.2 := by
  simp [SyncContext.call, h, withTimeout]

/-- without a configured timeout the blocking call *is* the asynchronous call run to completion -/
theorem sync_call_no_timeout (c : Client) (req : Request) (t : Transport) (deadline : Budget) :
    ({ asyncCtx := c, timeout := false } : SyncContext).call req t deadline
      = (withTimeout (c.call req t none).1, { asyncCtx := (c.call req t none).2.1, timeout := false },
          (c.call req t none).2.2.1, (c.call req t none).2.2.2) := by
  simp [SyncContext.call]

/-- **sync_delegates (typed)**: each of the ten typed operations issues the request of the
    asynchronous operation and applies the same projection to the result -/
theorem sync_typed_delegates (s : SyncContext) (op : TypedOp) (t : Transport) (deadline : Budget) :
    (s.typed op t deadline).1 = op.project (s.call op.request t deadline).1
    ∧ (s.typed op t deadline).2.2.2 = (s.call op.request t deadline).2.2.2 := by
  simp [SyncContext.typed]

/-- slave selection is forwarded -/
theorem sync_set_slave (s : SyncContext) (id : UInt8) :
    (s.setSlave id).asyncCtx = s.asyncCtx.setSlave id ∧ (s.setSlave id).timeout = s.timeout := by
  simp [SyncContext.setSlave]

/-- connect with and without an explicit slave: the asynchronous defaults (TCP 255, RTU 0) -/
theorem sync_connect (k : Kind) (slave : UInt8) (timeout : Bool) :
    (SyncContext.connect k (some slave) timeout).asyncCtx = Client.attachSlave k slave
    ∧ (SyncContext.connect k none timeout).asyncCtx = Client.attach k
    ∧ (SyncContext.connect .tcp none timeout).asyncCtx.unit = 255
    ∧ (SyncContext.connect .rtu none timeout).asyncCtx.unit = 0 := by
  simp [SyncContext.connect, Client.attach]

/-- a timeout turns "not finished" into TimedOut and nothing else -/
theorem timeout_is_timed_out (r : CallResult) :
    withTimeout (.done r) = r ∧ withTimeout .abandoned = .transport .timedOut
    ∧ withTimeout .blocked = .transport .timedOut := by
  simp [withTimeout]

/-- … and the client stays usable: the state it leaves is the state the abandoned asynchronous
    call leaves (whose write buffer holds whole frames only, see C16), with the transaction id
    advanced -/
theorem timed_out_call_state (s : SyncContext) (req : Request) (t : Transport) (deadline : Budget)
    (hb : (if s.timeout then deadline else none) ≠ some 0) :
    (s.call req t deadline).2.1.asyncCtx.nextTid
      = (if s.asyncCtx.kind = .tcp then s.asyncCtx.nextTid + 1 else s.asyncCtx.nextTid) := by
  have := (call_frame s.asyncCtx req t (if s.timeout then deadline else none) hb).1
  simpa [SyncContext.call] using this

-- non-vacuity: a prompt reply, then a silent server with a timeout
example :
    ((SyncContext.connect .tcp (some 7) true).call (.readHoldingRegisters 1 1)
      { reads := [.data [0, 0, 0, 0, 0, 5, 7, 3, 2, 0x12, 0x34]] } (some 50)).1
      = .ok (.readHoldingRegisters [0x1234]) := by decide +kernel
example :
    ((SyncContext.connect .tcp (some 7) true).call (.readHoldingRegisters 1 1) {} (some 50)).1
      = .transport .timedOut := by decide +kernel

/-! ### Whole sessions -/

/-- **sync_step_simulates**: one blocking operation is the asynchronous operation underneath it:
    same request bytes and effects, same successor state and transport, and the result is the
    asynchronous result seen through `withTimeout` (and the typed projection) -/
theorem sync_step_simulates (s : SyncContext) (t : Transport) (op : SyncOp) (aop : Op)
    (h : op.asyncOf s.timeout = some aop) :
    stepSync s t op
      = (op.present (stepOp s.asyncCtx t aop).1,
         { asyncCtx := (stepOp s.asyncCtx t aop).2.1, timeout := s.timeout },
         (stepOp s.asyncCtx t aop).2.2)
    ∧ (stepSync s t op).1.effects = (stepOp s.asyncCtx t aop).1.effects := by
  cases op with
  | call req ext d =>
    simp only [SyncOp.asyncOf, Option.some.injEq] at h; subst h
    simp [stepSync, stepOp, SyncContext.call, SyncOp.present, SyncOpResult.effects, OpResult.effects]
  | typed op ext d =>
    simp only [SyncOp.asyncOf, Option.some.injEq] at h; subst h
    simp [stepSync, stepOp, SyncContext.typed, SyncContext.call, SyncOp.present,
      SyncOpResult.effects, OpResult.effects]
  | setSlave id =>
    simp only [SyncOp.asyncOf, Option.some.injEq] at h; subst h
    simp [stepSync, stepOp, SyncContext.setSlave, SyncOp.present, SyncOpResult.effects,
      OpResult.effects]
  | setTimeout on => simp [SyncOp.asyncOf] at h

/-- `set_timeout` / `reset_timeout` touch nothing but the wrapper's flag -/
theorem sync_set_timeout_step (s : SyncContext) (t : Transport) (on : Bool) :
    stepSync s t (.setTimeout on) = (.unit, { asyncCtx := s.asyncCtx, timeout := on }, t) := by
  simp [stepSync, SyncContext.setTimeout]

/-- **sync_session_simulates**: for every sequence of blocking operations, from every state and
    over every transport behaviour, the blocking session *is* the asynchronous session underneath
    it: the results are the asynchronous results seen through `withTimeout`, the asynchronous
    context and the transport end in the same state, and the timeout flag is the last one set -/
theorem sync_session_simulates (ops : List SyncOp) (s : SyncContext) (t : Transport) :
    runSync s t ops
      = (presentAll ops (runOps s.asyncCtx t (asyncSession s.timeout ops)).1,
         { asyncCtx := (runOps s.asyncCtx t (asyncSession s.timeout ops)).2.1,
           timeout := timeoutAfter s.timeout ops },
         (runOps s.asyncCtx t (asyncSession s.timeout ops)).2.2) := by
  induction ops generalizing s t with
  | nil => simp [runSync, runOps, asyncSession, presentAll, timeoutAfter]
  | cons op ops ih =>
    cases hop : op.asyncOf s.timeout with
    | none =>
      cases op with
      | setTimeout on =>
        simp only [runSync, sync_set_timeout_step, asyncSession, presentAll, timeoutAfter]
        rw [ih]
      | call _ _ _ => simp [SyncOp.asyncOf] at hop
      | typed _ _ _ => simp [SyncOp.asyncOf] at hop
      | setSlave _ => simp [SyncOp.asyncOf] at hop
    | some aop =>
      have hs := (sync_step_simulates s t op aop hop).1
      cases op with
      | setTimeout on => simp [SyncOp.asyncOf] at hop
      | call req ext d =>
        simp only [runSync, hs, asyncSession, hop, Option.toList, List.cons_append, List.nil_append,
          runOps, presentAll, timeoutAfter]
        rw [ih]
      | typed top ext d =>
        simp only [runSync, hs, asyncSession, hop, Option.toList, List.cons_append, List.nil_append,
          runOps, presentAll, timeoutAfter]
        rw [ih]
      | setSlave id =>
        simp only [runSync, hs, asyncSession, hop, Option.toList, List.cons_append, List.nil_append,
          runOps, presentAll, timeoutAfter]
        rw [ih]

/-- **sync_session_same_bytes**: over a whole session the blocking client causes exactly the
    effects (bytes written, in order) of the asynchronous session underneath it -/
theorem sync_session_same_effects (ops : List SyncOp) (s : SyncContext) (t : Transport) :
    (runSync s t ops).1.flatMap SyncOpResult.effects
      = (runOps s.asyncCtx t (asyncSession s.timeout ops)).1.flatMap OpResult.effects := by
  induction ops generalizing s t with
  | nil => simp [runSync, runOps, asyncSession]
  | cons op ops ih =>
    cases hop : op.asyncOf s.timeout with
    | none =>
      cases op with
      | setTimeout on =>
        simp only [runSync, sync_set_timeout_step, asyncSession, List.flatMap_cons,
          SyncOpResult.effects, List.nil_append]
        exact ih _ _
      | call _ _ _ => simp [SyncOp.asyncOf] at hop
      | typed _ _ _ => simp [SyncOp.asyncOf] at hop
      | setSlave _ => simp [SyncOp.asyncOf] at hop
    | some aop =>
      have has : asyncSession s.timeout (op :: ops) = aop :: asyncSession s.timeout ops := by
        cases op with
        | setTimeout on => simp [SyncOp.asyncOf] at hop
        | call req ext d => simp [asyncSession, hop]
        | typed top ext d => simp [asyncSession, hop]
        | setSlave id => simp [asyncSession, hop]
      have hs := sync_step_simulates s t op aop hop
      have hstep : stepSync s t op = ((stepSync s t op).1,
          { asyncCtx := (stepOp s.asyncCtx t aop).2.1, timeout := s.timeout },
          (stepOp s.asyncCtx t aop).2.2) := by rw [hs.1]
      rw [has]
      simp only [runSync, runOps, List.flatMap_cons]
      rw [hstep]
      simp only [hs.2]
      rw [ih]

/-- the number of asynchronous operations is the number of blocking operations other than
    `set_timeout`: `presentAll` drops nothing -/
theorem sync_session_results_complete (ops : List SyncOp) (s : SyncContext) (t : Transport) :
    (runSync s t ops).1.length = ops.length := by
  induction ops generalizing s t with
  | nil => simp [runSync]
  | cons op ops ih => simp [runSync, ih]

-- non-vacuity: a session with a typed read, a slave change and a switched-off timeout
example :
    (runSync (SyncContext.connect .tcp (some 7) true) {}
      [.typed (.readHoldingRegisters 1 1) { reads := [.data [0, 0, 0, 0, 0, 5, 7, 3, 2, 0x12, 0x34]] } (some 50),
       .setSlave 9, .setTimeout false,
       .call (.readHoldingRegisters 1 1) { reads := [.data [0, 1, 0, 0, 0, 5, 9, 3, 2, 0xAB, 0xCD]] } (some 50)]).1.map
      (fun | .call r _ => some r | _ => none)
      = [none, none, none, some (.ok (.readHoldingRegisters [0xABCD]))] := by decide +kernel

end Modbus.Props.C17
