import ModbusModel.Model.Sync
import ModbusModel.Lemmas.Client
/-
  C17 – The blocking client does exactly what the async client does.
-/
namespace Modbus.Props.C17
open Modbus

/-- **sync_delegates (call)**: whenever the asynchronous call finishes (no timeout elapses), the
    blocking call returns the same result, puts the same bytes on the transport and leaves
    the same client state -/
theorem sync_call_delegates (s : SyncContext) (req : Request) (t : Transport) (deadline : Budget)
    (r : CallResult)
    (h : (s.asyncCtx.call req t (if s.timeout then deadline else none)).1 = .done r) :
    (s.call req t deadline).1 = r
    ∧ (s.call req t deadline).2.1.asyncCtx = (s.asyncCtx.call req t (if s.timeout then deadline else none)).2.1
    ∧ (s.call req t deadline).2.2.2 = (s.asyncCtx.call req t (if s.timeout then deadline else none)).2.2.2 := by
  simp [SyncContext.call, h, withTimeout]

/-- without a configured timeout the blocking call *is* the asynchronous call run to completion -/
theorem sync_call_no_timeout (c : Client) (req : Request) (t : Transport) (deadline : Budget) :
    ({ asyncCtx := c, timeout := false } : SyncContext).call req t deadline
      = (withTimeout (c.call req t none).1, { asyncCtx := (c.call req t none).2.1, timeout := false },
          (c.call req t none).2.2.1, (c.call req t none).2.2.2) := by
  simp [SyncContext.call]

/-- **sync_delegates (typed)**: each of the ten typed operations issues the request of the
    asynchronous operation and applies the same projection to the result -/
theorem sync_typed_delegates (s : SyncContext) (op : TypedOp) (t : Transport) (deadline : Budget) :
    (s.typed op t deadline).1 = op.project (s.call op.request t deadline).1
    ∧ (s.typed op t deadline).2.2.2 = (s.call op.request t deadline).2.2.2 := by
  simp [SyncContext.typed]

/-- slave selection is forwarded -/
theorem sync_set_slave (s : SyncContext) (id : UInt8) :
    (s.setSlave id).asyncCtx = s.asyncCtx.setSlave id ∧ (s.setSlave id).timeout = s.timeout := by
  simp [SyncContext.setSlave]

/-- connect with and without an explicit slave: the asynchronous defaults (TCP 255, RTU 0) -/
theorem sync_connect (k : Kind) (slave : UInt8) (timeout : Bool) :
    (SyncContext.connect k (some slave) timeout).asyncCtx = Client.attachSlave k slave
    ∧ (SyncContext.connect k none timeout).asyncCtx = Client.attach k
    ∧ (SyncContext.connect .tcp none timeout).asyncCtx.unit = 255
    ∧ (SyncContext.connect .rtu none timeout).asyncCtx.unit = 0 := by
  simp [SyncContext.connect, Client.attach]

/-- a timeout turns "not finished" into TimedOut and nothing else -/
theorem timeout_is_timed_out (r : CallResult) :
    withTimeout (.done r) = r ∧ withTimeout .abandoned = .transport .timedOut
    ∧ withTimeout .blocked = .transport .timedOut := by
  simp [withTimeout]

/-- … and the client stays usable: the state it leaves is the state the abandoned asynchronous
    call leaves (whose write buffer holds whole frames only, see C16), with the transaction id
    advanced -/
theorem timed_out_call_state (s : SyncContext) (req : Request) (t : Transport) (deadline : Budget)
    (hb : (if s.timeout then deadline else none) ≠ some 0) :
    (s.call req t deadline).2.1.asyncCtx.nextTid
      = (if s.asyncCtx.kind = .tcp then s.asyncCtx.nextTid + 1 else s.asyncCtx.nextTid) := by
  have := (call_frame s.asyncCtx req t (if s.timeout then deadline else none) hb).1
  simpa [SyncContext.call] using this

-- non-vacuity: a prompt reply, then a silent server with a timeout
example :
    ((SyncContext.connect .tcp (some 7) true).call (.readHoldingRegisters 1 1)
      { reads := [.data [0, 0, 0, 0, 0, 5, 7, 3, 2, 0x12, 0x34]] } (some 50)).1
      = .ok (.readHoldingRegisters [0x1234]) := by decide +kernel
example :
    ((SyncContext.connect .tcp (some 7) true).call (.readHoldingRegisters 1 1) {} (some 50)).1
      = .transport .timedOut := by decide +kernel

end Modbus.Props.C17
