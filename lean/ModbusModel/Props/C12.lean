import ModbusModel.Lemmas.Health
/-
  C12 – A failed call never desynchronises the calls that follow it.
-/
namespace Modbus.Props.C12
open Modbus

/-- **(a) every call leaves the reader clean.**  On a transport that does not signal end of
    stream, whatever a call's outcome – success, exception, header or function-code mismatch,
    undecodable frame, RTU retry overflow, transient read error, write error, surplus bytes,
    even abandonment – the framing layer's error latch is clear and no end of stream is
    recorded when the call is over. -/
theorem call_leaves_reader_clean (c : Client) (req : Request) (t : Transport) (b : Budget)
    (h : c.Healthy) (ho : ∀ e ∈ t.reads, e.isOpen = true) :
    (c.call req t b).2.1.Healthy :=
  (call_health c req t b h ho).1

/-- the read events an operation adds to the transport script -/
def opReads : Op → List ReadEv
  | .call _ ext _ => ext.reads
  | .disconnect ext => ext.reads
  | .setSlave _ => []

theorem step_health (c : Client) (t : Transport) (op : Op) (h : c.Healthy)
    (ho : ∀ e ∈ t.reads, e.isOpen = true)
    (hop : ∀ e ∈ opReads op, e.isOpen = true) :
    (stepOp c t op).2.1.Healthy ∧ ∀ e ∈ (stepOp c t op).2.2.reads, e.isOpen = true := by
  cases op with
  | call req ext b =>
    have ho' : ∀ e ∈ (t.extend ext).reads, e.isOpen = true := by
      intro e he
      simp only [Transport.extend, List.mem_append] at he
      rcases he with he | he
      · exact ho e he
      · exact hop e he
    simpa [stepOp] using call_health c req (t.extend ext) b h ho'
  | setSlave id =>
    refine ⟨?_, by simpa [stepOp] using ho⟩
    intro f hf; exact h f (by simpa [stepOp, Client.setSlave] using hf)
  | disconnect ext =>
    constructor
    · intro f hf
      simp only [stepOp, Client.disconnect] at hf
      split at hf
      · rename_i hn; simp [hn] at hf
      · simp at hf
    · intro e he
      simp only [stepOp, Client.disconnect] at he
      split at he
      · simp only [Transport.extend, List.mem_append] at he
        rcases he with he | he
        · exact ho e he
        · exact hop e he
      · simp only [Transport.extend, List.mem_append] at he
        rcases he with he | he
        · exact ho e he
        · exact hop e he

/-- the invariant holds after every history, of any length, on a transport that stays open -/
theorem history_leaves_reader_clean (ops : List Op) (c : Client) (t : Transport) (h : c.Healthy)
    (ho : ∀ e ∈ t.reads, e.isOpen = true)
    (hops : ∀ op ∈ ops, ∀ e ∈ opReads op, e.isOpen = true) :
    (runOps c t ops).2.1.Healthy := by
  induction ops generalizing c t with
  | nil => simpa [runOps] using h
  | cons op ops ih =>
    have hs := step_health c t op h ho (hops op (by simp))
    simp only [runOps]
    exact ih _ _ hs.1 hs.2 (fun o ho' => hops o (by simp [ho']))

/-- a freshly attached client is healthy -/
theorem attach_healthy (k : Kind) (slave : UInt8) : (Client.attachSlave k slave).Healthy ∧ (Client.attach k).Healthy := by
  constructor
  · intro f hf; simp [Client.attachSlave] at hf; subst hf; exact ⟨rfl, rfl⟩
  · cases k <;> (intro f hf; simp [Client.attach] at hf; subst hf; exact ⟨rfl, rfl⟩)

-- non-vacuity: the history that used to desynchronise the client (D4): a reply with a bad
-- protocol id, then two good exchanges – both now succeed
example :
    ((runOps (Client.attach .tcp) {}
      [ .call (.readHoldingRegisters 0 1) { reads := [.data [0, 0, 0, 9, 0, 5, 0xFF, 3, 2, 0, 1]] } none,
        .call (.readHoldingRegisters 0 1) { reads := [.data [0, 1, 0, 0, 0, 5, 0xFF, 3, 2, 0, 2]] } none,
        .call (.readHoldingRegisters 0 1) { reads := [.data [0, 2, 0, 0, 0, 5, 0xFF, 3, 2, 0, 3]] } none ]).1.map
      fun | .call o _ => some o | _ => none)
    = [some (.done (.transport .invalidData)), some (.done (.ok (.readHoldingRegisters [2]))),
       some (.done (.ok (.readHoldingRegisters [3])))] := by
  decide +kernel

end Modbus.Props.C12
