import ModbusModel.Lemmas.Health
import ModbusModel.Lemmas.Call
import ModbusModel.Lemmas.Independent
import ModbusModel.Props.C17
/-
  C12 – A failed call never desynchronises the calls that follow it.
-/
namespace Modbus.Props.C12
open Modbus

/-- **(a) every call leaves the reader clean.**  On a transport that does not signal end of
    stream, whatever a call's outcome – success, exception, header or function-code mismatch,
    undecodable frame, RTU retry overflow, transient read error, write error, surplus bytes,
    even abandonment – the framing layer's error latch is clear and no end of stream is
    recorded when the call is over. -/
theorem call_leaves_reader_clean (c : Client) (req : Request) (t : Transport) (b : Budget)
    (h : c.Healthy) (ho : ∀ e ∈ t.reads, e.isOpen = true) :
    (c.call req t b).2.1.Healthy :=
  (call_health c req t b h ho).1

/-- the read events an operation adds to the transport script -/
def opReads : Op → List ReadEv
  | .call _ ext _ => ext.reads
  | .disconnect ext => ext.reads
  | .setSlave _ => []

theorem step_health (c : Client) (t : Transport) (op : Op) (h : c.Healthy)
    (ho : ∀ e ∈ t.reads, e.isOpen = true)
    (hop : ∀ e ∈ opReads op, e.isOpen = true) :
    (stepOp c t op).2.1.Healthy ∧ ∀ e ∈ (stepOp c t op).2.2.reads, e.isOpen = true := by
  cases op with
  | call req ext b =>
    have ho' : ∀ e ∈ (t.extend ext).reads, e.isOpen = true := by
      intro e he
      simp only [Transport.extend, List.mem_append] at he
      rcases he with he | he
      · exact ho e he
      · exact hop e he
    simpa [stepOp] using call_health c req (t.extend ext) b h ho'
  | setSlave id =>
    refine ⟨?_, by simpa [stepOp] using ho⟩
    intro f hf; exact h f (by simpa [stepOp, Client.setSlave] using hf)
  | disconnect ext =>
    constructor
    · intro f hf
      simp only [stepOp, Client.disconnect] at hf
      split at hf
      · rename_i hn; simp [hn] at hf
      · simp at hf
    · intro e he
      simp only [stepOp, Client.disconnect] at he
      split at he
      · simp only [Transport.extend, List.mem_append] at he
        rcases he with he | he
        · exact ho e he
        · exact hop e he
      · simp only [Transport.extend, List.mem_append] at he
        rcases he with he | he
        · exact ho e he
        · exact hop e he

/-- the invariant holds after every history, of any length, on a transport that stays open -/
theorem history_leaves_reader_clean (ops : List Op) (c : Client) (t : Transport) (h : c.Healthy)
    (ho : ∀ e ∈ t.reads, e.isOpen = true)
    (hops : ∀ op ∈ ops, ∀ e ∈ opReads op, e.isOpen = true) :
    (runOps c t ops).2.1.Healthy := by
  induction ops generalizing c t with
  | nil => simpa [runOps] using h
  | cons op ops ih =>
    have hs := step_health c t op h ho (hops op (by simp))
    simp only [runOps]
    exact ih _ _ hs.1 hs.2 (fun o ho' => hops o (by simp [ho']))

/-- a freshly attached client is healthy -/
theorem attach_healthy (k : Kind) (slave : UInt8) : (Client.attachSlave k slave).Healthy ∧ (Client.attach k).Healthy := by
  constructor
  · intro f hf; simp [Client.attachSlave] at hf; subst hf; exact ⟨rfl, rfl⟩
  · cases k <;> (intro f hf; simp [Client.attach] at hf; subst hf; exact ⟨rfl, rfl⟩)

-- non-vacuity: the history that used to desynchronise the client (D4): a reply with a bad
-- protocol id, then two good exchanges – both now succeed
example :
    ((runOps (Client.attach .tcp) {}
      [ .call (.readHoldingRegisters 0 1) { reads := [.data [0, 0, 0, 9, 0, 5, 0xFF, 3, 2, 0, 1]] } none,
        .call (.readHoldingRegisters 0 1) { reads := [.data [0, 1, 0, 0, 0, 5, 0xFF, 3, 2, 0, 2]] } none,
        .call (.readHoldingRegisters 0 1) { reads := [.data [0, 2, 0, 0, 0, 5, 0xFF, 3, 2, 0, 3]] } none ]).1.map
      fun | .call o _ => some o | _ => none)
    = [some (.done (.transport .invalidData)), some (.done (.ok (.readHoldingRegisters [2]))),
       some (.done (.ok (.readHoldingRegisters [3])))] := by
  decide +kernel

/-- a connected client whose framing layer is in order, on a transport that is open and
    takes every write -/
structure Clean (c : Client) (t : Transport) : Prop where
  connected : c.framed.isSome = true
  healthy : c.Healthy
  wbuf : c.wbuf = []
  writes : t.writes = []
  flushes : t.flushes = []
  isOpen : ∀ e ∈ t.reads, e.isOpen = true

/-- operations of a history on such a transport: calls with any outcome the *read* side can
    produce (replies of any kind, junk, read errors – anything but end of stream), polled any
    number of times or abandoned; slave changes -/
def benign : Op → Prop
  | .call _ ext _ => ext.writes = [] ∧ ext.flushes = [] ∧ ∀ e ∈ ext.reads, e.isOpen = true
  | .setSlave _ => True
  | .disconnect _ => False

theorem step_clean (c : Client) (t : Transport) (op : Op) (h : Clean c t) (hb : benign op) :
    Clean (stepOp c t op).2.1 (stepOp c t op).2.2 := by
  cases op with
  | disconnect ext => exact absurd hb (by simp [benign])
  | setSlave id =>
    exact ⟨by simpa [stepOp, Client.setSlave] using h.connected,
      fun f hf => h.healthy f (by simpa [stepOp, Client.setSlave] using hf),
      by simpa [stepOp, Client.setSlave, Client.wbuf] using h.wbuf,
      by simpa [stepOp] using h.writes, by simpa [stepOp] using h.flushes, by simpa [stepOp] using h.isOpen⟩
  | call req ext b =>
    obtain ⟨hw, hf, ho⟩ := hb
    have ho' : ∀ e ∈ (t.extend ext).reads, e.isOpen = true := by
      intro e he
      simp only [Transport.extend, List.mem_append] at he
      rcases he with he | he
      · exact h.isOpen e he
      · exact ho e he
    have hw' : (t.extend ext).writes = [] := by simp [Transport.extend, h.writes, hw]
    have hf' : (t.extend ext).flushes = [] := by simp [Transport.extend, h.flushes, hf]
    have h1 := call_health c req (t.extend ext) b h.healthy ho'
    have h2 := call_wclean c req (t.extend ext) b h.wbuf hw' hf'
    have h3 := call_connected c req (t.extend ext) b
    exact ⟨by simpa [stepOp, h.connected] using h3, by simpa [stepOp] using h1.1,
      by simpa [stepOp] using h2.1, by simpa [stepOp] using h2.2.1, by simpa [stepOp] using h2.2.2,
      by simpa [stepOp] using h1.2⟩

theorem history_clean (ops : List Op) (c : Client) (t : Transport) (h : Clean c t)
    (hops : ∀ op ∈ ops, benign op) : Clean (runOps c t ops).2.1 (runOps c t ops).2.2 := by
  induction ops generalizing c t with
  | nil => simpa [runOps] using h
  | cons op ops ih =>
    simp only [runOps]
    exact ih _ _ (step_clean c t op h (hops op (by simp))) (fun o ho => hops o (by simp [ho]))

theorem step_kind (c : Client) (t : Transport) (op : Op) : (stepOp c t op).2.1.kind = c.kind := by
  cases op with
  | setSlave id => rfl
  | disconnect ext => simp only [stepOp, Client.disconnect]; split <;> rfl
  | call req ext b =>
    by_cases hb : b = some 0
    · subst hb; simp [stepOp, call_unpolled]
    · simpa [stepOp] using (call_frame c req (t.extend ext) b hb).2.1

theorem history_kind (ops : List Op) (c : Client) (t : Transport) : (runOps c t ops).2.1.kind = c.kind := by
  induction ops generalizing c t with
  | nil => rfl
  | cons op ops ih => simp only [runOps]; rw [ih, step_kind]

theorem attach_clean (k : Kind) (slave : UInt8) : Clean (Client.attachSlave k slave) {} :=
  ⟨rfl, (attach_healthy k slave).1, rfl, rfl, rfl, by simp⟩

/-- **(b) each call performs its own complete exchange.**  After ANY history of earlier calls –
    successes, exceptions, mismatches, undecodable frames, retry overflows, transient read
    errors, abandoned calls, whatever surplus they left in the receive buffer – on a transport
    that stays open: when the bytes that arrive after the request has been written start with a
    valid reply frame (in any fragmentation), the call returns the verdict on exactly that
    frame. -/
theorem exchange_after_history {k : Kind} (F : Framing (clientDecoder k)) (slave : UInt8) (ops : List Op)
    (hops : ∀ op ∈ ops, benign op)
    (req : Request) (ext : Transport) (reply tail frame : Bytes)
    (hew : ext.writes = []) (hef : ext.flushes = [])
    (hfeed : ∀ e ∈ ((runOps (Client.attachSlave k slave) {} ops).2.2.extend ext).reads, e.isFeed = true)
    (hdata : dataOf ((runOps (Client.attachSlave k slave) {} ops).2.2.extend ext).reads = reply ++ tail)
    (hv : F.Valid reply) (hne : reply ≠ [])
    (henc : clientEncode k (stampedHdr (runOps (Client.attachSlave k slave) {} ops).2.1) req = .ok frame)
    (hfne : frame ≠ []) :
    ∃ c' t', (runOps (Client.attachSlave k slave) {} ops).2.1.call req
          ((runOps (Client.attachSlave k slave) {} ops).2.2.extend ext) none
        = (.done (classify (stampedHdr (runOps (Client.attachSlave k slave) {} ops).2.1) req.functionCode
            (F.item reply).1 (F.item reply).2), c', t', [.write frame]) := by
  have hc := history_clean ops _ _ (attach_clean k slave) hops
  have hkind : (runOps (Client.attachSlave k slave) {} ops).2.1.kind = k := history_kind ops _ _
  generalize (runOps (Client.attachSlave k slave) {} ops).2.1 = c at *
  generalize (runOps (Client.attachSlave k slave) {} ops).2.2 = t at *
  obtain ⟨f, hf⟩ := Option.isSome_iff_exists.mp hc.connected
  have hh := hc.healthy f hf
  have hr : Ready c (t.extend ext) (reply ++ tail) :=
    ⟨⟨f, hf, by simpa [Client.wbuf, hf] using hc.wbuf, hh.1, hh.2⟩,
      by simp [Transport.extend, hc.writes, hew], by simp [Transport.extend, hc.flushes, hef], hfeed, hdata⟩
  obtain ⟨c', t', h, _⟩ := call_generic F c req (t.extend ext) reply tail frame hkind hr hv hne henc hfne
  exact ⟨c', t', h⟩

-- non-vacuity: a benign history (junk reply, then an abandoned call) is `benign`
example : ∀ op ∈ [Op.call (.readCoils 0 1) { reads := [.data [1, 2, 3, 4, 5, 6, 7, 8, 9]] } none,
                  Op.call (.readCoils 0 1) { reads := [.pending, .pending] } (some 2), Op.setSlave 3], benign op := by
  intro op h
  simp only [List.mem_cons, List.mem_nil_iff, or_false] at h
  rcases h with rfl | rfl | rfl <;> simp [benign, ReadEv.isOpen]


/-- **history independence** – the general form of (b): after ANY benign history the next call –
    any request, on a transport that may do anything at all (faults, fragments, surplus, end of
    stream), polled any number of times – returns what the same call returns on a fresh client
    that has selected the same unit and will stamp the same transaction id; the same bytes reach
    the transport and the transport is left in the same state.  Nothing else of the history
    survives. -/
theorem call_after_history_as_on_fresh_client (k : Kind) (slave : UInt8) (ops : List Op)
    (hops : ∀ op ∈ ops, benign op) (req : Request) (t : Transport) (b : Budget) :
    let cH := (runOps (Client.attachSlave k slave) {} ops).2.1
    let fresh : Client := { kind := k, unit := cH.unit, nextTid := cH.nextTid }
    (cH.call req t b).1 = (fresh.call req t b).1 ∧ (cH.call req t b).2.2 = (fresh.call req t b).2.2 := by
  intro cH fresh
  have hc := history_clean ops _ _ (attach_clean k slave) hops
  have hkind : cH.kind = k := history_kind ops _ _
  obtain ⟨f, hf⟩ := Option.isSome_iff_exists.mp hc.connected
  have hh := hc.healthy f hf
  have hw : f.wbuf = [] := by simpa [Client.wbuf, hf] using hc.wbuf
  exact call_independent_of_past cH fresh f {} req t b hf rfl hkind rfl rfl hw hh.1 rfl hh.2 rfl

-- non-vacuity: after a junk reply and an abandoned call, a call whose reply is cut by a read error
-- returns the same transport error as on a fresh client that stamps transaction id 2
example :
    let cH := (runOps (Client.attachSlave .tcp 7) {}
      [Op.call (.readCoils 0 1) { reads := [.data [1, 2, 3, 4, 5, 6, 7, 8, 9]] } none,
       Op.call (.readCoils 0 1) { reads := [.pending, .pending] } (some 2)]).2.1
    cH.nextTid = 2
    ∧ (cH.call (.readHoldingRegisters 0 1) { reads := [.data [0, 2, 0, 0, 0, 5, 7, 3], .err (.injected 3)] } none).1
        = .done (.transport (.injected 3)) := by
  decide +kernel

/-! ### The same through the blocking client -/

/-- blocking operations whose transport extension is benign (see `benign`) -/
def syncBenign : SyncOp → Prop
  | .call _ ext _ => ext.writes = [] ∧ ext.flushes = [] ∧ ∀ e ∈ ext.reads, e.isOpen = true
  | .typed _ ext _ => ext.writes = [] ∧ ext.flushes = [] ∧ ∀ e ∈ ext.reads, e.isOpen = true
  | .setSlave _ => True
  | .setTimeout _ => True

theorem asyncSession_benign (ops : List SyncOp) (to : Bool) (h : ∀ op ∈ ops, syncBenign op) :
    ∀ op ∈ asyncSession to ops, benign op := by
  induction ops generalizing to with
  | nil => simp [asyncSession]
  | cons o ops ih =>
    have ih' := fun to => ih to (fun op hop => h op (by simp [hop]))
    have ho := h o (by simp)
    cases o with
    | setTimeout on => simpa [asyncSession] using ih' on
    | call req ext d =>
      intro op hop
      simp only [asyncSession, SyncOp.asyncOf, Option.toList, List.cons_append, List.nil_append,
        List.mem_cons] at hop
      rcases hop with rfl | hop
      · exact ho
      · exact ih' to op hop
    | typed top ext d =>
      intro op hop
      simp only [asyncSession, SyncOp.asyncOf, Option.toList, List.cons_append, List.nil_append,
        List.mem_cons] at hop
      rcases hop with rfl | hop
      · exact ho
      · exact ih' to op hop
    | setSlave id =>
      intro op hop
      simp only [asyncSession, SyncOp.asyncOf, Option.toList, List.cons_append, List.nil_append,
        List.mem_cons] at hop
      rcases hop with rfl | hop
      · trivial
      · exact ih' to op hop

/-- **history independence through the blocking client**: after ANY benign blocking session –
    calls and typed methods with any outcome the read side can produce, timed out at any poll or
    completed, slave changes, timeouts switched on and off – the next blocking call returns what
    it returns on a fresh blocking client with the same unit, transaction id and timeout setting,
    writes the same bytes and leaves the transport in the same state -/
theorem blocking_call_after_history_as_on_fresh_client (k : Kind) (slave : UInt8) (to : Bool)
    (ops : List SyncOp) (hops : ∀ op ∈ ops, syncBenign op) (req : Request) (t : Transport)
    (deadline : Budget) :
    let sH := (runSync (SyncContext.connect k (some slave) to) {} ops).2.1
    let fresh : SyncContext :=
      { asyncCtx := { kind := k, unit := sH.asyncCtx.unit, nextTid := sH.asyncCtx.nextTid },
        timeout := sH.timeout }
    (sH.call req t deadline).1 = (fresh.call req t deadline).1
    ∧ (sH.call req t deadline).2.2 = (fresh.call req t deadline).2.2 := by
  intro sH fresh
  have hsim := Props.C17.sync_session_simulates ops (SyncContext.connect k (some slave) to) {}
  have hctx : sH.asyncCtx
      = (runOps (Client.attachSlave k slave) {} (asyncSession to ops)).2.1 := by
    simp only [sH]; rw [hsim]; rfl
  have hind := call_after_history_as_on_fresh_client k slave (asyncSession to ops)
    (asyncSession_benign ops to hops) req t (if sH.timeout then deadline else none)
  simp only at hind
  rw [← hctx] at hind
  obtain ⟨h1, h2⟩ := hind
  constructor
  · simp only [SyncContext.call, fresh]; rw [h1]
  · simp only [SyncContext.call, fresh]
    rw [Prod.mk.injEq]
    exact ⟨congrArg Prod.fst h2, congrArg Prod.snd h2⟩

end Modbus.Props.C12
