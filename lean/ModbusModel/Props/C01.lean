import ModbusModel.Lemmas.RoundTrip
import ModbusModel.Lemmas.Tcp
import ModbusModel.Lemmas.Chunking
import ModbusModel.Lemmas.Client
import ModbusModel.Props.C09
import ModbusModel.Props.C10
import ModbusModel.Props.C11
/-
  C01 – Requests reach the server exactly as issued, in Modbus wire format.
-/
namespace Modbus.Props.C01
open Modbus

/-- **typed_request**: the request each typed method issues (the encoding of these requests
    is `encodeRequestPdu`, whose byte layout is the MODBUS Application Protocol's) -/
theorem typed_request :
    (∀ a c, (TypedOp.readCoils a c).request = .readCoils a c)
    ∧ (∀ a c, (TypedOp.readDiscreteInputs a c).request = .readDiscreteInputs a c)
    ∧ (∀ a c, (TypedOp.readHoldingRegisters a c).request = .readHoldingRegisters a c)
    ∧ (∀ a c, (TypedOp.readInputRegisters a c).request = .readInputRegisters a c)
    ∧ (∀ ra c wa ws, (TypedOp.readWriteMultipleRegisters ra c wa ws).request = .readWriteMultipleRegisters ra c wa ws)
    ∧ (∀ a b, (TypedOp.writeSingleCoil a b).request = .writeSingleCoil a b)
    ∧ (∀ a w, (TypedOp.writeSingleRegister a w).request = .writeSingleRegister a w)
    ∧ (∀ a cs, (TypedOp.writeMultipleCoils a cs).request = .writeMultipleCoils a cs)
    ∧ (∀ a ws, (TypedOp.writeMultipleRegisters a ws).request = .writeMultipleRegisters a ws)
    ∧ (∀ a am om, (TypedOp.maskedWriteRegister a am om).request = .maskWriteRegister a am om) := by
  simp [TypedOp.request]

/-- the selected slave: the argument of the last `set_slave`, else the attach default
    (255 over TCP, 0 over RTU), whatever calls and disconnects happen in between -/
theorem selected_slave (ops : List Op) (c : Client) (t : Transport) :
    (runOps c t ops).2.1.unit
      = (ops.foldl (fun u op => match op with | .setSlave id => id | _ => u) c.unit) := by
  induction ops generalizing c t with
  | nil => rfl
  | cons op ops ih =>
    simp only [runOps, List.foldl_cons]
    rw [ih]
    congr 1
    cases op with
    | call req ext b =>
      by_cases hb : b = some 0
      · subst hb; simp [stepOp, call_unpolled]
      · simpa [stepOp] using (call_frame c req (t.extend ext) b hb).2.2
    | setSlave id => simp [stepOp, Client.setSlave]
    | disconnect ext => simp only [stepOp, Client.disconnect]; split <;> simp

theorem attach_defaults : (Client.attach .tcp).unit = 255 ∧ (Client.attach .rtu).unit = 0 := by
  simp [Client.attach]

/-- **client_writes_one_frame** (TCP): a call for a request that fits, on a transport that
    accepts writes, emits exactly one frame: MBAP header with the current transaction id and
    the selected unit, then the encoding of the request – and nothing else -/
theorem client_writes_one_frame_tcp (c : Client) (f : ClientFramed) (req : Request) (t : Transport)
    (hk : c.kind = .tcp) (hf : c.framed = some f) (hw : f.wbuf = [])
    (hs : (encodeRequestPdu req).length ≤ 253) (htw : t.writes = []) (htf : t.flushes = []) :
    writtenBytes (c.call req t).2.2.2
      = tcpFrame { transactionId := c.nextTid, unitId := c.unit } (encodeRequestPdu req) := by
  have hn : requestPduSize req = some (requestPduSizeRaw req) := by
    rw [encodeRequestPdu_length] at hs
    simp [requestPduSize, MAX_PDU_SIZE]; omega
  obtain ⟨ha, _, _⟩ := requestAsserts_of_size req _ hn
  rw [Modbus.Props.C10.call_stamps_current_tid c f req t hk hf hw _ hn ha htw htf]
  simp [tcpFrame, mbap, encodeRequestPdu_length]

/-- **server_sees_request** (decoder level, TCP): the frame of any canonical request within the
    limit, followed by anything, decodes on the server side to that very request under the
    same transaction and unit id; the following bytes are untouched -/
theorem server_decodes_request_tcp (hdr : TcpHeader) (r : Request) (rest : Bytes)
    (hs : requestPduSizeRaw r ≤ 253) (hc : r.canonical) :
    tcpServerDecode (tcpFrame hdr (encodeRequestPdu r) ++ rest) = (.ok (some (hdr, r)), rest) := by
  have hl : (encodeRequestPdu r).length < 65535 := by rw [encodeRequestPdu_length]; omega
  simp [tcpServerDecode, aduDecode_complete hdr _ rest hl, decodeRequest_encode r hs hc, Res.map]

/-- … and nothing is handed to the service before the frame is complete -/
theorem server_waits_for_whole_frame_tcp (hdr : TcpHeader) (r : Request) (p : Bytes)
    (hs : requestPduSizeRaw r ≤ 253)
    (hp : p <+: tcpFrame hdr (encodeRequestPdu r)) (hne : p ≠ tcpFrame hdr (encodeRequestPdu r)) :
    tcpServerDecode p = (.ok none, p) := by
  have hl : (encodeRequestPdu r).length < 65535 := by rw [encodeRequestPdu_length]; omega
  simp [tcpServerDecode, aduDecode_prefix_waits hdr _ p hl hp hne]

/-- the two facts above make the TCP server decoder a `Framing`: by the chunking theorem the
    service sees each request exactly once, in order, under every fragmentation -/
def tcpServerFraming : Framing (serverDecoder .tcp) :=
  Framing.ofStrict
    (fun f => ∃ hdr r, requestPduSizeRaw r ≤ 253 ∧ r.canonical ∧ f = tcpFrame hdr (encodeRequestPdu r))
    (fun f => match tcpServerDecode f with
      | (.ok (some (h, r)), _) => ({ tid := h.transactionId, unit := h.unitId }, r)
      | _ => default)
    (by
      rintro s f rest ⟨hdr, r, hs, hc, rfl⟩
      refine ⟨s, ?_⟩
      have h1 := server_decodes_request_tcp hdr r rest hs hc
      have h2 := server_decodes_request_tcp hdr r [] hs hc
      simp only [List.append_nil] at h2
      simp only [serverDecoder]
      rw [h1, h2]
      simp [Res.map])
    (by
      rintro s f p ⟨hdr, r, hs, _, rfl⟩ hp hne
      refine ⟨s, ?_⟩
      have h1 := server_waits_for_whole_frame_tcp hdr r p hs hp hne
      simp only [serverDecoder]
      rw [h1]
      simp [Res.map])

/-- **server_sees_request** (TCP, any fragmentation): for a request frame cut into reads in any
    way (any `Pending`s in between), the server connection's `next().await` yields exactly the
    issued request under the issued unit id, leaving what follows untouched -/
theorem server_sees_request_tcp (hdr : TcpHeader) (r : Request) (tail : Bytes) (evs : List ReadEv)
    (hs : requestPduSizeRaw r ≤ 253) (hc : r.canonical)
    (hfeed : ∀ e ∈ evs, e.isFeed = true)
    (hdata : dataOf evs = tcpFrame hdr (encodeRequestPdu r) ++ tail) :
    ∃ fd r' evs', awaitNext (serverDecoder .tcp) {} {} evs
        = (.item ({ tid := hdr.transactionId, unit := hdr.unitId }, r), fd, r', evs')
      ∧ r'.buffer ++ dataOf evs' = tail := by
  have hv : tcpServerFraming.Valid (tcpFrame hdr (encodeRequestPdu r)) := ⟨hdr, r, hs, hc, rfl⟩
  have inv : FrameInv ({} : ReadFrame) (tcpFrame hdr (encodeRequestPdu r)) :=
    ⟨rfl, rfl, fun _ => ⟨List.nil_prefix, fun e => by simp [tcpFrame, be16] at e⟩⟩
  have hd0 : ({} : ReadFrame).buffer ++ dataOf evs = tcpFrame hdr (encodeRequestPdu r) ++ tail := by
    show [] ++ dataOf evs = _
    rw [List.nil_append]; exact hdata
  have H := next_delivers (D := serverDecoder .tcp) tcpServerFraming (tcpFrame hdr (encodeRequestPdu r)) tail hv
    evs ({} : FrameDecoder) ({} : ReadFrame) hfeed inv hd0
  obtain ⟨s', r', evs', h1, h2, _⟩ := H
  refine ⟨s', r', evs', ?_, h2⟩
  rw [h1]
  have h3 := server_decodes_request_tcp hdr r [] hs hc
  simp only [List.append_nil] at h3
  simp [tcpServerFraming, Framing.ofStrict, h3]

-- non-vacuity
example : (encodeRequestPdu (.readHoldingRegisters 0x082B 2)) = [0x03, 0x08, 0x2B, 0x00, 0x02] := by decide
example : Request.canonical (.custom 0x41 [1, 2, 3]) := by
  refine ⟨by decide, by decide⟩

end Modbus.Props.C01

namespace Modbus.Props.C01
open Modbus

/-- the RTU server codec on a whole request frame (any typed request within the limit) -/
theorem server_decodes_request_rtu (fd : FrameDecoder) (slave : UInt8) (r : Request) (rest : Bytes)
    (hs : requestPduSizeRaw r ≤ 253) (ht : ∀ fc d, r ≠ .custom fc d) :
    rtuServerDecode fd (rtuFrame slave (encodeRequestPdu r) ++ rest)
      = (.ok (some (slave, r)), { dropped := [] }, rest) := by
  have hl : requestPduLen (rtuFrame slave (encodeRequestPdu r) ++ rest) = .ok (some (encodeRequestPdu r).length) := by
    have := Modbus.Props.C11.request_table_agrees slave r rest hs ht
    simpa [rtuFrame, List.append_assoc] using this
  have hc : r.canonical := by cases r <;> first | trivial | exact absurd rfl (ht _ _)
  simp [rtuServerDecode, rtuDecode_complete requestPduLen fd slave _ rest hl, decodeRequest_encode r hs hc, Res.map]

/-- the RTU server decoder is a `Framing` for the frames of typed requests -/
def rtuServerFraming : Framing (serverDecoder .rtu) :=
  Framing.ofStrict
    (fun f => ∃ slave r, requestPduSizeRaw r ≤ 253 ∧ (∀ fc d, r ≠ .custom fc d) ∧ f = rtuFrame slave (encodeRequestPdu r))
    (fun f => match rtuServerDecode {} f with
      | (.ok (some (s, r)), _, _) => ({ tid := 0, unit := s }, r)
      | _ => default)
    (by
      rintro fd f rest ⟨slave, r, hs, ht, rfl⟩
      refine ⟨{ dropped := [] }, ?_⟩
      have h1 := server_decodes_request_rtu fd slave r rest hs ht
      have h2 := server_decodes_request_rtu {} slave r [] hs ht
      simp only [List.append_nil] at h2
      simp only [serverDecoder]
      rw [h1, h2]
      simp [Res.map])
    (by
      rintro fd f p ⟨slave, r, hs, ht, rfl⟩ hp hne
      refine ⟨fd, ?_⟩
      have hl : requestPduLen (rtuFrame slave (encodeRequestPdu r)) = .ok (some (encodeRequestPdu r).length) := by
        have := Modbus.Props.C11.request_table_agrees slave r [] hs ht
        simpa [rtuFrame, List.append_assoc] using this
      have h1 := rtuDecode_waits requestPduLen requestPduLen_stable fd slave _ p hl hp hne
      simp only [serverDecoder, rtuServerDecode]
      rw [h1]
      simp [Res.map])

/-- **server_sees_request** (RTU-over-TCP and serial RTU – the same loop and codec –, any
    fragmentation): the server connection's `next().await` yields exactly the issued typed
    request tagged with the issued slave id -/
theorem server_sees_request_rtu (slave : UInt8) (r : Request) (tail : Bytes) (evs : List ReadEv)
    (hs : requestPduSizeRaw r ≤ 253) (ht : ∀ fc d, r ≠ .custom fc d)
    (hfeed : ∀ e ∈ evs, e.isFeed = true)
    (hdata : dataOf evs = rtuFrame slave (encodeRequestPdu r) ++ tail) :
    ∃ fd r' evs', awaitNext (serverDecoder .rtu) {} {} evs
        = (.item ({ tid := 0, unit := slave }, r), fd, r', evs')
      ∧ r'.buffer ++ dataOf evs' = tail := by
  have hv : rtuServerFraming.Valid (rtuFrame slave (encodeRequestPdu r)) := ⟨slave, r, hs, ht, rfl⟩
  have inv : FrameInv ({} : ReadFrame) (rtuFrame slave (encodeRequestPdu r)) :=
    ⟨rfl, rfl, fun _ => ⟨List.nil_prefix, fun e => by simp [rtuFrame] at e⟩⟩
  have hd0 : ({} : ReadFrame).buffer ++ dataOf evs = rtuFrame slave (encodeRequestPdu r) ++ tail := by
    show [] ++ dataOf evs = _
    rw [List.nil_append]; exact hdata
  have H := next_delivers (D := serverDecoder .rtu) rtuServerFraming (rtuFrame slave (encodeRequestPdu r)) tail hv
    evs ({} : FrameDecoder) ({} : ReadFrame) hfeed inv hd0
  obtain ⟨s', r', evs', h1, h2, _⟩ := H
  refine ⟨s', r', evs', ?_, h2⟩
  rw [h1]
  have h3 := server_decodes_request_rtu {} slave r [] hs ht
  simp only [List.append_nil] at h3
  simp [rtuServerFraming, Framing.ofStrict, h3]

end Modbus.Props.C01
