import ModbusModel.Lemmas.Rtu
import ModbusModel.Lemmas.Tcp
import ModbusModel.Lemmas.Framed
import ModbusModel.Lemmas.Encode
import ModbusModel.Model.Codec
import ModbusModel.Lemmas.Call
import ModbusModel.Lemmas.ServeSafe
import ModbusModel.Props.C20
/-
  C03 – No byte sequence can crash, hang or bloat a decoder, client or server.

  "Never loops forever" is carried by the definitions themselves: every function of the
  model is total and accepted by Lean's termination checker (structural recursion on the
  byte list, the event list, the retry counter or an explicit fuel).
-/
namespace Modbus.Props.C03
open Modbus

/-! ### the three PDU surfaces never panic -/

theorem request_pdu_no_panic (bs : Bytes) : decodeRequest bs ≠ .panic := decodeRequest_ne_panic bs
theorem response_pdu_no_panic (bs : Bytes) : decodeResponse bs ≠ .panic := decodeResponse_ne_panic bs
theorem exception_pdu_no_panic (bs : Bytes) : decodeException bs ≠ .panic := decodeException_ne_panic bs
theorem response_result_pdu_no_panic (bs : Bytes) : decodeResponsePdu bs ≠ .panic :=
  decodeResponsePdu_ne_panic bs

/-! ### the stream surfaces: no panic, at most 20 bytes dropped per call, bounded buffering -/

theorem rtu_request_stream (fd : FrameDecoder) (buf : Bytes) :
    LoopOutcome 265 MAX_RETRIES fd buf (rtuDecode requestPduLen fd buf) :=
  rtuDecodeLoop_outcome requestPduLen 265 requestPduLen_lenFn (by omega) MAX_RETRIES fd buf

theorem rtu_response_stream (fd : FrameDecoder) (buf : Bytes) :
    LoopOutcome 65538 MAX_RETRIES fd buf (rtuDecode responsePduLen fd buf) :=
  rtuDecodeLoop_outcome responsePduLen 65538 responsePduLen_lenFn (by omega) MAX_RETRIES fd buf

/-- RTU server side: a decoder that answers "need more" holds less than one maximal request
    frame (address + 265 PDU bytes + CRC = 268 bytes) -/
theorem rtu_request_bounded_buffering (fd : FrameDecoder) (buf : Bytes)
    (h : (rtuDecode requestPduLen fd buf).1 = .ok none) :
    (rtuDecode requestPduLen fd buf).2.2.length < 268 := by
  obtain ⟨_, _, hs⟩ := (rtu_request_stream fd buf).shape
  rw [h] at hs
  exact hs.2

/-- RTU client side: less than one maximal response frame (function 0x18 carries a 16-bit
    count: 3 + 65535 PDU bytes, address, CRC) -/
theorem rtu_response_bounded_buffering (fd : FrameDecoder) (buf : Bytes)
    (h : (rtuDecode responsePduLen fd buf).1 = .ok none) :
    (rtuDecode responsePduLen fd buf).2.2.length < 65541 := by
  obtain ⟨_, _, hs⟩ := (rtu_response_stream fd buf).shape
  rw [h] at hs
  exact hs.2

/-- the record of dropped bytes never exceeds 256 entries -/
theorem rtu_dropped_bounded (fd : FrameDecoder) (buf : Bytes) (h : fd.dropped.length ≤ 256) :
    (rtuDecode requestPduLen fd buf).2.1.dropped.length ≤ 256
    ∧ (rtuDecode responsePduLen fd buf).2.1.dropped.length ≤ 256 :=
  ⟨(rtu_request_stream fd buf).dropped_bounded h, (rtu_response_stream fd buf).dropped_bounded h⟩

/-- Modbus TCP: "need more" means fewer than 7 + 65534 bytes are held, and never a panic -/
theorem tcp_bounded_buffering (buf rest : Bytes) (h : aduDecode buf = (.ok none, rest)) :
    rest = buf ∧ buf.length < 65541 := aduDecode_need_bounded buf rest h

theorem tcp_stream_no_panic (buf : Bytes) : (aduDecode buf).1 ≠ .panic := aduDecode_ne_panic buf

/-! ### the four codec objects never panic, hence neither does the framing layer on top -/

theorem map_ne_panic {α β} (r : Res α) (f : α → β) (h : r ≠ .panic) : r.map f ≠ .panic := by
  cases r <;> simp_all [Res.map]

theorem tcpClientDecode_no_panic (buf : Bytes) : (tcpClientDecode buf).1 ≠ .panic := by
  unfold tcpClientDecode
  have := aduDecode_ne_panic buf
  split <;> simp_all
  exact map_ne_panic _ _ (decodeResponsePdu_ne_panic _)

theorem tcpServerDecode_no_panic (buf : Bytes) : (tcpServerDecode buf).1 ≠ .panic := by
  unfold tcpServerDecode
  have := aduDecode_ne_panic buf
  split <;> simp_all
  exact map_ne_panic _ _ (decodeRequest_ne_panic _)

theorem rtuClientDecode_no_panic (fd : FrameDecoder) (buf : Bytes) : (rtuClientDecode fd buf).1 ≠ .panic := by
  unfold rtuClientDecode
  have := (rtu_response_stream fd buf).ne_panic
  split <;> simp_all
  exact map_ne_panic _ _ (decodeResponsePdu_ne_panic _)

theorem rtuServerDecode_no_panic (fd : FrameDecoder) (buf : Bytes) : (rtuServerDecode fd buf).1 ≠ .panic := by
  unfold rtuServerDecode
  have := (rtu_request_stream fd buf).ne_panic
  split <;> simp_all
  exact map_ne_panic _ _ (decodeRequest_ne_panic _)

theorem clientDecoder_noPanic (k : Kind) : (clientDecoder k).NoPanic := by
  intro s buf
  cases k
  · simp only [clientDecoder]
    exact map_ne_panic _ _ (tcpClientDecode_no_panic buf)
  · simp only [clientDecoder]
    exact map_ne_panic _ _ (rtuClientDecode_no_panic s buf)

theorem serverDecoder_noPanic (k : Kind) : (serverDecoder k).NoPanic := by
  intro s buf
  cases k
  · simp only [serverDecoder]
    exact map_ne_panic _ _ (tcpServerDecode_no_panic buf)
  · simp only [serverDecoder]
    exact map_ne_panic _ _ (rtuServerDecode_no_panic s buf)

/-- **client_progress / server_progress** (receiving side): whatever bytes arrive, in whatever
    fragmentation and with whatever end-of-stream / error events, one `next().await` of a
    client or server connection yields an item, an error, the end of the stream, or keeps
    waiting – never a panic. -/
theorem stream_surfaces_no_panic (k : Kind) (evs : List ReadEv) (fd : FrameDecoder) (r : ReadFrame) :
    (awaitNext (clientDecoder k) fd r evs).1 ≠ .panic
    ∧ (awaitNext (serverDecoder k) fd r evs).1 ≠ .panic :=
  ⟨awaitNext_ne_panic _ (clientDecoder_noPanic k) evs fd r,
   awaitNext_ne_panic _ (serverDecoder_noPanic k) evs fd r⟩

/-- the encoders never panic either: under the size limit all length casts are exact -/
theorem encoders_no_panic (k : Kind) (h : Hdr) (req : Request) (rsp : Response) :
    clientEncode k h req ≠ .panic ∧ serverEncode k h (.ok rsp) ≠ .panic := by
  constructor
  · cases k <;> simp only [clientEncode, tcpEncodeRequest, rtuEncodeRequest] <;>
    · split
      · simp
      · rename_i n hs
        simp [(requestAsserts_of_size req n hs).1]
  · cases k <;> simp only [serverEncode, tcpEncodeResponse, rtuEncodeResponse, responseResultPduSize] <;>
    · split
      · simp
      · rename_i n hs
        simp [encodeResponseResultAsserts, (responseAsserts_of_size rsp n hs).1]

theorem classify_ne_panic (h1 h2 : Hdr) (fc : FunctionCode) (res : ResponseResult) :
    classify h1 fc h2 res ≠ .panic := by
  unfold classify
  cases res <;> simp only <;> split <;> (try split) <;> simp

/-- **a client call never panics**: from any client state, for any request, whatever the
    transport does on its read and write side and wherever the caller stops polling -/
theorem call_never_panics (c : Client) (req : Request) (t : Transport) (b : Budget) :
    (c.call req t b).1 ≠ .done .panic := by
  intro h
  unfold Client.call at h
  by_cases hb : b = some 0
  · simp [hb] at h
  · simp only [hb, if_false] at h
    cases hk : c.kind <;> simp only [hk] at h <;>
    · revert h
      (repeat' split) <;> intro h <;> simp_all <;>
      first
        | exact classify_ne_panic _ _ _ _ h
        | (rename_i heq
           have := awaitNextB_ne_panic _ (clientDecoder_noPanic _) _ _ _ _ _ (congrArg Prod.fst heq)
           exact this)
        | (exact (encoders_no_panic .tcp _ req default).1 (by assumption))
        | (exact (encoders_no_panic .rtu _ req default).1 (by assumption))

/-- … and neither does what a typed method makes of its result (C20 `typed_never_panics` lifted
    through the whole call, C06 `call_result_decoded`): the typed client API cannot be crashed
    by anything a peer sends, in any fragmentation, nor by any transport fault -/
theorem typed_call_never_panics (op : TypedOp) (c : Client) (t : Transport) (b : Budget) (x : CallResult)
    (h : (c.call op.request t b).1 = .done x) : op.project x ≠ .panic := by
  rcases Modbus.Props.C06.call_result_decoded c op.request t b x h with ⟨k, rfl⟩ | rfl | ⟨rh, res, hx, pdu, hd⟩
  · cases op <;> simp [TypedOp.project, Typed.ofCall]
  · exact absurd h (call_never_panics c op.request t b)
  · rw [hx]
    exact Modbus.Props.C20.typed_never_panics op (stampedHdr c) rh pdu res hd

/-- **a server connection task never panics**: whatever bytes arrive in whatever fragmentation,
    whatever the service answers (replies of any size, exceptions, nothing) and whatever the
    transport does when written to -/
theorem server_task_never_panics (k : Kind) (svc : Service) (t : Transport) :
    (process k svc t).1 ≠ .panicked :=
  processLoop_never_panics k svc (serverDecoder_noPanic k) _ _ _ _ _

-- non-vacuity: the former crash inputs (D1, D2) are plain errors now
example : decodeRequest [0x0F, 0, 0, 0, 0x11, 1, 0xFF] = .err .invalidData := by decide
example : decodeRequest [0x10, 0, 0, 0x80, 0, 0] = .err .invalidData := by decide

end Modbus.Props.C03
