import ModbusModel.Lemmas.Effects
/-
  C15 – Disconnect shuts the transport down once and makes the client inert.
-/
namespace Modbus.Props.C15
open Modbus

def allEffects (rs : List OpResult) : List Effect := rs.flatMap OpResult.effects

/-- on a disconnected client a call fails with NotConnected without touching the transport -/
theorem call_disconnected (c : Client) (req : Request) (t : Transport) (b : Budget)
    (hb : b ≠ some 0) (hd : c.framed = none) :
    (c.call req t b).1 = .done (.transport .notConnected)
    ∧ (c.call req t b).2.2.2 = [] ∧ (c.call req t b).2.2.1 = t
    ∧ (c.call req t b).2.1.framed = none := by
  unfold Client.call
  cases hk : c.kind <;> simp [hb, hd]

/-- disconnecting again succeeds without touching the transport -/
theorem disconnect_disconnected (c : Client) (t : Transport) (hd : c.framed = none) :
    c.disconnect t = (none, c, t, []) := by
  simp [Client.disconnect, hd]

/-- the first disconnect: exactly one shutdown; its result is the shutdown's result, except
    that NotConnected and BrokenPipe count as success; the client is disconnected afterwards -/
theorem disconnect_connected (c : Client) (t : Transport) (f : ClientFramed) (hc : c.framed = some f) :
    (c.disconnect t).2.2.2 = [.shutdown]
    ∧ (c.disconnect t).2.1.framed = none
    ∧ (c.disconnect t).1 = (shutdownTransport t.shutdowns).1 := by
  simp [Client.disconnect, hc]

/-- the outcome of the one shutdown, for each way the transport can answer it
    (`pending`s are awaited) -/
theorem shutdown_result (ps : List CtlEv) (hp : ∀ e ∈ ps, e = .pending) (rest : List CtlEv) :
    (shutdownTransport (ps ++ [])).1 = none
    ∧ (shutdownTransport (ps ++ .ok :: rest)).1 = none
    ∧ (shutdownTransport (ps ++ .err .notConnected :: rest)).1 = none
    ∧ (shutdownTransport (ps ++ .err .brokenPipe :: rest)).1 = none
    ∧ ∀ k, k ≠ .notConnected → k ≠ .brokenPipe →
        (shutdownTransport (ps ++ .err k :: rest)).1 = some k := by
  induction ps with
  | nil =>
    refine ⟨by simp [shutdownTransport], by simp [shutdownTransport], by simp [shutdownTransport],
      by simp [shutdownTransport], ?_⟩
    intro k h1 h2; simp [shutdownTransport, h1, h2]
  | cons p ps ih =>
    have hp0 : p = .pending := hp p (by simp)
    subst hp0
    have := ih (fun e he => hp e (by simp [he]))
    simpa [shutdownTransport] using this

/-- one step keeps "disconnected" and, once disconnected, has no effect on the transport -/
theorem step_disconnected (c : Client) (t : Transport) (op : Op) (hd : c.framed = none) :
    (stepOp c t op).2.1.framed = none ∧ (stepOp c t op).1.effects = [] := by
  cases op with
  | call req ext b =>
    by_cases hb : b = some 0
    · subst hb; simp [stepOp, call_unpolled, hd, OpResult.effects]
    · have := call_disconnected c req (t.extend ext) b hb hd
      simp [stepOp, OpResult.effects, this]
  | setSlave id => simp [stepOp, Client.setSlave, hd, OpResult.effects]
  | disconnect ext => simp [stepOp, disconnect_disconnected, hd, OpResult.effects]

theorem run_disconnected (ops : List Op) (c : Client) (t : Transport) (hd : c.framed = none) :
    allEffects (runOps c t ops).1 = [] ∧ (runOps c t ops).2.1.framed = none := by
  induction ops generalizing c t with
  | nil => simp [runOps, allEffects, hd]
  | cons op ops ih =>
    have hs := step_disconnected c t op hd
    have := ih (stepOp c t op).2.1 (stepOp c t op).2.2 hs.1
    simp only [runOps, allEffects, List.flatMap_cons] at *
    simp [hs.2, this]

/-- **disconnect_once**: over any interleaving of calls, slave changes and disconnects, with
    any shutdown outcome, the transport is shut down at most once. -/
theorem disconnect_once (ops : List Op) (c : Client) (t : Transport) :
    shutdownCount (allEffects (runOps c t ops).1) ≤ 1 := by
  induction ops generalizing c t with
  | nil => simp [runOps, allEffects, shutdownCount]
  | cons op ops ih =>
    simp only [runOps, allEffects, List.flatMap_cons]
    have hcount : ∀ a b : List Effect, shutdownCount (a ++ b) = shutdownCount a + shutdownCount b := by
      intro a b; simp [shutdownCount, List.filter_append]
    rw [hcount]
    cases op with
    | call req ext b =>
      have := ih (stepOp c t (.call req ext b)).2.1 (stepOp c t (.call req ext b)).2.2
      simp only [stepOp, OpResult.effects, allEffects] at *
      have h0 := shutdownCount_of_noShutdown (call_noShutdown c req (t.extend ext) b)
      rw [h0]
      simpa using this
    | setSlave id =>
      have := ih (stepOp c t (.setSlave id)).2.1 (stepOp c t (.setSlave id)).2.2
      simp only [stepOp, OpResult.effects, allEffects, shutdownCount] at *
      simpa using this
    | disconnect ext =>
      cases hf : c.framed with
      | none =>
        have := ih (stepOp c t (.disconnect ext)).2.1 (stepOp c t (.disconnect ext)).2.2
        simp only [stepOp, disconnect_disconnected, hf, OpResult.effects, allEffects, shutdownCount] at *
        simpa using this
      | some f =>
        have hd := disconnect_connected c (t.extend ext) f hf
        have hrest := run_disconnected ops (stepOp c t (.disconnect ext)).2.1 (stepOp c t (.disconnect ext)).2.2
          (by simpa [stepOp] using hd.2.1)
        simp only [stepOp, OpResult.effects, allEffects] at *
        rw [hrest.1, hd.1]
        simp [shutdownCount]

/-- **inert_after_disconnect**: after the first disconnect nothing reaches the transport any
    more: every later call returns NotConnected without a write, every later disconnect
    returns success without a shutdown. -/
theorem inert_after_disconnect (ops : List Op) (c : Client) (t : Transport) (f : ClientFramed)
    (ext : Transport) (hc : c.framed = some f) :
    let s := stepOp c t (.disconnect ext)
    allEffects (runOps s.2.1 s.2.2 ops).1 = []
    ∧ ∀ r ∈ (runOps s.2.1 s.2.2 ops).1,
        (∀ o e, r = .call o e → o = .done (.transport .notConnected) ∨ o = .abandoned)
        ∧ (∀ k e, r = .disc k e → k = none) := by
  intro s
  have hd : s.2.1.framed = none := by
    have := (disconnect_connected c (t.extend ext) f hc).2.1
    simpa [s, stepOp] using this
  refine ⟨(run_disconnected ops _ _ hd).1, ?_⟩
  generalize s.2.1 = c' at hd
  generalize s.2.2 = t'
  induction ops generalizing c' t' with
  | nil => simp [runOps]
  | cons op ops ih =>
    intro r hr
    simp only [runOps, List.mem_cons] at hr
    rcases hr with hr | hr
    · subst hr
      cases op with
      | call req ext' b =>
        by_cases hb : b = some 0
        · subst hb; simp [stepOp, call_unpolled]
        · have := call_disconnected c' req (t'.extend ext') b hb hd
          simp [stepOp, this.1]
      | setSlave id => simp [stepOp]
      | disconnect ext' => simp [stepOp, disconnect_disconnected, hd]
    · exact ih (stepOp c' t' op).2.1 (step_disconnected c' t' op hd).1 (stepOp c' t' op).2.2 r hr

-- non-vacuity: a connected client, a failing shutdown, later operations
example :
    (runOps (Client.attach .rtu) {}
      [.disconnect { shutdowns := [.pending, .err (.injected 5)] }, .call .reportServerId {} none, .disconnect {}]).1
    = [.disc (some (.injected 5)) [.shutdown], .call (.done (.transport .notConnected)) [], .disc none []] := by
  decide

end Modbus.Props.C15
