import ModbusModel.Lemmas.Rtu
import ModbusModel.Lemmas.Encode
/-
  C04 – RTU delivers only CRC-valid frames and emits only CRC-correct frames.
-/
namespace Modbus.Props.C04
open Modbus

/-- **rtu_delivery_sound** (one decode call, either direction): whatever the RTU frame decoder
    delivers is a contiguous slice of the buffer – address, PDU, then exactly the two CRC
    bytes of address and PDU – preceded only by dropped bytes (at most one per retry) and
    followed by the untouched rest of the buffer. -/
theorem rtu_delivery_sound (lenFn : Bytes → Res (Option Nat)) (maxPdu : Nat) (hl : LenFn lenFn maxPdu)
    (hm : 8 ≤ maxPdu) (fd : FrameDecoder) (buf : Bytes) (slave : UInt8) (pdu : Bytes)
    (h : (rtuDecode lenFn fd buf).1 = .ok (some (slave, pdu))) :
    ∃ dropped, dropped.length ≤ MAX_RETRIES
      ∧ buf = dropped ++ (slave :: pdu ++ crcBytes (slave :: pdu)) ++ (rtuDecode lenFn fd buf).2.2 := by
  obtain ⟨dropped, hd, hs⟩ := (rtuDecodeLoop_outcome lenFn maxPdu hl hm MAX_RETRIES fd buf).shape
  unfold rtuDecode at h ⊢
  rw [h] at hs
  exact ⟨dropped, hd, hs⟩

theorem server_delivery_sound (fd : FrameDecoder) (buf : Bytes) (slave : UInt8) (pdu : Bytes)
    (h : (rtuDecode requestPduLen fd buf).1 = .ok (some (slave, pdu))) :
    ∃ dropped, dropped.length ≤ 20
      ∧ buf = dropped ++ (slave :: pdu ++ crcBytes (slave :: pdu)) ++ (rtuDecode requestPduLen fd buf).2.2 :=
  rtu_delivery_sound requestPduLen 265 requestPduLen_lenFn (by omega) fd buf slave pdu h

theorem client_delivery_sound (fd : FrameDecoder) (buf : Bytes) (slave : UInt8) (pdu : Bytes)
    (h : (rtuDecode responsePduLen fd buf).1 = .ok (some (slave, pdu))) :
    ∃ dropped, dropped.length ≤ 20
      ∧ buf = dropped ++ (slave :: pdu ++ crcBytes (slave :: pdu)) ++ (rtuDecode responsePduLen fd buf).2.2 :=
  rtu_delivery_sound responsePduLen 65538 responsePduLen_lenFn (by omega) fd buf slave pdu h

/-- a frame whose CRC field differs from the CRC of address and PDU is never delivered by
    the frame decoder: the buffer is restored and an error is returned -/
theorem damaged_frame_rejected (fd : FrameDecoder) (slave : UInt8) (pdu : Bytes) (hi lo : UInt8) (rest : Bytes)
    (h : [hi, lo] ≠ crcBytes (slave :: pdu)) :
    fd.decode (slave :: pdu ++ [hi, lo] ++ rest) pdu.length
      = (.err .invalidData, fd, slave :: pdu ++ [hi, lo] ++ rest) := by
  rw [frameDecode_on_split]
  split
  · rename_i hc
    exfalso; apply h
    unfold crcBytes; rw [← hc, be16_rd16]
  · rfl

/-- **rtu_emit_crc**: every RTU frame the library transmits is address ++ PDU followed by the
    CRC of exactly these bytes -/
theorem rtu_emit_request (slave : UInt8) (r : Request) (bytes : Bytes)
    (h : rtuEncodeRequest slave r = .ok bytes) :
    bytes = (slave :: encodeRequestPdu r) ++ crcBytes (slave :: encodeRequestPdu r) := by
  unfold rtuEncodeRequest at h
  split at h
  · simp at h
  · split at h <;> simp at h
    exact h.symm

theorem rtu_emit_response (slave : UInt8) (r : ResponseResult) (bytes : Bytes)
    (h : rtuEncodeResponse slave r = .ok bytes) :
    bytes = (slave :: encodeResponseResultPdu r) ++ crcBytes (slave :: encodeResponseResultPdu r) := by
  unfold rtuEncodeResponse at h
  split at h
  · simp at h
  · split at h <;> simp at h
    exact h.symm

/-- the catalogue check value of CRC-16/MODBUS: crc("123456789") = 0x4B37, transmitted low byte first -/
theorem crc_check_value :
    crcBytes [0x31, 0x32, 0x33, 0x34, 0x35, 0x36, 0x37, 0x38, 0x39] = [0x37, 0x4B] := by decide +kernel

-- non-vacuity: a real frame (the library's own test vector) is delivered, a damaged one is not
example : (rtuDecode responsePduLen {} [0x01, 0x03, 0x04, 0x89, 0x02, 0x42, 0xC7, 0x00, 0x9D]).1
    = .ok (some (0x01, [0x03, 0x04, 0x89, 0x02, 0x42, 0xC7])) := by decide +kernel
example : (rtuDecode responsePduLen {} [0x01, 0x03, 0x04, 0x89, 0x02, 0x42, 0xC6, 0x00, 0x9D]).1
    = .ok none := by decide +kernel

end Modbus.Props.C04
