import ModbusModel.Lemmas.Rtu
import ModbusModel.Lemmas.Encode
import ModbusModel.Lemmas.Crc
import ModbusModel.Lemmas.CrcSpec
/-
  C04 – RTU delivers only CRC-valid frames and emits only CRC-correct frames.
-/
namespace Modbus.Props.C04
open Modbus

/-- **rtu_delivery_sound** (one decode call, either direction): whatever the RTU frame decoder
    delivers is a contiguous slice of the buffer – address, PDU, then exactly the two CRC
    bytes of address and PDU – preceded only by dropped bytes (at most one per retry) and
    followed by the untouched rest of the buffer. -/
theorem rtu_delivery_sound (lenFn : Bytes → Res (Option Nat)) (maxPdu : Nat) (hl : LenFn lenFn maxPdu)
    (hm : 8 ≤ maxPdu) (fd : FrameDecoder) (buf : Bytes) (slave : UInt8) (pdu : Bytes)
    (h : (rtuDecode lenFn fd buf).1 = .ok (some (slave, pdu))) :
    ∃ dropped, dropped.length ≤ MAX_RETRIES
      ∧ buf = dropped ++ (slave :: pdu ++ crcBytes (slave :: pdu)) ++ (rtuDecode lenFn fd buf).2.2 := by
  obtain ⟨dropped, hd, hs⟩ := (rtuDecodeLoop_outcome lenFn maxPdu hl hm MAX_RETRIES fd buf).shape
  unfold rtuDecode at h ⊢
  rw [h] at hs
  exact ⟨dropped, hd, hs⟩

theorem server_delivery_sound (fd : FrameDecoder) (buf : Bytes) (slave : UInt8) (pdu : Bytes)
    (h : (rtuDecode requestPduLen fd buf).1 = .ok (some (slave, pdu))) :
    ∃ dropped, dropped.length ≤ 20
      ∧ buf = dropped ++ (slave :: pdu ++ crcBytes (slave :: pdu)) ++ (rtuDecode requestPduLen fd buf).2.2 :=
  rtu_delivery_sound requestPduLen 265 requestPduLen_lenFn (by omega) fd buf slave pdu h

theorem client_delivery_sound (fd : FrameDecoder) (buf : Bytes) (slave : UInt8) (pdu : Bytes)
    (h : (rtuDecode responsePduLen fd buf).1 = .ok (some (slave, pdu))) :
    ∃ dropped, dropped.length ≤ 20
      ∧ buf = dropped ++ (slave :: pdu ++ crcBytes (slave :: pdu)) ++ (rtuDecode responsePduLen fd buf).2.2 :=
  rtu_delivery_sound responsePduLen 65538 responsePduLen_lenFn (by omega) fd buf slave pdu h

/-- a frame whose CRC field differs from the CRC of address and PDU is never delivered by
    the frame decoder: the buffer is restored and an error is returned -/
theorem damaged_frame_rejected (fd : FrameDecoder) (slave : UInt8) (pdu : Bytes) (hi lo : UInt8) (rest : Bytes)
    (h : [hi, lo] ≠ crcBytes (slave :: pdu)) :
    fd.decode (slave :: pdu ++ [hi, lo] ++ rest) pdu.length
      = (.err .invalidData, fd, slave :: pdu ++ [hi, lo] ++ rest) := by
  rw [frameDecode_on_split]
  split
  · rename_i hc
    exfalso; apply h
    unfold crcBytes; rw [← hc, be16_rd16]
  · rfl

/-- **rtu_emit_crc**: every RTU frame the library transmits is address ++ PDU followed by the
    CRC of exactly these bytes -/
theorem rtu_emit_request (slave : UInt8) (r : Request) (bytes : Bytes)
    (h : rtuEncodeRequest slave r = .ok bytes) :
    bytes = (slave :: encodeRequestPdu r) ++ crcBytes (slave :: encodeRequestPdu r) := by
  unfold rtuEncodeRequest at h
  split at h
  · simp at h
  · split at h <;> simp at h
    exact h.symm

theorem rtu_emit_response (slave : UInt8) (r : ResponseResult) (bytes : Bytes)
    (h : rtuEncodeResponse slave r = .ok bytes) :
    bytes = (slave :: encodeResponseResultPdu r) ++ crcBytes (slave :: encodeResponseResultPdu r) := by
  unfold rtuEncodeResponse at h
  split at h
  · simp at h
  · split at h <;> simp at h
    exact h.symm

/-! ### "so a frame damaged in transit is never delivered as data": what the CRC guarantees -/

/-- **the CRC is linear**: the register `calc_crc` ends with for a damaged frame is the register for
    the frame, xor the register – started from 0 – for the error pattern alone -/
theorem crc_linear (frame err : Bytes) (h : frame.length = err.length) :
    reg 0xFFFF (xorL frame err) = reg 0xFFFF frame ^^^ reg 0 err := by
  have e0 : (0xFFFF : UInt16) = 0xFFFF ^^^ 0 := by decide
  conv => lhs; rw [e0]
  exact reg_xor frame err 0xFFFF 0 h

/-- every frame the library transmits or delivers – address, PDU, CRC low byte first – leaves the
    CRC register at 0 -/
theorem valid_frame_register_zero (body : Bytes) : reg 0xFFFF (body ++ crcBytes body) = 0 :=
  reg_valid body

/-- **one damaged byte** (any of its 255 error patterns, so every single-bit error and every
    burst inside a byte), anywhere in a frame of any length: the result is not a valid frame -/
theorem corrupted_byte_never_valid (body body' : Bytes) (i j : Nat) (e : UInt8) (he : e ≠ 0)
    (hlen : (body ++ crcBytes body).length = i + 1 + j) :
    xorL (body ++ crcBytes body) (pattern i [e] j) ≠ body' ++ crcBytes body' :=
  damaged_never_valid body body' i j [e] hlen (by simpa [reg] using crcByte_err_ne_zero e he)

/-- **every single-bit error** is among them -/
theorem single_bit_error_never_valid (body body' : Bytes) (i j : Nat) (k : Fin 8)
    (hlen : (body ++ crcBytes body).length = i + 1 + j) :
    xorL (body ++ crcBytes body) (pattern i [(1 : UInt8) <<< k.val.toUInt8] j) ≠ body' ++ crcBytes body' := by
  apply corrupted_byte_never_valid body body' i j _ _ hlen
  revert k
  decide

/-- **two adjacent damaged bytes** (every burst of up to 9 bits wherever it starts, every error
    pattern within a 16-bit word): not a valid frame -/
theorem corrupted_word_never_valid (body body' : Bytes) (i j : Nat) (e1 e2 : UInt8) (he : e1 ≠ 0 ∨ e2 ≠ 0)
    (hlen : (body ++ crcBytes body).length = i + 2 + j) :
    xorL (body ++ crcBytes body) (pattern i [e1, e2] j) ≠ body' ++ crcBytes body' :=
  damaged_never_valid body body' i j [e1, e2] hlen (by simpa [reg] using two_bytes_ne_zero e1 e2 he)

/-- **every burst of up to 16 bits**, at any bit offset, in a frame of any length: the damaged
    bits lie in three consecutive bytes, from bit `k` of the first to below bit `k` of the third
    (`within16`; the line carries the least significant bit first).  The result is never a valid
    frame – so, by `rtu_delivery_sound`, nothing the decoder delivers is such a damaged frame. -/
theorem burst16_never_valid (body body' : Bytes) (i j : Nat) (e1 e2 e3 : UInt8)
    (hb : within16 e1 e3 = true) (he : e1 ≠ 0 ∨ e2 ≠ 0 ∨ e3 ≠ 0)
    (hlen : (body ++ crcBytes body).length = i + 3 + j) :
    xorL (body ++ crcBytes body) (pattern i [e1, e2, e3] j) ≠ body' ++ crcBytes body' :=
  damaged_never_valid body body' i j [e1, e2, e3] hlen (by simpa [reg] using three_bytes_ne_zero e1 e2 e3 hb he)

/-- **every double-bit error** whose two bits lie in different bytes up to 300 bytes apart – the
    longest RTU frame has 256 – (two bits of one byte are a case of `corrupted_byte_never_valid`) -/
theorem double_bit_error_never_valid (body body' : Bytes) (i j m : Nat) (k1 k2 : Fin 8) (hm : m < 300)
    (hlen : (body ++ crcBytes body).length = i + (m + 2) + j) :
    xorL (body ++ crcBytes body)
        (pattern i ([(1 : UInt8) <<< k1.val.toUInt8] ++ List.replicate m 0 ++ [(1 : UInt8) <<< k2.val.toUInt8]) j)
      ≠ body' ++ crcBytes body' :=
  damaged_never_valid body body' i j _ (by simpa using hlen) (two_bits_ne_zero k1 k2 m hm)

/-- the same, said of the decoder: whatever the RTU frame decoder delivers is not a valid frame
    hit by a burst of up to 16 bits -/
theorem delivered_is_no_burst_damaged_frame (lenFn : Bytes → Res (Option Nat)) (maxPdu : Nat) (hl : LenFn lenFn maxPdu)
    (hm : 8 ≤ maxPdu) (fd : FrameDecoder) (buf : Bytes) (slave : UInt8) (pdu : Bytes)
    (h : (rtuDecode lenFn fd buf).1 = .ok (some (slave, pdu)))
    (body : Bytes) (i j : Nat) (e1 e2 e3 : UInt8)
    (hb : within16 e1 e3 = true) (he : e1 ≠ 0 ∨ e2 ≠ 0 ∨ e3 ≠ 0)
    (hlen : (body ++ crcBytes body).length = i + 3 + j) :
    ∃ dropped, buf = dropped ++ (slave :: pdu ++ crcBytes (slave :: pdu)) ++ (rtuDecode lenFn fd buf).2.2
      ∧ slave :: pdu ++ crcBytes (slave :: pdu) ≠ xorL (body ++ crcBytes body) (pattern i [e1, e2, e3] j) := by
  obtain ⟨dropped, _, hs⟩ := rtu_delivery_sound lenFn maxPdu hl hm fd buf slave pdu h
  refine ⟨dropped, hs, fun heq => ?_⟩
  exact burst16_never_valid body (slave :: pdu) i j e1 e2 e3 hb he hlen (by simpa using heq.symm)

-- non-vacuity: a burst of 16 bits from bit 3 of one byte to bit 2 of the byte after the next
example : within16 0xF8 0x07 = true := by decide
example : within16 0x01 0x01 = false := by decide   -- 17 bits apart: not a burst of 16

/-- the catalogue check value of CRC-16/MODBUS: crc("123456789") = 0x4B37, transmitted low byte first -/
theorem crc_check_value :
    crcBytes [0x31, 0x32, 0x33, 0x34, 0x35, 0x36, 0x37, 0x38, 0x39] = [0x37, 0x4B] := by decide +kernel

/-- **`calc_crc` is CRC-16/MODBUS** – against a specification that shares nothing with the code:
    read as bits in the order they go over the line, the two CRC bytes are the remainder of the
    polynomial division (schoolbook long division on coefficient lists, `CrcSpec.pmod`) of the
    message – sixteen zeros appended, first sixteen bits complemented – by x^16 + x^15 + x^2 + 1.
    For messages of every length. -/
theorem crc_is_polynomial_remainder (data : Bytes) :
    CrcSpec.bitsOf (crcBytes data) = CrcSpec.pmod (8 * data.length) (CrcSpec.dividend data) :=
  CrcSpec.crcBytes_is_remainder data

/-- every frame the library emits or delivers is, as a polynomial, divisible by the generator:
    the division of address, PDU and CRC leaves the remainder zero -/
theorem valid_frame_remainder_zero (body : Bytes) :
    CrcSpec.crcSpec (body ++ crcBytes body) = CrcSpec.zeros 16 := by
  rw [← CrcSpec.reg_is_remainder, reg_valid]
  rfl

-- the specification itself on the catalogue check value and on the empty message
example : CrcSpec.crcSpec [0x31, 0x32, 0x33, 0x34, 0x35, 0x36, 0x37, 0x38, 0x39]
    = CrcSpec.bitsOf [0x37, 0x4B] := by decide +kernel
example : CrcSpec.crcSpec [] = CrcSpec.ones 16 := by decide

-- non-vacuity: a real frame (the library's own test vector) is delivered, a damaged one is not
example : (rtuDecode responsePduLen {} [0x01, 0x03, 0x04, 0x89, 0x02, 0x42, 0xC7, 0x00, 0x9D]).1
    = .ok (some (0x01, [0x03, 0x04, 0x89, 0x02, 0x42, 0xC7])) := by decide +kernel
example : (rtuDecode responsePduLen {} [0x01, 0x03, 0x04, 0x89, 0x02, 0x42, 0xC6, 0x00, 0x9D]).1
    = .ok none := by decide +kernel

end Modbus.Props.C04
