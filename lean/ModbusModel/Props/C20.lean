import ModbusModel.Model.Client
import ModbusModel.Props.C06
import ModbusModel.Lemmas.RoundTripRsp
import ModbusModel.Lemmas.DecodeRange
import ModbusModel.Model.Sync
/-
  C20 – Typed reads return exactly the requested number of items or an error.
-/
namespace Modbus.Props.C20
open Modbus

/-- the count argument of a typed read -/
def TypedOp.count : TypedOp → Option UInt16
  | .readCoils _ c | .readDiscreteInputs _ c | .readHoldingRegisters _ c | .readInputRegisters _ c
  | .readWriteMultipleRegisters _ c _ _ => some c
  | _ => none

/-- items carried by a reply -/
def replyBits : Response → Option (List Bool)
  | .readCoils cs | .readDiscreteInputs cs => some cs
  | _ => none

def replyWords : Response → Option (List UInt16)
  | .readHoldingRegisters ws | .readInputRegisters ws | .readWriteMultipleRegisters ws => some ws
  | _ => none

theorem mapVal_ite {α} (f : α → TypedVal) (c : Prop) [Decidable c] (a b : Typed α) :
    Typed.mapVal f (if c then a else b) = if c then Typed.mapVal f a else Typed.mapVal f b := by
  split <;> rfl

/-- **typed_read_exact** (bits): a typed bit read that reports success returns exactly `cnt`
    items, the first `cnt` of the reply, which is a reply of its own kind -/
theorem typed_bits_exact (op : TypedOp) (res : CallResult) (bs : List Bool)
    (h : op.project res = .ok (.bits bs)) :
    ∃ cnt r cs, TypedOp.count op = some cnt ∧ res = .ok r ∧ replyBits r = some cs
      ∧ r.functionCode = op.request.functionCode
      ∧ bs.length = cnt.toNat ∧ bs = cs.take cnt.toNat := by
  cases op <;> cases res <;>
    simp [TypedOp.project, Typed.ofCall] at h
  all_goals (
    rename_i r
    cases r <;> simp only [takeCoils, takeWords, verifyEcho, mapVal_ite] at h <;>
      simp [Typed.mapVal] at h)
  all_goals (try (split at h <;> simp at h))
  all_goals (
    subst h
    refine ⟨_, _, _, rfl, rfl, rfl, rfl, ?_, rfl⟩
    simp [List.length_take]; omega)

/-- **typed_read_exact** (registers) -/
theorem typed_words_exact (op : TypedOp) (res : CallResult) (ws : List UInt16)
    (h : op.project res = .ok (.words ws)) :
    ∃ cnt r, TypedOp.count op = some cnt ∧ res = .ok r ∧ replyWords r = some ws
      ∧ r.functionCode = op.request.functionCode ∧ ws.length = cnt.toNat := by
  cases op <;> cases res <;>
    simp [TypedOp.project, Typed.ofCall] at h
  all_goals (
    rename_i r
    cases r <;> simp only [takeCoils, takeWords, verifyEcho, mapVal_ite] at h <;>
      simp [Typed.mapVal] at h)
  all_goals (try (split at h <;> simp at h))
  all_goals (
    subst h
    exact ⟨_, _, rfl, rfl, rfl, rfl, by assumption⟩)

/-- **typed_write_kind**: a typed write reports success only for a reply of its own kind -/
theorem typed_write_kind (op : TypedOp) (res : CallResult) (h : op.project res = .ok .unit) :
    TypedOp.count op = none ∧ ∃ r, res = .ok r ∧ r.functionCode = op.request.functionCode := by
  cases op <;> cases res <;>
    simp [TypedOp.project, Typed.ofCall] at h
  all_goals (
    rename_i r
    cases r <;> simp only [takeCoils, takeWords, verifyEcho, mapVal_ite] at h <;>
      simp [Typed.mapVal] at h)
  all_goals (try (split at h <;> simp at h))
  all_goals exact ⟨rfl, _, rfl, rfl⟩

/-- the variant of a decoded response is determined by its function code -/
def sameKind (fc : FunctionCode) : Response → Bool
  | .readCoils _ => fc = .readCoils
  | .readDiscreteInputs _ => fc = .readDiscreteInputs
  | .writeSingleCoil .. => fc = .writeSingleCoil
  | .writeMultipleCoils .. => fc = .writeMultipleCoils
  | .readInputRegisters _ => fc = .readInputRegisters
  | .readHoldingRegisters _ => fc = .readHoldingRegisters
  | .writeSingleRegister .. => fc = .writeSingleRegister
  | .writeMultipleRegisters .. => fc = .writeMultipleRegisters
  | .reportServerId .. => fc = .reportServerId
  | .maskWriteRegister .. => fc = .maskWriteRegister
  | .readWriteMultipleRegisters _ => fc = .readWriteMultipleRegisters
  | .custom c _ => fc = .custom c

/-- **typed_total**: whatever the call returned – provided a successful response is of the
    kind the request's function code denotes, which `call` guarantees for every reply the
    decoder can produce (see `decoded_kind`) – the typed method returns a result, it does
    not panic. -/
theorem typed_total (op : TypedOp) (res : CallResult) (hp : res ≠ .panic)
    (hk : ∀ r, res = .ok r → sameKind op.request.functionCode r = true) :
    op.project res ≠ .panic := by
  cases op <;> cases res <;>
    simp_all [TypedOp.project, Typed.ofCall, TypedOp.request, Request.functionCode]
  all_goals (
    rename_i r
    cases r <;> simp_all [sameKind] <;>
      simp only [takeCoils, takeWords, verifyEcho, mapVal_ite] <;>
      (try split) <;> simp [Typed.mapVal])

/-- **decoded_kind**: whatever the response decoder accepts is of the kind its first byte
    denotes: the variant of that function code, or – for a code the decoder does not model –
    raw custom data under exactly that code.  In particular no `Custom` ever carries a
    modelled function code. -/
theorem decoded_kind (fc : UInt8) (rest : Bytes) (r : Response) (h : decodeResponse (fc :: rest) = .ok r) :
    r.functionCode.value = fc ∧ r.canonical := by
  unfold decodeResponse at h
  simp only at h
  revert h
  apply dispatch_cases2 (fun res => res = Res.ok r → r.functionCode.value = fc ∧ r.canonical)
  · intro p hp hfc
    simp only [responseArms, List.mem_cons, List.mem_nil_iff, or_false] at hp
    rcases hp with h | h | h | h | h | h | h | h | h | h | h <;> subst h <;> simp only at hfc ⊢ <;> intro hr <;> subst hfc
    · obtain ⟨_, rfl⟩ := decBits_range _ _ _ _ (sized_ok _ _ _ hr); exact ⟨rfl, trivial⟩
    · obtain ⟨_, rfl⟩ := decBits_range _ _ _ _ (sized_ok _ _ _ hr); exact ⟨rfl, trivial⟩
    · obtain ⟨_, _, rfl⟩ := decCoil_range _ _ _ hr; exact ⟨rfl, trivial⟩
    · obtain ⟨_, _, rfl⟩ := dec2_range _ _ _ hr; exact ⟨rfl, trivial⟩
    · obtain ⟨_, rfl⟩ := decRegs_range _ _ _ (sized_ok _ _ _ hr); exact ⟨rfl, trivial⟩
    · obtain ⟨_, rfl⟩ := decRegs_range _ _ _ (sized_ok _ _ _ hr); exact ⟨rfl, trivial⟩
    · obtain ⟨_, _, rfl⟩ := dec2_range _ _ _ hr; exact ⟨rfl, trivial⟩
    · obtain ⟨_, _, rfl⟩ := dec2_range _ _ _ hr; exact ⟨rfl, trivial⟩
    · obtain ⟨_, _, _, rfl⟩ := decReportServerId_range _ _ (sized_ok _ _ _ hr); exact ⟨rfl, trivial⟩
    · obtain ⟨_, _, _, rfl⟩ := dec3_range _ _ _ hr; exact ⟨rfl, trivial⟩
    · obtain ⟨_, rfl⟩ := decRegs_range _ _ _ (sized_ok _ _ _ hr); exact ⟨rfl, trivial⟩
  · intro hnone hr
    simp only [Res.ok.injEq] at hr
    subst hr
    refine ⟨rfl, ?_⟩
    intro hmem
    simp only [modelledCodes, List.mem_cons, List.mem_nil_iff, or_false] at hmem
    rcases hmem with h | h | h | h | h | h | h | h | h | h | h <;> subst h <;> simp [responseArms, List.lookup] at hnone

/-- a canonical response whose function code is numerically that of a typed operation's request
    is of that operation's kind -/
theorem sameKind_of_value (op : TypedOp) (r : Response) (hc : r.canonical)
    (hv : r.functionCode.value = op.request.functionCode.value) :
    sameKind op.request.functionCode r = true := by
  cases op <;> cases r <;>
    simp_all [sameKind, TypedOp.request, Request.functionCode, Response.functionCode, FunctionCode.value,
      Response.canonical, modelledCodes]

/-- **typed_total** without a premise about kinds: for every reply PDU the decoder can produce,
    under any headers, what a typed method makes of the outcome of `call` is a result –
    never a panic (`unreachable!`) -/
theorem typed_never_panics (op : TypedOp) (reqHdr rspHdr : Hdr) (pdu : Bytes) (res : ResponseResult)
    (hd : decodeResponsePdu pdu = .ok res) :
    op.project (classify reqHdr op.request.functionCode rspHdr res) ≠ .panic := by
  apply typed_total
  · unfold classify
    cases res <;> simp only <;> split <;> (try split) <;> simp
  · intro r hr
    obtain ⟨_, hres, hv⟩ := (Modbus.Props.C06.success_only_if reqHdr rspHdr op.request.functionCode res).1 r hr
    subst hres
    -- the reply was decoded from `pdu`
    unfold decodeResponsePdu at hd
    split at hd
    · simp at hd
    · rename_i fc rest
      split at hd
      · cases hdr : decodeResponse (fc :: rest) with
        | ok r' =>
          rw [hdr] at hd
          simp [Res.map] at hd
          subst hd
          exact sameKind_of_value op r' (decoded_kind fc rest r' hdr).2 hv
        | err k => rw [hdr] at hd; simp [Res.map] at hd
        | panic => rw [hdr] at hd; simp [Res.map] at hd
      · cases hde : decodeException (fc :: rest) <;> rw [hde] at hd <;> simp [Res.map] at hd

-- non-vacuity
example : (TypedOp.readCoils 0 3).project (.ok (.readCoils [true, false, true, false, false, false, false, false]))
    = .ok (.bits [true, false, true]) := by decide
example : (TypedOp.readHoldingRegisters 0 5).project (.ok (.readHoldingRegisters [1])) = .transport .invalidData := by decide
example : (TypedOp.writeSingleRegister 1 2).project (.ok (.writeSingleRegister 1 3)) = .transport .invalidData := by decide

/-! ### The typed methods of the blocking client -/

/-- a blocking call that returns a response is an asynchronous call that finished with it -/
theorem blocking_ok_is_async_ok (s : SyncContext) (req : Request) (t : Transport) (deadline : Budget)
    (r : Response) (h : (s.call req t deadline).1 = .ok r) :
    (s.asyncCtx.call req t (if s.timeout then deadline else none)).1 = .done (.ok r) := by
  cases ho : (s.asyncCtx.call req t (if s.timeout then deadline else none)).1 with
  | done x => simp [SyncContext.call, ho, withTimeout] at h; rw [h]
  | abandoned => simp [SyncContext.call, ho, withTimeout] at h
  | blocked => simp [SyncContext.call, ho, withTimeout] at h

/-- **typed_read_exact through the blocking client** (bits): a blocking typed bit read that reports
    success returns exactly `cnt` items, the first `cnt` bits of the reply with which the
    asynchronous call underneath finished -/
theorem blocking_typed_bits_exact (s : SyncContext) (op : TypedOp) (t : Transport) (deadline : Budget)
    (bs : List Bool) (h : (s.typed op t deadline).1 = .ok (.bits bs)) :
    ∃ cnt r cs, TypedOp.count op = some cnt
      ∧ (s.asyncCtx.call op.request t (if s.timeout then deadline else none)).1 = .done (.ok r)
      ∧ replyBits r = some cs ∧ r.functionCode = op.request.functionCode
      ∧ bs.length = cnt.toNat ∧ bs = cs.take cnt.toNat := by
  have hp : op.project (s.call op.request t deadline).1 = .ok (.bits bs) := by
    simpa [SyncContext.typed] using h
  obtain ⟨cnt, r, cs, h1, h2, h3, h4, h5, h6⟩ := typed_bits_exact op _ bs hp
  exact ⟨cnt, r, cs, h1, blocking_ok_is_async_ok s _ t deadline r h2, h3, h4, h5, h6⟩

/-- **typed_read_exact through the blocking client** (registers) -/
theorem blocking_typed_words_exact (s : SyncContext) (op : TypedOp) (t : Transport) (deadline : Budget)
    (ws : List UInt16) (h : (s.typed op t deadline).1 = .ok (.words ws)) :
    ∃ cnt r, TypedOp.count op = some cnt
      ∧ (s.asyncCtx.call op.request t (if s.timeout then deadline else none)).1 = .done (.ok r)
      ∧ replyWords r = some ws ∧ r.functionCode = op.request.functionCode
      ∧ ws.length = cnt.toNat := by
  have hp : op.project (s.call op.request t deadline).1 = .ok (.words ws) := by
    simpa [SyncContext.typed] using h
  obtain ⟨cnt, r, h1, h2, h3, h4, h5⟩ := typed_words_exact op _ ws hp
  exact ⟨cnt, r, h1, blocking_ok_is_async_ok s _ t deadline r h2, h3, h4, h5⟩

/-- **typed_write_kind through the blocking client** -/
theorem blocking_typed_write_kind (s : SyncContext) (op : TypedOp) (t : Transport) (deadline : Budget)
    (h : (s.typed op t deadline).1 = .ok .unit) :
    TypedOp.count op = none
    ∧ ∃ r, (s.asyncCtx.call op.request t (if s.timeout then deadline else none)).1 = .done (.ok r)
        ∧ r.functionCode = op.request.functionCode := by
  have hp : op.project (s.call op.request t deadline).1 = .ok .unit := by
    simpa [SyncContext.typed] using h
  obtain ⟨h1, r, h2, h3⟩ := typed_write_kind op _ hp
  exact ⟨h1, r, blocking_ok_is_async_ok s _ t deadline r h2, h3⟩

end Modbus.Props.C20
