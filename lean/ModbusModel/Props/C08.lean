import ModbusModel.Lemmas.RoundTrip
import ModbusModel.Lemmas.Wf
/-
  C08 – Only well-formed PDUs are accepted, and each decodes to its unique meaning.
-/
namespace Modbus.Props.C08
open Modbus

/-- **reencode**: whatever the request decoder accepts re-encodes (when it fits the PDU limit,
    which every accepted standard request does) to a PDU that decodes to the same value -/
theorem request_reencode (bs : Bytes) (r : Request) (h : decodeRequest bs = .ok r)
    (hs : requestPduSizeRaw r ≤ 253) : decodeRequest (encodeRequestPdu r) = .ok r :=
  decodeRequest_encode r hs (decodeRequest_canonical bs r h)

/-- every typed request and every canonical raw request within the limit is accepted from
    its own encoding, with its unique meaning -/
theorem request_roundtrip (r : Request) (hs : requestPduSizeRaw r ≤ 253) (hc : r.canonical) :
    decodeRequest (encodeRequestPdu r) = .ok r := decodeRequest_encode r hs hc

/-- request function codes are below 0x80: nothing else is accepted -/
theorem request_fc_below_80 (fc : UInt8) (rest : Bytes) (r : Request) (h : decodeRequest (fc :: rest) = .ok r) :
    fc < 0x80 := by
  unfold decodeRequest at h
  simp only at h
  revert h
  apply dispatch_cases2 (fun res => res = Res.ok r → fc < 0x80)
  · intro p hp hfc _
    simp only [requestArms, List.mem_cons, List.mem_nil_iff, or_false] at hp
    rcases hp with h | h | h | h | h | h | h | h | h | h | h <;> subst h <;> simp only at hfc <;> subst hfc <;> decide
  · intro _ hr
    split at hr
    · assumption
    · simp at hr

/-- function codes the library does not model are accepted as raw custom data, unchanged -/
theorem custom_unchanged (fc : UInt8) (data : Bytes) (hlt : fc < 0x80) (hnm : fc ∉ modelledCodes) :
    decodeRequest (fc :: data) = .ok (.custom fc data) := by
  simp [decodeRequest, dispatch_default _ _ _ (requestArms_lookup_none fc _ _ hnm), hlt]

/-- the empty PDU is rejected -/
theorem empty_rejected : decodeRequest [] = .err .unexpectedEof ∧ decodeResponse [] = .err .unexpectedEof := by
  simp [decodeRequest, decodeResponse]

/-- fixed-size PDUs (two words): accepted exactly when four bytes follow the function code -/
theorem dec2_accept_iff {α} (f : UInt16 → UInt16 → α) (bs : Bytes) (x : α) :
    dec2 f bs = .ok x ↔ ∃ a b c d, bs = [a, b, c, d] ∧ x = f (rd16 a b) (rd16 c d) := by
  constructor
  · intro h
    unfold dec2 at h
    split at h
    · rename_i a b c d; simp at h; exact ⟨a, b, c, d, rfl, h.symm⟩
    · simp at h
    · simp at h
  · rintro ⟨a, b, c, d, rfl, rfl⟩; simp [dec2]

theorem dec3_accept_iff {α} (f : UInt16 → UInt16 → UInt16 → α) (bs : Bytes) (x : α) :
    dec3 f bs = .ok x ↔ ∃ a b c d e g, bs = [a, b, c, d, e, g] ∧ x = f (rd16 a b) (rd16 c d) (rd16 e g) := by
  constructor
  · intro h
    unfold dec3 at h
    split at h
    · rename_i a b c d e g; simp at h; exact ⟨a, b, c, d, e, g, rfl, h.symm⟩
    · simp at h
    · simp at h
  · rintro ⟨a, b, c, d, e, g, rfl, rfl⟩; simp [dec3]

/-- single-coil values: accepted exactly for 0xFF00 (on) and 0x0000 (off), with nothing after them -/
theorem decCoil_accept_iff {α} (f : UInt16 → Bool → α) (bs : Bytes) (x : α) :
    decCoil f bs = .ok x ↔
      ∃ a b c d v, bs = [a, b, c, d] ∧ coilToBool (rd16 c d) = some v ∧ x = f (rd16 a b) v := by
  constructor
  · intro h
    unfold decCoil at h
    split at h
    · rename_i a b c d rest
      split at h
      · simp at h
      · rename_i v hv
        split at h
        · rename_i he
          simp at h
          have : rest = [] := by simpa using he
          subst this
          exact ⟨a, b, c, d, v, rfl, hv, h.symm⟩
        · simp at h
    · simp at h
  · rintro ⟨a, b, c, d, v, rfl, hv, rfl⟩; simp [decCoil, hv]

theorem coil_values (w : UInt16) : (coilToBool w).isSome ↔ (w = 0xFF00 ∨ w = 0x0000) := by
  unfold coilToBool
  split
  · simp_all
  · split <;> simp_all

/-- no accepted fixed-size PDU is a proper prefix of another accepted one -/
theorem dec2_prefix_free {α} (f : UInt16 → UInt16 → α) (a b : Bytes) (x y : α)
    (h1 : dec2 f a = .ok x) (h2 : dec2 f (a ++ b) = .ok y) : b = [] := by
  obtain ⟨_, _, _, _, ha, _⟩ := (dec2_accept_iff f a x).mp h1
  obtain ⟨_, _, _, _, hab, _⟩ := (dec2_accept_iff f (a ++ b) y).mp h2
  subst ha
  have hl := congrArg List.length hab
  simp only [List.length_append, List.length_cons, List.length_nil] at hl
  exact List.length_eq_zero_iff.mp (by omega)

/-- **accept-iff (requests)**: a byte string is accepted as a request PDU exactly when it is
    well-formed in the sense of `wfRequest` – a closed-form predicate that does not mention
    the decoder: for 0x01–0x04, 0x06 four bytes follow; 0x05 additionally carries 0x0000 or
    0xFF00; 0x0F: the bytes after the byte count are exactly that many, the quantity is covered
    by them, and the PDU is ≤ 253 bytes; 0x10 / 0x17: byte count = 2 × quantity, exactly that
    many bytes follow, ≤ 253 bytes; 0x11: nothing follows; 0x16: six bytes; any other code:
    below 0x80 (raw custom data) -/
theorem request_accept_iff (bs : Bytes) : (∃ r, decodeRequest bs = .ok r) ↔ wfRequest bs = true := by
  rw [← decodeRequest_isOk]
  cases h : decodeRequest bs <;> simp [Res.isOk]

/-- **accept-iff (responses)**: likewise for response PDUs – 0x01/0x02: exactly byte-count bytes
    follow; 0x03/0x04/0x17: the byte count is even and exactly that many bytes follow; 0x11:
    byte count ≥ 2, run indicator 0x00 or 0xFF, byte count − 2 data bytes; all of these within
    253 bytes; the fixed-size echoes as for requests; any other code: raw custom data -/
theorem response_accept_iff (bs : Bytes) : (∃ r, decodeResponse bs = .ok r) ↔ wfResponse bs = true := by
  rw [← decodeResponse_isOk]
  cases h : decodeResponse bs <;> simp [Res.isOk]

/-- **no accepted standard request PDU is a proper prefix of another** -/
theorem request_prefix_free (fc : UInt8) (rest b : Bytes) (hm : fc ∈ modelledCodes)
    (h1 : wfRequest (fc :: rest) = true) (h2 : wfRequest (fc :: rest ++ b) = true) : b = [] := by
  have key : b.length = 0 := by
    simp only [modelledCodes, List.mem_cons, List.mem_nil_iff, or_false] at hm
    rcases hm with h | h | h | h | h | h | h | h | h | h | h <;> subst h
    · simp [wfRequest] at h1 h2; omega
    · simp [wfRequest] at h1 h2; omega
    · rcases rest with _ | ⟨a, _ | ⟨b', _ | ⟨c, _ | ⟨d, _ | ⟨e, t⟩⟩⟩⟩⟩ <;> simp [wfRequest] at h1 h2
      rcases b with _ | ⟨x, b⟩
      · rfl
      · simp [wfRequest] at h2
    · rcases rest with _ | ⟨a, _ | ⟨b', _ | ⟨c, _ | ⟨d, _ | ⟨e, t⟩⟩⟩⟩⟩ <;> simp [wfRequest] at h1 h2
      omega
    · simp [wfRequest] at h1 h2; omega
    · simp [wfRequest] at h1 h2; omega
    · simp [wfRequest] at h1 h2; omega
    · rcases rest with _ | ⟨a, _ | ⟨b', _ | ⟨c, _ | ⟨d, _ | ⟨e, t⟩⟩⟩⟩⟩ <;> simp [wfRequest] at h1 h2
      omega
    · simp [wfRequest] at h1 h2; simp [h1] at h2; simp [h2]
    · simp [wfRequest] at h1 h2; omega
    · rcases rest with _ | ⟨a, _ | ⟨b', _ | ⟨c, _ | ⟨d, _ | ⟨e, _ | ⟨f, _ | ⟨g, _ | ⟨h, _ | ⟨wc, t⟩⟩⟩⟩⟩⟩⟩⟩⟩ <;>
        simp [wfRequest] at h1 h2
      omega
  exact List.length_eq_zero_iff.mp key

/-- **no accepted standard response PDU is a proper prefix of another** -/
theorem response_prefix_free (fc : UInt8) (rest b : Bytes) (hm : fc ∈ modelledCodes)
    (h1 : wfResponse (fc :: rest) = true) (h2 : wfResponse (fc :: rest ++ b) = true) : b = [] := by
  have key : b.length = 0 := by
    simp only [modelledCodes, List.mem_cons, List.mem_nil_iff, or_false] at hm
    rcases hm with h | h | h | h | h | h | h | h | h | h | h <;> subst h
    · rcases rest with _ | ⟨a, t⟩ <;> simp [wfResponse] at h1 h2; omega
    · rcases rest with _ | ⟨a, t⟩ <;> simp [wfResponse] at h1 h2; omega
    · rcases rest with _ | ⟨a, _ | ⟨b', _ | ⟨c, _ | ⟨d, _ | ⟨e, t⟩⟩⟩⟩⟩ <;> simp [wfResponse] at h1 h2
      rcases b with _ | ⟨x, b⟩
      · rfl
      · simp [wfResponse] at h2
    · simp [wfResponse] at h1 h2; omega
    · rcases rest with _ | ⟨a, t⟩ <;> simp [wfResponse] at h1 h2; omega
    · rcases rest with _ | ⟨a, t⟩ <;> simp [wfResponse] at h1 h2; omega
    · simp [wfResponse] at h1 h2; omega
    · simp [wfResponse] at h1 h2; omega
    · rcases rest with _ | ⟨a, _ | ⟨b', _ | ⟨c, t⟩⟩⟩ <;> simp [wfResponse] at h1 h2
      omega
    · simp [wfResponse] at h1 h2; omega
    · rcases rest with _ | ⟨a, t⟩ <;> simp [wfResponse] at h1 h2; omega
  exact List.length_eq_zero_iff.mp key

-- the named boundary facts
example : decodeRequest [0x05, 0, 1, 0xFF, 0x00] = .ok (.writeSingleCoil 1 true) := by decide
example : decodeRequest [0x05, 0, 1, 0xFF, 0x01] = .err .invalidData := by decide
example : decodeRequest [0x80, 1, 2] = .err .invalidData := by decide
example : decodeRequest [0x0F, 0, 0, 0, 9, 1, 0xFF] = .err .invalidData := by decide     -- quantity not covered
example : decodeRequest [0x10, 0, 0, 0, 1, 3, 0, 1, 2] = .err .invalidData := by decide  -- byte count ≠ 2·quantity
example : decodeResponse [0x11, 2, 7, 0x01] = .err .invalidData := by decide            -- run indicator

end Modbus.Props.C08
