import ModbusModel.Lemmas.RoundTripRsp
import ModbusModel.Lemmas.Tcp
import ModbusModel.Model.Client
import ModbusModel.Props.C04
import ModbusModel.Props.C05
import ModbusModel.Props.C11
import ModbusModel.Lemmas.ClientFraming
import ModbusModel.Props.C07
import ModbusModel.Props.C09
/-
  C02 – Responses and exceptions reach the caller exactly as the service produced them.
-/
namespace Modbus.Props.C02
open Modbus

/-- **rsp_roundtrip**: every response within the PDU limit decodes from its wire form to an
    equal value: register data unchanged, bit data in order and padded with `false` to a
    whole byte -/
theorem rsp_roundtrip (r : Response) (hs : responsePduSizeRaw r ≤ 253) (hc : r.canonical) :
    decodeResponse (encodeResponsePdu r) = .ok (pad8 r) := decodeResponse_encode r hs hc

/-- … and through `ResponsePdu::try_from` (the entry point of both client codecs) -/
theorem rsp_pdu_roundtrip (r : Response) (hs : responsePduSizeRaw r ≤ 253) (hc : r.canonical)
    (hfc : r.functionCode.value < 0x80) :
    decodeResponsePdu (encodeResponseResultPdu (.ok r)) = .ok (.ok (pad8 r)) := by
  have h := decodeResponse_encode r hs hc
  have hhead : (encodeResponsePdu r).head? = some r.functionCode.value := by cases r <;> rfl
  simp only [encodeResponseResultPdu]
  match he : encodeResponsePdu r, hhead with
  | fc :: rest, hh =>
    simp only [List.head?_cons, Option.some.injEq] at hh
    rw [he] at h
    subst hh
    simp [decodeResponsePdu, hfc, h, Res.map]

/-- **exception round trip**: all 256 exception codes, any request function code below 0x80 -/
theorem exception_roundtrip (fc : FunctionCode) (e : ExceptionCode) (h : fc.value < 0x80) :
    ∃ fc' e', decodeResponsePdu (encodeResponseResultPdu (.error { function := fc, exception := e }))
        = .ok (.error { function := fc', exception := e' })
      ∧ fc'.value = fc.value ∧ e'.value = e.value :=
  decodeResponsePdu_exception fc e h

/-- the caller receives the exception as inner error with the same numeric code: the client's
    verdict on such a reply under the right header is `exception e'` with `e'.value = e.value` -/
theorem exception_reaches_caller (hdr : Hdr) (req : Request) (fc' : FunctionCode) (e' : ExceptionCode)
    (hfc : fc'.value = req.functionCode.value) :
    classify hdr req.functionCode hdr (.error { function := fc', exception := e' }) = .exception e' := by
  simp [classify, hfc]

/-- a response of the request's own function code under the right header is returned as is -/
theorem response_reaches_caller (hdr : Hdr) (req : Request) (r : Response)
    (hfc : r.functionCode.value = req.functionCode.value) :
    classify hdr req.functionCode hdr (.ok r) = .ok r := by
  simp [classify, hfc]

/-- padding does not change the function code -/
theorem pad8_functionCode (r : Response) : (pad8 r).functionCode = r.functionCode := by
  cases r <;> rfl

/-- the typed bit reads cut the padding off again: exactly the requested coils come back -/
theorem typed_bits_unpadded (cs : List Bool) (cnt : UInt16) (h : cs.length = cnt.toNat) :
    takeCoils cnt (padBits cs) = .ok cs := by
  unfold takeCoils padBits
  have : ¬ ((cs ++ List.replicate (packedCoilsSize cs.length * 8 - cs.length) false).length < cnt.toNat) := by
    simp; omega
  simp only [this, if_false]
  rw [← h, List.take_left']
  rfl

/-- **client side of the TCP exchange**: the reply frame the server writes for a response (its
    MBAP frame), followed by anything, decodes on the client to that response (padded) under
    the same transaction and unit id -/
theorem client_decodes_reply_tcp (hdr : TcpHeader) (r : Response) (rest : Bytes)
    (hs : responsePduSizeRaw r ≤ 253) (hc : r.canonical) (hfc : r.functionCode.value < 0x80) :
    tcpClientDecode (tcpFrame hdr (encodeResponseResultPdu (.ok r)) ++ rest)
      = (.ok (some (hdr, .ok (pad8 r))), rest) := by
  have hl : (encodeResponseResultPdu (.ok r)).length < 65535 := by
    simp only [encodeResponseResultPdu]; rw [encodeResponsePdu_length]; omega
  simp [tcpClientDecode, aduDecode_complete hdr _ rest hl, rsp_pdu_roundtrip r hs hc hfc, Res.map]

-- non-vacuity
example : decodeResponse (encodeResponsePdu (.readCoils [true, false, true]))
    = .ok (.readCoils [true, false, true, false, false, false, false, false]) := by decide +kernel
example : decodeResponsePdu (encodeExceptionPdu ⟨.custom 8, .custom 1⟩)
    = .ok (.error ⟨.diagnostics, .illegalFunction⟩) := by decide

/-- **the reply reaches the caller** (TCP, every fragmentation): the server's response to the
    request, framed under the request's transaction and unit id and cut into reads in any way,
    is returned by the call as `Ok(response)` (bits padded to whole bytes) -/
theorem response_reaches_caller_tcp (c : Client) (req : Request) (t : Transport) (r : Response) (tail frame : Bytes)
    (hk : c.kind = .tcp)
    (hr : Ready c t (tcpFrame ⟨c.nextTid, c.unit⟩ (encodeResponsePdu r) ++ tail))
    (hs : responsePduSizeRaw r ≤ 253) (hc : r.canonical) (hfc : r.functionCode.value < 0x80)
    (hmatch : r.functionCode.value = req.functionCode.value)
    (henc : clientEncode .tcp (stampedHdr c) req = .ok frame) :
    ∃ c' t', c.call req t none = (.done (.ok (pad8 r)), c', t', [.write frame]) := by
  have hl : (encodeResponsePdu r).length < 65535 := by rw [encodeResponsePdu_length]; omega
  have hd : decodeResponsePdu (encodeResponsePdu r) = .ok (.ok (pad8 r)) := rsp_pdu_roundtrip r hs hc hfc
  have hfne : frame ≠ [] := by
    have := (Modbus.Props.C05.tcp_emit_request _ req frame henc).1
    rw [this]; simp [tcpFrame, be16]
  obtain ⟨c', t', h, _⟩ := call_generic tcpClientFraming c req t _ tail frame hk hr
    ⟨_, _, _, hl, hd, rfl⟩ (by simp [tcpFrame, be16]) henc hfne
  refine ⟨c', t', ?_⟩
  rw [h, tcpClientFraming_item _ _ _ hl hd]
  simp [stampedHdr, hk, classify, pad8_functionCode, hmatch]

/-- **the exception reaches the caller** (TCP, every fragmentation) as inner error with the
    same numeric code -/
theorem exception_reaches_caller_tcp (c : Client) (req : Request) (t : Transport) (fc : FunctionCode)
    (e : ExceptionCode) (tail frame : Bytes) (hk : c.kind = .tcp)
    (hr : Ready c t (tcpFrame ⟨c.nextTid, c.unit⟩ (encodeExceptionPdu { function := fc, exception := e }) ++ tail))
    (hfc : fc.value < 0x80) (hmatch : fc.value = req.functionCode.value)
    (henc : clientEncode .tcp (stampedHdr c) req = .ok frame) :
    ∃ c' t' e', c.call req t none = (.done (.exception e'), c', t', [.write frame]) ∧ e'.value = e.value := by
  obtain ⟨fc', e', hd, hv1, hv2⟩ := decodeResponsePdu_exception fc e hfc
  have hl : (encodeExceptionPdu { function := fc, exception := e }).length < 65535 := by simp [encodeExceptionPdu]
  have hfne : frame ≠ [] := by
    have := (Modbus.Props.C05.tcp_emit_request _ req frame henc).1
    rw [this]; simp [tcpFrame, be16]
  obtain ⟨c', t', h, _⟩ := call_generic tcpClientFraming c req t _ tail frame hk hr
    ⟨_, _, _, hl, hd, rfl⟩ (by simp [tcpFrame, be16]) henc hfne
  refine ⟨c', t', e', ?_, hv2⟩
  rw [h, tcpClientFraming_item _ _ _ hl hd]
  simp [stampedHdr, hk, classify, hv1, hmatch]

/-- **the reply reaches the caller** (RTU, every fragmentation), for every typed response -/
theorem response_reaches_caller_rtu (c : Client) (req : Request) (t : Transport) (r : Response) (tail frame : Bytes)
    (hk : c.kind = .rtu)
    (hr : Ready c t (rtuFrame c.unit (encodeResponsePdu r) ++ tail))
    (hs : responsePduSizeRaw r ≤ 253) (ht : ∀ fc d, r ≠ .custom fc d) (hfc : r.functionCode.value < 0x80)
    (hmatch : r.functionCode.value = req.functionCode.value)
    (henc : clientEncode .rtu (stampedHdr c) req = .ok frame) :
    ∃ c' t', c.call req t none = (.done (.ok (pad8 r)), c', t', [.write frame]) := by
  have hc : r.canonical := by cases r <;> first | trivial | exact absurd rfl (ht _ _)
  have hd : decodeResponsePdu (encodeResponsePdu r) = .ok (.ok (pad8 r)) := rsp_pdu_roundtrip r hs hc hfc
  have hlen : ∀ rest, responsePduLen (rtuFrame c.unit (encodeResponsePdu r) ++ rest)
      = .ok (some (encodeResponsePdu r).length) := by
    intro rest
    have := Modbus.Props.C11.response_table_agrees c.unit r rest hs ht
    simpa [rtuFrame, List.append_assoc] using this
  have hfne : frame ≠ [] := by
    have := Modbus.Props.C04.rtu_emit_request _ req frame henc
    rw [this]; simp
  obtain ⟨c', t', h, _⟩ := call_generic rtuClientFraming c req t _ tail frame hk hr
    ⟨_, _, _, rfl, hlen, hd⟩ (by simp [rtuFrame]) henc hfne
  refine ⟨c', t', ?_⟩
  rw [h, rtuClientFraming_item _ _ _ hlen hd]
  simp [stampedHdr, hk, classify, pad8_functionCode, hmatch]

/-- **the exception reaches the caller** (RTU, every fragmentation) -/
theorem exception_reaches_caller_rtu (c : Client) (req : Request) (t : Transport) (fc : FunctionCode)
    (e : ExceptionCode) (tail frame : Bytes) (hk : c.kind = .rtu)
    (hr : Ready c t (rtuFrame c.unit (encodeExceptionPdu { function := fc, exception := e }) ++ tail))
    (h1 : 1 ≤ fc.value) (h2 : fc.value ≤ 0x2B) (hmatch : fc.value = req.functionCode.value)
    (henc : clientEncode .rtu (stampedHdr c) req = .ok frame) :
    ∃ c' t' e', c.call req t none = (.done (.exception e'), c', t', [.write frame]) ∧ e'.value = e.value := by
  have hfc : fc.value < 0x80 := by
    have : ∀ v : UInt8, v ≤ 0x2B → v < 0x80 := by apply forall_u8; decide +kernel
    exact this _ h2
  obtain ⟨fc', e', hd, hv1, hv2⟩ := decodeResponsePdu_exception fc e hfc
  have hlen : ∀ rest, responsePduLen (rtuFrame c.unit (encodeExceptionPdu { function := fc, exception := e }) ++ rest)
      = .ok (some (encodeExceptionPdu { function := fc, exception := e }).length) := by
    intro rest
    have := Modbus.Props.C11.exception_table_agrees c.unit fc.value e.value rest h1 h2
    simpa [rtuFrame, encodeExceptionPdu, List.append_assoc] using this
  have hfne : frame ≠ [] := by
    have := Modbus.Props.C04.rtu_emit_request _ req frame henc
    rw [this]; simp
  obtain ⟨c', t', h, _⟩ := call_generic rtuClientFraming c req t _ tail frame hk hr
    ⟨_, _, _, rfl, hlen, hd⟩ (by simp [rtuFrame]) henc hfne
  refine ⟨c', t', e', ?_, hv2⟩
  rw [h, rtuClientFraming_item _ _ _ hlen hd]
  simp [stampedHdr, hk, classify, hv1, hmatch]

-- non-vacuity: a reply cut in two with a `Pending` in between, and the premises of
-- `response_reaches_caller_tcp` for it
example :
    ((Client.attach .tcp).call (.readHoldingRegisters 0 1)
      { reads := [.data [0, 0, 0, 0, 0], .pending, .data [5, 255, 3, 2, 0x12, 0x34]] } none).1
      = .done (.ok (.readHoldingRegisters [0x1234])) := by decide +kernel
example : Ready (Client.attach .tcp) { reads := [.data [0, 0, 0, 0, 0], .pending, .data [5, 255, 3, 2, 0x12, 0x34]] }
    (tcpFrame ⟨0, 255⟩ (encodeResponsePdu (.readHoldingRegisters [0x1234])) ++ []) :=
  ⟨⟨{}, rfl, rfl, rfl, rfl⟩, rfl, rfl, by decide, by decide⟩


/-! ### both halves together -/

/-- the bytes a connection task wrote -/
def srvWritten (tr : List SrvEvent) : Bytes := tr.flatMap fun | .write bs => bs | .call _ _ => []

/-- **end to end** (TCP): a client call, the library's server on the other side, and back.
    The client (any state with a connected, idle transport) issues `req`; what it writes reaches
    the server cut into reads in any way; the service answers call 0 with `r`; what the server
    writes reaches the client cut into reads in any way.  Then the service was handed exactly
    `req` under the client's unit id, once, and the call returns exactly `r` (bits padded to
    whole bytes). -/
theorem end_to_end_tcp (c : Client) (req : Request) (r : Response) (svc : Service) (tc ts : Transport)
    (frame : Bytes) (hk : c.kind = .tcp)
    (hs : requestPduSizeRaw req ≤ 253) (hc : req.canonical)
    (hrs : responsePduSizeRaw r ≤ 253) (hrc : r.canonical) (hfc : r.functionCode.value < 0x80)
    (hmatch : r.functionCode.value = req.functionCode.value)
    (hsvc : svc 0 c.unit req = .reply r)
    (henc : clientEncode .tcp (stampedHdr c) req = .ok frame)
    -- the server's transport delivers the client's frame
    (hsw : ts.writes = []) (hsf : ts.flushes = []) (hsfeed : ∀ e ∈ ts.reads, e.isFeed = true)
    (hsdata : dataOf ts.reads = frame)
    -- the client's transport delivers what the server wrote
    (hr : Ready c tc (srvWritten (process .tcp svc ts).2.1)) :
    (process .tcp svc ts).2.1
        = [.call c.unit req, .write (tcpFrame ⟨c.nextTid, c.unit⟩ (encodeResponsePdu r))]
    ∧ ∃ c' t', c.call req tc none = (.done (.ok (pad8 r)), c', t', [.write frame]) := by
  have hst : stampedHdr c = { tid := c.nextTid, unit := c.unit } := by simp [stampedHdr, hk]
  have henc' : tcpEncodeRequest ⟨c.nextTid, c.unit⟩ req = .ok frame := by
    simpa [clientEncode, hst] using henc
  have hframe := (Modbus.Props.C05.tcp_emit_request _ req frame henc').1
  have hrl : (encodeResponsePdu r).length ≤ 253 := by rw [encodeResponsePdu_length]; exact hrs
  have hrenc := (Modbus.Props.C09.response_intact ⟨c.nextTid, c.unit⟩ 0 r hrl).1
  -- the server side
  have hsrv := Modbus.Props.C07.serves_every_request_tcp svc [(⟨c.nextTid, c.unit⟩, req)] ts
    (by simpa using hs) (by simpa using hc) hsw hsf hsfeed (by simpa [hframe] using hsdata)
    (by
      simp only [List.map_cons, List.map_nil, Encodable, and_true]
      intro rsp h
      simp only [hsvc, responseFor, Option.some.injEq] at h
      subst h
      exact ⟨_, by simpa [serverEncode] using hrenc, by simp [tcpFrame, be16]⟩)
  have htrace : (process .tcp svc ts).2.1
      = [.call c.unit req, .write (tcpFrame ⟨c.nextTid, c.unit⟩ (encodeResponsePdu r))] := by
    rw [hsrv.2]
    simp [expectedTrace, replyEvents, hsvc, responseFor, serverEncode, hrenc]
  refine ⟨htrace, ?_⟩
  -- the client side
  rw [htrace] at hr
  have hr' : Ready c tc (tcpFrame ⟨c.nextTid, c.unit⟩ (encodeResponsePdu r) ++ []) := by
    simpa [srvWritten] using hr
  exact response_reaches_caller_tcp c req tc r [] frame hk hr' hrs hrc hfc hmatch henc


/-- **end to end** (RTU: RTU-over-TCP and the serial line – one codec, one loop) -/
theorem end_to_end_rtu (c : Client) (req : Request) (r : Response) (svc : Service) (tc ts : Transport)
    (frame : Bytes) (hk : c.kind = .rtu)
    (hs : requestPduSizeRaw req ≤ 253) (hc : ∀ fc d, req ≠ .custom fc d)
    (hrs : responsePduSizeRaw r ≤ 253) (hrc : ∀ fc d, r ≠ .custom fc d) (hfc : r.functionCode.value < 0x80)
    (hmatch : r.functionCode.value = req.functionCode.value)
    (hsvc : svc 0 c.unit req = .reply r)
    (henc : clientEncode .rtu (stampedHdr c) req = .ok frame)
    (hsw : ts.writes = []) (hsf : ts.flushes = []) (hsfeed : ∀ e ∈ ts.reads, e.isFeed = true)
    (hsdata : dataOf ts.reads = frame)
    (hr : Ready c tc (srvWritten (process .rtu svc ts).2.1)) :
    (process .rtu svc ts).2.1 = [.call c.unit req, .write (rtuFrame c.unit (encodeResponsePdu r))]
    ∧ ∃ c' t', c.call req tc none = (.done (.ok (pad8 r)), c', t', [.write frame]) := by
  have hst : stampedHdr c = { tid := 0, unit := c.unit } := by simp [stampedHdr, hk]
  have henc' : rtuEncodeRequest c.unit req = .ok frame := by
    simpa [clientEncode, hst] using henc
  have hframe : frame = rtuFrame c.unit (encodeRequestPdu req) := by
    rw [Modbus.Props.C04.rtu_emit_request _ req frame henc']; simp [rtuFrame]
  have hrl : (encodeResponsePdu r).length ≤ 253 := by rw [encodeResponsePdu_length]; exact hrs
  have hrenc := (Modbus.Props.C09.response_intact ⟨0, 0⟩ c.unit r hrl).2.1
  have hrenc' : rtuEncodeResponse c.unit (.ok r) = .ok (rtuFrame c.unit (encodeResponsePdu r)) := by
    rw [hrenc]; simp [rtuFrame]
  have hsrv := Modbus.Props.C07.serves_every_request_rtu svc [(c.unit, req)] ts
    (by simpa using hs) (by simpa using hc) hsw hsf hsfeed (by simpa [hframe] using hsdata)
    (by
      simp only [List.map_cons, List.map_nil, Encodable, and_true]
      intro rsp h
      simp only [hsvc, responseFor, Option.some.injEq] at h
      subst h
      exact ⟨_, by simpa [serverEncode] using hrenc', by simp [rtuFrame]⟩)
  have htrace : (process .rtu svc ts).2.1
      = [.call c.unit req, .write (rtuFrame c.unit (encodeResponsePdu r))] := by
    rw [hsrv.2]
    simp [expectedTrace, replyEvents, hsvc, responseFor, serverEncode, hrenc']
  refine ⟨htrace, ?_⟩
  rw [htrace] at hr
  have hr' : Ready c tc (rtuFrame c.unit (encodeResponsePdu r) ++ []) := by
    simpa [srvWritten] using hr
  exact response_reaches_caller_rtu c req tc r [] frame hk hr' hrs hrc hfc hmatch henc


/-- **end to end, the service fails the request** (TCP): the exception the service returns comes
    back to the caller as the inner error of the call, with the same code -/
theorem end_to_end_exception_tcp (c : Client) (req : Request) (e : ExceptionCode) (svc : Service)
    (tc ts : Transport) (frame : Bytes) (hk : c.kind = .tcp)
    (hs : requestPduSizeRaw req ≤ 253) (hc : req.canonical) (hfc : req.functionCode.value < 0x80)
    (hsvc : svc 0 c.unit req = .exception e)
    (henc : clientEncode .tcp (stampedHdr c) req = .ok frame)
    (hsw : ts.writes = []) (hsf : ts.flushes = []) (hsfeed : ∀ x ∈ ts.reads, x.isFeed = true)
    (hsdata : dataOf ts.reads = frame)
    (hr : Ready c tc (srvWritten (process .tcp svc ts).2.1)) :
    (process .tcp svc ts).2.1
        = [.call c.unit req, .write (tcpFrame ⟨c.nextTid, c.unit⟩
            (encodeExceptionPdu { function := req.functionCode, exception := e }))]
    ∧ ∃ c' t' e', c.call req tc none = (.done (.exception e'), c', t', [.write frame]) ∧ e'.value = e.value := by
  have hst : stampedHdr c = { tid := c.nextTid, unit := c.unit } := by simp [stampedHdr, hk]
  have henc' : tcpEncodeRequest ⟨c.nextTid, c.unit⟩ req = .ok frame := by
    simpa [clientEncode, hst] using henc
  have hframe := (Modbus.Props.C05.tcp_emit_request _ req frame henc').1
  have hrenc : tcpEncodeResponse ⟨c.nextTid, c.unit⟩ (.error { function := req.functionCode, exception := e })
      = .ok (tcpFrame ⟨c.nextTid, c.unit⟩ (encodeExceptionPdu { function := req.functionCode, exception := e })) := by
    simp [tcpEncodeResponse, responseResultPduSize, encodeResponseResultAsserts, encodeExceptionAsserts, hfc,
      encodeResponseResultPdu, tcpFrame, mbap, encodeExceptionPdu]
  have hsrv := Modbus.Props.C07.serves_every_request_tcp svc [(⟨c.nextTid, c.unit⟩, req)] ts
    (by simpa using hs) (by simpa using hc) hsw hsf hsfeed (by simpa [hframe] using hsdata)
    (by
      simp only [List.map_cons, List.map_nil, Encodable, and_true]
      intro rsp h
      simp only [hsvc, responseFor, Option.some.injEq] at h
      subst h
      exact ⟨_, by simpa [serverEncode] using hrenc, by simp [tcpFrame, be16]⟩)
  have htrace : (process .tcp svc ts).2.1
      = [.call c.unit req, .write (tcpFrame ⟨c.nextTid, c.unit⟩
          (encodeExceptionPdu { function := req.functionCode, exception := e }))] := by
    rw [hsrv.2]
    simp [expectedTrace, replyEvents, hsvc, responseFor, serverEncode, hrenc]
  refine ⟨htrace, ?_⟩
  rw [htrace] at hr
  have hr' : Ready c tc (tcpFrame ⟨c.nextTid, c.unit⟩
      (encodeExceptionPdu { function := req.functionCode, exception := e }) ++ []) := by
    simpa [srvWritten] using hr
  exact exception_reaches_caller_tcp c req tc req.functionCode e [] frame hk hr' hfc rfl henc

-- non-vacuity: a fresh TCP client reads two holding registers from a server whose service answers
-- [0x1234, 0x5678]; the request reaches the server in two reads, the reply the client in three
example :
    let svc : Service := fun _ _ _ => .reply (.readHoldingRegisters [0x1234, 0x5678])
    let ts : Transport := { reads := [.data [0, 0, 0, 0, 0, 6, 0xFF], .data [3, 0, 7, 0, 2]] }
    srvWritten (process .tcp svc ts).2.1 = [0, 0, 0, 0, 0, 7, 0xFF, 3, 4, 0x12, 0x34, 0x56, 0x78]
    ∧ ((Client.attach .tcp).call (.readHoldingRegisters 7 2)
        { reads := [.data [0, 0, 0, 0], .pending, .data [0, 7, 0xFF, 3, 4, 0x12], .data [0x34, 0x56, 0x78]] } none).1
      = .done (.ok (.readHoldingRegisters [0x1234, 0x5678])) := by
  decide +kernel

end Modbus.Props.C02
