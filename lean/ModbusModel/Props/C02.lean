import ModbusModel.Lemmas.RoundTripRsp
import ModbusModel.Lemmas.Tcp
import ModbusModel.Model.Client
/-
  C02 – Responses and exceptions reach the caller exactly as the service produced them.
-/
namespace Modbus.Props.C02
open Modbus

/-- **rsp_roundtrip**: every response within the PDU limit decodes from its wire form to an
    equal value: register data unchanged, bit data in order and padded with `false` to a
    whole byte -/
theorem rsp_roundtrip (r : Response) (hs : responsePduSizeRaw r ≤ 253) (hc : r.canonical) :
    decodeResponse (encodeResponsePdu r) = .ok (pad8 r) := decodeResponse_encode r hs hc

/-- … and through `ResponsePdu::try_from` (the entry point of both client codecs) -/
theorem rsp_pdu_roundtrip (r : Response) (hs : responsePduSizeRaw r ≤ 253) (hc : r.canonical)
    (hfc : r.functionCode.value < 0x80) :
    decodeResponsePdu (encodeResponseResultPdu (.ok r)) = .ok (.ok (pad8 r)) := by
  have h := decodeResponse_encode r hs hc
  have hhead : (encodeResponsePdu r).head? = some r.functionCode.value := by cases r <;> rfl
  simp only [encodeResponseResultPdu]
  match he : encodeResponsePdu r, hhead with
  | fc :: rest, hh =>
    simp only [List.head?_cons, Option.some.injEq] at hh
    rw [he] at h
    subst hh
    simp [decodeResponsePdu, hfc, h, Res.map]

/-- **exception round trip**: all 256 exception codes, any request function code below 0x80 -/
theorem exception_roundtrip (fc : FunctionCode) (e : ExceptionCode) (h : fc.value < 0x80) :
    ∃ fc' e', decodeResponsePdu (encodeResponseResultPdu (.error { function := fc, exception := e }))
        = .ok (.error { function := fc', exception := e' })
      ∧ fc'.value = fc.value ∧ e'.value = e.value :=
  decodeResponsePdu_exception fc e h

/-- the caller receives the exception as inner error with the same numeric code: the client's
    verdict on such a reply under the right header is `exception e'` with `e'.value = e.value` -/
theorem exception_reaches_caller (hdr : Hdr) (req : Request) (fc' : FunctionCode) (e' : ExceptionCode)
    (hfc : fc'.value = req.functionCode.value) :
    classify hdr req.functionCode hdr (.error { function := fc', exception := e' }) = .exception e' := by
  simp [classify, hfc]

/-- a response of the request's own function code under the right header is returned as is -/
theorem response_reaches_caller (hdr : Hdr) (req : Request) (r : Response)
    (hfc : r.functionCode.value = req.functionCode.value) :
    classify hdr req.functionCode hdr (.ok r) = .ok r := by
  simp [classify, hfc]

/-- padding does not change the function code -/
theorem pad8_functionCode (r : Response) : (pad8 r).functionCode = r.functionCode := by
  cases r <;> rfl

/-- the typed bit reads cut the padding off again: exactly the requested coils come back -/
theorem typed_bits_unpadded (cs : List Bool) (cnt : UInt16) (h : cs.length = cnt.toNat) :
    takeCoils cnt (padBits cs) = .ok cs := by
  unfold takeCoils padBits
  have : ¬ ((cs ++ List.replicate (packedCoilsSize cs.length * 8 - cs.length) false).length < cnt.toNat) := by
    simp; omega
  simp only [this, if_false]
  rw [← h, List.take_left']
  rfl

/-- **client side of the TCP exchange**: the reply frame the server writes for a response (its
    MBAP frame), followed by anything, decodes on the client to that response (padded) under
    the same transaction and unit id -/
theorem client_decodes_reply_tcp (hdr : TcpHeader) (r : Response) (rest : Bytes)
    (hs : responsePduSizeRaw r ≤ 253) (hc : r.canonical) (hfc : r.functionCode.value < 0x80) :
    tcpClientDecode (tcpFrame hdr (encodeResponseResultPdu (.ok r)) ++ rest)
      = (.ok (some (hdr, .ok (pad8 r))), rest) := by
  have hl : (encodeResponseResultPdu (.ok r)).length < 65535 := by
    simp only [encodeResponseResultPdu]; rw [encodeResponsePdu_length]; omega
  simp [tcpClientDecode, aduDecode_complete hdr _ rest hl, rsp_pdu_roundtrip r hs hc hfc, Res.map]

-- non-vacuity
example : decodeResponse (encodeResponsePdu (.readCoils [true, false, true]))
    = .ok (.readCoils [true, false, true, false, false, false, false, false]) := by decide +kernel
example : decodeResponsePdu (encodeExceptionPdu ⟨.custom 8, .custom 1⟩)
    = .ok (.error ⟨.diagnostics, .illegalFunction⟩) := by decide

end Modbus.Props.C02
