import ModbusModel.Lemmas.Write
import ModbusModel.Lemmas.Rtu
import ModbusModel.Lemmas.Tcp
import ModbusModel.Lemmas.Fault
import ModbusModel.Lemmas.ClientFraming
import ModbusModel.Lemmas.WriteFault
import ModbusModel.Model.Sync
/-
  C13 – Transport faults surface as transport errors, never as data.
-/
namespace Modbus.Props.C13
open Modbus

/-- **write_fault / write_granularity (prefix)**: whatever the transport does – errors,
    zero-length writes, small pieces, pending – the bytes it accepted during a call are a
    prefix of (old write buffer ++ this call's frame), in order, nothing twice -/
theorem written_is_prefix (c : Client) (req : Request) (t : Transport) (b : Budget) :
    ∃ x, (x = [] ∨ clientEncode c.kind (stampedHdr c) req = .ok x)
      ∧ writtenBytes (c.call req t b).2.2.2 <+: c.wbuf ++ x := by
  obtain ⟨x, hx, h⟩ := call_write_invariant c req t b
  exact ⟨x, hx, ⟨_, h⟩⟩

/-- **write_granularity (complete)**: a send phase that ends without error has handed over
    exactly the buffered bytes – the frame, once and in order – however small the pieces
    the transport accepted and however often it answered `Pending` -/
theorem send_hands_over_everything (fuel : Nat) (w : Bytes) (t : Transport) (b : Budget)
    (h : (awaitFlush fuel w t b []).1 = .done none) :
    writtenBytes (awaitFlush fuel w t b []).2.2.2.2 = w := by
  have he := awaitFlush_done_empty fuel w t b [] h
  have hc := awaitFlush_conserves fuel w t b []
  rw [he, List.append_nil] at hc
  simpa [writtenBytes] using hc

/-- a write error or a zero-length write ends the flush with that very error -/
theorem write_fault_surfaces (w : Bytes) (t : Transport) (ws : List WriteEv) (hw : w ≠ []) :
    (∀ k, t.writes = .err k :: ws → (pollFlush w t).1 = .error k ∧ (pollFlush w t).2.2.2 = [])
    ∧ (t.writes = .zero :: ws → (pollFlush w t).1 = .error .writeZero ∧ (pollFlush w t).2.2.2 = []) := by
  constructor
  · intro k h; simp [pollFlush, pollFlushFuel, hw, h]
  · intro h; simp [pollFlush, pollFlushFuel, hw, h]

/-- **read_fault (TCP)**: the MBAP decoder delivers only when a whole frame is buffered: a
    reply cut short at any offset cannot become a delivered frame -/
theorem tcp_no_item_from_partial (hdr : TcpHeader) (pdu p : Bytes) (h : pdu.length < 65535)
    (hp : p <+: tcpFrame hdr pdu) (hne : p ≠ tcpFrame hdr pdu) :
    aduDecode p = (.ok none, p) := aduDecode_prefix_waits hdr pdu p h hp hne

/-- **read_fault (RTU)**: whatever the RTU decoder delivers is a CRC-valid slice that is
    completely present in the buffer -/
theorem rtu_item_is_whole_frame (fd : FrameDecoder) (buf : Bytes) (slave : UInt8) (pdu : Bytes)
    (h : (rtuDecode responsePduLen fd buf).1 = .ok (some (slave, pdu))) :
    ∃ dropped, buf = dropped ++ (slave :: pdu ++ crcBytes (slave :: pdu)) ++ (rtuDecode responsePduLen fd buf).2.2 := by
  obtain ⟨dropped, _, hs⟩ := (rtuDecodeLoop_outcome responsePduLen 65538 responsePduLen_lenFn (by omega) MAX_RETRIES fd buf).shape
  unfold rtuDecode at h ⊢
  rw [h] at hs
  exact ⟨dropped, hs⟩

/-- at end of stream, bytes that do not make a frame are an error ("bytes remaining on
    stream"), never an item; an empty buffer is the orderly end -/
theorem eof_with_partial_is_error {σ ι} (D : Decoder σ ι) (s s' : σ) (buf b' : Bytes)
    (h : D.decode s buf = (.ok none, s', b')) :
    (D.decodeEof s buf).1 = if b'.isEmpty then .ok none else .err .other := by
  unfold Decoder.decodeEof
  rw [h]
  simp only
  split <;> simp_all

/-- the result of a call is a function of the client state, the request and what the
    transport does – there is no other input (no ambient process state) -/
theorem deterministic (c : Client) (req : Request) (t₁ t₂ : Transport) (b : Budget) (h : t₁ = t₂) :
    c.call req t₁ b = c.call req t₂ b := by rw [h]

-- non-vacuity: end of stream before the first reply byte, inside the reply, a read error
example : ((Client.attach .tcp).call .reportServerId { reads := [.eof] }).1 = .done (.transport .brokenPipe) := by
  decide +kernel
example : ((Client.attach .tcp).call .reportServerId { reads := [.data [0, 0, 0, 0, 0, 5], .eof] }).1
    = .done (.transport .other) := by decide +kernel
example : ((Client.attach .rtu).call .reportServerId { reads := [.data [0, 0x11], .err (.injected 1)] }).1
    = .done (.transport (.injected 1)) := by decide +kernel
example : ((Client.attach .rtu).call .reportServerId { writes := [.accept 2, .zero] }).1
    = .done (.transport .writeZero) := by decide +kernel

/-- **read_fault, every offset, every fragmentation** (TCP): the reply – any MBAP frame whose PDU
    the decoder would accept – arrives only up to some byte offset (`q ≠ []` is missing), cut into
    reads in any way; then the transport reports an error `kk`, or the end of the stream.  The
    call returns the transport error `kk`, resp. a closed-connection / "bytes remaining" transport
    error – never success built from the partial frame. -/
theorem fault_mid_reply_tcp (c : Client) (req : Request) (t : Transport) (feeds rest : List ReadEv)
    (fault : ReadEv) (q frame : Bytes) (hdr : TcpHeader) (pdu : Bytes) (res : ResponseResult)
    (hk : c.kind = .tcp)
    (hr : ∃ f, c.framed = some f ∧ f.wbuf = [] ∧ f.read.hasErrored = false ∧ f.read.eof = false)
    (htw : t.writes = []) (htf : t.flushes = [])
    (hreads : t.reads = feeds ++ fault :: rest) (hfeed : ∀ e ∈ feeds, e.isFeed = true)
    (hq : q ≠ []) (hcut : dataOf feeds ++ q = tcpFrame hdr pdu)
    (hl : pdu.length < 65535) (hd : decodeResponsePdu pdu = .ok res)
    (henc : clientEncode .tcp (stampedHdr c) req = .ok frame) (hfne : frame ≠ []) :
    match fault with
    | .err kk => (c.call req t none).1 = .done (.transport kk)
    | .eof => (c.call req t none).1 = .done (.transport .brokenPipe) ∨ (c.call req t none).1 = .done (.transport .other)
    | _ => True :=
  call_fault_mid_reply tcpClientFraming c req t feeds rest fault q frame hk hr htw htf hreads hfeed hq
    (by rw [hcut]; exact ⟨hdr, pdu, res, hl, hd, rfl⟩) henc hfne

/-- **read_fault, every offset, every fragmentation** (RTU) -/
theorem fault_mid_reply_rtu (c : Client) (req : Request) (t : Transport) (feeds rest : List ReadEv)
    (fault : ReadEv) (q frame : Bytes) (slave : UInt8) (pdu : Bytes) (res : ResponseResult)
    (hk : c.kind = .rtu)
    (hr : ∃ f, c.framed = some f ∧ f.wbuf = [] ∧ f.read.hasErrored = false ∧ f.read.eof = false)
    (htw : t.writes = []) (htf : t.flushes = [])
    (hreads : t.reads = feeds ++ fault :: rest) (hfeed : ∀ e ∈ feeds, e.isFeed = true)
    (hq : q ≠ []) (hcut : dataOf feeds ++ q = rtuFrame slave pdu)
    (hlen : ∀ x, responsePduLen (rtuFrame slave pdu ++ x) = .ok (some pdu.length))
    (hd : decodeResponsePdu pdu = .ok res)
    (henc : clientEncode .rtu (stampedHdr c) req = .ok frame) (hfne : frame ≠ []) :
    match fault with
    | .err kk => (c.call req t none).1 = .done (.transport kk)
    | .eof => (c.call req t none).1 = .done (.transport .brokenPipe) ∨ (c.call req t none).1 = .done (.transport .other)
    | _ => True :=
  call_fault_mid_reply rtuClientFraming c req t feeds rest fault q frame hk hr htw htf hreads hfeed hq
    (by rw [hcut]; exact ⟨slave, pdu, res, rfl, hlen, hd⟩) henc hfne

/-- **write_fault, every offset, every granularity, every pending pattern** (whole call, both
    transports): the transport takes fewer bytes than the request frame has – in the pieces and
    with the `Pending`s of the script `ps` – and then fails with `Err(kind)` or a zero-length
    write: the call returns exactly that error as a transport error, and what reached the
    transport is exactly the first `accepted ps` bytes of the frame -/
theorem fault_mid_request (c : Client) (f : ClientFramed) (req : Request) (t : Transport)
    (ps : List (Option Nat)) (fault : WriteEv) (kf : ErrKind) (rest : List WriteEv) (frame : Bytes)
    (hf : c.framed = some f) (hw : f.wbuf = [])
    (hk : fault.faultKind = some kf)
    (ht : t.writes = pieceEvents ps ++ fault :: rest)
    (hpos : ∀ n, some n ∈ ps → 0 < n) (hacc : accepted ps < frame.length)
    (henc : clientEncode c.kind (stampedHdr c) req = .ok frame) :
    (c.call req t none).1 = .done (.transport kf)
    ∧ writtenBytes (c.call req t none).2.2.2 = frame.take (accepted ps) :=
  call_write_fault c f req t ps fault kf rest frame hf hw hk ht hpos hacc henc

-- non-vacuity: a reply cut after 9 of 11 bytes, then a read error / the end of the stream
example :
    ((Client.attach .tcp).call (.readHoldingRegisters 0 1)
      { reads := [.data [0, 0, 0, 0, 0], .pending, .data [5, 255, 3, 2], .err (.injected 7)] } none).1
      = .done (.transport (.injected 7)) := by decide +kernel
example :
    ((Client.attach .tcp).call (.readHoldingRegisters 0 1)
      { reads := [.data [0, 0, 0, 0, 0], .pending, .data [5, 255, 3, 2], .eof] } none).1
      = .done (.transport .other) := by decide +kernel

-- … and a request of which 3 + 4 of 12 bytes are taken (a `Pending` in between) before a zero-length write
example :
    ((Client.attach .tcp).call (.readHoldingRegisters 0 1)
      { writes := [.accept 3, .pending, .accept 4, .zero] } none).1
      = .done (.transport .writeZero) := by decide +kernel
example : pieceEvents [some 3, none, some 4] = [.accept 3, .pending, .accept 4] ∧ accepted [some 3, none, some 4] = 7 := by
  decide

/-! ### Through the blocking client -/

/-- **blocking_data_is_async_data**: the blocking wrapper never manufactures data: whenever a
    blocking call reports anything other than a transport error – a response, an exception, a
    mismatch – the asynchronous call underneath finished with exactly that result; an unfinished
    call (timed out, or never able to finish) is a TimedOut transport error -/
theorem blocking_data_is_async_data (s : SyncContext) (req : Request) (t : Transport)
    (deadline : Budget) :
    (∀ k, (s.call req t deadline).1 ≠ .transport k) →
      (s.asyncCtx.call req t (if s.timeout then deadline else none)).1 = .done (s.call req t deadline).1 := by
  intro h
  cases ho : (s.asyncCtx.call req t (if s.timeout then deadline else none)).1 with
  | done r => simp [SyncContext.call, ho, withTimeout]
  | abandoned => exact absurd (by simp [SyncContext.call, ho, withTimeout]) (h .timedOut)
  | blocked => exact absurd (by simp [SyncContext.call, ho, withTimeout]) (h .timedOut)

/-- **blocking_fault_surfaces**: a transport error of the asynchronous call is the same transport
    error of the blocking call (so every fault theorem above carries over verbatim) -/
theorem blocking_fault_surfaces (s : SyncContext) (req : Request) (t : Transport)
    (deadline : Budget) (k : ErrKind)
    (h : (s.asyncCtx.call req t (if s.timeout then deadline else none)).1 = .done (.transport k)) :
    (s.call req t deadline).1 = .transport k := by
  simp [SyncContext.call, h, withTimeout]

/-- … instantiated: a reply cut by a read error at any offset, in any fragmentation, through a
    blocking TCP client without timeout, is that error -/
theorem blocking_fault_mid_reply_tcp (c : Client) (req : Request) (t : Transport)
    (feeds rest : List ReadEv) (kk : ErrKind) (q frame : Bytes) (hdr : TcpHeader) (pdu : Bytes)
    (res : ResponseResult) (deadline : Budget)
    (hk : c.kind = .tcp)
    (hr : ∃ f, c.framed = some f ∧ f.wbuf = [] ∧ f.read.hasErrored = false ∧ f.read.eof = false)
    (htw : t.writes = []) (htf : t.flushes = [])
    (hreads : t.reads = feeds ++ .err kk :: rest) (hfeed : ∀ e ∈ feeds, e.isFeed = true)
    (hq : q ≠ []) (hcut : dataOf feeds ++ q = tcpFrame hdr pdu)
    (hl : pdu.length < 65535) (hd : decodeResponsePdu pdu = .ok res)
    (henc : clientEncode .tcp (stampedHdr c) req = .ok frame) (hfne : frame ≠ []) :
    (({ asyncCtx := c, timeout := false } : SyncContext).call req t deadline).1 = .transport kk := by
  apply blocking_fault_surfaces
  have := fault_mid_reply_tcp c req t feeds rest (.err kk) q frame hdr pdu res hk hr htw htf hreads
    hfeed hq hcut hl hd henc hfne
  simpa using this

end Modbus.Props.C13
