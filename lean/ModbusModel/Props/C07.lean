import ModbusModel.Model.Server
import ModbusModel.Lemmas.Encode
import ModbusModel.Lemmas.Tcp
/-
  C07 – The server answers every request once, in order, under the request's own header.
-/
namespace Modbus.Props.C07
open Modbus

/-- a service error becomes an exception reply for the request's function code with the
    service's exception code; a declined request gets no reply at all -/
theorem response_for (fc : FunctionCode) (r : Response) (e : ExceptionCode) :
    responseFor fc (.reply r) = some (.ok r)
    ∧ responseFor fc (.exception e) = some (.error { function := fc, exception := e })
    ∧ responseFor fc .decline = none := by
  simp [responseFor]

/-- the exception PDU on the wire: function code with the high bit set, then the code -/
theorem exception_wire (req : Request) (e : ExceptionCode) (hfc : req.functionCode.value < 0x80) :
    encodeResponseResultPdu (.error { function := req.functionCode, exception := e })
      = [req.functionCode.value ||| 0x80, e.value] := by
  simp only [encodeResponseResultPdu, encodeExceptionPdu]
  congr 1
  -- adding 0x80 to a value below 0x80 sets the high bit
  generalize req.functionCode.value = v at hfc
  revert v
  apply forall_u8
  decide +kernel

/-- the reply frame carries the request's own header (TCP: transaction id and unit id) -/
theorem reply_under_request_header_tcp (h : Hdr) (rsp : ResponseResult) (bytes : Bytes)
    (he : serverEncode .tcp h rsp = .ok bytes) :
    bytes = tcpFrame { transactionId := h.tid, unitId := h.unit } (encodeResponseResultPdu rsp) := by
  simp only [serverEncode, tcpEncodeResponse] at he
  split at he
  · simp at he
  · rename_i n hs
    split at he
    · simp only [Res.ok.injEq] at he
      subst he
      cases rsp with
      | ok r =>
        simp only [responseResultPduSize] at hs
        obtain ⟨_, hn, _⟩ := responseAsserts_of_size r n hs
        simp [tcpFrame, mbap, encodeResponseResultPdu, encodeResponsePdu_length, ← hn]
      | error e =>
        simp only [responseResultPduSize, Option.some.injEq] at hs
        subst hs
        simp [tcpFrame, mbap, encodeResponseResultPdu, encodeExceptionPdu]
    · simp at he

/-- … and over RTU the request's slave id -/
theorem reply_under_request_header_rtu (h : Hdr) (rsp : ResponseResult) (bytes : Bytes)
    (he : serverEncode .rtu h rsp = .ok bytes) :
    bytes = (h.unit :: encodeResponseResultPdu rsp) ++ crcBytes (h.unit :: encodeResponseResultPdu rsp) := by
  simp only [serverEncode, rtuEncodeResponse] at he
  split at he
  · simp at he
  · split at he <;> simp at he
    exact he.symm

/-- one iteration of the loop for an answered request: the service is called first, then the
    reply is handed to the framing layer; the next request is looked at only afterwards -/
theorem answered_step (k : Kind) (svc : Service) (fuel idx : Nat) (f : ServerFramed) (t : Transport)
    (tr : List SrvEvent) (hdr : Hdr) (req : Request) (fd : FrameDecoder) (r : ReadFrame) (evs : List ReadEv)
    (rsp : ResponseResult) (frame : Bytes)
    (h : awaitNext (serverDecoder k) f.fd f.read t.reads = (.item (hdr, req), fd, r, evs))
    (hs : responseFor req.functionCode (svc idx hdr.unit req) = some rsp)
    (he : serverEncode k hdr rsp = .ok frame)
    (hw : f.wbuf = []) (htw : t.writes = []) (htf : t.flushes = []) (hne : frame ≠ []) :
    processLoop k svc (fuel + 1) idx f t tr
      = processLoop k svc fuel (idx + 1) { f with read := r, fd := fd, wbuf := [] } { t with reads := evs }
          (tr ++ [.call hdr.unit req] ++ [.write frame]) := by
  have hfl : ∀ (n : Nat) (t' : Transport), t'.writes = [] → t'.flushes = [] →
      processLoop.awaitFlushS (n + 1) frame t' = (none, [], t', [.write frame]) := by
    intro n t' h1 h2
    unfold processLoop.awaitFlushS pollFlush
    have hl : frame.length + 1 = (frame.length - 1 + 1) + 1 := by
      have : 0 < frame.length := List.length_pos_iff.mpr hne
      omega
    rw [hl]
    simp [pollFlushFuel, hne, h1, h2]
  simp only [processLoop, h, hs, hw, he]
  simp only [BACKPRESSURE_BOUNDARY, List.length_nil, htw, htf, Nat.zero_add, ge_iff_le,
    Nat.not_succ_le_zero, if_false, List.nil_append]
  have h8 : ¬ (8192 ≤ 0) := by omega
  simp only [h8, if_false, List.nil_append]
  rw [show (1 : Nat) = 0 + 1 from rfl, hfl 0 _ rfl rfl]
  simp [effectsToEvents]

-- non-vacuity: two pipelined requests in one read, an exception and a reply
example :
    (process .tcp (fun i _ _ => if i = 0 then .exception .illegalDataAddress else .reply (.readCoils [true]))
      { reads := [.data [0, 1, 0, 0, 0, 6, 7, 1, 0, 0, 0, 1,  0, 2, 0, 0, 0, 6, 9, 1, 0, 5, 0, 1]] }).2.1
    = [.call 7 (.readCoils 0 1), .write [0, 1, 0, 0, 0, 3, 7, 0x81, 2],
       .call 9 (.readCoils 5 1), .write [0, 2, 0, 0, 0, 4, 9, 1, 1, 1]] := by
  decide +kernel

end Modbus.Props.C07
