import ModbusModel.Model.Server
import ModbusModel.Lemmas.Encode
import ModbusModel.Lemmas.Tcp
import ModbusModel.Props.C01
import ModbusModel.Lemmas.Serve
import ModbusModel.Lemmas.IndependentSrv
import ModbusModel.Lemmas.ServePieces
/-
  C07 – The server answers every request once, in order, under the request's own header.
-/
namespace Modbus.Props.C07
open Modbus Modbus.Props.C01

/-- a service error becomes an exception reply for the request's function code with the
    service's exception code; a declined request gets no reply at all -/
theorem response_for (fc : FunctionCode) (r : Response) (e : ExceptionCode) :
    responseFor fc (.reply r) = some (.ok r)
    ∧ responseFor fc (.exception e) = some (.error { function := fc, exception := e })
    ∧ responseFor fc .decline = none := by
  simp [responseFor]

/-- the exception PDU on the wire: function code with the high bit set, then the code -/
theorem exception_wire (req : Request) (e : ExceptionCode) (hfc : req.functionCode.value < 0x80) :
    encodeResponseResultPdu (.error { function := req.functionCode, exception := e })
      = [req.functionCode.value ||| 0x80, e.value] := by
  simp only [encodeResponseResultPdu, encodeExceptionPdu]
  congr 1
  -- adding 0x80 to a value below 0x80 sets the high bit
  generalize req.functionCode.value = v at hfc
  revert v
  apply forall_u8
  decide +kernel

/-- the reply frame carries the request's own header (TCP: transaction id and unit id) -/
theorem reply_under_request_header_tcp (h : Hdr) (rsp : ResponseResult) (bytes : Bytes)
    (he : serverEncode .tcp h rsp = .ok bytes) :
    bytes = tcpFrame { transactionId := h.tid, unitId := h.unit } (encodeResponseResultPdu rsp) := by
  simp only [serverEncode, tcpEncodeResponse] at he
  split at he
  · simp at he
  · rename_i n hs
    split at he
    · simp only [Res.ok.injEq] at he
      subst he
      cases rsp with
      | ok r =>
        simp only [responseResultPduSize] at hs
        obtain ⟨_, hn, _⟩ := responseAsserts_of_size r n hs
        simp [tcpFrame, mbap, encodeResponseResultPdu, encodeResponsePdu_length, ← hn]
      | error e =>
        simp only [responseResultPduSize, Option.some.injEq] at hs
        subst hs
        simp [tcpFrame, mbap, encodeResponseResultPdu, encodeExceptionPdu]
    · simp at he

/-- … and over RTU the request's slave id -/
theorem reply_under_request_header_rtu (h : Hdr) (rsp : ResponseResult) (bytes : Bytes)
    (he : serverEncode .rtu h rsp = .ok bytes) :
    bytes = (h.unit :: encodeResponseResultPdu rsp) ++ crcBytes (h.unit :: encodeResponseResultPdu rsp) := by
  simp only [serverEncode, rtuEncodeResponse] at he
  split at he
  · simp at he
  · split at he <;> simp at he
    exact he.symm

/-- one iteration of the loop for an answered request: the service is called first, then the
    reply is handed to the framing layer; the next request is looked at only afterwards -/
theorem answered_step (k : Kind) (svc : Service) (fuel idx : Nat) (f : ServerFramed) (t : Transport)
    (tr : List SrvEvent) (hdr : Hdr) (req : Request) (fd : FrameDecoder) (r : ReadFrame) (evs : List ReadEv)
    (rsp : ResponseResult) (frame : Bytes)
    (h : awaitNext (serverDecoder k) f.fd f.read t.reads = (.item (hdr, req), fd, r, evs))
    (hs : responseFor req.functionCode (svc idx hdr.unit req) = some rsp)
    (he : serverEncode k hdr rsp = .ok frame)
    (hw : f.wbuf = []) (htw : t.writes = []) (htf : t.flushes = []) (hne : frame ≠ []) :
    processLoop k svc (fuel + 1) idx f t tr
      = processLoop k svc fuel (idx + 1) { f with read := r, fd := fd, wbuf := [] } { t with reads := evs }
          (tr ++ [.call hdr.unit req] ++ [.write frame]) := by
  have hfl : ∀ (n : Nat) (t' : Transport), t'.writes = [] → t'.flushes = [] →
      processLoop.awaitFlushS (n + 1) frame t' = (none, [], t', [.write frame]) := by
    intro n t' h1 h2
    unfold processLoop.awaitFlushS pollFlush
    have hl : frame.length + 1 = (frame.length - 1 + 1) + 1 := by
      have : 0 < frame.length := List.length_pos_iff.mpr hne
      omega
    rw [hl]
    simp [pollFlushFuel, hne, h1, h2]
  simp only [processLoop, h, hs, hw, he]
  simp only [BACKPRESSURE_BOUNDARY, List.length_nil, htw, htf, Nat.zero_add, ge_iff_le,
    Nat.not_succ_le_zero, if_false, List.nil_append]
  have h8 : ¬ (8192 ≤ 0) := by omega
  simp only [h8, if_false, List.nil_append]
  rw [show (1 : Nat) = 0 + 1 from rfl, hfl 0 _ rfl rfl]
  simp [effectsToEvents]

/-- **every request once, in order, each answered before the next is looked at** (TCP): -/
theorem serves_every_request_tcp (svc : Service) (reqs : List (TcpHeader × Request)) (t : Transport)
    (hs : ∀ p ∈ reqs, requestPduSizeRaw p.2 ≤ 253) (hc : ∀ p ∈ reqs, p.2.canonical)
    (hw : t.writes = []) (hf : t.flushes = []) (hfeed : ∀ e ∈ t.reads, e.isFeed = true)
    (hdata : dataOf t.reads = (reqs.map fun p => tcpFrame p.1 (encodeRequestPdu p.2)).flatten)
    (henc : Encodable .tcp svc 0 (reqs.map fun p => ({ tid := p.1.transactionId, unit := p.1.unitId }, p.2))) :
    (process .tcp svc t).1 = .blocked
    ∧ (process .tcp svc t).2.1
        = expectedTrace .tcp svc 0 (reqs.map fun p => ({ tid := p.1.transactionId, unit := p.1.unitId }, p.2)) := by
  have hitems : (reqs.map fun p => tcpFrame p.1 (encodeRequestPdu p.2)).map tcpServerFraming.item
      = reqs.map fun p => ({ tid := p.1.transactionId, unit := p.1.unitId }, p.2) := by
    rw [List.map_map]
    apply List.map_congr_left
    intro p hp
    have h3 := server_decodes_request_tcp p.1 p.2 [] (hs p hp) (hc p hp)
    simp only [List.append_nil] at h3
    simp [tcpServerFraming, Framing.ofStrict, h3]
  have hv : ∀ x ∈ (reqs.map fun p => tcpFrame p.1 (encodeRequestPdu p.2)), tcpServerFraming.Valid x := by
      intro x hx
      obtain ⟨p, hp, rfl⟩ := List.mem_map.mp hx
      exact ⟨p.1, p.2, hs p hp, hc p hp, rfl⟩
  have hne : ∀ x ∈ (reqs.map fun p => tcpFrame p.1 (encodeRequestPdu p.2)), x ≠ [] := by
      intro x hx
      obtain ⟨p, _, rfl⟩ := List.mem_map.mp hx
      simp [tcpFrame, be16]
  have henc' : Encodable .tcp svc 0 ((reqs.map fun p => tcpFrame p.1 (encodeRequestPdu p.2)).map tcpServerFraming.item) := by
    rw [hitems]; exact henc
  have H0 := process_serves .tcp tcpServerFraming svc (reqs.map fun p => tcpFrame p.1 (encodeRequestPdu p.2)) t
  have H := H0 hv hne hw hf hfeed hdata henc'
  rw [hitems] at H
  exact H

/-- the same over RTU (RTU-over-TCP and serial: one loop, one codec) -/
theorem serves_every_request_rtu (svc : Service) (reqs : List (UInt8 × Request)) (t : Transport)
    (hs : ∀ p ∈ reqs, requestPduSizeRaw p.2 ≤ 253) (ht : ∀ p ∈ reqs, ∀ fc d, p.2 ≠ .custom fc d)
    (hw : t.writes = []) (hf : t.flushes = []) (hfeed : ∀ e ∈ t.reads, e.isFeed = true)
    (hdata : dataOf t.reads = (reqs.map fun p => rtuFrame p.1 (encodeRequestPdu p.2)).flatten)
    (henc : Encodable .rtu svc 0 (reqs.map fun p => ({ tid := 0, unit := p.1 }, p.2))) :
    (process .rtu svc t).1 = .blocked
    ∧ (process .rtu svc t).2.1 = expectedTrace .rtu svc 0 (reqs.map fun p => ({ tid := 0, unit := p.1 }, p.2)) := by
  have hitems : (reqs.map fun p => rtuFrame p.1 (encodeRequestPdu p.2)).map rtuServerFraming.item
      = reqs.map fun p => ({ tid := 0, unit := p.1 }, p.2) := by
    rw [List.map_map]
    apply List.map_congr_left
    intro p hp
    have h3 := server_decodes_request_rtu {} p.1 p.2 [] (hs p hp) (ht p hp)
    simp only [List.append_nil] at h3
    simp [rtuServerFraming, Framing.ofStrict, h3]
  have hv : ∀ x ∈ (reqs.map fun p => rtuFrame p.1 (encodeRequestPdu p.2)), rtuServerFraming.Valid x := by
      intro x hx
      obtain ⟨p, hp, rfl⟩ := List.mem_map.mp hx
      exact ⟨p.1, p.2, hs p hp, ht p hp, rfl⟩
  have hne : ∀ x ∈ (reqs.map fun p => rtuFrame p.1 (encodeRequestPdu p.2)), x ≠ [] := by
      intro x hx
      obtain ⟨p, _, rfl⟩ := List.mem_map.mp hx
      simp [rtuFrame]
  have henc' : Encodable .rtu svc 0 ((reqs.map fun p => rtuFrame p.1 (encodeRequestPdu p.2)).map rtuServerFraming.item) := by
    rw [hitems]; exact henc
  have H0 := process_serves .rtu rtuServerFraming svc (reqs.map fun p => rtuFrame p.1 (encodeRequestPdu p.2)) t
  have H := H0 hv hne hw hf hfeed hdata henc'
  rw [hitems] at H
  exact H


/-- what the expected trace shows for one request: the reply written for it is the encoding of
    the service's answer under that request's own header – or nothing if the service declines -/
theorem reply_events_spec (k : Kind) (svc : Service) (idx : Nat) (h : Hdr) (q : Request) :
    replyEvents k svc idx h q =
      match responseFor q.functionCode (svc idx h.unit q) with
      | none => []
      | some rsp => match serverEncode k h rsp with
        | .ok frame => [.write frame]
        | _ => [] := rfl

/-- the expected trace lists the calls in arrival order, each exactly once -/
theorem expectedTrace_calls (k : Kind) (svc : Service) : ∀ (idx : Nat) (reqs : List (Hdr × Request)),
    (expectedTrace k svc idx reqs).filterMap (fun | .call u q => some (u, q) | _ => none)
      = reqs.map fun p => (p.1.unit, p.2) := by
  intro idx reqs
  induction reqs generalizing idx with
  | nil => rfl
  | cons p ps ih =>
    obtain ⟨h, q⟩ := p
    have hr : (replyEvents k svc idx h q).filterMap (fun | .call u q => some (u, q) | _ => none) = [] := by
      unfold replyEvents
      split
      · rfl
      · split <;> rfl
    simp [expectedTrace, List.filterMap_append, hr, ih]

-- non-vacuity: two pipelined requests in one read, an exception and a reply
example :
    (process .tcp (fun i _ _ => if i = 0 then .exception .illegalDataAddress else .reply (.readCoils [true]))
      { reads := [.data [0, 1, 0, 0, 0, 6, 7, 1, 0, 0, 0, 1,  0, 2, 0, 0, 0, 6, 9, 1, 0, 5, 0, 1]] }).2.1
    = [.call 7 (.readCoils 0 1), .write [0, 1, 0, 0, 0, 3, 7, 0x81, 2],
       .call 9 (.readCoils 5 1), .write [0, 2, 0, 0, 0, 4, 9, 1, 1, 1]] := by
  decide +kernel

/-- **… also when the transport takes the replies piecewise** (TCP): the write side accepts each
    reply in any number of partial writes with any `Pending`s between them (`plans`: for each
    reply the pieces that leave something over and the write that takes the rest).  The
    connection still hands every request to the service once, in arrival order, and writes for
    each – before the next request is looked at – exactly the bytes of its one reply:
    what it shows `Refines` the expected trace, so the calls are the same calls and the bytes on
    the wire the same bytes in the same order. -/
theorem serves_every_request_in_pieces_tcp (svc : Service) (reqs : List (TcpHeader × Request)) (t : Transport)
    (plans : Plan)
    (hs : ∀ p ∈ reqs, requestPduSizeRaw p.2 ≤ 253) (hc : ∀ p ∈ reqs, p.2.canonical)
    (hw : t.writes = scriptOf (expectedTrace .tcp svc 0
        (reqs.map fun p => ({ tid := p.1.transactionId, unit := p.1.unitId }, p.2))) plans)
    (hplan : PlanOk (expectedTrace .tcp svc 0
        (reqs.map fun p => ({ tid := p.1.transactionId, unit := p.1.unitId }, p.2))) plans)
    (hf : t.flushes = []) (hfeed : ∀ e ∈ t.reads, e.isFeed = true)
    (hdata : dataOf t.reads = (reqs.map fun p => tcpFrame p.1 (encodeRequestPdu p.2)).flatten)
    (henc : Encodable .tcp svc 0 (reqs.map fun p => ({ tid := p.1.transactionId, unit := p.1.unitId }, p.2))) :
    (process .tcp svc t).1 = .blocked
    ∧ Refines (process .tcp svc t).2.1
        (expectedTrace .tcp svc 0 (reqs.map fun p => ({ tid := p.1.transactionId, unit := p.1.unitId }, p.2)))
    ∧ callsOf (process .tcp svc t).2.1 = reqs.map (fun p => (p.1.unitId, p.2))
    ∧ writtenOf (process .tcp svc t).2.1
        = writtenOf (expectedTrace .tcp svc 0 (reqs.map fun p => ({ tid := p.1.transactionId, unit := p.1.unitId }, p.2))) := by
  have hitems : (reqs.map fun p => tcpFrame p.1 (encodeRequestPdu p.2)).map tcpServerFraming.item
      = reqs.map fun p => ({ tid := p.1.transactionId, unit := p.1.unitId }, p.2) := by
    rw [List.map_map]
    apply List.map_congr_left
    intro p hp
    have h3 := server_decodes_request_tcp p.1 p.2 [] (hs p hp) (hc p hp)
    simp only [List.append_nil] at h3
    simp [tcpServerFraming, Framing.ofStrict, h3]
  have hv : ∀ x ∈ (reqs.map fun p => tcpFrame p.1 (encodeRequestPdu p.2)), tcpServerFraming.Valid x := by
      intro x hx
      obtain ⟨p, hp, rfl⟩ := List.mem_map.mp hx
      exact ⟨p.1, p.2, hs p hp, hc p hp, rfl⟩
  have hne : ∀ x ∈ (reqs.map fun p => tcpFrame p.1 (encodeRequestPdu p.2)), x ≠ [] := by
      intro x hx
      obtain ⟨p, _, rfl⟩ := List.mem_map.mp hx
      simp [tcpFrame, be16]
  have H0 := process_serves_pieces .tcp tcpServerFraming svc (reqs.map fun p => tcpFrame p.1 (encodeRequestPdu p.2)) t plans
  rw [hitems] at H0
  obtain ⟨H1, H2⟩ := H0 hv hne hw hplan hf hfeed hdata henc
  refine ⟨H1, H2, ?_, H2.written⟩
  rw [H2.calls]
  rw [callsOf_expectedTrace, List.map_map]
  rfl

/-- the same over RTU -/
theorem serves_every_request_in_pieces_rtu (svc : Service) (reqs : List (UInt8 × Request)) (t : Transport)
    (plans : Plan)
    (hs : ∀ p ∈ reqs, requestPduSizeRaw p.2 ≤ 253) (ht : ∀ p ∈ reqs, ∀ fc d, p.2 ≠ .custom fc d)
    (hw : t.writes = scriptOf (expectedTrace .rtu svc 0 (reqs.map fun p => ({ tid := 0, unit := p.1 }, p.2))) plans)
    (hplan : PlanOk (expectedTrace .rtu svc 0 (reqs.map fun p => ({ tid := 0, unit := p.1 }, p.2))) plans)
    (hf : t.flushes = []) (hfeed : ∀ e ∈ t.reads, e.isFeed = true)
    (hdata : dataOf t.reads = (reqs.map fun p => rtuFrame p.1 (encodeRequestPdu p.2)).flatten)
    (henc : Encodable .rtu svc 0 (reqs.map fun p => ({ tid := 0, unit := p.1 }, p.2))) :
    (process .rtu svc t).1 = .blocked
    ∧ Refines (process .rtu svc t).2.1 (expectedTrace .rtu svc 0 (reqs.map fun p => ({ tid := 0, unit := p.1 }, p.2)))
    ∧ callsOf (process .rtu svc t).2.1 = reqs
    ∧ writtenOf (process .rtu svc t).2.1
        = writtenOf (expectedTrace .rtu svc 0 (reqs.map fun p => ({ tid := 0, unit := p.1 }, p.2))) := by
  have hitems : (reqs.map fun p => rtuFrame p.1 (encodeRequestPdu p.2)).map rtuServerFraming.item
      = reqs.map fun p => ({ tid := 0, unit := p.1 }, p.2) := by
    rw [List.map_map]
    apply List.map_congr_left
    intro p hp
    have h3 := server_decodes_request_rtu {} p.1 p.2 [] (hs p hp) (ht p hp)
    simp only [List.append_nil] at h3
    simp [rtuServerFraming, Framing.ofStrict, h3]
  have hv : ∀ x ∈ (reqs.map fun p => rtuFrame p.1 (encodeRequestPdu p.2)), rtuServerFraming.Valid x := by
      intro x hx
      obtain ⟨p, hp, rfl⟩ := List.mem_map.mp hx
      exact ⟨p.1, p.2, hs p hp, ht p hp, rfl⟩
  have hne : ∀ x ∈ (reqs.map fun p => rtuFrame p.1 (encodeRequestPdu p.2)), x ≠ [] := by
      intro x hx
      obtain ⟨p, _, rfl⟩ := List.mem_map.mp hx
      simp [rtuFrame]
  have H0 := process_serves_pieces .rtu rtuServerFraming svc (reqs.map fun p => rtuFrame p.1 (encodeRequestPdu p.2)) t plans
  rw [hitems] at H0
  obtain ⟨H1, H2⟩ := H0 hv hne hw hplan hf hfeed hdata henc
  refine ⟨H1, H2, ?_, H2.written⟩
  rw [H2.calls]
  rw [callsOf_expectedTrace, List.map_map]
  simp [Function.comp_def]

-- non-vacuity: the two pipelined requests again; the first reply goes out as 4 + 2 + 3 bytes
-- with `Pending`s between, the second as 1 + 9
example :
    (process .tcp (fun i _ _ => if i = 0 then .exception .illegalDataAddress else .reply (.readCoils [true]))
      { reads := [.data [0, 1, 0, 0, 0, 6, 7, 1, 0, 0, 0, 1,  0, 2, 0, 0, 0, 6, 9, 1, 0, 5, 0, 1]],
        writes := scriptOf [.call 7 (.readCoils 0 1), .write [0, 1, 0, 0, 0, 3, 7, 0x81, 2],
                            .call 9 (.readCoils 5 1), .write [0, 2, 0, 0, 0, 4, 9, 1, 1, 1]]
                    [([some 4, none, some 2, none, none], 100), ([some 1], 20)] }).2.1
    = [.call 7 (.readCoils 0 1), .write [0, 1, 0, 0], .write [0, 3], .write [7, 0x81, 2],
       .call 9 (.readCoils 5 1), .write [0], .write [2, 0, 0, 0, 4, 9, 1, 1, 1]] := by
  decide +kernel
example : PlanOk [.call 7 (.readCoils 0 1), .write [0, 1, 0, 0, 0, 3, 7, 0x81, 2],
                  .call 9 (.readCoils 5 1), .write [0, 2, 0, 0, 0, 4, 9, 1, 1, 1]]
    [([some 4, none, some 2, none, none], 100), ([some 1], 20)] := by
  simp [PlanOk, accepted]

/-- **no request leaves anything behind for the next** (beyond unsent bytes and unread input):
    two states of a connection with the same unsent bytes and read frames the next poll cannot
    tell apart – whatever decoder state, readiness flag or dropped-byte record the requests
    served so far have left – treat the rest of the stream identically: same calls, same
    replies, same end, same transport afterwards.  (The harness's connection-prefix independence
    monitor checks the same statement on the implementation.) -/
theorem rest_of_connection_independent_of_past (k : Kind) (svc : Service) (fuel idx : Nat)
    (f₁ f₂ : ServerFramed) (t : Transport) (tr : List SrvEvent)
    (ha : f₁.read.Alike f₂.read) (hw : f₁.wbuf = f₂.wbuf) :
    (processLoop k svc fuel idx f₁ t tr).1 = (processLoop k svc fuel idx f₂ t tr).1
    ∧ (processLoop k svc fuel idx f₁ t tr).2.1 = (processLoop k svc fuel idx f₂ t tr).2.1
    ∧ (processLoop k svc fuel idx f₁ t tr).2.2.2 = (processLoop k svc fuel idx f₂ t tr).2.2.2 :=
  processLoop_independent_of_past k svc fuel idx f₁ f₂ t tr ha hw

-- non-vacuity: a connection that has just served a request (its frame decoder has been used,
-- its read frame is marked readable) and a fresh one are alike
example : ({ isReadable := true } : ReadFrame).Alike {} := Or.inr ⟨rfl, rfl, rfl, rfl, rfl, rfl⟩

end Modbus.Props.C07
