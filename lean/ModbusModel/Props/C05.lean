import ModbusModel.Lemmas.Tcp
import ModbusModel.Lemmas.Chunking
import ModbusModel.Lemmas.Encode
/-
  C05 – Modbus TCP framing reassembles exact frames and rejects invalid MBAP headers.
-/
namespace Modbus.Props.C05
open Modbus

/-- the MBAP frame decoder as a `tokio_util` decoder (it has no state) -/
def aduDecoder : Decoder Unit (TcpHeader × Bytes) :=
  { decode := fun _ buf => ((aduDecode buf).1, (), (aduDecode buf).2) }

/-- well-formed Modbus TCP frames: protocol identifier 0, length field = PDU length + 1 -/
def ValidTcp (f : Bytes) : Prop := ∃ hdr pdu, pdu.length < 65535 ∧ f = tcpFrame hdr pdu

/-- the (transaction id, unit id, PDU) a frame carries -/
def frameItem (f : Bytes) : TcpHeader × Bytes :=
  match aduDecode f with
  | (.ok (some x), _) => x
  | _ => default

theorem frameItem_tcpFrame (hdr : TcpHeader) (pdu : Bytes) (h : pdu.length < 65535) :
    frameItem (tcpFrame hdr pdu) = (hdr, pdu) := by
  have := aduDecode_complete hdr pdu [] h
  simp only [List.append_nil] at this
  simp [frameItem, this]

/-- the two decoder facts the chunking theorem needs, for MBAP -/
def tcpFraming : Framing aduDecoder :=
  Framing.ofStrict ValidTcp frameItem
    (by
      rintro s f rest ⟨hdr, pdu, hl, rfl⟩
      refine ⟨(), ?_⟩
      have h1 := aduDecode_complete hdr pdu rest hl
      have h2 := frameItem_tcpFrame hdr pdu hl
      show ((aduDecode (tcpFrame hdr pdu ++ rest)).1, (), (aduDecode (tcpFrame hdr pdu ++ rest)).2) = _
      rw [h1, h2])
    (by
      rintro s f p ⟨hdr, pdu, hl, rfl⟩ hp hne
      refine ⟨(), ?_⟩
      have h1 := aduDecode_prefix_waits hdr pdu p hl hp hne
      show ((aduDecode p).1, (), (aduDecode p).2) = _
      rw [h1])

theorem tcpFrame_ne_nil (hdr : TcpHeader) (pdu : Bytes) : tcpFrame hdr pdu ≠ [] := by
  simp [tcpFrame, be16]

/-- **tcp_chunking**: any concatenation of well-formed frames, split across reads in any way
    (with any number of `Pending`s), followed by anything, is delivered frame by frame: each
    exactly once, in order, with its transaction id, unit id and PDU intact; afterwards the
    reader holds exactly the bytes that follow the frames. -/
theorem tcp_chunking (frames : List (TcpHeader × Bytes)) (evs : List ReadEv) (tail : Bytes)
    (hsize : ∀ p ∈ frames, p.2.length < 65535)
    (hfeed : ∀ e ∈ evs, e.isFeed = true)
    (hdata : dataOf evs = (frames.map fun p => tcpFrame p.1 p.2).flatten ++ tail) :
    ∃ r' evs', pullN aduDecoder frames.length () {} evs = (frames.map .item, (), r', evs')
      ∧ r'.buffer ++ dataOf evs' = tail := by
  have hv : ∀ f ∈ frames.map (fun p => tcpFrame p.1 p.2), tcpFraming.Valid f := by
    intro f hf
    obtain ⟨p, hp, rfl⟩ := List.mem_map.mp hf
    exact ⟨p.1, p.2, hsize p hp, rfl⟩
  have hne : ∀ f ∈ frames.map (fun p => tcpFrame p.1 p.2), f ≠ [] := by
    intro f hf
    obtain ⟨p, _, rfl⟩ := List.mem_map.mp hf
    exact tcpFrame_ne_nil _ _
  have r0e : ({} : ReadFrame).hasErrored = false := rfl
  have r0q : ({} : ReadFrame).eof = false := rfl
  have r0b : ({} : ReadFrame).isReadable = false → ({} : ReadFrame).buffer = [] := fun _ => rfl
  have hd0 : ({} : ReadFrame).buffer ++ dataOf evs
      = (frames.map fun p => tcpFrame p.1 p.2).flatten ++ tail := by
    show [] ++ dataOf evs = _
    rw [List.nil_append]; exact hdata
  have H := stream_delivers (D := aduDecoder) tcpFraming
    (frames.map fun p => tcpFrame p.1 p.2) evs () ({} : ReadFrame) tail
  have H2 := H hv hne hfeed r0e r0q r0b hd0
  obtain ⟨s', r', evs', h1, h2, _⟩ := H2
  refine ⟨r', evs', ?_, h2⟩
  have hitems : (frames.map fun p => tcpFrame p.1 p.2).map (fun f => Polled.item (tcpFraming.item f))
      = frames.map .item := by
    rw [List.map_map]
    apply List.map_congr_left
    intro p hp
    simp only [Function.comp]
    congr 1
    exact frameItem_tcpFrame p.1 p.2 (hsize p hp)
  rw [hitems, List.length_map] at h1
  exact h1

/-- nothing is delivered before a frame is complete: on a strict prefix of a frame the
    decoder answers "need more" and leaves the buffer as it is -/
theorem nothing_before_complete (hdr : TcpHeader) (pdu p : Bytes) (h : pdu.length < 65535)
    (hp : p <+: tcpFrame hdr pdu) (hne : p ≠ tcpFrame hdr pdu) :
    aduDecode p = (.ok none, p) :=
  aduDecode_prefix_waits hdr pdu p h hp hne

/-- nothing is taken from the bytes of the next frame -/
theorem next_frame_untouched (hdr : TcpHeader) (pdu rest : Bytes) (h : pdu.length < 65535) :
    aduDecode (tcpFrame hdr pdu ++ rest) = (.ok (some (hdr, pdu)), rest) :=
  aduDecode_complete hdr pdu rest h

/-- whatever is delivered is a well-formed frame at the head of the buffer -/
theorem delivered_is_frame (buf : Bytes) (hdr : TcpHeader) (pdu rest : Bytes)
    (h : aduDecode buf = (.ok (some (hdr, pdu)), rest)) :
    buf = tcpFrame hdr pdu ++ rest ∧ pdu.length < 65535 :=
  aduDecode_delivers buf hdr pdu rest h

/-- **tcp_rejects** (zero length): an error, never a frame -/
theorem zero_length_rejected (t0 t1 p0 p1 u : UInt8) (rest : Bytes) :
    (aduDecode (t0 :: t1 :: p0 :: p1 :: 0 :: 0 :: u :: rest)).1 = .err .invalidData := by
  rw [aduDecode_zero_length]

/-- **tcp_rejects** (protocol identifier): a frame that is complete by its own length field and
    carries a non-zero protocol identifier is an error, never a frame; while it is incomplete
    nothing is delivered -/
theorem bad_protocol_rejected (t0 t1 p0 p1 l0 l1 u : UInt8) (rest : Bytes) (hp : rd16 p0 p1 ≠ 0) :
    ∀ x, (aduDecode (t0 :: t1 :: p0 :: p1 :: l0 :: l1 :: u :: rest)).1 ≠ .ok (some x) := by
  intro x h
  unfold aduDecode at h
  simp only at h
  split at h
  · simp at h
  · split at h
    · simp at h
    · simp at h

/-- **tcp_emit** (requests): protocol identifier 0, length field = PDU length + 1, then the PDU -/
theorem tcp_emit_request (hdr : TcpHeader) (r : Request) (bytes : Bytes)
    (h : tcpEncodeRequest hdr r = .ok bytes) :
    bytes = tcpFrame hdr (encodeRequestPdu r) ∧ (encodeRequestPdu r).length ≤ 253 := by
  unfold tcpEncodeRequest at h
  split at h
  · simp at h
  · rename_i n hs
    obtain ⟨ha, hn, hle⟩ := requestAsserts_of_size r n hs
    simp only [ha, if_true, Res.ok.injEq] at h
    subst h
    exact ⟨by simp [tcpFrame, mbap, encodeRequestPdu_length, ← hn], by rw [encodeRequestPdu_length, ← hn]; exact hle⟩

/-- **tcp_emit** (responses and exceptions) -/
theorem tcp_emit_response (hdr : TcpHeader) (r : ResponseResult) (bytes : Bytes)
    (h : tcpEncodeResponse hdr r = .ok bytes) :
    bytes = tcpFrame hdr (encodeResponseResultPdu r) ∧ (encodeResponseResultPdu r).length ≤ 253 := by
  unfold tcpEncodeResponse at h
  split at h
  · simp at h
  · rename_i n hs
    split at h
    · simp only [Res.ok.injEq] at h
      subst h
      cases r with
      | ok rsp =>
        simp only [responseResultPduSize] at hs
        obtain ⟨_, hn, hle⟩ := responseAsserts_of_size rsp n hs
        simp only [encodeResponseResultPdu]
        exact ⟨by simp [tcpFrame, mbap, encodeResponsePdu_length, ← hn], by rw [encodeResponsePdu_length, ← hn]; exact hle⟩
      | error e =>
        simp only [responseResultPduSize, Option.some.injEq] at hs
        subst hs
        simp [encodeResponseResultPdu, encodeExceptionPdu, tcpFrame, mbap]
    · simp at h

-- non-vacuity: two pipelined frames cut into odd pieces with a Pending in between
example :
    pullN aduDecoder 2 () {} [.data [0x00, 0x01, 0x00], .pending, .data [0x00, 0x00, 0x02, 0xFF, 0x11, 0x00],
               .data [0x02, 0x00, 0x00, 0x00, 0x01, 0x07]]
      = ([.item (⟨1, 0xFF⟩, [0x11]), .item (⟨2, 7⟩, [])], (), { isReadable := true }, []) := by
  decide

end Modbus.Props.C05
