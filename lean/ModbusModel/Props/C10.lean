import ModbusModel.Lemmas.Client
import ModbusModel.Props.C17
/-
  C10 – TCP transaction identifiers are fresh for every transmitted request.
-/
namespace Modbus.Props.C10
open Modbus

/-- number of calls of a history whose future is polled at least once -/
def polledCalls (ops : List Op) : Nat := (ops.filter Op.isPolledCall).length

/-- one operation: the id advances by one exactly for a polled call -/
theorem step_tid (c : Client) (t : Transport) (op : Op) (hk : c.kind = .tcp) :
    (stepOp c t op).2.1.nextTid = c.nextTid + UInt16.ofNat (if op.isPolledCall then 1 else 0)
    ∧ (stepOp c t op).2.1.kind = .tcp := by
  cases op with
  | call req ext b =>
    by_cases hb : b = some 0
    · subst hb
      simp [stepOp, call_unpolled, Op.isPolledCall, hk]
    · have h := call_frame c req (t.extend ext) b hb
      simp only [stepOp, Op.isPolledCall]
      have hb' : (b != some 0) = true := by simpa using hb
      simp [hb', h.1, h.2.1, hk]
  | setSlave id => simp [stepOp, Client.setSlave, Op.isPolledCall, hk]
  | disconnect ext =>
    simp only [stepOp, Client.disconnect, Op.isPolledCall]
    split <;> simp [hk]

/-- **tid_counts_calls**: after any history (calls with any outcome, calls rejected before
    transmission, calls on a disconnected client, abandoned calls, slave changes,
    disconnects) the id the next call stamps is the initial id plus the number of calls
    made, modulo 65536. -/
theorem tid_counts_calls (ops : List Op) (c : Client) (t : Transport) (hk : c.kind = .tcp) :
    (runOps c t ops).2.1.nextTid = c.nextTid + UInt16.ofNat (polledCalls ops)
    ∧ (runOps c t ops).2.1.kind = .tcp := by
  induction ops generalizing c t with
  | nil => simp [runOps, polledCalls, hk]
  | cons op ops ih =>
    have hs := step_tid c t op hk
    have := ih (stepOp c t op).2.1 (stepOp c t op).2.2 hs.2
    simp only [runOps]
    refine ⟨?_, this.2⟩
    rw [this.1, hs.1]
    simp only [polledCalls, List.filter_cons]
    cases op.isPolledCall <;> simp [UInt16.add_assoc]
    · apply UInt16.toNat_inj.mp
      simp [UInt16.toNat_add, UInt16.toNat_ofNat']
      omega

/-- **tid_counts_calls (blocking client)**: the same count through the blocking client, over any
    session – calls and typed methods that complete or time out at any poll, slave changes,
    timeouts switched on and off: the next id is the initial id plus the number of polled calls
    of the asynchronous session underneath -/
theorem blocking_tid_counts_calls (ops : List SyncOp) (s : SyncContext) (t : Transport)
    (hk : s.asyncCtx.kind = .tcp) :
    (runSync s t ops).2.1.asyncCtx.nextTid
      = s.asyncCtx.nextTid + UInt16.ofNat (polledCalls (asyncSession s.timeout ops))
    ∧ (runSync s t ops).2.1.asyncCtx.kind = .tcp := by
  rw [Props.C17.sync_session_simulates]
  exact tid_counts_calls _ s.asyncCtx t hk

/-- a blocking operation that issues a request -/
def isRequest : SyncOp → Bool
  | .call .. => true
  | .typed .. => true
  | _ => false

/-- without a timeout every blocking call or typed method is polled to the end: the id counts
    every one of them -/
theorem blocking_calls_all_polled (ops : List SyncOp) (hno : ∀ on, SyncOp.setTimeout on ∉ ops) :
    polledCalls (asyncSession false ops) = (ops.filter isRequest).length := by
  induction ops with
  | nil => simp [asyncSession, polledCalls]
  | cons o ops ih =>
    have ih := ih (fun on h => hno on (by simp [h]))
    simp only [polledCalls] at ih ⊢
    cases o with
    | setTimeout on => exact absurd (by simp) (hno on)
    | call req ext d =>
      simp [asyncSession, SyncOp.asyncOf, Op.isPolledCall, isRequest, List.filter_cons, ih]
    | typed top ext d =>
      simp [asyncSession, SyncOp.asyncOf, Op.isPolledCall, isRequest, List.filter_cons, ih]
    | setSlave id =>
      simp [asyncSession, SyncOp.asyncOf, Op.isPolledCall, isRequest, List.filter_cons, ih]

/-- a freshly attached client starts at 0: the n-th call (counting from 0) stamps `n mod 65536` -/
theorem nth_call_tid (ops : List Op) (t : Transport) :
    (runOps (Client.attach .tcp) t ops).2.1.nextTid = UInt16.ofNat (polledCalls ops) := by
  have := (tid_counts_calls ops (Client.attach .tcp) t rfl).1
  simpa [Client.attach] using this

/-- **tid_window_distinct**: two calls fewer than 65536 calls apart never carry the same id -/
theorem tid_window_distinct (a : UInt16) (i j : Nat) (hij : i < j) (hw : j - i < 65536) :
    a + UInt16.ofNat i ≠ a + UInt16.ofNat j := by
  intro h
  have h' := congrArg UInt16.toNat h
  simp [UInt16.toNat_add, UInt16.toNat_ofNat'] at h'
  omega

/-- consecutive calls differ by exactly one -/
theorem tid_successor (a : UInt16) (i : Nat) : a + UInt16.ofNat (i + 1) = (a + UInt16.ofNat i) + 1 := by
  apply UInt16.toNat_inj.mp
  simp [UInt16.toNat_add, UInt16.toNat_ofNat']
  omega

/-- the id a call stamps is the client's current id: a TCP call whose request fits and whose
    transport accepts everything writes exactly the frame with that id and the selected unit -/
theorem call_stamps_current_tid (c : Client) (f : ClientFramed) (req : Request) (t : Transport)
    (hk : c.kind = .tcp) (hf : c.framed = some f) (hw : f.wbuf = []) (n : Nat)
    (hs : requestPduSize req = some n) (ha : encodeRequestAsserts req = true)
    (htw : t.writes = []) (htf : t.flushes = []) :
    writtenBytes (c.call req t).2.2.2
      = mbap { transactionId := c.nextTid, unitId := c.unit } n ++ encodeRequestPdu req := by
  unfold Client.call
  simp [hk, hf, hw, awaitReady, BACKPRESSURE_BOUNDARY, clientEncode, tcpEncodeRequest, hs, ha,
    htw, htf, awaitFlush]
  have hne : mbap { transactionId := c.nextTid, unitId := c.unit } n ++ encodeRequestPdu req ≠ [] := by
    simp [mbap, be16]
  have hfl : pollFlush (mbap { transactionId := c.nextTid, unitId := c.unit } n ++ encodeRequestPdu req) t
      = (.ready, [], t, [.write (mbap { transactionId := c.nextTid, unitId := c.unit } n ++ encodeRequestPdu req)]) := by
    unfold pollFlush
    simp only [List.length_append]
    rw [show (mbap { transactionId := c.nextTid, unitId := c.unit } n).length + (encodeRequestPdu req).length + 1
        = ((mbap { transactionId := c.nextTid, unitId := c.unit } n).length + (encodeRequestPdu req).length - 1 + 1) + 1 by
          have : 0 < (mbap { transactionId := c.nextTid, unitId := c.unit } n).length := by simp [mbap, be16]
          omega]
    simp [pollFlushFuel, hne, htw, htf]
  simp [hfl]
  (repeat' split) <;> simp_all [writtenBytes]

-- non-vacuity: a concrete history with a rejected call, a slave change and a disconnect
example :
    (runOps (Client.attach .tcp) {}
      [.call .reportServerId {} none, .setSlave 7, .call (.custom 0x41 (List.replicate 300 0)) {} none,
       .call .reportServerId {} (some 0), .disconnect {}, .call .reportServerId {} none]).2.1.nextTid = 3 := by
  rw [nth_call_tid]; decide

end Modbus.Props.C10
