import ModbusModel.Lemmas.Client
import ModbusModel.Lemmas.Call
import ModbusModel.Lemmas.ClientFraming
import ModbusModel.Model.Sync
/-
  C06 – A client call succeeds only for the response that answers its request.
-/
namespace Modbus.Props.C06
open Modbus

/-- numeric function code of a decoded reply (normal or exception) -/
def replyFc : ResponseResult → UInt8
  | .ok r => r.functionCode.value
  | .error e => e.function.value

/-- **call_classifies**: the verdict on a decoded reply, stated outright. -/
theorem classify_spec (reqHdr rspHdr : Hdr) (reqFc : FunctionCode) (res : ResponseResult) :
    classify reqHdr reqFc rspHdr res =
      if rspHdr ≠ reqHdr then .headerMismatch res
      else if replyFc res ≠ reqFc.value then .fnMismatch res
      else match res with
        | .ok r => .ok r
        | .error e => .exception e.exception := by
  unfold classify replyFc
  by_cases h : reqHdr = rspHdr
  · subst h; cases res <;> simp <;> split <;> simp_all [eq_comm]
  · have h' : rspHdr ≠ reqHdr := fun e => h e.symm
    simp [h, h']

/-- success (a response or an exception as inner error) only for a reply with the same
    header and numerically the same function code -/
theorem success_only_if (reqHdr rspHdr : Hdr) (reqFc : FunctionCode) (res : ResponseResult) :
    (∀ r, classify reqHdr reqFc rspHdr res = .ok r →
        rspHdr = reqHdr ∧ res = .ok r ∧ r.functionCode.value = reqFc.value)
    ∧ (∀ e, classify reqHdr reqFc rspHdr res = .exception e →
        rspHdr = reqHdr ∧ ∃ f, res = .error { function := f, exception := e } ∧ f.value = reqFc.value) := by
  rw [classify_spec]
  constructor
  · intro r h
    split at h
    · simp at h
    · split at h
      · simp at h
      · cases res <;> simp_all [replyFc]
  · intro e h
    split at h
    · simp at h
    · split at h
      · simp at h
      · cases res with
        | ok r => simp at h
        | error x => cases x; simp_all [replyFc]

/-- a reply with another header is a header mismatch carrying the decoded reply;
    one with the right header but another function code a function-code mismatch -/
theorem mismatch_reported (reqHdr rspHdr : Hdr) (reqFc : FunctionCode) (res : ResponseResult) :
    (rspHdr ≠ reqHdr → classify reqHdr reqFc rspHdr res = .headerMismatch res)
    ∧ (rspHdr = reqHdr → replyFc res ≠ reqFc.value → classify reqHdr reqFc rspHdr res = .fnMismatch res) := by
  rw [classify_spec]
  constructor
  · intro h; simp [h]
  · intro h1 h2; simp [h1, h2]

/-- **call_result_classified**: from any client state and for any transport behaviour, whatever a
    call returns that is not a transport error (or a panic) is the verdict of `classify` on a
    decoded reply, judged against the header this very call stamped and the request's own
    function code. -/
theorem call_result_classified (c : Client) (req : Request) (t : Transport) (b : Budget) (x : CallResult)
    (h : (c.call req t b).1 = .done x) :
    (∃ k, x = .transport k) ∨ x = .panic
    ∨ ∃ rspHdr res, x = classify (stampedHdr c) req.functionCode rspHdr res := by
  unfold Client.call at h
  unfold stampedHdr
  by_cases hb : b = some 0
  · simp [hb] at h
  · simp only [hb, if_false] at h
    cases hk : c.kind <;> simp only [hk] at h ⊢ <;>
    · revert h
      (repeat' split) <;> intro h <;> simp_all <;>
      first
        | (subst h; simp)
        | (subst h; exact Or.inr (Or.inr ⟨_, _, rfl⟩))

/-- … and that reply was decoded from bytes the response decoder accepted: the verdict is never
    about anything but a decoded reply PDU -/
theorem call_result_decoded (c : Client) (req : Request) (t : Transport) (b : Budget) (x : CallResult)
    (h : (c.call req t b).1 = .done x) :
    (∃ k, x = .transport k) ∨ x = .panic
    ∨ ∃ rspHdr res, x = classify (stampedHdr c) req.functionCode rspHdr res
        ∧ ∃ pdu, decodeResponsePdu pdu = .ok res := by
  unfold Client.call at h
  unfold stampedHdr
  by_cases hb : b = some 0
  · simp [hb] at h
  · simp only [hb, if_false] at h
    cases hk : c.kind <;> simp only [hk] at h ⊢ <;>
    · revert h
      (repeat' split) <;> intro h <;> simp_all <;>
      first
        | (subst h; simp; done)
        | (subst h
           refine Or.inr (Or.inr ⟨_, _, rfl, ?_⟩)
           rename_i heq
           exact clientDecoder_yields _ _ _ (awaitNextB_yields _ _ _ _ _ _ _ (congrArg Prod.fst heq)))

-- non-vacuity
example : classify ⟨3, 7⟩ (.custom 8) ⟨3, 7⟩ (.error ⟨.diagnostics, .illegalFunction⟩) = .exception .illegalFunction := by decide
example : classify ⟨3, 7⟩ .readCoils ⟨4, 7⟩ (.ok (.readCoils [])) = .headerMismatch (.ok (.readCoils [])) := by decide
example : classify ⟨3, 7⟩ .readCoils ⟨3, 7⟩ (.ok (.readDiscreteInputs [])) = .fnMismatch (.ok (.readDiscreteInputs [])) := by decide

/-- **the verdict on whatever reply arrives** (TCP, whole call, every fragmentation): the transport
    delivers – cut into reads in any way, with anything behind it – an MBAP frame under ANY
    header whose PDU decodes to `res`.  The call returns exactly the verdict of `classify_spec`:
    a header mismatch when transaction or unit id differ from what this call stamped, else a
    function-code mismatch when the codes differ, else the response / the exception. -/
theorem reply_verdict_tcp (c : Client) (req : Request) (t : Transport) (hdr : TcpHeader) (pdu : Bytes)
    (res : ResponseResult) (tail frame : Bytes) (hk : c.kind = .tcp)
    (hr : Ready c t (tcpFrame hdr pdu ++ tail))
    (hl : pdu.length < 65535) (hd : decodeResponsePdu pdu = .ok res)
    (henc : clientEncode .tcp (stampedHdr c) req = .ok frame) (hfne : frame ≠ []) :
    ∃ c' t', c.call req t none
      = (.done (classify (stampedHdr c) req.functionCode { tid := hdr.transactionId, unit := hdr.unitId } res),
          c', t', [.write frame]) := by
  obtain ⟨c', t', h, _⟩ := call_generic tcpClientFraming c req t _ tail frame hk hr
    ⟨_, _, _, hl, hd, rfl⟩ (by simp [tcpFrame, be16]) henc hfne
  refine ⟨c', t', ?_⟩
  rw [h, tcpClientFraming_item _ _ _ hl hd]

/-- **the verdict on whatever reply arrives** (RTU, whole call, every fragmentation) -/
theorem reply_verdict_rtu (c : Client) (req : Request) (t : Transport) (slave : UInt8) (pdu : Bytes)
    (res : ResponseResult) (tail frame : Bytes) (hk : c.kind = .rtu)
    (hr : Ready c t (rtuFrame slave pdu ++ tail))
    (hlen : ∀ rest, responsePduLen (rtuFrame slave pdu ++ rest) = .ok (some pdu.length))
    (hd : decodeResponsePdu pdu = .ok res)
    (henc : clientEncode .rtu (stampedHdr c) req = .ok frame) (hfne : frame ≠ []) :
    ∃ c' t', c.call req t none
      = (.done (classify (stampedHdr c) req.functionCode { tid := 0, unit := slave } res), c', t', [.write frame]) := by
  obtain ⟨c', t', h, _⟩ := call_generic rtuClientFraming c req t _ tail frame hk hr
    ⟨_, _, _, rfl, hlen, hd⟩ (by simp [rtuFrame]) henc hfne
  refine ⟨c', t', ?_⟩
  rw [h, rtuClientFraming_item _ _ _ hlen hd]

-- non-vacuity: a reply under a foreign transaction id, with a complete second frame right behind it
example : ((Client.attach .tcp).call (.readHoldingRegisters 0 1)
    { reads := [.data [0, 9, 0, 0, 0, 5, 0xFF, 3, 2, 0, 1, 0, 0, 0, 0, 0, 5, 0xFF, 3, 2, 0, 7]] } none).1
    = .done (.headerMismatch (.ok (.readHoldingRegisters [1]))) := by decide +kernel

/-- **call_success_only_for_answer**: the property as one statement about the whole call.  From
    any client state, for any transport behaviour and poll budget: a call that returns a response
    (or an exception) returns the decoding of some reply PDU, judged by `classify` under a reply
    header equal to the header this call stamped, and its function code (or the function code
    of the exception) is numerically the request's.  (Which bytes that PDU and header are taken
    from is `reply_verdict_tcp/rtu` and the framing theorems of C04/C05.) -/
theorem call_success_only_for_answer (c : Client) (req : Request) (t : Transport) (b : Budget) :
    (∀ r, (c.call req t b).1 = .done (.ok r) →
      ∃ rspHdr pdu, rspHdr = stampedHdr c ∧ decodeResponsePdu pdu = .ok (.ok r)
        ∧ r.functionCode.value = req.functionCode.value)
    ∧ (∀ e, (c.call req t b).1 = .done (.exception e) →
      ∃ rspHdr pdu f, rspHdr = stampedHdr c
        ∧ decodeResponsePdu pdu = .ok (.error { function := f, exception := e })
        ∧ f.value = req.functionCode.value) := by
  constructor
  · intro r h
    rcases call_result_decoded c req t b _ h with ⟨k, hk⟩ | hp | ⟨rspHdr, res, hx, pdu, hpdu⟩
    · cases hk
    · cases hp
    · obtain ⟨h1, h2, h3⟩ := (success_only_if (stampedHdr c) rspHdr req.functionCode res).1 r hx.symm
      subst h2
      exact ⟨rspHdr, pdu, h1, hpdu, h3⟩
  · intro e h
    rcases call_result_decoded c req t b _ h with ⟨k, hk⟩ | hp | ⟨rspHdr, res, hx, pdu, hpdu⟩
    · cases hk
    · cases hp
    · obtain ⟨h1, f, h2, h3⟩ := (success_only_if (stampedHdr c) rspHdr req.functionCode res).2 e hx.symm
      subst h2
      exact ⟨rspHdr, pdu, f, h1, hpdu, h3⟩

/-- … and the same through the blocking client, with or without a timeout -/
theorem blocking_success_only_for_answer (s : SyncContext) (req : Request) (t : Transport)
    (deadline : Budget) (r : Response) (h : (s.call req t deadline).1 = .ok r) :
    ∃ rspHdr pdu, rspHdr = stampedHdr s.asyncCtx ∧ decodeResponsePdu pdu = .ok (.ok r)
      ∧ r.functionCode.value = req.functionCode.value := by
  apply (call_success_only_for_answer s.asyncCtx req t (if s.timeout then deadline else none)).1 r
  cases ho : (s.asyncCtx.call req t (if s.timeout then deadline else none)).1 with
  | done x => simp [SyncContext.call, ho, withTimeout] at h; rw [h]
  | abandoned => simp [SyncContext.call, ho, withTimeout] at h
  | blocked => simp [SyncContext.call, ho, withTimeout] at h

end Modbus.Props.C06
