import ModbusModel.Lemmas.Client
import ModbusModel.Lemmas.Call
/-
  C06 – A client call succeeds only for the response that answers its request.
-/
namespace Modbus.Props.C06
open Modbus

/-- numeric function code of a decoded reply (normal or exception) -/
def replyFc : ResponseResult → UInt8
  | .ok r => r.functionCode.value
  | .error e => e.function.value

/-- **call_classifies**: the verdict on a decoded reply, stated outright. -/
theorem classify_spec (reqHdr rspHdr : Hdr) (reqFc : FunctionCode) (res : ResponseResult) :
    classify reqHdr reqFc rspHdr res =
      if rspHdr ≠ reqHdr then .headerMismatch res
      else if replyFc res ≠ reqFc.value then .fnMismatch res
      else match res with
        | .ok r => .ok r
        | .error e => .exception e.exception := by
  unfold classify replyFc
  by_cases h : reqHdr = rspHdr
  · subst h; cases res <;> simp <;> split <;> simp_all [eq_comm]
  · have h' : rspHdr ≠ reqHdr := fun e => h e.symm
    simp [h, h']

/-- success (a response or an exception as inner error) only for a reply with the same
    header and numerically the same function code -/
theorem success_only_if (reqHdr rspHdr : Hdr) (reqFc : FunctionCode) (res : ResponseResult) :
    (∀ r, classify reqHdr reqFc rspHdr res = .ok r →
        rspHdr = reqHdr ∧ res = .ok r ∧ r.functionCode.value = reqFc.value)
    ∧ (∀ e, classify reqHdr reqFc rspHdr res = .exception e →
        rspHdr = reqHdr ∧ ∃ f, res = .error { function := f, exception := e } ∧ f.value = reqFc.value) := by
  rw [classify_spec]
  constructor
  · intro r h
    split at h
    · simp at h
    · split at h
      · simp at h
      · cases res <;> simp_all [replyFc]
  · intro e h
    split at h
    · simp at h
    · split at h
      · simp at h
      · cases res with
        | ok r => simp at h
        | error x => cases x; simp_all [replyFc]

/-- a reply with another header is a header mismatch carrying the decoded reply;
    one with the right header but another function code a function-code mismatch -/
theorem mismatch_reported (reqHdr rspHdr : Hdr) (reqFc : FunctionCode) (res : ResponseResult) :
    (rspHdr ≠ reqHdr → classify reqHdr reqFc rspHdr res = .headerMismatch res)
    ∧ (rspHdr = reqHdr → replyFc res ≠ reqFc.value → classify reqHdr reqFc rspHdr res = .fnMismatch res) := by
  rw [classify_spec]
  constructor
  · intro h; simp [h]
  · intro h1 h2; simp [h1, h2]

/-- **call_result_classified**: from any client state and for any transport behaviour, whatever a
    call returns that is not a transport error (or a panic) is the verdict of `classify` on a
    decoded reply, judged against the header this very call stamped and the request's own
    function code. -/
theorem call_result_classified (c : Client) (req : Request) (t : Transport) (b : Budget) (x : CallResult)
    (h : (c.call req t b).1 = .done x) :
    (∃ k, x = .transport k) ∨ x = .panic
    ∨ ∃ rspHdr res, x = classify (stampedHdr c) req.functionCode rspHdr res := by
  unfold Client.call at h
  unfold stampedHdr
  by_cases hb : b = some 0
  · simp [hb] at h
  · simp only [hb, if_false] at h
    cases hk : c.kind <;> simp only [hk] at h ⊢ <;>
    · revert h
      (repeat' split) <;> intro h <;> simp_all <;>
      first
        | (subst h; simp)
        | (subst h; exact Or.inr (Or.inr ⟨_, _, rfl⟩))

/-- … and that reply was decoded from bytes the response decoder accepted: the verdict is never
    about anything but a decoded reply PDU -/
theorem call_result_decoded (c : Client) (req : Request) (t : Transport) (b : Budget) (x : CallResult)
    (h : (c.call req t b).1 = .done x) :
    (∃ k, x = .transport k) ∨ x = .panic
    ∨ ∃ rspHdr res, x = classify (stampedHdr c) req.functionCode rspHdr res
        ∧ ∃ pdu, decodeResponsePdu pdu = .ok res := by
  unfold Client.call at h
  unfold stampedHdr
  by_cases hb : b = some 0
  · simp [hb] at h
  · simp only [hb, if_false] at h
    cases hk : c.kind <;> simp only [hk] at h ⊢ <;>
    · revert h
      (repeat' split) <;> intro h <;> simp_all <;>
      first
        | (subst h; simp; done)
        | (subst h
           refine Or.inr (Or.inr ⟨_, _, rfl, ?_⟩)
           rename_i heq
           exact clientDecoder_yields _ _ _ (awaitNextB_yields _ _ _ _ _ _ _ (congrArg Prod.fst heq)))

-- non-vacuity
example : classify ⟨3, 7⟩ (.custom 8) ⟨3, 7⟩ (.error ⟨.diagnostics, .illegalFunction⟩) = .exception .illegalFunction := by decide
example : classify ⟨3, 7⟩ .readCoils ⟨4, 7⟩ (.ok (.readCoils [])) = .headerMismatch (.ok (.readCoils [])) := by decide
example : classify ⟨3, 7⟩ .readCoils ⟨3, 7⟩ (.ok (.readDiscreteInputs [])) = .fnMismatch (.ok (.readDiscreteInputs [])) := by decide

end Modbus.Props.C06
