import ModbusModel.Model.Pdu
import ModbusModel.Lemmas.Bytes
import ModbusModel.Lemmas.SlaveParse
/-
  C19 – Function codes, exception codes and slave ids convert to numbers without loss.
-/
namespace Modbus.Props.C19
open Modbus

/-! ### the tables of the specification (MODBUS Application Protocol V1.1b3, §5.1, §7) -/

def specFunctionCodes : List (UInt8 × FunctionCode) :=
  [(0x01, .readCoils), (0x02, .readDiscreteInputs), (0x03, .readHoldingRegisters),
   (0x04, .readInputRegisters), (0x05, .writeSingleCoil), (0x06, .writeSingleRegister),
   (0x07, .readExceptionStatus), (0x08, .diagnostics), (0x0B, .getCommEventCounter),
   (0x0C, .getCommEventLog), (0x0F, .writeMultipleCoils), (0x10, .writeMultipleRegisters),
   (0x11, .reportServerId), (0x14, .readFileRecord), (0x15, .writeFileRecord),
   (0x16, .maskWriteRegister), (0x17, .readWriteMultipleRegisters), (0x18, .readFifoQueue),
   (0x2B, .encapsulatedInterfaceTransport)]

def specExceptionCodes : List (UInt8 × ExceptionCode) :=
  [(0x01, .illegalFunction), (0x02, .illegalDataAddress), (0x03, .illegalDataValue),
   (0x04, .serverDeviceFailure), (0x05, .acknowledge), (0x06, .serverDeviceBusy),
   (0x08, .memoryParityError), (0x0A, .gatewayPathUnavailable), (0x0B, .gatewayTargetDevice)]

/-- converting any byte to a function code and back yields the same byte -/
theorem fc_roundtrip : ∀ b : UInt8, (FunctionCode.new b).value = b := by
  apply forall_u8; decide +kernel

/-- converting any byte to an exception code and back yields the same byte -/
theorem ex_roundtrip : ∀ b : UInt8, (ExceptionCode.new b).value = b := by
  apply forall_u8; decide +kernel

/-- every function code defined by the specification maps to its named variant,
    every other byte to `custom` -/
theorem fc_named : ∀ b : UInt8,
    FunctionCode.new b = ((specFunctionCodes.lookup b).getD (.custom b)) := by
  apply forall_u8; decide +kernel

theorem ex_named : ∀ b : UInt8,
    ExceptionCode.new b = ((specExceptionCodes.lookup b).getD (.custom b)) := by
  apply forall_u8; decide +kernel

/-- the named variants carry the numbers of the specification -/
theorem fc_named_value : ∀ p ∈ specFunctionCodes, p.2.value = p.1 := by decide
theorem ex_named_value : ∀ p ∈ specExceptionCodes, p.2.value = p.1 := by decide

/-- the function code reported for a request is the first byte of its encoding -/
theorem request_fc_first_byte (r : Request) :
    (encodeRequestPdu r).head? = some r.functionCode.value := by
  cases r <;> rfl

/-- the function code reported for a response is the first byte of its encoding -/
theorem response_fc_first_byte (r : Response) :
    (encodeResponsePdu r).head? = some r.functionCode.value := by
  cases r <;> rfl

/-- every slave id is exactly one of broadcast, single device, reserved -/
theorem slave_class_exclusive : ∀ id : UInt8,
    (Slave.isBroadcast id && !Slave.isSingleDevice id && !Slave.isReserved id)
    || (!Slave.isBroadcast id && Slave.isSingleDevice id && !Slave.isReserved id)
    || (!Slave.isBroadcast id && !Slave.isSingleDevice id && Slave.isReserved id) = true := by
  apply forall_u8; decide +kernel

/-- the classes are the ranges of the serial line specification:
    0 broadcast, 1..247 individual devices, 248..255 reserved -/
theorem slave_class_ranges : ∀ id : UInt8,
    Slave.isBroadcast id = decide (id.toNat = 0)
    ∧ Slave.isSingleDevice id = decide (1 ≤ id.toNat ∧ id.toNat ≤ 247)
    ∧ Slave.isReserved id = decide (248 ≤ id.toNat) := by
  apply forall_u8; decide +kernel

/-- the display shows the decimal and the two-digit upper-case hexadecimal form -/
theorem slave_display : ∀ id : UInt8,
    Slave.display id
      = toString id.toNat ++ " (0x" ++ String.ofList [hexUpper (id.toNat / 16), hexUpper (id.toNat % 16)] ++ ")" := by
  intro id; rfl

/-- **slave ids parse from decimal**: every non-empty string of decimal digits – any length,
    leading zeros included – parses to its value if that fits a byte and is rejected otherwise -/
theorem slave_parse_decimal (ds : List Nat) (hne : ds ≠ []) (hds : ∀ d ∈ ds, d < 10) :
    Slave.fromStr (ds.map decChar)
      = (if valOf 10 ds ≤ 255 then some (UInt8.ofNat (valOf 10 ds)) else none) := by
  have hp := parseU8Radix_digits 10 (by omega) decDigit decChar decDigit_decChar ds hne hds
  unfold Slave.fromStr
  rw [hp]
  by_cases h : valOf 10 ds ≤ 255
  · simp [h]
  · simp only [h, if_false]
    -- the hexadecimal fallback needs the prefix "0x": a digit string has none
    split
    · rename_i stripped heq
      match ds, hds with
      | [_], _ => simp at heq
      | a :: b :: rest, hds =>
        simp only [List.map_cons, List.cons.injEq] at heq
        have hb : b < 10 := hds b (by simp)
        have : b = 0 ∨ b = 1 ∨ b = 2 ∨ b = 3 ∨ b = 4 ∨ b = 5 ∨ b = 6 ∨ b = 7 ∨ b = 8 ∨ b = 9 := by omega
        rcases this with h | h | h | h | h | h | h | h | h | h <;> subst h <;> exact absurd heq.2.1 (by decide)
    · rfl

/-- **… and from 0x-prefixed hexadecimal** (lower or upper case digits) **to the same value** -/
theorem slave_parse_hex (u : Bool) (ds : List Nat) (hne : ds ≠ []) (hds : ∀ d ∈ ds, d < 16) :
    Slave.fromStr ('0' :: 'x' :: ds.map (hexChar u))
      = (if valOf 16 ds ≤ 255 then some (UInt8.ofNat (valOf 16 ds)) else none) := by
  have hp := parseU8Radix_digits 16 (by omega) hexDigit (hexChar u) (hexDigit_hexChar u) ds hne hds
  have hdec : parseU8Radix 10 decDigit ('0' :: 'x' :: ds.map (hexChar u)) = none := by
    rw [parseU8Radix_cons 10 decDigit '0' _ (by decide)]
    have : decDigit '0' = some 0 := by decide
    have hx : decDigit 'x' = none := by decide
    simp [parseU8Radix.go, this, hx]
  unfold Slave.fromStr
  rw [hdec]
  exact hp

/-- both spellings of one value give the same id; values above 255 are rejected in both -/
theorem slave_parse_same_value (u : Bool) (dec hex : List Nat) (hd : dec ≠ []) (hh : hex ≠ [])
    (hdd : ∀ d ∈ dec, d < 10) (hhd : ∀ d ∈ hex, d < 16) (hv : valOf 10 dec = valOf 16 hex) :
    Slave.fromStr (dec.map decChar) = Slave.fromStr ('0' :: 'x' :: hex.map (hexChar u))
    ∧ (255 < valOf 10 dec → Slave.fromStr (dec.map decChar) = none) := by
  rw [slave_parse_decimal dec hd hdd, slave_parse_hex u hex hh hhd, hv]
  refine ⟨rfl, fun h => ?_⟩
  have : ¬ valOf 16 hex ≤ 255 := by omega
  simp [this]

-- non-vacuity / sanity: concrete instances
example : FunctionCode.new 0x2B = .encapsulatedInterfaceTransport := by decide
example : FunctionCode.new 0x41 = .custom 0x41 := by decide
example : Slave.display 123 = "123 (0x7B)" := by decide
example : Slave.fromStr "0x7b".toList = some 123 := by decide
example : Slave.fromStr "256".toList = none := by decide

example : [2, 5, 5].map decChar = "255".toList ∧ valOf 10 [2, 5, 5] = 255 := by decide
example : [15, 15].map (hexChar true) = "FF".toList ∧ [7, 11].map (hexChar false) = "7b".toList := by decide

end Modbus.Props.C19
