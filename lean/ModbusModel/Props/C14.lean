import ModbusModel.Model.Server
import ModbusModel.Lemmas.Framed
/-
  C14 – A server connection ends cleanly or with one error report; the server lives on.
-/
namespace Modbus.Props.C14
open Modbus

/-- connections for which a task is spawned -/
def accepted : List Setup → List Nat
  | [] => []
  | .accepted c :: rest => c :: accepted rest
  | _ :: rest => accepted rest

def isFailure : Setup → Bool
  | .setupFailed _ | .acceptFailed _ => true
  | _ => false

/-- **serve_fold** (no failure): every accepted connection gets its own task, rejected ones
    (no service) are skipped, and the loop keeps accepting -/
theorem serve_keeps_accepting (setups : List Setup) (h : ∀ s ∈ setups, isFailure s = false) :
    serve setups = (accepted setups, none) := by
  induction setups with
  | nil => rfl
  | cons s rest ih =>
    have hr := ih (fun x hx => h x (by simp [hx]))
    cases s with
    | accepted c => simp [serve, accepted, hr]
    | rejected => simp [serve, accepted, hr]
    | setupFailed k => have := h (.setupFailed k) (by simp); simp [isFailure] at this
    | acceptFailed k => have := h (.acceptFailed k) (by simp); simp [isFailure] at this

/-- **serve_fold** (failure): the first failing connection setup (or failing accept) stops the
    server with that error; connections accepted before it are served, none after it -/
theorem serve_stops_at_failure (pre rest : List Setup) (k : ErrKind) (h : ∀ s ∈ pre, isFailure s = false) :
    serve (pre ++ .setupFailed k :: rest) = (accepted pre, some k)
    ∧ serve (pre ++ .acceptFailed k :: rest) = (accepted pre, some k) := by
  induction pre with
  | nil => simp [serve, accepted]
  | cons s pre ih =>
    have hr := ih (fun x hx => h x (by simp [hx]))
    cases s with
    | accepted c => simp [serve, accepted, hr.1, hr.2]
    | rejected => simp [serve, accepted, hr.1, hr.2]
    | setupFailed k' => have := h (.setupFailed k') (by simp); simp [isFailure] at this
    | acceptFailed k' => have := h (.acceptFailed k') (by simp); simp [isFailure] at this

/-- how a connection task ends, for each thing the stream can yield next:
    end of stream → finished silently; an error (invalid header, undecodable request, stream
    ended inside a frame, read error) → failed with that error, reported once -/
theorem process_end (k : Kind) (svc : Service) (fuel idx : Nat) (f : ServerFramed) (t : Transport)
    (tr : List SrvEvent) :
    (∀ fd r evs, awaitNext (serverDecoder k) f.fd f.read t.reads = (.done, fd, r, evs) →
        (processLoop k svc (fuel + 1) idx f t tr).1 = .finished ∧ (processLoop k svc (fuel + 1) idx f t tr).2.1 = tr)
    ∧ (∀ e fd r evs, awaitNext (serverDecoder k) f.fd f.read t.reads = (.error e, fd, r, evs) →
        (processLoop k svc (fuel + 1) idx f t tr).1 = .failed e ∧ (processLoop k svc (fuel + 1) idx f t tr).2.1 = tr) := by
  constructor
  · intro fd r evs h; simp [processLoop, h]
  · intro e fd r evs h; simp [processLoop, h]

/-- a request the service declines produces a service call and no reply; the loop goes on -/
theorem declined_goes_on (k : Kind) (svc : Service) (fuel idx : Nat) (f : ServerFramed) (t : Transport)
    (tr : List SrvEvent) (hdr : Hdr) (req : Request) (fd : FrameDecoder) (r : ReadFrame) (evs : List ReadEv)
    (h : awaitNext (serverDecoder k) f.fd f.read t.reads = (.item (hdr, req), fd, r, evs))
    (hd : svc idx hdr.unit req = .decline) :
    processLoop k svc (fuel + 1) idx f t tr
      = processLoop k svc fuel (idx + 1) { f with read := r, fd := fd } { t with reads := evs }
          (tr ++ [.call hdr.unit req]) := by
  simp [processLoop, h, hd, responseFor]

/-- the connection task never panics, whatever arrives -/
theorem awaitNext_server_no_panic (k : Kind) (fd : FrameDecoder) (r : ReadFrame) (evs : List ReadEv)
    (h : (serverDecoder k).NoPanic) : (awaitNext (serverDecoder k) fd r evs).1 ≠ .panic :=
  awaitNext_ne_panic _ h evs fd r

-- non-vacuity
example : serve [.accepted 0, .rejected, .accepted 1, .setupFailed (.injected 3), .accepted 2]
    = ([0, 1], some (.injected 3)) := by decide
example : (process .tcp (fun _ _ _ => .decline) { reads := [.data [0, 1, 0, 0, 0, 2, 7, 0x11], .eof] }).1
    = .finished := by decide +kernel
example : (process .tcp (fun _ _ _ => .decline) { reads := [.data [0, 1, 0, 0, 0, 2, 7], .eof] }).1
    = .failed .other := by decide +kernel
example : (process .tcp (fun _ _ _ => .decline) { reads := [.data [0, 1, 0, 9, 0, 2, 7, 0x11]] }).1
    = .failed .invalidData := by decide +kernel

end Modbus.Props.C14
