import ModbusModel.Model.Server
import ModbusModel.Lemmas.Framed
import ModbusModel.Props.C01
import ModbusModel.Lemmas.ServeEnd
import ModbusModel.Lemmas.ServeFault
import ModbusModel.Lemmas.ServeBad
import ModbusModel.Lemmas.ServeWrites
/-
  C14 – A server connection ends cleanly or with one error report; the server lives on.
-/
namespace Modbus.Props.C14
open Modbus Modbus.Props.C01

/-- connections for which a task is spawned -/
def accepted : List Setup → List Nat
  | [] => []
  | .accepted c :: rest => c :: accepted rest
  | _ :: rest => accepted rest

def isFailure : Setup → Bool
  | .setupFailed _ | .acceptFailed _ => true
  | _ => false

/-- **serve_fold** (no failure): every accepted connection gets its own task, rejected ones
    (no service) are skipped, and the loop keeps accepting -/
theorem serve_keeps_accepting (setups : List Setup) (h : ∀ s ∈ setups, isFailure s = false) :
    serve setups = (accepted setups, none) := by
  induction setups with
  | nil => rfl
  | cons s rest ih =>
    have hr := ih (fun x hx => h x (by simp [hx]))
    cases s with
    | accepted c => simp [serve, accepted, hr]
    | rejected => simp [serve, accepted, hr]
    | setupFailed k => have := h (.setupFailed k) (by simp); simp [isFailure] at this
    | acceptFailed k => have := h (.acceptFailed k) (by simp); simp [isFailure] at this

/-- **serve_fold** (failure): the first failing connection setup (or failing accept) stops the
    server with that error; connections accepted before it are served, none after it -/
theorem serve_stops_at_failure (pre rest : List Setup) (k : ErrKind) (h : ∀ s ∈ pre, isFailure s = false) :
    serve (pre ++ .setupFailed k :: rest) = (accepted pre, some k)
    ∧ serve (pre ++ .acceptFailed k :: rest) = (accepted pre, some k) := by
  induction pre with
  | nil => simp [serve, accepted]
  | cons s pre ih =>
    have hr := ih (fun x hx => h x (by simp [hx]))
    cases s with
    | accepted c => simp [serve, accepted, hr.1, hr.2]
    | rejected => simp [serve, accepted, hr.1, hr.2]
    | setupFailed k' => have := h (.setupFailed k') (by simp); simp [isFailure] at this
    | acceptFailed k' => have := h (.acceptFailed k') (by simp); simp [isFailure] at this

/-- how a connection task ends, for each thing the stream can yield next:
    end of stream → finished silently; an error (invalid header, undecodable request, stream
    ended inside a frame, read error) → failed with that error, reported once -/
theorem process_end (k : Kind) (svc : Service) (fuel idx : Nat) (f : ServerFramed) (t : Transport)
    (tr : List SrvEvent) :
    (∀ fd r evs, awaitNext (serverDecoder k) f.fd f.read t.reads = (.done, fd, r, evs) →
        (processLoop k svc (fuel + 1) idx f t tr).1 = .finished ∧ (processLoop k svc (fuel + 1) idx f t tr).2.1 = tr)
    ∧ (∀ e fd r evs, awaitNext (serverDecoder k) f.fd f.read t.reads = (.error e, fd, r, evs) →
        (processLoop k svc (fuel + 1) idx f t tr).1 = .failed e ∧ (processLoop k svc (fuel + 1) idx f t tr).2.1 = tr) := by
  constructor
  · intro fd r evs h; simp [processLoop, h]
  · intro e fd r evs h; simp [processLoop, h]

/-- a request the service declines produces a service call and no reply; the loop goes on -/
theorem declined_goes_on (k : Kind) (svc : Service) (fuel idx : Nat) (f : ServerFramed) (t : Transport)
    (tr : List SrvEvent) (hdr : Hdr) (req : Request) (fd : FrameDecoder) (r : ReadFrame) (evs : List ReadEv)
    (h : awaitNext (serverDecoder k) f.fd f.read t.reads = (.item (hdr, req), fd, r, evs))
    (hd : svc idx hdr.unit req = .decline) :
    processLoop k svc (fuel + 1) idx f t tr
      = processLoop k svc fuel (idx + 1) { f with read := r, fd := fd } { t with reads := evs }
          (tr ++ [.call hdr.unit req]) := by
  simp [processLoop, h, hd, responseFor]

/-- the connection task never panics, whatever arrives -/
theorem awaitNext_server_no_panic (k : Kind) (fd : FrameDecoder) (r : ReadFrame) (evs : List ReadEv)
    (h : (serverDecoder k).NoPanic) : (awaitNext (serverDecoder k) fd r evs).1 ≠ .panic :=
  awaitNext_ne_panic _ h evs fd r

theorem tcpServerFraming_strict : tcpServerFraming.Strict := by
  rintro s p q ⟨hdr, r, hs, _, hf⟩ hq
  refine ⟨s, ?_⟩
  have hp : p <+: tcpFrame hdr (encodeRequestPdu r) := ⟨q, hf⟩
  have hne : p ≠ tcpFrame hdr (encodeRequestPdu r) := by
    intro e
    have := congrArg List.length hf
    rw [← e] at this
    simp at this
    exact hq this
  have h1 := server_waits_for_whole_frame_tcp hdr r p hs hp hne
  simp only [serverDecoder]
  rw [h1]
  simp [Res.map]

theorem rtuServerFraming_strict : rtuServerFraming.Strict := by
  rintro fd p q ⟨slave, r, hs, ht, hf⟩ hq
  refine ⟨fd, ?_⟩
  have hp : p <+: rtuFrame slave (encodeRequestPdu r) := ⟨q, hf⟩
  have hne : p ≠ rtuFrame slave (encodeRequestPdu r) := by
    intro e
    have := congrArg List.length hf
    rw [← e] at this
    simp at this
    exact hq this
  have hl : requestPduLen (rtuFrame slave (encodeRequestPdu r)) = .ok (some (encodeRequestPdu r).length) := by
    have := Modbus.Props.C11.request_table_agrees slave r [] hs ht
    simpa [rtuFrame, List.append_assoc] using this
  have h1 := rtuDecode_waits requestPduLen requestPduLen_stable fd slave _ p hl hp hne
  simp only [serverDecoder, rtuServerDecode]
  rw [h1]
  simp [Res.map]

/-- **a TCP connection that the peer closes**: after `reqs` complete well-formed requests and
    `tail` more bytes (the whole stream cut into reads in any way), the peer closes the stream.
    On a frame boundary the task ends silently, inside a request frame with one error; either way
    exactly the complete requests were served – each once, in order, replies under their own
    headers – and nothing after that point. -/
theorem connection_end_tcp (svc : Service) (reqs : List (TcpHeader × Request)) (tail q : Bytes)
    (t : Transport) (feeds rest : List ReadEv)
    (hs : ∀ p ∈ reqs, requestPduSizeRaw p.2 ≤ 253) (hc : ∀ p ∈ reqs, p.2.canonical)
    (hw : t.writes = []) (hf : t.flushes = [])
    (hreads : t.reads = feeds ++ .eof :: rest) (hfeed : ∀ e ∈ feeds, e.isFeed = true)
    (hdata : dataOf feeds = (reqs.map fun p => tcpFrame p.1 (encodeRequestPdu p.2)).flatten ++ tail)
    (htail : tail = [] ∨ (tail ≠ [] ∧ q ≠ [] ∧ ∃ hdr r, requestPduSizeRaw r ≤ 253 ∧ r.canonical
        ∧ tail ++ q = tcpFrame hdr (encodeRequestPdu r)))
    (henc : Encodable .tcp svc 0 (reqs.map fun p => ({ tid := p.1.transactionId, unit := p.1.unitId }, p.2))) :
    (process .tcp svc t).2.1
        = expectedTrace .tcp svc 0 (reqs.map fun p => ({ tid := p.1.transactionId, unit := p.1.unitId }, p.2))
    ∧ (process .tcp svc t).1 = (if tail = [] then .finished else .failed .other) := by
  have hitems : (reqs.map fun p => tcpFrame p.1 (encodeRequestPdu p.2)).map tcpServerFraming.item
      = reqs.map fun p => ({ tid := p.1.transactionId, unit := p.1.unitId }, p.2) := by
    rw [List.map_map]
    apply List.map_congr_left
    intro p hp
    have h3 := server_decodes_request_tcp p.1 p.2 [] (hs p hp) (hc p hp)
    simp only [List.append_nil] at h3
    simp [tcpServerFraming, Framing.ofStrict, h3]
  have hv : ∀ x ∈ (reqs.map fun p => tcpFrame p.1 (encodeRequestPdu p.2)), tcpServerFraming.Valid x := by
    intro x hx
    obtain ⟨p, hp, rfl⟩ := List.mem_map.mp hx
    exact ⟨p.1, p.2, hs p hp, hc p hp, rfl⟩
  have hne : ∀ x ∈ (reqs.map fun p => tcpFrame p.1 (encodeRequestPdu p.2)), x ≠ [] := by
    intro x hx
    obtain ⟨p, _, rfl⟩ := List.mem_map.mp hx
    simp [tcpFrame, be16]
  have henc' : Encodable .tcp svc 0 ((reqs.map fun p => tcpFrame p.1 (encodeRequestPdu p.2)).map tcpServerFraming.item) := by
    rw [hitems]; exact henc
  have htail' : tail = [] ∨ (tail ≠ [] ∧ q ≠ [] ∧ tcpServerFraming.Valid (tail ++ q)) := by
    rcases htail with h | ⟨h1, h2, hdr, r, h3, h4, h5⟩
    · exact Or.inl h
    · exact Or.inr ⟨h1, h2, hdr, r, h3, h4, h5⟩
  have H0 := process_serves_then_eof .tcp tcpServerFraming tcpServerFraming_strict svc
    (reqs.map fun p => tcpFrame p.1 (encodeRequestPdu p.2)) tail q t feeds rest
  have H := H0 hv hne hw hf hreads hfeed hdata htail' henc'
  rw [hitems] at H
  exact H

/-- **an RTU connection (RTU-over-TCP, serial: the same loop and codec) whose stream ends**: after `reqs` complete well-formed requests and
    `tail` more bytes (the whole stream cut into reads in any way), the peer closes the stream.
    On a frame boundary the task ends silently, inside a request frame with one error; either way
    exactly the complete requests were served – each once, in order, replies under their own
    headers – and nothing after that point. -/
theorem connection_end_rtu (svc : Service) (reqs : List (UInt8 × Request)) (tail q : Bytes)
    (t : Transport) (feeds rest : List ReadEv)
    (hs : ∀ p ∈ reqs, requestPduSizeRaw p.2 ≤ 253) (hc : ∀ p ∈ reqs, ∀ fc d, p.2 ≠ .custom fc d)
    (hw : t.writes = []) (hf : t.flushes = [])
    (hreads : t.reads = feeds ++ .eof :: rest) (hfeed : ∀ e ∈ feeds, e.isFeed = true)
    (hdata : dataOf feeds = (reqs.map fun p => rtuFrame p.1 (encodeRequestPdu p.2)).flatten ++ tail)
    (htail : tail = [] ∨ (tail ≠ [] ∧ q ≠ [] ∧ ∃ hdr r, requestPduSizeRaw r ≤ 253 ∧ (∀ fc d, r ≠ .custom fc d)
        ∧ tail ++ q = rtuFrame hdr (encodeRequestPdu r)))
    (henc : Encodable .rtu svc 0 (reqs.map fun p => ({ tid := 0, unit := p.1 }, p.2))) :
    (process .rtu svc t).2.1
        = expectedTrace .rtu svc 0 (reqs.map fun p => ({ tid := 0, unit := p.1 }, p.2))
    ∧ (process .rtu svc t).1 = (if tail = [] then .finished else .failed .other) := by
  have hitems : (reqs.map fun p => rtuFrame p.1 (encodeRequestPdu p.2)).map rtuServerFraming.item
      = reqs.map fun p => ({ tid := 0, unit := p.1 }, p.2) := by
    rw [List.map_map]
    apply List.map_congr_left
    intro p hp
    have h3 := server_decodes_request_rtu {} p.1 p.2 [] (hs p hp) (hc p hp)
    simp only [List.append_nil] at h3
    simp [rtuServerFraming, Framing.ofStrict, h3]
  have hv : ∀ x ∈ (reqs.map fun p => rtuFrame p.1 (encodeRequestPdu p.2)), rtuServerFraming.Valid x := by
    intro x hx
    obtain ⟨p, hp, rfl⟩ := List.mem_map.mp hx
    exact ⟨p.1, p.2, hs p hp, hc p hp, rfl⟩
  have hne : ∀ x ∈ (reqs.map fun p => rtuFrame p.1 (encodeRequestPdu p.2)), x ≠ [] := by
    intro x hx
    obtain ⟨p, _, rfl⟩ := List.mem_map.mp hx
    simp [rtuFrame]
  have henc' : Encodable .rtu svc 0 ((reqs.map fun p => rtuFrame p.1 (encodeRequestPdu p.2)).map rtuServerFraming.item) := by
    rw [hitems]; exact henc
  have htail' : tail = [] ∨ (tail ≠ [] ∧ q ≠ [] ∧ rtuServerFraming.Valid (tail ++ q)) := by
    rcases htail with h | ⟨h1, h2, hdr, r, h3, h4, h5⟩
    · exact Or.inl h
    · exact Or.inr ⟨h1, h2, hdr, r, h3, h4, h5⟩
  have H0 := process_serves_then_eof .rtu rtuServerFraming rtuServerFraming_strict svc
    (reqs.map fun p => rtuFrame p.1 (encodeRequestPdu p.2)) tail q t feeds rest
  have H := H0 hv hne hw hf hreads hfeed hdata htail' henc'
  rw [hitems] at H
  exact H

/-- **a reply that cannot be written ends the connection with one error**: whatever part of the
    reply frame the transport takes – in any pieces, with any `Pending`s – before it fails
    (error kind or zero-length write), the task ends `failed` with exactly that error; the
    request had been handed to the service once, the bytes that reached the transport are a
    prefix of the one reply frame, and nothing is served afterwards -/
theorem unwritable_reply_ends_connection (k : Kind) (svc : Service) (fuel idx : Nat) (f : ServerFramed)
    (t : Transport) (tr : List SrvEvent) (hdr : Hdr) (req : Request) (fd : FrameDecoder) (r : ReadFrame)
    (evs : List ReadEv) (rsp : ResponseResult) (frame : Bytes)
    (ps : List (Option Nat)) (fault : WriteEv) (kf : ErrKind) (rest : List WriteEv)
    (h : awaitNext (serverDecoder k) f.fd f.read t.reads = (.item (hdr, req), fd, r, evs))
    (hs : responseFor req.functionCode (svc idx hdr.unit req) = some rsp)
    (he : serverEncode k hdr rsp = .ok frame)
    (hw : f.wbuf = []) (hk : fault.faultKind = some kf)
    (ht : t.writes = pieceEvents ps ++ fault :: rest)
    (hpos : ∀ n, some n ∈ ps → 0 < n) (hacc : Modbus.accepted ps < frame.length) :
    (processLoop k svc (fuel + 1) idx f t tr).1 = .failed kf
    ∧ ∃ effs, (processLoop k svc (fuel + 1) idx f t tr).2.1 = tr ++ [.call hdr.unit req] ++ effectsToEvents effs
        ∧ writtenBytes effs = frame.take (Modbus.accepted ps) :=
  loop_reply_write_fault k svc fuel idx f t tr hdr req fd r evs rsp frame ps fault kf rest h hs he hw hk ht hpos hacc

/-! ### malformed input: an invalid header, an undecodable request -/

theorem aduDecode_short (p : Bytes) (h : p.length < 7) : aduDecode p = (.ok none, p) := by
  rcases p with _ | ⟨a, _ | ⟨b, _ | ⟨c, _ | ⟨d, _ | ⟨e, _ | ⟨f, _ | ⟨g, r⟩⟩⟩⟩⟩⟩⟩ <;>
    first | rfl | (simp at h; omega)

/-- **invalid header, length field 0** (TCP): rejected as soon as the seven header bytes are there -/
theorem malformed_zero_length_tcp (t0 t1 p0 p1 u : UInt8) :
    Poison (serverDecoder .tcp) [t0, t1, p0, p1, 0, 0, u] .invalidData where
  ne := by simp
  waits := by
    intro s p q hpq hq
    have hl : p.length < 7 := by
      have h1 := congrArg List.length hpq
      have h2 : q.length ≠ 0 := fun h => hq (List.length_eq_zero_iff.mp h)
      simp only [List.length_append, List.length_cons, List.length_nil] at h1
      omega
    exact ⟨s, by simp [serverDecoder, tcpServerDecode, aduDecode_short p hl, Res.map]⟩
  errs := by
    intro s x
    refine ⟨s, t0 :: t1 :: p0 :: p1 :: 0 :: 0 :: u :: x, ?_⟩
    simp only [serverDecoder, tcpServerDecode, List.cons_append, List.nil_append, aduDecode_zero_length]
    simp [Res.map]

/-- **invalid header, protocol identifier ≠ 0** (TCP): rejected once the frame the length field
    announces is complete (the codec checks the identifier only then), never delivered -/
theorem malformed_protocol_id_tcp (t0 t1 p0 p1 l0 l1 u : UInt8) (body : Bytes)
    (hl : (rd16 l0 l1).toNat ≠ 0) (hb : body.length = (rd16 l0 l1).toNat - 1) (hp : rd16 p0 p1 ≠ 0) :
    Poison (serverDecoder .tcp) (t0 :: t1 :: p0 :: p1 :: l0 :: l1 :: u :: body) .invalidData where
  ne := by simp
  waits := by
    intro s p q hpq hq
    refine ⟨s, ?_⟩
    have hql : q.length ≠ 0 := fun h => hq (List.length_eq_zero_iff.mp h)
    by_cases h7 : p.length < 7
    · simp [serverDecoder, tcpServerDecode, aduDecode_short p h7, Res.map]
    · -- the header is complete, the body is not
      rcases p with _ | ⟨a, _ | ⟨b, _ | ⟨c, _ | ⟨d, _ | ⟨e, _ | ⟨f, _ | ⟨g, r⟩⟩⟩⟩⟩⟩⟩ <;>
        try (simp at h7; done)
      simp only [List.cons_append, List.cons.injEq] at hpq
      obtain ⟨rfl, rfl, rfl, rfl, rfl, rfl, rfl, hr⟩ := hpq
      have hrl : r.length < (rd16 e f).toNat - 1 := by
        have := congrArg List.length hr
        simp at this; omega
      simp [serverDecoder, tcpServerDecode, aduDecode, hl, hrl, Res.map]
  errs := by
    intro s x
    refine ⟨s, body ++ x, ?_⟩
    have h := aduDecode_bad_protocol t0 t1 p0 p1 l0 l1 u (body ++ x) hl (by simp; omega) hp
    simp only [serverDecoder, tcpServerDecode, List.cons_append, h]
    simp [Res.map]

/-- **undecodable request** (TCP): a complete, validly framed MBAP frame whose PDU the request
    decoder rejects with `k` -/
theorem malformed_undecodable_tcp (hdr : TcpHeader) (pdu : Bytes) (k : ErrKind)
    (hl : pdu.length < 65535) (hd : decodeRequest pdu = .err k) :
    Poison (serverDecoder .tcp) (tcpFrame hdr pdu) k where
  ne := by simp [tcpFrame, be16]
  waits := by
    intro s p q hpq hq
    refine ⟨s, ?_⟩
    have hne : p ≠ tcpFrame hdr pdu := by
      intro e
      have := congrArg List.length hpq
      rw [← e] at this
      simp at this
      exact hq this
    simp [serverDecoder, tcpServerDecode, aduDecode_prefix_waits hdr pdu p hl ⟨q, hpq⟩ hne, Res.map]
  errs := by
    intro s x
    refine ⟨s, x, ?_⟩
    simp [serverDecoder, tcpServerDecode, aduDecode_complete hdr pdu x hl, hd, Res.map]

/-- **undecodable request** (RTU): a CRC-valid frame of the length the function code announces,
    whose PDU the request decoder rejects with `k` -/
theorem malformed_undecodable_rtu (slave : UInt8) (pdu : Bytes) (k : ErrKind)
    (hlen : ∀ x, requestPduLen (rtuFrame slave pdu ++ x) = .ok (some pdu.length))
    (hd : decodeRequest pdu = .err k) :
    Poison (serverDecoder .rtu) (rtuFrame slave pdu) k where
  ne := by simp [rtuFrame]
  waits := by
    intro fd p q hpq hq
    refine ⟨fd, ?_⟩
    have hne : p ≠ rtuFrame slave pdu := by
      intro e
      have := congrArg List.length hpq
      rw [← e] at this
      simp at this
      exact hq this
    have h0 := hlen []
    simp only [List.append_nil] at h0
    have h1 := rtuDecode_waits requestPduLen requestPduLen_stable fd slave pdu p h0 ⟨q, hpq⟩ hne
    simp only [serverDecoder, rtuServerDecode]
    rw [h1]
    simp [Res.map]
  errs := by
    intro fd x
    refine ⟨{ dropped := [] }, x, ?_⟩
    simp [serverDecoder, rtuServerDecode, rtuDecode_complete requestPduLen fd slave pdu x (hlen x), hd, Res.map]

/-- **a TCP connection that turns malformed**: after `reqs` complete well-formed requests the
    stream carries bytes the codec rejects (`bad`: any of the classes above) and then anything
    at all (`x`, further reads, errors, the end of the stream) – the whole stream cut into reads
    in any way.  The task ends with that one error; exactly the requests before the malformed
    bytes were served – each once, in order, replies under their own headers – and nothing
    after that point. -/
theorem connection_malformed_tcp (svc : Service) (reqs : List (TcpHeader × Request)) (bad x : Bytes)
    (kk : ErrKind) (P : Poison (serverDecoder .tcp) bad kk)
    (t : Transport) (feeds extra : List ReadEv)
    (hs : ∀ p ∈ reqs, requestPduSizeRaw p.2 ≤ 253) (hc : ∀ p ∈ reqs, p.2.canonical)
    (hw : t.writes = []) (hf : t.flushes = [])
    (hreads : t.reads = feeds ++ extra) (hfeed : ∀ e ∈ feeds, e.isFeed = true)
    (hdata : dataOf feeds = (reqs.map fun p => tcpFrame p.1 (encodeRequestPdu p.2)).flatten ++ (bad ++ x))
    (henc : Encodable .tcp svc 0 (reqs.map fun p => ({ tid := p.1.transactionId, unit := p.1.unitId }, p.2))) :
    (process .tcp svc t).2.1
        = expectedTrace .tcp svc 0 (reqs.map fun p => ({ tid := p.1.transactionId, unit := p.1.unitId }, p.2))
    ∧ (process .tcp svc t).1 = .failed kk := by
  have hitems : (reqs.map fun p => tcpFrame p.1 (encodeRequestPdu p.2)).map tcpServerFraming.item
      = reqs.map fun p => ({ tid := p.1.transactionId, unit := p.1.unitId }, p.2) := by
    rw [List.map_map]
    apply List.map_congr_left
    intro p hp
    have h3 := server_decodes_request_tcp p.1 p.2 [] (hs p hp) (hc p hp)
    simp only [List.append_nil] at h3
    simp [tcpServerFraming, Framing.ofStrict, h3]
  have hv : ∀ y ∈ (reqs.map fun p => tcpFrame p.1 (encodeRequestPdu p.2)), tcpServerFraming.Valid y := by
    intro y hy
    obtain ⟨p, hp, rfl⟩ := List.mem_map.mp hy
    exact ⟨p.1, p.2, hs p hp, hc p hp, rfl⟩
  have hne : ∀ y ∈ (reqs.map fun p => tcpFrame p.1 (encodeRequestPdu p.2)), y ≠ [] := by
    intro y hy
    obtain ⟨p, _, rfl⟩ := List.mem_map.mp hy
    simp [tcpFrame, be16]
  have henc' : Encodable .tcp svc 0 ((reqs.map fun p => tcpFrame p.1 (encodeRequestPdu p.2)).map tcpServerFraming.item) := by
    rw [hitems]; exact henc
  have H0 := process_serves_then_poison .tcp tcpServerFraming svc
    (reqs.map fun p => tcpFrame p.1 (encodeRequestPdu p.2)) bad x kk P t feeds extra
  have H := H0 hv hne hw hf hreads hfeed hdata henc'
  rw [hitems] at H
  exact H

/-- **an RTU connection (RTU-over-TCP, serial) that carries an undecodable request** -/
theorem connection_malformed_rtu (svc : Service) (reqs : List (UInt8 × Request)) (bad x : Bytes)
    (kk : ErrKind) (P : Poison (serverDecoder .rtu) bad kk)
    (t : Transport) (feeds extra : List ReadEv)
    (hs : ∀ p ∈ reqs, requestPduSizeRaw p.2 ≤ 253) (hc : ∀ p ∈ reqs, ∀ fc d, p.2 ≠ .custom fc d)
    (hw : t.writes = []) (hf : t.flushes = [])
    (hreads : t.reads = feeds ++ extra) (hfeed : ∀ e ∈ feeds, e.isFeed = true)
    (hdata : dataOf feeds = (reqs.map fun p => rtuFrame p.1 (encodeRequestPdu p.2)).flatten ++ (bad ++ x))
    (henc : Encodable .rtu svc 0 (reqs.map fun p => ({ tid := 0, unit := p.1 }, p.2))) :
    (process .rtu svc t).2.1
        = expectedTrace .rtu svc 0 (reqs.map fun p => ({ tid := 0, unit := p.1 }, p.2))
    ∧ (process .rtu svc t).1 = .failed kk := by
  have hitems : (reqs.map fun p => rtuFrame p.1 (encodeRequestPdu p.2)).map rtuServerFraming.item
      = reqs.map fun p => ({ tid := 0, unit := p.1 }, p.2) := by
    rw [List.map_map]
    apply List.map_congr_left
    intro p hp
    have h3 := server_decodes_request_rtu {} p.1 p.2 [] (hs p hp) (hc p hp)
    simp only [List.append_nil] at h3
    simp [rtuServerFraming, Framing.ofStrict, h3]
  have hv : ∀ y ∈ (reqs.map fun p => rtuFrame p.1 (encodeRequestPdu p.2)), rtuServerFraming.Valid y := by
    intro y hy
    obtain ⟨p, hp, rfl⟩ := List.mem_map.mp hy
    exact ⟨p.1, p.2, hs p hp, hc p hp, rfl⟩
  have hne : ∀ y ∈ (reqs.map fun p => rtuFrame p.1 (encodeRequestPdu p.2)), y ≠ [] := by
    intro y hy
    obtain ⟨p, _, rfl⟩ := List.mem_map.mp hy
    simp [rtuFrame]
  have henc' : Encodable .rtu svc 0 ((reqs.map fun p => rtuFrame p.1 (encodeRequestPdu p.2)).map rtuServerFraming.item) := by
    rw [hitems]; exact henc
  have H0 := process_serves_then_poison .rtu rtuServerFraming svc
    (reqs.map fun p => rtuFrame p.1 (encodeRequestPdu p.2)) bad x kk P t feeds extra
  have H := H0 hv hne hw hf hreads hfeed hdata henc'
  rw [hitems] at H
  exact H

-- non-vacuity: each class of malformed input exists; a served request followed by one of them
example : decodeRequest [5, 0, 0, 0x12, 0x34] = .err .invalidData := by decide +kernel
example : ∀ x, requestPduLen (rtuFrame 1 [5, 0, 0, 0x12, 0x34] ++ x) = .ok (some 5) := by
  intro x; simp [requestPduLen, rtuFrame]
example : decodeRequest [3, 0] = .err .unexpectedEof := by decide +kernel
example : (process .tcp (fun _ _ _ => .decline)
    { reads := [.data [0, 1, 0, 0, 0, 2, 7, 0x11, 0, 2, 0, 0], .data [0, 3, 1, 3, 0], .data [9, 9], .eof] }).1
    = .failed .unexpectedEof := by decide +kernel

/-! ### a reply that cannot be written, after n served requests -/

/-- **a TCP connection whose (n+1)-th reply cannot be written**: the transport takes the replies to
    the first n requests (one whole write each), then request n+1 arrives, the service answers
    it, and the transport takes only part of that reply – in the pieces and with the `Pending`s
    of `ps` – before it fails (`Err(kf)`, or a zero-length write).  The task ends with exactly
    that one error; the first n requests were served in order, request n+1 was handed to the
    service once, a strict prefix of its reply reached the transport, and nothing that follows
    on the stream (`after`, `extra`) is served. -/
theorem connection_write_fault_tcp (svc : Service) (reqs : List (TcpHeader × Request)) (hdr : TcpHeader)
    (req : Request) (after : Bytes) (t : Transport) (feeds extra : List ReadEv)
    (ps : List (Option Nat)) (fault : WriteEv) (kf : ErrKind) (wrest : List WriteEv)
    (rsp : ResponseResult) (frame : Bytes)
    (hs : ∀ p ∈ reqs, requestPduSizeRaw p.2 ≤ 253) (hc : ∀ p ∈ reqs, p.2.canonical)
    (hs1 : requestPduSizeRaw req ≤ 253) (hc1 : req.canonical)
    (hw : t.writes = acceptScript (expectedTrace .tcp svc 0
            (reqs.map fun p => ({ tid := p.1.transactionId, unit := p.1.unitId }, p.2)))
          ++ (pieceEvents ps ++ fault :: wrest))
    (hf : t.flushes = [])
    (hreads : t.reads = feeds ++ extra) (hfeed : ∀ e ∈ feeds, e.isFeed = true)
    (hdata : dataOf feeds = (reqs.map fun p => tcpFrame p.1 (encodeRequestPdu p.2)).flatten
        ++ (tcpFrame hdr (encodeRequestPdu req) ++ after))
    (henc : Encodable .tcp svc 0 (reqs.map fun p => ({ tid := p.1.transactionId, unit := p.1.unitId }, p.2)))
    (hsvc : responseFor req.functionCode (svc reqs.length hdr.unitId req) = some rsp)
    (he : serverEncode .tcp { tid := hdr.transactionId, unit := hdr.unitId } rsp = .ok frame)
    (hk : fault.faultKind = some kf) (hpos : ∀ n, some n ∈ ps → 0 < n) (hacc : Modbus.accepted ps < frame.length) :
    (process .tcp svc t).1 = .failed kf
    ∧ ∃ effs, (process .tcp svc t).2.1
          = expectedTrace .tcp svc 0 (reqs.map fun p => ({ tid := p.1.transactionId, unit := p.1.unitId }, p.2))
            ++ [.call hdr.unitId req] ++ effectsToEvents effs
        ∧ writtenBytes effs = frame.take (Modbus.accepted ps) := by
  have hitems : (reqs.map fun p => tcpFrame p.1 (encodeRequestPdu p.2)).map tcpServerFraming.item
      = reqs.map fun p => ({ tid := p.1.transactionId, unit := p.1.unitId }, p.2) := by
    rw [List.map_map]
    apply List.map_congr_left
    intro p hp
    have h3 := server_decodes_request_tcp p.1 p.2 [] (hs p hp) (hc p hp)
    simp only [List.append_nil] at h3
    simp [tcpServerFraming, Framing.ofStrict, h3]
  have hitem : tcpServerFraming.item (tcpFrame hdr (encodeRequestPdu req))
      = ({ tid := hdr.transactionId, unit := hdr.unitId }, req) := by
    have h3 := server_decodes_request_tcp hdr req [] hs1 hc1
    simp only [List.append_nil] at h3
    simp [tcpServerFraming, Framing.ofStrict, h3]
  have hv : ∀ y ∈ (reqs.map fun p => tcpFrame p.1 (encodeRequestPdu p.2)), tcpServerFraming.Valid y := by
    intro y hy
    obtain ⟨p, hp, rfl⟩ := List.mem_map.mp hy
    exact ⟨p.1, p.2, hs p hp, hc p hp, rfl⟩
  have hne : ∀ y ∈ (reqs.map fun p => tcpFrame p.1 (encodeRequestPdu p.2)), y ≠ [] := by
    intro y hy
    obtain ⟨p, _, rfl⟩ := List.mem_map.mp hy
    simp [tcpFrame, be16]
  have hlen : (reqs.map fun p => tcpFrame p.1 (encodeRequestPdu p.2)).length = reqs.length := by simp
  have hxv : tcpServerFraming.Valid (tcpFrame hdr (encodeRequestPdu req)) := ⟨hdr, req, hs1, hc1, rfl⟩
  have hxne : tcpFrame hdr (encodeRequestPdu req) ≠ [] := by simp [tcpFrame, be16]
  have hw' : t.writes = acceptScript (expectedTrace .tcp svc 0
        ((reqs.map fun p => tcpFrame p.1 (encodeRequestPdu p.2)).map tcpServerFraming.item))
      ++ (pieceEvents ps ++ fault :: wrest) := by rw [hitems]; exact hw
  have henc' : Encodable .tcp svc 0 ((reqs.map fun p => tcpFrame p.1 (encodeRequestPdu p.2)).map tcpServerFraming.item) := by
    rw [hitems]; exact henc
  have hsvc' : responseFor (tcpServerFraming.item (tcpFrame hdr (encodeRequestPdu req))).2.functionCode
      (svc (reqs.map fun p => tcpFrame p.1 (encodeRequestPdu p.2)).length
        (tcpServerFraming.item (tcpFrame hdr (encodeRequestPdu req))).1.unit (tcpServerFraming.item (tcpFrame hdr (encodeRequestPdu req))).2) = some rsp := by
    rw [hitem, hlen]; exact hsvc
  have he' : serverEncode .tcp (tcpServerFraming.item (tcpFrame hdr (encodeRequestPdu req))).1 rsp = .ok frame := by
    rw [hitem]; exact he
  have H0 := process_serves_then_write_fault .tcp tcpServerFraming svc
    (reqs.map fun p => tcpFrame p.1 (encodeRequestPdu p.2)) (tcpFrame hdr (encodeRequestPdu req)) after
    t feeds extra ps fault kf wrest rsp frame
  have H := H0 hv hne hxv hxne hw' hf hreads hfeed hdata henc' hsvc' he' hk hpos hacc
  rw [hitems, hitem] at H
  exact H

/-- **the same on an RTU connection** (RTU-over-TCP, serial) -/
theorem connection_write_fault_rtu (svc : Service) (reqs : List (UInt8 × Request)) (slave : UInt8)
    (req : Request) (after : Bytes) (t : Transport) (feeds extra : List ReadEv)
    (ps : List (Option Nat)) (fault : WriteEv) (kf : ErrKind) (wrest : List WriteEv)
    (rsp : ResponseResult) (frame : Bytes)
    (hs : ∀ p ∈ reqs, requestPduSizeRaw p.2 ≤ 253) (hc : ∀ p ∈ reqs, ∀ fc d, p.2 ≠ .custom fc d)
    (hs1 : requestPduSizeRaw req ≤ 253) (hc1 : ∀ fc d, req ≠ .custom fc d)
    (hw : t.writes = acceptScript (expectedTrace .rtu svc 0 (reqs.map fun p => ({ tid := 0, unit := p.1 }, p.2)))
          ++ (pieceEvents ps ++ fault :: wrest))
    (hf : t.flushes = [])
    (hreads : t.reads = feeds ++ extra) (hfeed : ∀ e ∈ feeds, e.isFeed = true)
    (hdata : dataOf feeds = (reqs.map fun p => rtuFrame p.1 (encodeRequestPdu p.2)).flatten
        ++ (rtuFrame slave (encodeRequestPdu req) ++ after))
    (henc : Encodable .rtu svc 0 (reqs.map fun p => ({ tid := 0, unit := p.1 }, p.2)))
    (hsvc : responseFor req.functionCode (svc reqs.length slave req) = some rsp)
    (he : serverEncode .rtu { tid := 0, unit := slave } rsp = .ok frame)
    (hk : fault.faultKind = some kf) (hpos : ∀ n, some n ∈ ps → 0 < n) (hacc : Modbus.accepted ps < frame.length) :
    (process .rtu svc t).1 = .failed kf
    ∧ ∃ effs, (process .rtu svc t).2.1
          = expectedTrace .rtu svc 0 (reqs.map fun p => ({ tid := 0, unit := p.1 }, p.2))
            ++ [.call slave req] ++ effectsToEvents effs
        ∧ writtenBytes effs = frame.take (Modbus.accepted ps) := by
  have hitems : (reqs.map fun p => rtuFrame p.1 (encodeRequestPdu p.2)).map rtuServerFraming.item
      = reqs.map fun p => ({ tid := 0, unit := p.1 }, p.2) := by
    rw [List.map_map]
    apply List.map_congr_left
    intro p hp
    have h3 := server_decodes_request_rtu {} p.1 p.2 [] (hs p hp) (hc p hp)
    simp only [List.append_nil] at h3
    simp [rtuServerFraming, Framing.ofStrict, h3]
  have hitem : rtuServerFraming.item (rtuFrame slave (encodeRequestPdu req)) = ({ tid := 0, unit := slave }, req) := by
    have h3 := server_decodes_request_rtu {} slave req [] hs1 hc1
    simp only [List.append_nil] at h3
    simp [rtuServerFraming, Framing.ofStrict, h3]
  have hv : ∀ y ∈ (reqs.map fun p => rtuFrame p.1 (encodeRequestPdu p.2)), rtuServerFraming.Valid y := by
    intro y hy
    obtain ⟨p, hp, rfl⟩ := List.mem_map.mp hy
    exact ⟨p.1, p.2, hs p hp, hc p hp, rfl⟩
  have hne : ∀ y ∈ (reqs.map fun p => rtuFrame p.1 (encodeRequestPdu p.2)), y ≠ [] := by
    intro y hy
    obtain ⟨p, _, rfl⟩ := List.mem_map.mp hy
    simp [rtuFrame]
  have hlen : (reqs.map fun p => rtuFrame p.1 (encodeRequestPdu p.2)).length = reqs.length := by simp
  have hxv : rtuServerFraming.Valid (rtuFrame slave (encodeRequestPdu req)) := ⟨slave, req, hs1, hc1, rfl⟩
  have hxne : rtuFrame slave (encodeRequestPdu req) ≠ [] := by simp [rtuFrame]
  have hw' : t.writes = acceptScript (expectedTrace .rtu svc 0
        ((reqs.map fun p => rtuFrame p.1 (encodeRequestPdu p.2)).map rtuServerFraming.item))
      ++ (pieceEvents ps ++ fault :: wrest) := by rw [hitems]; exact hw
  have henc' : Encodable .rtu svc 0 ((reqs.map fun p => rtuFrame p.1 (encodeRequestPdu p.2)).map rtuServerFraming.item) := by
    rw [hitems]; exact henc
  have hsvc' : responseFor (rtuServerFraming.item (rtuFrame slave (encodeRequestPdu req))).2.functionCode
      (svc (reqs.map fun p => rtuFrame p.1 (encodeRequestPdu p.2)).length
        (rtuServerFraming.item (rtuFrame slave (encodeRequestPdu req))).1.unit (rtuServerFraming.item (rtuFrame slave (encodeRequestPdu req))).2) = some rsp := by
    rw [hitem, hlen]; exact hsvc
  have he' : serverEncode .rtu (rtuServerFraming.item (rtuFrame slave (encodeRequestPdu req))).1 rsp = .ok frame := by
    rw [hitem]; exact he
  have H0 := process_serves_then_write_fault .rtu rtuServerFraming svc
    (reqs.map fun p => rtuFrame p.1 (encodeRequestPdu p.2)) (rtuFrame slave (encodeRequestPdu req)) after
    t feeds extra ps fault kf wrest rsp frame
  have H := H0 hv hne hxv hxne hw' hf hreads hfeed hdata henc' hsvc' he' hk hpos hacc
  rw [hitems, hitem] at H
  exact H

-- non-vacuity: one request served, the reply to the second one cut after 3 + 2 bytes by a broken pipe
example : (process .tcp (fun _ _ _ => .reply (.readCoils [true, false, true, false, false, false, false, false]))
    { reads := [.data [0, 1, 0, 0, 0, 6, 7, 1, 0, 0, 0, 8], .data [0, 2, 0, 0, 0, 6, 7, 1, 0, 0, 0, 8, 0, 3]],
      writes := [.accept 10, .accept 3, .pending, .accept 2, .err .brokenPipe] }).1 = .failed .brokenPipe := by
  decide +kernel

-- non-vacuity
example : serve [.accepted 0, .rejected, .accepted 1, .setupFailed (.injected 3), .accepted 2]
    = ([0, 1], some (.injected 3)) := by decide
example : (process .tcp (fun _ _ _ => .decline) { reads := [.data [0, 1, 0, 0, 0, 2, 7, 0x11], .eof] }).1
    = .finished := by decide +kernel
example : (process .tcp (fun _ _ _ => .decline) { reads := [.data [0, 1, 0, 0, 0, 2, 7], .eof] }).1
    = .failed .other := by decide +kernel
example : (process .tcp (fun _ _ _ => .decline) { reads := [.data [0, 1, 0, 9, 0, 2, 7, 0x11]] }).1
    = .failed .invalidData := by decide +kernel

end Modbus.Props.C14
