import ModbusModel.Lemmas.Encode
import ModbusModel.Lemmas.Tcp
import ModbusModel.Lemmas.Effects
import ModbusModel.Model.Server
import ModbusModel.Lemmas.Independent
/-
  C09 – Oversized PDUs are refused before sending; PDUs up to 253 bytes go out intact.
-/
namespace Modbus.Props.C09
open Modbus

/-- the size check is exactly "the encoded PDU is longer than 253 bytes" -/
theorem request_refused_iff (r : Request) :
    requestPduSize r = none ↔ (encodeRequestPdu r).length > 253 := by
  rw [encodeRequestPdu_length]
  unfold requestPduSize MAX_PDU_SIZE
  split <;> simp_all

theorem response_refused_iff (r : Response) :
    responsePduSize r = none ↔ (encodeResponsePdu r).length > 253 := by
  rw [encodeResponsePdu_length]
  unfold responsePduSize MAX_PDU_SIZE
  split <;> simp_all

/-- an oversized request is refused by both encoders with InvalidInput: nothing is encoded -/
theorem oversize_request_encoders (r : Request) (hdr : TcpHeader) (slave : UInt8)
    (h : (encodeRequestPdu r).length > 253) :
    tcpEncodeRequest hdr r = .err .invalidInput ∧ rtuEncodeRequest slave r = .err .invalidInput := by
  have := (request_refused_iff r).mpr h
  simp [tcpEncodeRequest, rtuEncodeRequest, this]

theorem oversize_response_encoders (r : Response) (hdr : TcpHeader) (slave : UInt8)
    (h : (encodeResponsePdu r).length > 253) :
    tcpEncodeResponse hdr (.ok r) = .err .invalidInput ∧ rtuEncodeResponse slave (.ok r) = .err .invalidInput := by
  have := (response_refused_iff r).mpr h
  simp [tcpEncodeResponse, rtuEncodeResponse, responseResultPduSize, this]

/-- **an oversized service response is never written and ends the connection with one error**:
    the request has been handed to the service, the reply it returns would exceed 253 bytes –
    the connection task ends `failed invalidInput`, the trace shows the call and no write, and
    nothing reached the transport -/
theorem oversize_response_ends_connection (k : Kind) (svc : Service) (fuel idx : Nat) (f : ServerFramed)
    (t : Transport) (tr : List SrvEvent) (hdr : Hdr) (req : Request) (fd : FrameDecoder) (r : ReadFrame)
    (evs : List ReadEv) (rsp : Response)
    (h : awaitNext (serverDecoder k) f.fd f.read t.reads = (.item (hdr, req), fd, r, evs))
    (hs : responseFor req.functionCode (svc idx hdr.unit req) = some (.ok rsp))
    (hw : f.wbuf = []) (hbig : (encodeResponsePdu rsp).length > 253) :
    (processLoop k svc (fuel + 1) idx f t tr).1 = .failed .invalidInput
    ∧ (processLoop k svc (fuel + 1) idx f t tr).2.1 = tr ++ [.call hdr.unit req]
    ∧ (processLoop k svc (fuel + 1) idx f t tr).2.2.2.writes = t.writes := by
  have he : serverEncode k hdr (.ok rsp) = .err .invalidInput := by
    have h2 := oversize_response_encoders rsp { transactionId := hdr.tid, unitId := hdr.unit } hdr.unit hbig
    cases k
    · simpa [serverEncode] using h2.1
    · simpa [serverEncode] using h2.2
  have h8 : ¬ (BACKPRESSURE_BOUNDARY ≤ 0) := by simp [BACKPRESSURE_BOUNDARY]
  refine ⟨?_, ?_, ?_⟩ <;> simp [processLoop, h, hs, hw, he, h8, effectsToEvents]

/-- **oversize_refused**: a call whose request would exceed 253 bytes fails with an
    InvalidInput transport error without a single byte reaching the transport; the client
    stays connected and its write buffer is left as it was (here: empty) -/
theorem oversize_refused (c : Client) (f : ClientFramed) (req : Request) (t : Transport) (b : Budget)
    (hb : b ≠ some 0) (hf : c.framed = some f) (hw : f.wbuf = [])
    (h : (encodeRequestPdu req).length > 253) :
    (c.call req t b).1 = .done (.transport .invalidInput)
    ∧ (c.call req t b).2.2.2 = []
    ∧ (c.call req t b).2.2.1 = t
    ∧ (c.call req t b).2.1.framed = some { f with read := { f.read with buffer := [] } } := by
  have hs := (request_refused_iff req).mpr h
  unfold Client.call
  cases hk : c.kind <;>
    simp [hb, hf, hw, hk, awaitReady, BACKPRESSURE_BOUNDARY, clientEncode, tcpEncodeRequest, rtuEncodeRequest, hs]

/-- **oversize_leaves_client_usable**: the refused call leaves no trace but a transaction id that
    may have been used up: the next call – any request, any transport behaviour, any poll budget –
    returns what it returns on the client as it was before the refused call (with the id the
    refused call left), writes the same bytes and leaves the transport in the same state -/
theorem oversize_leaves_client_usable (c : Client) (f : ClientFramed) (big req : Request)
    (t t2 : Transport) (b b2 : Budget)
    (hb : b ≠ some 0) (hf : c.framed = some f) (hw : f.wbuf = [])
    (he : f.read.hasErrored = false) (hq : f.read.eof = false)
    (h : (encodeRequestPdu big).length > 253) :
    let c' := (c.call big t b).2.1
    let ref : Client := { c with nextTid := c'.nextTid }
    (c'.call req t2 b2).1 = (ref.call req t2 b2).1
    ∧ (c'.call req t2 b2).2.2 = (ref.call req t2 b2).2.2 := by
  intro c' ref
  have hr := (oversize_refused c f big t b hb hf hw h).2.2.2
  have hfr := call_frame c big t b hb
  exact call_independent_of_past c' ref { f with read := { f.read with buffer := [] } } f req t2 b2
    hr hf hfr.2.1 hfr.2.2 rfl rfl he he hq hq

/-- **fields_intact** (TCP requests): what is transmitted for a request within the limit is the
    MBAP frame of the full encoding, and none of the length casts truncates -/
theorem tcp_request_intact (hdr : TcpHeader) (r : Request) (h : (encodeRequestPdu r).length ≤ 253) :
    tcpEncodeRequest hdr r = .ok (tcpFrame hdr (encodeRequestPdu r)) ∧ encodeRequestAsserts r = true := by
  have hn : requestPduSize r = some (requestPduSizeRaw r) := by
    rw [encodeRequestPdu_length] at h
    simp [requestPduSize, MAX_PDU_SIZE]; omega
  obtain ⟨ha, _, _⟩ := requestAsserts_of_size r _ hn
  refine ⟨?_, ha⟩
  simp [tcpEncodeRequest, hn, ha, tcpFrame, mbap, encodeRequestPdu_length]

/-- **fields_intact** (RTU requests) -/
theorem rtu_request_intact (slave : UInt8) (r : Request) (h : (encodeRequestPdu r).length ≤ 253) :
    rtuEncodeRequest slave r
      = .ok (slave :: encodeRequestPdu r ++ crcBytes (slave :: encodeRequestPdu r)) := by
  have hn : requestPduSize r = some (requestPduSizeRaw r) := by
    rw [encodeRequestPdu_length] at h
    simp [requestPduSize, MAX_PDU_SIZE]; omega
  obtain ⟨ha, _, _⟩ := requestAsserts_of_size r _ hn
  simp [rtuEncodeRequest, hn, ha]

/-- **fields_intact** (responses, both framings) -/
theorem response_intact (hdr : TcpHeader) (slave : UInt8) (r : Response)
    (h : (encodeResponsePdu r).length ≤ 253) :
    tcpEncodeResponse hdr (.ok r) = .ok (tcpFrame hdr (encodeResponsePdu r))
    ∧ rtuEncodeResponse slave (.ok r)
        = .ok (slave :: encodeResponsePdu r ++ crcBytes (slave :: encodeResponsePdu r))
    ∧ encodeResponseAsserts r = true := by
  have hn : responsePduSize r = some (responsePduSizeRaw r) := by
    rw [encodeResponsePdu_length] at h
    simp [responsePduSize, MAX_PDU_SIZE]; omega
  obtain ⟨ha, _, _⟩ := responseAsserts_of_size r _ hn
  refine ⟨?_, ?_, ha⟩
  · simp [tcpEncodeResponse, responseResultPduSize, encodeResponseResultAsserts, encodeResponseResultPdu,
      hn, ha, tcpFrame, mbap, encodeResponsePdu_length]
  · simp [rtuEncodeResponse, responseResultPduSize, encodeResponseResultAsserts, encodeResponseResultPdu, hn, ha]

/-- the count and byte-count fields carry the true values (no truncation) whenever the
    request passes the size check -/
theorem count_fields_intact (r : Request) (n : Nat) (h : requestPduSize r = some n) :
    match r with
    | .writeMultipleCoils _ coils =>
        (UInt16.ofNat coils.length).toNat = coils.length
        ∧ (UInt8.ofNat (packedCoilsSize coils.length)).toNat = packedCoilsSize coils.length
    | .writeMultipleRegisters _ ws | .readWriteMultipleRegisters _ _ _ ws =>
        (UInt16.ofNat ws.length).toNat = ws.length ∧ (UInt8.ofNat (ws.length * 2)).toNat = ws.length * 2
    | _ => True := by
  obtain ⟨ha, _, _⟩ := requestAsserts_of_size r n h
  cases r <;> simp_all [encodeRequestAsserts, UInt16.toNat_ofNat', UInt8.toNat_ofNat'] <;> omega

-- the boundaries named in the property, for every payload of the boundary length
theorem boundaries (a q w : UInt16) (fc id : UInt8) (run : Bool) :
    (∀ ws : List UInt16, ws.length = 123 → requestPduSize (.writeMultipleRegisters a ws) = some 252)
    ∧ (∀ ws : List UInt16, ws.length = 124 → requestPduSize (.writeMultipleRegisters a ws) = none)
    ∧ (∀ cs : List Bool, cs.length = 1976 → requestPduSize (.writeMultipleCoils a cs) = some 253)
    ∧ (∀ cs : List Bool, cs.length = 1977 → requestPduSize (.writeMultipleCoils a cs) = none)
    ∧ (∀ ws : List UInt16, ws.length = 121 → requestPduSize (.readWriteMultipleRegisters a q w ws) = some 252)
    ∧ (∀ ws : List UInt16, ws.length = 122 → requestPduSize (.readWriteMultipleRegisters a q w ws) = none)
    ∧ (∀ d : Bytes, d.length = 252 → requestPduSize (.custom fc d) = some 253)
    ∧ (∀ d : Bytes, d.length = 253 → requestPduSize (.custom fc d) = none)
    ∧ (∀ d : Bytes, d.length = 249 → responsePduSize (.reportServerId id run d) = some 253)
    ∧ (∀ d : Bytes, d.length = 250 → responsePduSize (.reportServerId id run d) = none)
    ∧ (∀ ws : List UInt16, ws.length = 125 → responsePduSize (.readHoldingRegisters ws) = some 252)
    ∧ (∀ ws : List UInt16, ws.length = 126 → responsePduSize (.readHoldingRegisters ws) = none)
    ∧ (∀ cs : List Bool, cs.length = 2008 → responsePduSize (.readCoils cs) = some 253)
    ∧ (∀ cs : List Bool, cs.length = 2009 → responsePduSize (.readCoils cs) = none) := by
  refine ⟨?_, ?_, ?_, ?_, ?_, ?_, ?_, ?_, ?_, ?_, ?_, ?_, ?_, ?_⟩ <;> intro x hx <;>
    simp [requestPduSize, requestPduSizeRaw, responsePduSize, responsePduSizeRaw, packedCoilsSize,
      MAX_PDU_SIZE, hx]

end Modbus.Props.C09
