import ModbusModel.Model.Server
/-
  C18 – Concurrent connections are served independently.

  The server keeps no state outside its connection tasks: each task owns its framed transport
  and its service instance.  The model of that is a family of per-connection states on which
  every event of a connection acts through one step function; the theorem says that under
  *every* interleaving of the connections' events each connection's outputs and final state
  are those of its own events alone.  (That every real task is `process` on its own transport
  and service is what the correspondence – N concurrent real clients – samples.)
-/
namespace Modbus.Props.C18
open Modbus

variable {S I O : Type}

/-- run an interleaved event list over a family of per-connection states -/
def runInterleaved (step : S → I → S × List O) (states : Nat → S) :
    List (Nat × I) → (Nat → S) × List (Nat × O)
  | [] => (states, [])
  | (c, i) :: es =>
    let (s', outs) := step (states c) i
    let (final, rest) := runInterleaved step (fun d => if d = c then s' else states d) es
    (final, outs.map (fun o => (c, o)) ++ rest)

/-- run one connection alone -/
def runAlone (step : S → I → S × List O) (s : S) : List I → S × List O
  | [] => (s, [])
  | i :: is =>
    let (s', outs) := step s i
    let (final, rest) := runAlone step s' is
    (final, outs ++ rest)

def eventsOf (c : Nat) (es : List (Nat × I)) : List I :=
  es.filterMap fun (d, i) => if d = c then some i else none

def outputsOf (c : Nat) (os : List (Nat × O)) : List O :=
  os.filterMap fun (d, o) => if d = c then some o else none

theorem outputsOf_map_same (c : Nat) (l : List O) : outputsOf c (l.map fun o => (c, o)) = l := by
  induction l with
  | nil => rfl
  | cons x xs ih => simp [outputsOf] at *; exact ih

theorem outputsOf_map_other (c d : Nat) (h : d ≠ c) (l : List O) : outputsOf c (l.map fun o => (d, o)) = [] := by
  induction l with
  | nil => rfl
  | cons x xs ih => simp [outputsOf, h] at *

theorem outputsOf_append (c : Nat) (a b : List (Nat × O)) :
    outputsOf c (a ++ b) = outputsOf c a ++ outputsOf c b := by
  simp [outputsOf, List.filterMap_append]

/-- **noninterference**: for every interleaving of the connections' events, the replies delivered
    on connection `c` – in order – and its final state are exactly those of running the
    connection on its own events alone -/
theorem noninterference (step : S → I → S × List O) (es : List (Nat × I)) (states : Nat → S) (c : Nat) :
    outputsOf c (runInterleaved step states es).2 = (runAlone step (states c) (eventsOf c es)).2
    ∧ (runInterleaved step states es).1 c = (runAlone step (states c) (eventsOf c es)).1 := by
  induction es generalizing states with
  | nil => simp [runInterleaved, runAlone, eventsOf, outputsOf]
  | cons e es ih =>
    obtain ⟨d, i⟩ := e
    simp only [runInterleaved]
    by_cases h : d = c
    · subst h
      have := ih (fun x => if x = d then (step (states d) i).1 else states x)
      simp only [if_true] at this
      simp only [eventsOf, List.filterMap_cons, if_true, runAlone, outputsOf_append, outputsOf_map_same]
      simp only [eventsOf] at this
      exact ⟨by rw [this.1], this.2⟩
    · have := ih (fun x => if x = d then (step (states d) i).1 else states x)
      have hc : c ≠ d := fun e => h e.symm
      simp only [hc, if_false] at this
      simp only [eventsOf, List.filterMap_cons, h, if_false, outputsOf_append, outputsOf_map_other c d h,
        List.nil_append]
      simp only [eventsOf] at this
      exact this

/-- connections never see each other's state: an event of `d ≠ c` leaves `c` untouched -/
theorem step_frame (step : S → I → S × List O) (states : Nat → S) (c d : Nat) (i : I) (h : d ≠ c) :
    (runInterleaved step states [(d, i)]).1 c = states c := by
  have hc : c ≠ d := fun e => h e.symm
  simp [runInterleaved, hc]

/-- a connection task of the server is `process` on its own transport and service: a function
    of that connection's service and script only -/
theorem connection_is_process (k : Kind) (svc : Service) (t : Transport) :
    ∃ e tr, (process k svc t).1 = e ∧ (process k svc t).2.1 = tr := ⟨_, _, rfl, rfl⟩

-- non-vacuity: two connections' events interleaved two different ways give the same per-connection outputs
example :
    outputsOf 1 (runInterleaved (fun (s : Nat) (i : Nat) => (s + i, [s + i])) (fun _ => 0)
      [(1, 5), (2, 7), (1, 1), (2, 1)]).2
    = outputsOf 1 (runInterleaved (fun (s : Nat) (i : Nat) => (s + i, [s + i])) (fun _ => 0)
      [(2, 7), (2, 1), (1, 5), (1, 1)]).2 := by decide

end Modbus.Props.C18
