import ModbusModel.Model.Frame
/-
  Model of src/codec/mod.rs: PDU encoders, size functions and decoders.
-/
namespace Modbus

def MAX_PDU_SIZE : Nat := 253

/-! ### coil packing -/

def boolToCoil (b : Bool) : UInt16 := if b then 0xFF00 else 0x0000

/-- `coil_to_bool` (`none` = InvalidData) -/
def coilToBool (w : UInt16) : Option Bool :=
  if w = 0xFF00 then some true else if w = 0x0000 then some false else none

def packedCoilsSize (n : Nat) : Nat := (n + 7) / 8

/-- value of up to 8 coils packed LSB first -/
def packBits : List Bool → Nat
  | [] => 0
  | b :: bs => (if b then 1 else 0) + 2 * packBits bs

/-- `encode_packed_coils` -/
def packCoils (coils : List Bool) : Bytes :=
  if _h : coils = [] then [] else
    UInt8.ofNat (packBits (coils.take 8)) :: packCoils (coils.drop 8)
termination_by coils.length
decreasing_by
  cases coils with
  | nil => contradiction
  | cons a t => simp [List.length_drop]; omega

/-- the 8 bits of a byte, LSB first -/
def byteBits (b : UInt8) : List Bool :=
  (List.range 8).map fun i => (b.toNat / 2 ^ i) % 2 = 1

/-- `decode_packed_coils(bytes, count)`: indexing past the end panics (`none`). -/
def unpackCoils (bytes : Bytes) (count : Nat) : Option (List Bool) :=
  if count ≤ 8 * bytes.length then some ((bytes.flatMap byteBits).take count) else none

/-! ### encoders -/

/-- `encode_request_pdu` with the `as u8` / `as u16` casts wrapping (release semantics). -/
def encodeRequestPdu : Request → Bytes
  | .readCoils a q => 0x01 :: be16 a ++ be16 q
  | .readDiscreteInputs a q => 0x02 :: be16 a ++ be16 q
  | .readInputRegisters a q => 0x04 :: be16 a ++ be16 q
  | .readHoldingRegisters a q => 0x03 :: be16 a ++ be16 q
  | .writeSingleCoil a b => 0x05 :: be16 a ++ be16 (boolToCoil b)
  | .writeMultipleCoils a coils =>
    0x0F :: be16 a ++ be16 (UInt16.ofNat coils.length)
      ++ [UInt8.ofNat (packedCoilsSize coils.length)] ++ packCoils coils
  | .writeSingleRegister a w => 0x06 :: be16 a ++ be16 w
  | .writeMultipleRegisters a ws =>
    0x10 :: be16 a ++ be16 (UInt16.ofNat ws.length) ++ [UInt8.ofNat (ws.length * 2)] ++ encWords ws
  | .reportServerId => [0x11]
  | .maskWriteRegister a am om => 0x16 :: be16 a ++ be16 am ++ be16 om
  | .readWriteMultipleRegisters ra q wa ws =>
    0x17 :: be16 ra ++ be16 q ++ be16 wa ++ be16 (UInt16.ofNat ws.length)
      ++ [UInt8.ofNat (ws.length * 2)] ++ encWords ws
  | .custom fc data => fc :: data

/-- The `debug_assert!`s of `u8_len` / `u16_len` reached while encoding the request hold. -/
def encodeRequestAsserts : Request → Bool
  | .writeMultipleCoils _ coils => coils.length ≤ 65535 && packedCoilsSize coils.length ≤ 255
  | .writeMultipleRegisters _ ws => ws.length ≤ 65535 && ws.length * 2 ≤ 255
  | .readWriteMultipleRegisters _ _ _ ws => ws.length ≤ 65535 && ws.length * 2 ≤ 255
  | _ => true

/-- `request_pdu_size` without the limit check -/
def requestPduSizeRaw : Request → Nat
  | .readCoils .. | .readDiscreteInputs .. | .readInputRegisters .. | .readHoldingRegisters ..
  | .writeSingleRegister .. | .writeSingleCoil .. => 5
  | .writeMultipleCoils _ coils => 6 + packedCoilsSize coils.length
  | .writeMultipleRegisters _ ws => 6 + ws.length * 2
  | .reportServerId => 1
  | .maskWriteRegister .. => 7
  | .readWriteMultipleRegisters _ _ _ ws => 10 + ws.length * 2
  | .custom _ data => 1 + data.length

/-- `request_pdu_size` (`none` = InvalidInput "request PDU size exceeded") -/
def requestPduSize (r : Request) : Option Nat :=
  if requestPduSizeRaw r > MAX_PDU_SIZE then none else some (requestPduSizeRaw r)

/-- `encode_response_pdu` (casts wrapping) -/
def encodeResponsePdu : Response → Bytes
  | .readCoils coils => 0x01 :: UInt8.ofNat (packedCoilsSize coils.length) :: packCoils coils
  | .readDiscreteInputs coils => 0x02 :: UInt8.ofNat (packedCoilsSize coils.length) :: packCoils coils
  | .readInputRegisters ws => 0x04 :: UInt8.ofNat (ws.length * 2) :: encWords ws
  | .readHoldingRegisters ws => 0x03 :: UInt8.ofNat (ws.length * 2) :: encWords ws
  | .readWriteMultipleRegisters ws => 0x17 :: UInt8.ofNat (ws.length * 2) :: encWords ws
  | .writeSingleCoil a b => 0x05 :: be16 a ++ be16 (boolToCoil b)
  | .writeMultipleCoils a q => 0x0F :: be16 a ++ be16 q
  | .writeMultipleRegisters a q => 0x10 :: be16 a ++ be16 q
  | .reportServerId id run data =>
    0x11 :: UInt8.ofNat (2 + (UInt8.ofNat data.length).toNat) :: id :: (if run then 0xFF else 0x00) :: data
  | .writeSingleRegister a w => 0x06 :: be16 a ++ be16 w
  | .maskWriteRegister a am om => 0x16 :: be16 a ++ be16 am ++ be16 om
  | .custom fc data => fc :: data

/-- debug assertions / overflow checks reached while encoding the response hold -/
def encodeResponseAsserts : Response → Bool
  | .readCoils coils | .readDiscreteInputs coils => packedCoilsSize coils.length ≤ 255
  | .readInputRegisters ws | .readHoldingRegisters ws | .readWriteMultipleRegisters ws =>
    ws.length * 2 ≤ 255
  | .reportServerId _ _ data => data.length ≤ 253
  | _ => true

def responsePduSizeRaw : Response → Nat
  | .readCoils coils | .readDiscreteInputs coils => 2 + packedCoilsSize coils.length
  | .writeSingleCoil .. | .writeMultipleCoils .. | .writeMultipleRegisters ..
  | .writeSingleRegister .. => 5
  | .readInputRegisters ws | .readHoldingRegisters ws | .readWriteMultipleRegisters ws =>
    2 + ws.length * 2
  | .reportServerId _ _ data => 4 + data.length
  | .maskWriteRegister .. => 7
  | .custom _ data => 1 + data.length

/-- `response_pdu_size` -/
def responsePduSize (r : Response) : Option Nat :=
  if responsePduSizeRaw r > MAX_PDU_SIZE then none else some (responsePduSizeRaw r)

/-- `encode_exception_response_pdu` (`function + 0x80` wrapping) -/
def encodeExceptionPdu (e : ExceptionResponse) : Bytes :=
  [e.function.value + 0x80, e.exception.value]

def encodeExceptionAsserts (e : ExceptionResponse) : Bool :=
  e.function.value < 0x80

/-- `response_result_pdu_size` -/
def responseResultPduSize : ResponseResult → Option Nat
  | .ok r => responsePduSize r
  | .error _ => some 2

/-- `encode_response_result_pdu` -/
def encodeResponseResultPdu : ResponseResult → Bytes
  | .ok r => encodeResponsePdu r
  | .error e => encodeExceptionPdu e

def encodeResponseResultAsserts : ResponseResult → Bool
  | .ok r => encodeResponseAsserts r
  | .error e => encodeExceptionAsserts e

/-! ### decoders -/

open Res in
/-- two big-endian words and nothing else (`read_u16_be` twice, then the
    "undecoded data" check) -/
def dec2 {α} (f : UInt16 → UInt16 → α) : Bytes → Res α
  | [a, b, c, d] => ok (f (rd16 a b) (rd16 c d))
  | _ :: _ :: _ :: _ :: _ :: _ => err .invalidData
  | _ => err .unexpectedEof

open Res in
def dec3 {α} (f : UInt16 → UInt16 → UInt16 → α) : Bytes → Res α
  | [a, b, c, d, e, g] => ok (f (rd16 a b) (rd16 c d) (rd16 e g))
  | _ :: _ :: _ :: _ :: _ :: _ :: _ :: _ => err .invalidData
  | _ => err .unexpectedEof

open Res in
/-- address + coil value (`coil_to_bool` is checked before the trailing-data check) -/
def decCoil {α} (f : UInt16 → Bool → α) : Bytes → Res α
  | a :: b :: c :: d :: rest =>
    match coilToBool (rd16 c d) with
    | none => err .invalidData
    | some v => if rest.isEmpty then ok (f (rd16 a b) v) else err .invalidData
  | _ => err .unexpectedEof

/-- `match fn_code { k => arm, …, _ => default }`: the arms of a decoder, keyed by function
    code (thunks, so that only the selected arm is evaluated) -/
def dispatch {α} (fc : UInt8) (table : List (UInt8 × (Unit → α))) (dflt : Unit → α) : α :=
  match table.lookup fc with
  | some arm => arm ()
  | none => dflt ()

open Res in
/-- request arm 0x0F (after the fix D1) -/
def decWriteMultipleCoils (bytes rest : Bytes) : Res Request :=
  if bytes.length > MAX_PDU_SIZE then err .invalidData else
  match rest with
  | a :: b :: c :: d :: bc :: tail =>
    let quantity := rd16 c d
    let byteCount := bc.toNat
    if bytes.length < 6 + byteCount then err .invalidData
    else if quantity.toNat > byteCount * 8 then err .invalidData
    else
      match unpackCoils (tail.take byteCount) quantity.toNat with
      | none => panic
      | some coils =>
        if (tail.drop byteCount).isEmpty then ok (.writeMultipleCoils (rd16 a b) coils)
        else err .invalidData
  | _ => err .unexpectedEof

open Res in
/-- request arm 0x10 (after the fix D2) -/
def decWriteMultipleRegisters (bytes rest : Bytes) : Res Request :=
  if bytes.length > MAX_PDU_SIZE then err .invalidData else
  match rest with
  | a :: b :: c :: d :: bc :: tail =>
    let quantity := rd16 c d
    if bc.toNat ≠ quantity.toNat * 2 then err .invalidData
    else
      match readWords quantity.toNat tail with
      | none => err .unexpectedEof
      | some (ws, r) =>
        if r.isEmpty then ok (.writeMultipleRegisters (rd16 a b) ws) else err .invalidData
  | _ => err .unexpectedEof

open Res in
/-- request arm 0x17 (after the fix D2) -/
def decReadWriteMultipleRegisters (bytes rest : Bytes) : Res Request :=
  if bytes.length > MAX_PDU_SIZE then err .invalidData else
  match rest with
  | a :: b :: c :: d :: e :: f :: g :: h :: wc :: tail =>
    let writeQuantity := rd16 g h
    if wc.toNat ≠ writeQuantity.toNat * 2 then err .invalidData
    else
      match readWords writeQuantity.toNat tail with
      | none => err .unexpectedEof
      | some (ws, r) =>
        if r.isEmpty then
          ok (.readWriteMultipleRegisters (rd16 a b) (rd16 c d) (rd16 e f) ws)
        else err .invalidData
  | _ => err .unexpectedEof

open Res in
/-- the arms of `decode_request_pdu_bytes`, by function code -/
def requestArms (bytes rest : Bytes) : List (UInt8 × (Unit → Res Request)) :=
  [ (0x01, fun _ => dec2 .readCoils rest),
    (0x02, fun _ => dec2 .readDiscreteInputs rest),
    (0x05, fun _ => decCoil .writeSingleCoil rest),
    (0x0F, fun _ => decWriteMultipleCoils bytes rest),
    (0x04, fun _ => dec2 .readInputRegisters rest),
    (0x03, fun _ => dec2 .readHoldingRegisters rest),
    (0x06, fun _ => dec2 .writeSingleRegister rest),
    (0x10, fun _ => decWriteMultipleRegisters bytes rest),
    (0x11, fun _ => if rest.isEmpty then ok .reportServerId else err .invalidData),
    (0x16, fun _ => dec3 .maskWriteRegister rest),
    (0x17, fun _ => decReadWriteMultipleRegisters bytes rest) ]

open Res in
/-- `decode_request_pdu_bytes` -/
def decodeRequest (bytes : Bytes) : Res Request :=
  match bytes with
  | [] => err .unexpectedEof
  | fc :: rest =>
    dispatch fc (requestArms bytes rest)
      (fun _ => if fc < 0x80 then ok (.custom fc rest) else err .invalidData)

open Res in
/-- byte-counted packed coils of a read-coils / read-discrete-inputs response -/
def decBits {α} (f : List Bool → α) (total : Nat) : Bytes → Res α
  | [] => err .unexpectedEof
  | bc :: tail =>
    if total < 2 + bc.toNat then err .invalidData
    else
      match unpackCoils (tail.take bc.toNat) (bc.toNat * 8) with
      | none => panic
      | some coils => if (tail.drop bc.toNat).isEmpty then ok (f coils) else err .invalidData

open Res in
/-- byte-counted register list of a register read response -/
def decRegs {α} (f : List UInt16 → α) : Bytes → Res α
  | [] => err .unexpectedEof
  | bc :: tail =>
    if bc.toNat % 2 ≠ 0 then err .invalidData
    else
      match readWords (bc.toNat / 2) tail with
      | none => err .unexpectedEof
      | some (ws, r) => if r.isEmpty then ok (f ws) else err .invalidData

open Res in
/-- response arm 0x11 (without the size check) -/
def decReportServerId (rest : Bytes) : Res Response :=
  match rest with
  | [] => err .unexpectedEof
  | bc :: tail =>
    if bc.toNat < 2 then err .invalidData else
    match tail with
    | id :: run :: tail2 =>
      if run = 0x00 ∨ run = 0xFF then
        match readBytes (bc.toNat - 2) tail2 with
        | none => err .unexpectedEof
        | some (data, r) =>
          if r.isEmpty then ok (.reportServerId id (run = 0xFF) data) else err .invalidData
      else err .invalidData
    | _ => err .unexpectedEof

open Res in
/-- `check_response_pdu_size(pdu_size)?` in front of an arm -/
def sized (bytes : Bytes) (arm : Res Response) : Res Response :=
  if bytes.length > MAX_PDU_SIZE then err .invalidInput else arm

/-- the arms of `decode_response_pdu_bytes`, by function code -/
def responseArms (bytes rest : Bytes) : List (UInt8 × (Unit → Res Response)) :=
  [ (0x01, fun _ => sized bytes (decBits .readCoils bytes.length rest)),
    (0x02, fun _ => sized bytes (decBits .readDiscreteInputs bytes.length rest)),
    (0x05, fun _ => decCoil .writeSingleCoil rest),
    (0x0F, fun _ => dec2 .writeMultipleCoils rest),
    (0x04, fun _ => sized bytes (decRegs .readInputRegisters rest)),
    (0x03, fun _ => sized bytes (decRegs .readHoldingRegisters rest)),
    (0x06, fun _ => dec2 .writeSingleRegister rest),
    (0x10, fun _ => dec2 .writeMultipleRegisters rest),
    (0x11, fun _ => sized bytes (decReportServerId rest)),
    (0x16, fun _ => dec3 .maskWriteRegister rest),
    (0x17, fun _ => sized bytes (decRegs .readWriteMultipleRegisters rest)) ]

open Res in
/-- `decode_response_pdu_bytes` -/
def decodeResponse (bytes : Bytes) : Res Response :=
  match bytes with
  | [] => err .unexpectedEof
  | fc :: rest => dispatch fc (responseArms bytes rest) (fun _ => ok (.custom fc rest))

open Res in
/-- `impl TryFrom<Bytes> for ExceptionResponse` -/
def decodeException (bytes : Bytes) : Res ExceptionResponse :=
  match bytes with
  | [] => err .unexpectedEof
  | fnErr :: rest =>
    if fnErr < 0x80 then err .invalidData
    else
      match rest with
      | [] => err .unexpectedEof
      | code :: _ => ok { function := FunctionCode.new (fnErr - 0x80), exception := ExceptionCode.new code }

open Res in
/-- `impl TryFrom<Bytes> for ResponsePdu` -/
def decodeResponsePdu (bytes : Bytes) : Res ResponseResult :=
  match bytes with
  | [] => err .unexpectedEof
  | fc :: _ =>
    if fc < 0x80 then (decodeResponse bytes).map .ok
    else (decodeException bytes).map .error

end Modbus
