import ModbusModel.Model.Codec
/-
  Model of src/service/{tcp,rtu}.rs (Client::call / disconnect / set_slave,
  transaction ids, header and function-code verification), of
  src/service/mod.rs (disconnect) and of the typed projections of
  src/client/mod.rs.
-/
namespace Modbus

/-- `Framed<T, ClientCodec>` without the transport -/
structure ClientFramed where
  read : ReadFrame := {}
  wbuf : Bytes := []
  fd : FrameDecoder := {}      -- RTU only
  deriving DecidableEq, Repr, Inhabited

structure Client where
  kind : Kind
  framed : Option ClientFramed := some {}
  nextTid : UInt16 := 0        -- TCP only
  unit : UInt8                 -- unit id (TCP) / slave id (RTU)
  deriving DecidableEq, Repr, Inhabited

/-- `client::tcp::attach` / `client::rtu::attach` defaults -/
def Client.attach (k : Kind) : Client :=
  match k with
  | .tcp => { kind := .tcp, unit := 255 }
  | .rtu => { kind := .rtu, unit := 0 }

def Client.attachSlave (k : Kind) (slave : UInt8) : Client :=
  { kind := k, unit := slave }

def Client.setSlave (c : Client) (slave : UInt8) : Client := { c with unit := slave }

inductive CallResult
  | ok (r : Response)
  | exception (e : ExceptionCode)
  | headerMismatch (res : ResponseResult)
  | fnMismatch (res : ResponseResult)
  | transport (k : ErrKind)
  | panic
  deriving DecidableEq, Repr, Inhabited

inductive Outcome (α : Type)
  | done (r : α)
  | abandoned          -- the future was dropped at a suspension point
  | blocked            -- pending forever (read script exhausted)
  deriving DecidableEq, Repr

/-- number of polls the caller still grants; `none` = unlimited -/
abbrev Budget := Option Nat

/-- account for one `Pending`: `none` = the future is dropped now -/
def Budget.tick : Budget → Option Budget
  | none => some none
  | some 0 => none
  | some 1 => none
  | some (n + 2) => some (some (n + 1))

/-- the tail of `call` once a reply ADU has been decoded -/
def classify (reqHdr : Hdr) (reqFc : FunctionCode) (rspHdr : Hdr) (res : ResponseResult) : CallResult :=
  if reqHdr ≠ rspHdr then .headerMismatch res
  else
    let rspFc := match res with
      | .ok r => r.functionCode
      | .error e => e.function
    if reqFc.value ≠ rspFc.value then .fnMismatch res
    else
      match res with
      | .ok r => .ok r
      | .error e => .exception e.exception

/-- await a flush: `fuel` bounds the number of `Pending`s (each consumes a script event) -/
def awaitFlush : Nat → Bytes → Transport → Budget → List Effect →
    Outcome (Option ErrKind) × Bytes × Transport × Budget × List Effect
  | 0, wbuf, t, b, effs => (.blocked, wbuf, t, b, effs)
  | fuel + 1, wbuf, t, b, effs =>
    match pollFlush wbuf t with
    | (.ready, w', t', e) => (.done none, w', t', b, effs ++ e)
    | (.error k, w', t', e) => (.done (some k), w', t', b, effs ++ e)
    | (.pending, w', t', e) =>
      match b.tick with
      | none => (.abandoned, w', t', b, effs ++ e)
      | some b' => awaitFlush fuel w' t' b' (effs ++ e)

/-- await `poll_ready` (only differs from a flush when the back-pressure boundary is reached) -/
def awaitReady (wbuf : Bytes) (t : Transport) (b : Budget) :
    Outcome (Option ErrKind) × Bytes × Transport × Budget × List Effect :=
  if wbuf.length ≥ BACKPRESSURE_BOUNDARY then
    awaitFlush (t.writes.length + t.flushes.length + 1) wbuf t b []
  else (.done none, wbuf, t, b, [])

/-- await `framed.next()` under a poll budget -/
def awaitNextB {σ ι} (D : Decoder σ ι) : Nat → σ → ReadFrame → List ReadEv → Budget →
    Outcome (Polled ι) × σ × ReadFrame × List ReadEv × Budget
  | 0, s, r, evs, b => (.blocked, s, r, evs, b)
  | fuel + 1, s, r, evs, b =>
    match pollNext D s r evs with
    | (.pending, s', r', evs') =>
      match b.tick with
      | none => (.abandoned, s', r', evs', b)
      | some b' => awaitNextB D fuel s' r' evs' b'
    | (.blocked, s', r', evs') => (.blocked, s', r', evs', b)
    | (p, s', r', evs') => (.done p, s', r', evs', b)

/-- `Client::call`.  Returns the outcome, the client afterwards, the transport
    afterwards and the effects on the transport. -/
def Client.call (c : Client) (req : Request) (t : Transport) (budget : Budget := none) :
    Outcome CallResult × Client × Transport × List Effect :=
  if budget = some 0 then (.abandoned, c, t, []) else
  let reqFc := req.functionCode
  -- next_request_adu: the transaction id is consumed before anything can fail
  let hdr : Hdr := match c.kind with
    | .tcp => { tid := c.nextTid, unit := c.unit }
    | .rtu => { tid := 0, unit := c.unit }
  let c := match c.kind with
    | .tcp => { c with nextTid := c.nextTid + 1 }
    | .rtu => c
  match c.framed with
  | none => (.done (.transport .notConnected), c, t, [])
  | some f =>
    -- framed.read_buffer_mut().clear()
    let f := { f with read := { f.read with buffer := [] } }
    -- send = feed (poll_ready, start_send) + flush
    match awaitReady f.wbuf t budget with
    | (.abandoned, w, t, _, effs) => (.abandoned, { c with framed := some { f with wbuf := w } }, t, effs)
    | (.blocked, w, t, _, effs) => (.blocked, { c with framed := some { f with wbuf := w } }, t, effs)
    | (.done (some k), w, t, _, effs) =>
      (.done (.transport k), { c with framed := some { f with wbuf := w } }, t, effs)
    | (.done none, w, t, budget, effs) =>
      match clientEncode c.kind hdr req with
      | .err k => (.done (.transport k), { c with framed := some { f with wbuf := w } }, t, effs)
      | .panic => (.done .panic, { c with framed := some { f with wbuf := w } }, t, effs)
      | .ok frame =>
        match awaitFlush (t.writes.length + t.flushes.length + 1) (w ++ frame) t budget effs with
        | (.abandoned, w, t, _, effs) => (.abandoned, { c with framed := some { f with wbuf := w } }, t, effs)
        | (.blocked, w, t, _, effs) => (.blocked, { c with framed := some { f with wbuf := w } }, t, effs)
        | (.done (some k), w, t, _, effs) =>
          (.done (.transport k), { c with framed := some { f with wbuf := w } }, t, effs)
        | (.done none, w, t, budget, effs) =>
          let D := clientDecoder c.kind
          match awaitNextB D (t.reads.length + 1) f.fd f.read t.reads budget with
          | (.abandoned, fd, r, evs, _) =>
            (.abandoned, { c with framed := some { read := r, wbuf := w, fd := fd } }, { t with reads := evs }, effs)
          | (.blocked, fd, r, evs, _) =>
            (.blocked, { c with framed := some { read := r, wbuf := w, fd := fd } }, { t with reads := evs }, effs)
          | (.done p, fd, r, evs, _) =>
            let t := { t with reads := evs }
            match p with
            | .item (rspHdr, res) =>
              (.done (classify hdr reqFc rspHdr res), { c with framed := some { read := r, wbuf := w, fd := fd } }, t, effs)
            | .error k =>
              -- the fix for D4: poll the stream once more to consume the latch
              let r := { r with isReadable := false, hasErrored := false }
              (.done (.transport k), { c with framed := some { read := r, wbuf := w, fd := fd } }, t, effs)
            | .done =>
              (.done (.transport .brokenPipe), { c with framed := some { read := r, wbuf := w, fd := fd } }, t, effs)
            | .panic => (.done .panic, { c with framed := some { read := r, wbuf := w, fd := fd } }, t, effs)
            | .pending | .blocked =>
              (.blocked, { c with framed := some { read := r, wbuf := w, fd := fd } }, t, effs)

/-- `service::disconnect` after `framed.take()`: one shutdown of the transport;
    `NotConnected` / `BrokenPipe` count as success.  `pending` outcomes are awaited. -/
def shutdownTransport : List CtlEv → Option ErrKind × List CtlEv
  | [] => (none, [])
  | .ok :: rest => (none, rest)
  | .err k :: rest =>
    (if k = .notConnected ∨ k = .brokenPipe then none else some k, rest)
  | .pending :: rest => shutdownTransport rest

/-- `Client::disconnect` -/
def Client.disconnect (c : Client) (t : Transport) :
    Option ErrKind × Client × Transport × List Effect :=
  match c.framed with
  | none => (none, c, t, [])
  | some _ =>
    let (r, rest) := shutdownTransport t.shutdowns
    (r, { c with framed := none }, { t with shutdowns := rest }, [.shutdown])

/-! ### typed projections (src/client/mod.rs, after the fix for D6) -/

inductive Typed (α : Type)
  | ok (v : α)
  | exception (e : ExceptionCode)
  | headerMismatch (res : ResponseResult)
  | fnMismatch (res : ResponseResult)
  | transport (k : ErrKind)
  | panic               -- includes `unreachable!`
  deriving DecidableEq, Repr

def Typed.ofCall {α} (f : Response → Typed α) : CallResult → Typed α
  | .ok r => f r
  | .exception e => .exception e
  | .headerMismatch r => .headerMismatch r
  | .fnMismatch r => .fnMismatch r
  | .transport k => .transport k
  | .panic => .panic

def takeCoils (cnt : UInt16) (coils : List Bool) : Typed (List Bool) :=
  if coils.length < cnt.toNat then .transport .invalidData else .ok (coils.take cnt.toNat)

def takeWords (cnt : UInt16) (ws : List UInt16) : Typed (List UInt16) :=
  if ws.length ≠ cnt.toNat then .transport .invalidData else .ok ws

def verifyEcho (b : Bool) : Typed Unit := if b then .ok () else .transport .invalidData

/-- the typed operations of `client::Context` -/
inductive TypedOp
  | readCoils (a cnt : UInt16)
  | readDiscreteInputs (a cnt : UInt16)
  | readHoldingRegisters (a cnt : UInt16)
  | readInputRegisters (a cnt : UInt16)
  | readWriteMultipleRegisters (ra cnt wa : UInt16) (ws : List UInt16)
  | writeSingleCoil (a : UInt16) (b : Bool)
  | writeSingleRegister (a w : UInt16)
  | writeMultipleCoils (a : UInt16) (coils : List Bool)
  | writeMultipleRegisters (a : UInt16) (ws : List UInt16)
  | maskedWriteRegister (a am om : UInt16)
  deriving DecidableEq, Repr, Inhabited

/-- the request a typed operation issues -/
def TypedOp.request : TypedOp → Request
  | .readCoils a c => .readCoils a c
  | .readDiscreteInputs a c => .readDiscreteInputs a c
  | .readHoldingRegisters a c => .readHoldingRegisters a c
  | .readInputRegisters a c => .readInputRegisters a c
  | .readWriteMultipleRegisters ra c wa ws => .readWriteMultipleRegisters ra c wa ws
  | .writeSingleCoil a b => .writeSingleCoil a b
  | .writeSingleRegister a w => .writeSingleRegister a w
  | .writeMultipleCoils a cs => .writeMultipleCoils a cs
  | .writeMultipleRegisters a ws => .writeMultipleRegisters a ws
  | .maskedWriteRegister a am om => .maskWriteRegister a am om

/-- values a typed operation can return -/
inductive TypedVal
  | bits (bs : List Bool)
  | words (ws : List UInt16)
  | unit
  deriving DecidableEq, Repr, Inhabited

def Typed.mapVal {α} (f : α → TypedVal) : Typed α → Typed TypedVal
  | .ok v => .ok (f v)
  | .exception e => .exception e
  | .headerMismatch r => .headerMismatch r
  | .fnMismatch r => .fnMismatch r
  | .transport k => .transport k
  | .panic => .panic

/-- what the typed method makes of the result of `call` -/
def TypedOp.project (op : TypedOp) (res : CallResult) : Typed TypedVal :=
  match op with
  | .readCoils _ cnt =>
    Typed.ofCall (fun | .readCoils cs => (takeCoils cnt cs).mapVal .bits | _ => .panic) res
  | .readDiscreteInputs _ cnt =>
    Typed.ofCall (fun | .readDiscreteInputs cs => (takeCoils cnt cs).mapVal .bits | _ => .panic) res
  | .readHoldingRegisters _ cnt =>
    Typed.ofCall (fun | .readHoldingRegisters ws => (takeWords cnt ws).mapVal .words | _ => .panic) res
  | .readInputRegisters _ cnt =>
    Typed.ofCall (fun | .readInputRegisters ws => (takeWords cnt ws).mapVal .words | _ => .panic) res
  | .readWriteMultipleRegisters _ cnt _ _ =>
    Typed.ofCall (fun | .readWriteMultipleRegisters ws => (takeWords cnt ws).mapVal .words | _ => .panic) res
  | .writeSingleCoil a b =>
    Typed.ofCall (fun | .writeSingleCoil a' b' => (verifyEcho (a = a' && b = b')).mapVal fun _ => .unit
                      | _ => .panic) res
  | .writeSingleRegister a w =>
    Typed.ofCall (fun | .writeSingleRegister a' w' => (verifyEcho (a = a' && w = w')).mapVal fun _ => .unit
                      | _ => .panic) res
  | .writeMultipleCoils a cs =>
    Typed.ofCall (fun | .writeMultipleCoils a' q => (verifyEcho (a = a' && cs.length = q.toNat)).mapVal fun _ => .unit
                      | _ => .panic) res
  | .writeMultipleRegisters a ws =>
    Typed.ofCall (fun | .writeMultipleRegisters a' q => (verifyEcho (a = a' && ws.length = q.toNat)).mapVal fun _ => .unit
                      | _ => .panic) res
  | .maskedWriteRegister a am om =>
    Typed.ofCall (fun | .maskWriteRegister a' am' om' =>
                        (verifyEcho (a = a' && am = am' && om = om')).mapVal fun _ => .unit
                      | _ => .panic) res

end Modbus
