import ModbusModel.Model.Basic
/-
  Model of src/frame/mod.rs (function / exception code tables, Request,
  Response, function_code()) and src/slave.rs.
-/
namespace Modbus

inductive FunctionCode
  | readCoils | readDiscreteInputs | readHoldingRegisters | readInputRegisters
  | writeSingleCoil | writeSingleRegister | readExceptionStatus | diagnostics
  | getCommEventCounter | getCommEventLog | writeMultipleCoils | writeMultipleRegisters
  | reportServerId | readFileRecord | writeFileRecord | maskWriteRegister
  | readWriteMultipleRegisters | readFifoQueue | encapsulatedInterfaceTransport
  | custom (b : UInt8)
  deriving DecidableEq, Repr, Inhabited

/-- `FunctionCode::new` -/
def FunctionCode.new (value : UInt8) : FunctionCode :=
  if value = 0x01 then .readCoils
  else if value = 0x02 then .readDiscreteInputs
  else if value = 0x03 then .readHoldingRegisters
  else if value = 0x04 then .readInputRegisters
  else if value = 0x05 then .writeSingleCoil
  else if value = 0x06 then .writeSingleRegister
  else if value = 0x07 then .readExceptionStatus
  else if value = 0x08 then .diagnostics
  else if value = 0x0B then .getCommEventCounter
  else if value = 0x0C then .getCommEventLog
  else if value = 0x0F then .writeMultipleCoils
  else if value = 0x10 then .writeMultipleRegisters
  else if value = 0x11 then .reportServerId
  else if value = 0x14 then .readFileRecord
  else if value = 0x15 then .writeFileRecord
  else if value = 0x16 then .maskWriteRegister
  else if value = 0x17 then .readWriteMultipleRegisters
  else if value = 0x18 then .readFifoQueue
  else if value = 0x2B then .encapsulatedInterfaceTransport
  else .custom value

/-- `FunctionCode::value` -/
def FunctionCode.value : FunctionCode → UInt8
  | .readCoils => 0x01
  | .readDiscreteInputs => 0x02
  | .readHoldingRegisters => 0x03
  | .readInputRegisters => 0x04
  | .writeSingleCoil => 0x05
  | .writeSingleRegister => 0x06
  | .readExceptionStatus => 0x07
  | .diagnostics => 0x08
  | .getCommEventCounter => 0x0B
  | .getCommEventLog => 0x0C
  | .writeMultipleCoils => 0x0F
  | .writeMultipleRegisters => 0x10
  | .reportServerId => 0x11
  | .readFileRecord => 0x14
  | .writeFileRecord => 0x15
  | .maskWriteRegister => 0x16
  | .readWriteMultipleRegisters => 0x17
  | .readFifoQueue => 0x18
  | .encapsulatedInterfaceTransport => 0x2B
  | .custom code => code

inductive ExceptionCode
  | illegalFunction | illegalDataAddress | illegalDataValue | serverDeviceFailure
  | acknowledge | serverDeviceBusy | memoryParityError | gatewayPathUnavailable
  | gatewayTargetDevice
  | custom (b : UInt8)
  deriving DecidableEq, Repr, Inhabited

/-- `ExceptionCode::new` -/
def ExceptionCode.new (value : UInt8) : ExceptionCode :=
  if value = 0x01 then .illegalFunction
  else if value = 0x02 then .illegalDataAddress
  else if value = 0x03 then .illegalDataValue
  else if value = 0x04 then .serverDeviceFailure
  else if value = 0x05 then .acknowledge
  else if value = 0x06 then .serverDeviceBusy
  else if value = 0x08 then .memoryParityError
  else if value = 0x0A then .gatewayPathUnavailable
  else if value = 0x0B then .gatewayTargetDevice
  else .custom value

/-- `impl From<ExceptionCode> for u8` -/
def ExceptionCode.value : ExceptionCode → UInt8
  | .illegalFunction => 0x01
  | .illegalDataAddress => 0x02
  | .illegalDataValue => 0x03
  | .serverDeviceFailure => 0x04
  | .acknowledge => 0x05
  | .serverDeviceBusy => 0x06
  | .memoryParityError => 0x08
  | .gatewayPathUnavailable => 0x0A
  | .gatewayTargetDevice => 0x0B
  | .custom code => code

inductive Request
  | readCoils (addr qty : UInt16)
  | readDiscreteInputs (addr qty : UInt16)
  | writeSingleCoil (addr : UInt16) (coil : Bool)
  | writeMultipleCoils (addr : UInt16) (coils : List Bool)
  | readInputRegisters (addr qty : UInt16)
  | readHoldingRegisters (addr qty : UInt16)
  | writeSingleRegister (addr word : UInt16)
  | writeMultipleRegisters (addr : UInt16) (words : List UInt16)
  | reportServerId
  | maskWriteRegister (addr andMask orMask : UInt16)
  | readWriteMultipleRegisters (readAddr qty writeAddr : UInt16) (words : List UInt16)
  | custom (fc : UInt8) (data : Bytes)
  deriving DecidableEq, Repr, Inhabited

/-- `Request::function_code` -/
def Request.functionCode : Request → FunctionCode
  | .readCoils .. => .readCoils
  | .readDiscreteInputs .. => .readDiscreteInputs
  | .writeSingleCoil .. => .writeSingleCoil
  | .writeMultipleCoils .. => .writeMultipleCoils
  | .readInputRegisters .. => .readInputRegisters
  | .readHoldingRegisters .. => .readHoldingRegisters
  | .writeSingleRegister .. => .writeSingleRegister
  | .writeMultipleRegisters .. => .writeMultipleRegisters
  | .reportServerId => .reportServerId
  | .maskWriteRegister .. => .maskWriteRegister
  | .readWriteMultipleRegisters .. => .readWriteMultipleRegisters
  | .custom code _ => .custom code

inductive Response
  | readCoils (coils : List Bool)
  | readDiscreteInputs (coils : List Bool)
  | writeSingleCoil (addr : UInt16) (coil : Bool)
  | writeMultipleCoils (addr qty : UInt16)
  | readInputRegisters (words : List UInt16)
  | readHoldingRegisters (words : List UInt16)
  | writeSingleRegister (addr word : UInt16)
  | writeMultipleRegisters (addr qty : UInt16)
  | reportServerId (serverId : UInt8) (run : Bool) (data : Bytes)
  | maskWriteRegister (addr andMask orMask : UInt16)
  | readWriteMultipleRegisters (words : List UInt16)
  | custom (fc : UInt8) (data : Bytes)
  deriving DecidableEq, Repr, Inhabited

/-- `Response::function_code` -/
def Response.functionCode : Response → FunctionCode
  | .readCoils .. => .readCoils
  | .readDiscreteInputs .. => .readDiscreteInputs
  | .writeSingleCoil .. => .writeSingleCoil
  | .writeMultipleCoils .. => .writeMultipleCoils
  | .readInputRegisters .. => .readInputRegisters
  | .readHoldingRegisters .. => .readHoldingRegisters
  | .writeSingleRegister .. => .writeSingleRegister
  | .writeMultipleRegisters .. => .writeMultipleRegisters
  | .reportServerId .. => .reportServerId
  | .maskWriteRegister .. => .maskWriteRegister
  | .readWriteMultipleRegisters .. => .readWriteMultipleRegisters
  | .custom code _ => .custom code

structure ExceptionResponse where
  function : FunctionCode
  exception : ExceptionCode
  deriving DecidableEq, Repr, Inhabited

/-- `ResponsePdu(Result<Response, ExceptionResponse>)` -/
inductive ResponseResult
  | ok (r : Response)
  | error (e : ExceptionResponse)
  deriving DecidableEq, Repr, Inhabited

/-! ### src/slave.rs -/

/-- `str::parse::<u8>` on a list of characters (decimal, optional leading `+`). -/
def parseU8Radix (radix : Nat) (digit : Char → Option Nat) (cs : List Char) : Option UInt8 :=
  let cs := match cs with
    | '+' :: rest => rest
    | cs => cs
  if cs.isEmpty then none else
  let rec go (acc : Nat) : List Char → Option Nat
    | [] => some acc
    | c :: rest =>
      match digit c with
      | none => none
      | some d =>
        let acc' := acc * radix + d
        if acc' > 255 then none else go acc' rest
  match go 0 cs with
  | some n => some (UInt8.ofNat n)
  | none => none

def decDigit (c : Char) : Option Nat :=
  if '0' ≤ c ∧ c ≤ '9' then some (c.toNat - '0'.toNat) else none

def hexDigit (c : Char) : Option Nat :=
  if '0' ≤ c ∧ c ≤ '9' then some (c.toNat - '0'.toNat)
  else if 'a' ≤ c ∧ c ≤ 'f' then some (c.toNat - 'a'.toNat + 10)
  else if 'A' ≤ c ∧ c ≤ 'F' then some (c.toNat - 'A'.toNat + 10)
  else none

/-- `impl FromStr for Slave` -/
def Slave.fromStr (s : List Char) : Option UInt8 :=
  match parseU8Radix 10 decDigit s with
  | some n => some n
  | none =>
    match s with
    | '0' :: 'x' :: stripped => parseU8Radix 16 hexDigit stripped
    | _ => none

def hexUpper (n : Nat) : Char :=
  if n < 10 then Char.ofNat ('0'.toNat + n) else Char.ofNat ('A'.toNat + (n - 10))

/-- `impl Display for Slave`: `"{} (0x{:0>2X})"` -/
def Slave.display (id : UInt8) : String :=
  toString id.toNat ++ " (0x" ++ String.ofList [hexUpper (id.toNat / 16), hexUpper (id.toNat % 16)] ++ ")"

def Slave.isBroadcast (id : UInt8) : Bool := id = 0
def Slave.isSingleDevice (id : UInt8) : Bool := 1 ≤ id && id ≤ 247
def Slave.isReserved (id : UInt8) : Bool := id > 247

end Modbus
