import ModbusModel.Model.Client
/-
  Client histories: sequences of operations on one client and one transport,
  the transport script being extended before each operation.
-/
namespace Modbus

/-- append more script to the persistent queues of a transport -/
def Transport.extend (t ext : Transport) : Transport :=
  { reads := t.reads ++ ext.reads, writes := t.writes ++ ext.writes,
    flushes := t.flushes ++ ext.flushes, shutdowns := t.shutdowns ++ ext.shutdowns }

inductive Op
  | call (req : Request) (ext : Transport) (budget : Budget)
  | setSlave (id : UInt8)
  | disconnect (ext : Transport)
  deriving DecidableEq, Repr, Inhabited

inductive OpResult
  | call (o : Outcome CallResult) (effs : List Effect)
  | slave
  | disc (r : Option ErrKind) (effs : List Effect)
  deriving DecidableEq, Repr

def stepOp (c : Client) (t : Transport) : Op → OpResult × Client × Transport
  | .call req ext b =>
    let (o, c', t', effs) := c.call req (t.extend ext) b
    (.call o effs, c', t')
  | .setSlave id => (.slave, c.setSlave id, t)
  | .disconnect ext =>
    let (r, c', t', effs) := c.disconnect (t.extend ext)
    (.disc r effs, c', t')

def runOps : Client → Transport → List Op → List OpResult × Client × Transport
  | c, t, [] => ([], c, t)
  | c, t, op :: ops =>
    let (r, c', t') := stepOp c t op
    let (rs, c'', t'') := runOps c' t' ops
    (r :: rs, c'', t'')

/-- an operation that polls a call future at least once -/
def Op.isPolledCall : Op → Bool
  | .call _ _ b => b != some 0
  | _ => false

def OpResult.effects : OpResult → List Effect
  | .call _ e => e
  | .slave => []
  | .disc _ e => e

/-- all bytes accepted by the transport, in order -/
def writtenBytes (effs : List Effect) : Bytes :=
  effs.flatMap fun | .write bs => bs | .shutdown => []

def shutdownCount (effs : List Effect) : Nat :=
  (effs.filter fun | .shutdown => true | _ => false).length

end Modbus
