import ModbusModel.Model.Basic
/-
  Model of tokio_util::codec::Framed 0.7.19 (framed_impl.rs) as used by the
  library: the read state machine of `poll_next`, the default `decode_eof`,
  and the write side (`poll_ready` back-pressure, `start_send`, `poll_flush`).
  Transports are scripts (queues of events).
-/
namespace Modbus

/-- what a `poll_read` on the transport does -/
inductive ReadEv
  | data (bs : Bytes)      -- n > 0 bytes (an empty `data` counts as end of stream)
  | eof                    -- Ok(0)
  | err (k : ErrKind)
  | pending
  deriving DecidableEq, Repr, Inhabited

/-- what a `poll_write` on the transport does -/
inductive WriteEv
  | accept (n : Nat)       -- accepts up to n bytes (n > 0); `accept 0` counts as `zero`
  | zero                   -- Ok(0)
  | err (k : ErrKind)
  | pending
  deriving DecidableEq, Repr, Inhabited

/-- outcome of `poll_flush` / `poll_shutdown` -/
inductive CtlEv
  | ok
  | err (k : ErrKind)
  | pending
  deriving DecidableEq, Repr, Inhabited

/-- A scripted transport.  Exhausted `writes`/`flushes`/`shutdowns` queues mean
    "accept everything" / `ok`; an exhausted `reads` queue means the reader
    blocks forever. -/
structure Transport where
  reads : List ReadEv := []
  writes : List WriteEv := []
  flushes : List CtlEv := []
  shutdowns : List CtlEv := []
  deriving DecidableEq, Repr, Inhabited

/-- externally visible effects, in order -/
inductive Effect
  | write (bs : Bytes)     -- bytes accepted by one `poll_write`
  | shutdown               -- a `poll_shutdown` that completed (ok or error)
  deriving DecidableEq, Repr, Inhabited

structure ReadFrame where
  eof : Bool := false
  isReadable : Bool := false
  hasErrored : Bool := false
  buffer : Bytes := []
  deriving DecidableEq, Repr, Inhabited

/-- a `tokio_util::codec::Decoder` with state `σ` -/
structure Decoder (σ ι : Type) where
  decode : σ → Bytes → Res (Option ι) × σ × Bytes

/-- the default `Decoder::decode_eof` -/
def Decoder.decodeEof {σ ι} (D : Decoder σ ι) (s : σ) (buf : Bytes) : Res (Option ι) × σ × Bytes :=
  match D.decode s buf with
  | (.ok none, s', b') => if b'.isEmpty then (.ok none, s', b') else (.err .other, s', b')
  | r => r

/-- result of one `poll_next` -/
inductive Polled (ι : Type)
  | item (i : ι)           -- Ready(Some(Ok))
  | error (k : ErrKind)    -- Ready(Some(Err))
  | done                   -- Ready(None)
  | pending                -- Pending
  | blocked                -- the read script is exhausted: Pending forever
  | panic
  deriving DecidableEq, Repr

/-- The part of one `poll_next` loop iteration that does not touch the transport.
    `none` = fall through to reading. -/
def ReadFrame.pre {σ ι} (D : Decoder σ ι) (s : σ) (r : ReadFrame) :
    Option (Polled ι) × σ × ReadFrame :=
  if r.hasErrored then
    (some .done, s, { r with isReadable := false, hasErrored := false })
  else if r.isReadable then
    if r.eof then
      match D.decodeEof s r.buffer with
      | (.ok (some i), s', b') => (some (.item i), s', { r with buffer := b' })
      | (.ok none, s', b') => (some .done, s', { r with buffer := b', isReadable := false })
      | (.err k, s', b') => (some (.error k), s', { r with buffer := b', hasErrored := true })
      | (.panic, s', b') => (some .panic, s', { r with buffer := b' })
    else
      match D.decode s r.buffer with
      | (.ok (some i), s', b') => (some (.item i), s', { r with buffer := b' })
      | (.ok none, s', b') => (none, s', { r with buffer := b', isReadable := false })
      | (.err k, s', b') => (some (.error k), s', { r with buffer := b', hasErrored := true })
      | (.panic, s', b') => (some .panic, s', { r with buffer := b' })
  else (none, s, r)

/-- one `poll_next`: runs until something is returned; every loop iteration that
    does not return consumes one read event. -/
def pollNext {σ ι} (D : Decoder σ ι) (s : σ) (r : ReadFrame) (evs : List ReadEv) :
    Polled ι × σ × ReadFrame × List ReadEv :=
  match ReadFrame.pre D s r with
  | (some p, s', r') => (p, s', r', evs)
  | (none, s', r') =>
    match evs with
    | [] => (.blocked, s', r', [])
    | .pending :: evs' => (.pending, s', r', evs')
    | .err k :: evs' => (.error k, s', { r' with hasErrored := true }, evs')
    | .data bs :: evs' =>
      if bs.isEmpty then
        if r'.eof then (.done, s', r', evs')
        else pollNext D s' { r' with eof := true, isReadable := true } evs'
      else
        pollNext D s' { r' with buffer := r'.buffer ++ bs, eof := false, isReadable := true } evs'
    | .eof :: evs' =>
      if r'.eof then (.done, s', r', evs')
      else pollNext D s' { r' with eof := true, isReadable := true } evs'

/-- `framed.next().await` with `fuel` polls: poll until ready; `pending` events are skipped -/
def awaitNextFuel {σ ι} (D : Decoder σ ι) : Nat → σ → ReadFrame → List ReadEv →
    Polled ι × σ × ReadFrame × List ReadEv
  | 0, s, r, evs => (.blocked, s, r, evs)
  | fuel + 1, s, r, evs =>
    match pollNext D s r evs with
    | (.pending, s', r', evs') => awaitNextFuel D fuel s' r' evs'
    | res => res

/-- `framed.next().await`: every `Pending` consumes one read event, so `length + 1` polls suffice -/
def awaitNext {σ ι} (D : Decoder σ ι) (s : σ) (r : ReadFrame) (evs : List ReadEv) :
    Polled ι × σ × ReadFrame × List ReadEv :=
  awaitNextFuel D (evs.length + 1) s r evs

/-! ### write side -/

def BACKPRESSURE_BOUNDARY : Nat := 8192

/-- result of a write-side poll -/
inductive WPoll
  | ready                  -- Ready(Ok(()))
  | error (k : ErrKind)
  | pending
  deriving DecidableEq, Repr, Inhabited

/-- `poll_flush` of the framed sink with `fuel` iterations of its write loop: drain the write
    buffer, then flush the transport.  Returns the poll result, the remaining buffer, the
    transport and the effects. -/
def pollFlushFuel : Nat → Bytes → Transport → WPoll × Bytes × Transport × List Effect
  | 0, wbuf, t => (.pending, wbuf, t, [])          -- not reached: see `pollFlush`
  | fuel + 1, wbuf, t =>
    if wbuf = [] then
      match t.flushes with
      | [] => (.ready, [], t, [])
      | .ok :: fs => (.ready, [], { t with flushes := fs }, [])
      | .err k :: fs => (.error k, [], { t with flushes := fs }, [])
      | .pending :: fs => (.pending, [], { t with flushes := fs }, [])
    else
      match t.writes with
      | [] =>
        -- exhausted write script: the transport accepts everything at once
        let (p, b, t', effs) := pollFlushFuel fuel [] t
        (p, b, t', .write wbuf :: effs)
      | .accept n :: ws =>
        if n = 0 then (.error .writeZero, wbuf, { t with writes := ws }, [])
        else
          let (p, b, t', effs) := pollFlushFuel fuel (wbuf.drop (min n wbuf.length)) { t with writes := ws }
          (p, b, t', .write (wbuf.take (min n wbuf.length)) :: effs)
      | .zero :: ws => (.error .writeZero, wbuf, { t with writes := ws }, [])
      | .err k :: ws => (.error k, wbuf, { t with writes := ws }, [])
      | .pending :: ws => (.pending, wbuf, { t with writes := ws }, [])

/-- `poll_flush`: every iteration of the write loop removes at least one byte from the
    buffer, so `length + 1` iterations suffice -/
def pollFlush (wbuf : Bytes) (t : Transport) : WPoll × Bytes × Transport × List Effect :=
  pollFlushFuel (wbuf.length + 1) wbuf t

/-- `poll_ready`: flush first when the buffer has reached the back-pressure boundary -/
def pollReady (wbuf : Bytes) (t : Transport) : WPoll × Bytes × Transport × List Effect :=
  if wbuf.length ≥ BACKPRESSURE_BOUNDARY then pollFlush wbuf t else (.ready, wbuf, t, [])

end Modbus
