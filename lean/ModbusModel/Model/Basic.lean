/-
  Basic vocabulary of the tokio-modbus model: bytes, results with panics as
  values, big-endian 16-bit words.  Core Lean only (no imports), so that the
  line-protocol driver links as a native executable.
-/
namespace Modbus

abbrev Bytes := List UInt8

/-- `std::io::ErrorKind` as far as the modelled code can produce or forward it. -/
inductive ErrKind
  | invalidData | invalidInput | unexpectedEof | brokenPipe | notConnected
  | timedOut | writeZero | other
  /-- an error injected by the transport script; must be forwarded unchanged -/
  | injected (n : Nat)
  deriving DecidableEq, Repr, Inhabited

/-- Result of a modelled Rust computation: a value, an `io::Error` (by kind), or a panic. -/
inductive Res (α : Type)
  | ok (a : α)
  | err (k : ErrKind)
  | panic
  deriving DecidableEq, Repr

namespace Res
def bind {α β} (r : Res α) (f : α → Res β) : Res β :=
  match r with
  | ok a => f a
  | err k => err k
  | panic => panic

def map {α β} (f : α → β) (r : Res α) : Res β :=
  match r with
  | ok a => ok (f a)
  | err k => err k
  | panic => panic

def isOk {α} : Res α → Bool
  | ok _ => true
  | _ => false

def isPanic {α} : Res α → Bool
  | panic => true
  | _ => false
end Res

/-- `BufMut::put_u16` / big-endian wire order. -/
def be16 (w : UInt16) : Bytes :=
  [UInt8.ofNat (w.toNat / 256), UInt8.ofNat (w.toNat % 256)]

/-- `read_u16::<BigEndian>` of two bytes. -/
def rd16 (hi lo : UInt8) : UInt16 :=
  UInt16.ofNat (hi.toNat * 256 + lo.toNat)

/-- `for w in words { buf.put_u16(w) }` -/
def encWords (ws : List UInt16) : Bytes :=
  ws.flatMap be16

/-- Read `n` big-endian words; `none` is `UnexpectedEof`. -/
def readWords : Nat → Bytes → Option (List UInt16 × Bytes)
  | 0, bs => some ([], bs)
  | n + 1, hi :: lo :: bs =>
    match readWords n bs with
    | some (ws, r) => some (rd16 hi lo :: ws, r)
    | none => none
  | _ + 1, _ => none

/-- Read `n` bytes; `none` is `UnexpectedEof`. -/
def readBytes (n : Nat) (bs : Bytes) : Option (Bytes × Bytes) :=
  if n ≤ bs.length then some (bs.take n, bs.drop n) else none

end Modbus
