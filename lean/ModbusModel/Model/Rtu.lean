import ModbusModel.Model.Pdu
/-
  Model of src/codec/rtu.rs: CRC, length tables, frame decoder with
  resynchronisation, client / server codecs.
-/
namespace Modbus

/-! ### CRC -/

/-- one iteration of the inner `for _ in 0..8` loop of `calc_crc` -/
def crcShift (crc : UInt16) : UInt16 :=
  if crc &&& 0x0001 != 0 then (crc >>> 1) ^^^ 0xA001 else crc >>> 1

/-- one iteration of the outer loop -/
def crcByte (crc : UInt16) (x : UInt8) : UInt16 :=
  let c := crc ^^^ x.toUInt16
  crcShift (crcShift (crcShift (crcShift (crcShift (crcShift (crcShift (crcShift c)))))))

/-- `calc_crc`: the register after all bytes, rotated right by 8 -/
def calcCrc (data : Bytes) : UInt16 :=
  let crc := data.foldl crcByte 0xFFFF
  (crc >>> 8) ||| (crc <<< 8)

/-- the two CRC bytes as written by `buf.put_u16(crc)` -/
def crcBytes (data : Bytes) : Bytes := be16 (calcCrc data)

/-! ### length tables -/

/-- `get_request_pdu_len`: `err` = invalid function code, `ok none` = need more bytes -/
def requestPduLen (adu : Bytes) : Res (Option Nat) :=
  match adu[1]? with
  | none => .ok none
  | some fc =>
    if 0x01 ≤ fc ∧ fc ≤ 0x06 then .ok (some 5)
    else if fc = 0x07 ∨ fc = 0x0B ∨ fc = 0x0C ∨ fc = 0x11 then .ok (some 1)
    else if fc = 0x0F ∨ fc = 0x10 then .ok ((adu[6]?).map fun bc => 6 + bc.toNat)
    else if fc = 0x16 then .ok (some 7)
    else if fc = 0x18 then .ok (some 3)
    else if fc = 0x17 then .ok ((adu[10]?).map fun bc => 10 + bc.toNat)
    else .err .invalidData

/-- `get_response_pdu_len` -/
def responsePduLen (adu : Bytes) : Res (Option Nat) :=
  match adu[1]? with
  | none => .ok none
  | some fc =>
    if (0x01 ≤ fc ∧ fc ≤ 0x04) ∨ fc = 0x0C ∨ fc = 0x11 ∨ fc = 0x17 then
      .ok ((adu[2]?).map fun bc => 2 + bc.toNat)
    else if fc = 0x05 ∨ fc = 0x06 ∨ fc = 0x0B ∨ fc = 0x0F ∨ fc = 0x10 then .ok (some 5)
    else if fc = 0x07 then .ok (some 2)
    else if fc = 0x16 then .ok (some 7)
    else if fc = 0x18 then
      match adu[2]?, adu[3]? with
      | some hi, some lo => .ok (some (3 + (rd16 hi lo).toNat))
      | _, _ => .ok none
    else if 0x81 ≤ fc ∧ fc ≤ 0xAB then .ok (some 2)
    else .err .invalidData

/-! ### frame decoder -/

def MAX_FRAME_LEN : Nat := 256
def MAX_RETRIES : Nat := 20

/-- `FrameDecoder`: only the record of dropped bytes -/
structure FrameDecoder where
  dropped : Bytes := []
  deriving DecidableEq, Repr, Inhabited

/-- `FrameDecoder::decode`: returns the result and the buffer afterwards
    (restored on a CRC failure). -/
def FrameDecoder.decode (fd : FrameDecoder) (buf : Bytes) (pduLen : Nat) :
    Res (Option (UInt8 × Bytes)) × FrameDecoder × Bytes :=
  let aduLen := 1 + pduLen
  if buf.length < aduLen + 2 then (.ok none, fd, buf)
  else
    let adu := buf.take aduLen
    let crcBuf := (buf.drop aduLen).take 2
    let rest := buf.drop (aduLen + 2)
    match crcBuf, adu with
    | [hi, lo], slave :: pdu =>
      if rd16 hi lo = calcCrc adu then (.ok (some (slave, pdu)), { dropped := [] }, rest)
      else (.err .invalidData, fd, buf)
    | _, _ => (.panic, fd, buf)

/-- `FrameDecoder::recover_on_error` (`none` = the `unwrap` on an empty buffer panics) -/
def FrameDecoder.recoverOnError (fd : FrameDecoder) (buf : Bytes) : Option (FrameDecoder × Bytes) :=
  match buf with
  | [] => none
  | first :: rest =>
    let d := if fd.dropped.length ≥ MAX_FRAME_LEN then [] else fd.dropped
    some ({ dropped := d ++ [first] }, rest)

/-- the retry loop of `decode` with `n` iterations left -/
def rtuDecodeLoop (lenFn : Bytes → Res (Option Nat)) :
    Nat → FrameDecoder → Bytes → Res (Option (UInt8 × Bytes)) × FrameDecoder × Bytes
  | 0, fd, buf => (.err .invalidData, fd, buf)
  | n + 1, fd, buf =>
    let step : Res (Option (UInt8 × Bytes)) × FrameDecoder × Bytes :=
      match lenFn buf with
      | .ok none => (.ok none, fd, buf)
      | .ok (some pduLen) => fd.decode buf pduLen
      | .err k => (.err k, fd, buf)
      | .panic => (.panic, fd, buf)
    match step with
    | (.err _, fd', buf') =>
      match fd'.recoverOnError buf' with
      | none => (.panic, fd', buf')
      | some (fd'', buf'') => rtuDecodeLoop lenFn n fd'' buf''
    | r => r

/-- `decode("request"|"response", …)` -/
def rtuDecode (lenFn : Bytes → Res (Option Nat)) (fd : FrameDecoder) (buf : Bytes) :
    Res (Option (UInt8 × Bytes)) × FrameDecoder × Bytes :=
  rtuDecodeLoop lenFn MAX_RETRIES fd buf

/-- `impl Decoder for ClientCodec` (RTU) -/
def rtuClientDecode (fd : FrameDecoder) (buf : Bytes) :
    Res (Option (UInt8 × ResponseResult)) × FrameDecoder × Bytes :=
  match rtuDecode responsePduLen fd buf with
  | (.ok none, fd', buf') => (.ok none, fd', buf')
  | (.ok (some (slave, pdu)), fd', buf') =>
    ((decodeResponsePdu pdu).map fun r => some (slave, r), fd', buf')
  | (.err k, fd', buf') => (.err k, fd', buf')
  | (.panic, fd', buf') => (.panic, fd', buf')

/-- `impl Decoder for ServerCodec` (RTU) -/
def rtuServerDecode (fd : FrameDecoder) (buf : Bytes) :
    Res (Option (UInt8 × Request)) × FrameDecoder × Bytes :=
  match rtuDecode requestPduLen fd buf with
  | (.ok none, fd', buf') => (.ok none, fd', buf')
  | (.ok (some (slave, pdu)), fd', buf') =>
    ((decodeRequest pdu).map fun r => some (slave, r), fd', buf')
  | (.err k, fd', buf') => (.err k, fd', buf')
  | (.panic, fd', buf') => (.panic, fd', buf')

/-- `impl Encoder<RequestAdu> for ClientCodec` (RTU): bytes appended to the write buffer -/
def rtuEncodeRequest (slave : UInt8) (r : Request) : Res Bytes :=
  match requestPduSize r with
  | none => .err .invalidInput
  | some _ =>
    if encodeRequestAsserts r then
      let body := slave :: encodeRequestPdu r
      .ok (body ++ crcBytes body)
    else .panic

/-- `impl Encoder<ResponseAdu> for ServerCodec` (RTU) -/
def rtuEncodeResponse (slave : UInt8) (r : ResponseResult) : Res Bytes :=
  match responseResultPduSize r with
  | none => .err .invalidInput
  | some _ =>
    if encodeResponseResultAsserts r then
      let body := slave :: encodeResponseResultPdu r
      .ok (body ++ crcBytes body)
    else .panic

end Modbus
