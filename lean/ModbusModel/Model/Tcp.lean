import ModbusModel.Model.Pdu
/-
  Model of src/codec/tcp.rs: MBAP framing.
-/
namespace Modbus

def HEADER_LEN : Nat := 7

structure TcpHeader where
  transactionId : UInt16
  unitId : UInt8
  deriving DecidableEq, Repr, Inhabited

/-- `AduDecoder::decode`: result and buffer afterwards -/
def aduDecode (buf : Bytes) : Res (Option (TcpHeader × Bytes)) × Bytes :=
  match buf with
  | t0 :: t1 :: p0 :: p1 :: l0 :: l1 :: u :: rest =>
    let len := (rd16 l0 l1).toNat
    if len = 0 then (.err .invalidData, buf)
    else
      let pduLen := len - 1
      if rest.length < pduLen then (.ok none, buf)
      else if rd16 p0 p1 ≠ 0 then (.err .invalidData, rest)
      else
        (.ok (some ({ transactionId := rd16 t0 t1, unitId := u }, rest.take pduLen)),
          rest.drop pduLen)
  | _ => (.ok none, buf)

/-- `impl Decoder for ClientCodec` (TCP) -/
def tcpClientDecode (buf : Bytes) : Res (Option (TcpHeader × ResponseResult)) × Bytes :=
  match aduDecode buf with
  | (.ok none, buf') => (.ok none, buf')
  | (.ok (some (hdr, pdu)), buf') => ((decodeResponsePdu pdu).map fun r => some (hdr, r), buf')
  | (.err k, buf') => (.err k, buf')
  | (.panic, buf') => (.panic, buf')

/-- `impl Decoder for ServerCodec` (TCP) -/
def tcpServerDecode (buf : Bytes) : Res (Option (TcpHeader × Request)) × Bytes :=
  match aduDecode buf with
  | (.ok none, buf') => (.ok none, buf')
  | (.ok (some (hdr, pdu)), buf') => ((decodeRequest pdu).map fun r => some (hdr, r), buf')
  | (.err k, buf') => (.err k, buf')
  | (.panic, buf') => (.panic, buf')

/-- MBAP header as written by the encoders -/
def mbap (hdr : TcpHeader) (pduSize : Nat) : Bytes :=
  be16 hdr.transactionId ++ [0x00, 0x00] ++ be16 (UInt16.ofNat (pduSize + 1)) ++ [hdr.unitId]

/-- `impl Encoder<RequestAdu> for ClientCodec` (TCP) -/
def tcpEncodeRequest (hdr : TcpHeader) (r : Request) : Res Bytes :=
  match requestPduSize r with
  | none => .err .invalidInput
  | some n =>
    if encodeRequestAsserts r then .ok (mbap hdr n ++ encodeRequestPdu r) else .panic

/-- `impl Encoder<ResponseAdu> for ServerCodec` (TCP) -/
def tcpEncodeResponse (hdr : TcpHeader) (r : ResponseResult) : Res Bytes :=
  match responseResultPduSize r with
  | none => .err .invalidInput
  | some n =>
    if encodeResponseResultAsserts r then .ok (mbap hdr n ++ encodeResponseResultPdu r)
    else .panic

end Modbus
