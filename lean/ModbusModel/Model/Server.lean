import ModbusModel.Model.Codec
/-
  Model of the per-connection loop `process` (textually identical in
  src/server/{tcp,rtu_over_tcp,rtu}.rs), of the conversion of a service result
  into an optional response PDU (src/frame/mod.rs), and of the accept loop.
-/
namespace Modbus

/-- what the service does with a request -/
inductive SvcOutcome
  | reply (r : Response)
  | exception (e : ExceptionCode)
  | decline                      -- `Ok(None)`: no response is sent
  deriving DecidableEq, Repr, Inhabited

/-- a service: outcome as a function of the call index, the slave id and the request -/
abbrev Service := Nat → UInt8 → Request → SvcOutcome

/-- observable events of a connection, in order -/
inductive SrvEvent
  | call (slave : UInt8) (req : Request)
  | write (bs : Bytes)
  deriving DecidableEq, Repr, Inhabited

/-- how `process` ended -/
inductive SrvEnd
  | finished                     -- Ok(()): the peer closed the stream
  | failed (k : ErrKind)         -- Err(e): reported once through `on_process_error`
  | blocked                      -- waiting for more input (read script exhausted)
  | panicked
  deriving DecidableEq, Repr, Inhabited

structure ServerFramed where
  read : ReadFrame := {}
  wbuf : Bytes := []
  fd : FrameDecoder := {}
  deriving DecidableEq, Repr, Inhabited

/-- service outcome → `OptionalResponsePdu` -/
def responseFor (fc : FunctionCode) : SvcOutcome → Option ResponseResult
  | .reply r => some (.ok r)
  | .exception e => some (.error { function := fc, exception := e })
  | .decline => none

def effectsToEvents (effs : List Effect) : List SrvEvent :=
  effs.filterMap fun
    | .write bs => some (.write bs)
    | .shutdown => none

/-- the request/response loop; `fuel` bounds the number of iterations -/
def processLoop (k : Kind) (svc : Service) :
    Nat → Nat → ServerFramed → Transport → List SrvEvent → SrvEnd × List SrvEvent × ServerFramed × Transport
  | 0, _, f, t, tr => (.blocked, tr, f, t)
  | fuel + 1, idx, f, t, tr =>
    match awaitNext (serverDecoder k) f.fd f.read t.reads with
    | (.done, fd, r, evs) => (.finished, tr, { f with read := r, fd := fd }, { t with reads := evs })
    | (.error e, fd, r, evs) => (.failed e, tr, { f with read := r, fd := fd }, { t with reads := evs })
    | (.panic, fd, r, evs) => (.panicked, tr, { f with read := r, fd := fd }, { t with reads := evs })
    | (.pending, fd, r, evs) | (.blocked, fd, r, evs) =>
      (.blocked, tr, { f with read := r, fd := fd }, { t with reads := evs })
    | (.item (hdr, req), fd, r, evs) =>
      let f := { f with read := r, fd := fd }
      let t := { t with reads := evs }
      let tr := tr ++ [.call hdr.unit req]
      match responseFor req.functionCode (svc idx hdr.unit req) with
      | none => processLoop k svc fuel (idx + 1) f t tr
      | some rsp =>
        -- framed.send(ResponseAdu { hdr, pdu })
        let flushFuel := t.writes.length + t.flushes.length + 1
        match (if f.wbuf.length ≥ BACKPRESSURE_BOUNDARY
               then awaitFlushS flushFuel f.wbuf t else (none, f.wbuf, t, [])) with
        | (some e, w, t, effs) => (e, tr ++ effectsToEvents effs, { f with wbuf := w }, t)
        | (none, w, t, effs) =>
          let tr := tr ++ effectsToEvents effs
          match serverEncode k hdr rsp with
          | .err e => (.failed e, tr, { f with wbuf := w }, t)
          | .panic => (.panicked, tr, { f with wbuf := w }, t)
          | .ok frame =>
            match awaitFlushS flushFuel (w ++ frame) t with
            | (some e, w, t, effs) => (e, tr ++ effectsToEvents effs, { f with wbuf := w }, t)
            | (none, w, t, effs) =>
              processLoop k svc fuel (idx + 1) { f with wbuf := w } t (tr ++ effectsToEvents effs)
where
  /-- await a flush; `none` = flushed, `some e` = how the connection ends -/
  awaitFlushS : Nat → Bytes → Transport → Option SrvEnd × Bytes × Transport × List Effect
    | 0, w, t => (some .blocked, w, t, [])
    | fuel + 1, w, t =>
      match pollFlush w t with
      | (.ready, w', t', e) => (none, w', t', e)
      | (.error k, w', t', e) => (some (.failed k), w', t', e)
      | (.pending, w', t', e) =>
        match awaitFlushS fuel w' t' with
        | (r, w'', t'', e') => (r, w'', t'', e ++ e')

def readBytesTotal : List ReadEv → Nat
  | [] => 0
  | .data bs :: rest => bs.length + readBytesTotal rest
  | _ :: rest => readBytesTotal rest

/-- `process(framed, service)` on a fresh connection -/
def process (k : Kind) (svc : Service) (t : Transport) : SrvEnd × List SrvEvent × ServerFramed × Transport :=
  processLoop k svc (readBytesTotal t.reads + t.reads.length + 2) 0 {} t []

/-! ### accept loop (`Server::serve`) -/

/-- what happens to one incoming connection -/
inductive Setup
  | accepted (conn : Nat)        -- `on_connected` → Ok(Some(service, transport)); spawns `process`
  | rejected                     -- Ok(None)
  | setupFailed (k : ErrKind)    -- `on_connected` → Err
  | acceptFailed (k : ErrKind)   -- `listener.accept()` → Err
  deriving DecidableEq, Repr, Inhabited

/-- `serve`: the connections for which a task is spawned, and how the loop ends
    (`none` = still accepting when the script ends). -/
def serve : List Setup → List Nat × Option ErrKind
  | [] => ([], none)
  | .accepted c :: rest => let (cs, e) := serve rest; (c :: cs, e)
  | .rejected :: rest => serve rest
  | .setupFailed k :: _ => ([], some k)
  | .acceptFailed k :: _ => ([], some k)

end Modbus
