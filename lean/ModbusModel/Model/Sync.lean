import ModbusModel.Model.History
/-
  Model of src/client/sync/{mod,tcp,rtu}.rs: the blocking context is the asynchronous context
  plus an optional timeout; every operation runs the asynchronous operation under
  `block_on_with_timeout`.
-/
namespace Modbus

/-- `block_on_with_timeout`: a future that is not finished by the deadline (dropped at a
    suspension point, or never able to finish) yields a TimedOut transport error -/
def withTimeout : Outcome CallResult → CallResult
  | .done r => r
  | .abandoned => .transport .timedOut
  | .blocked => .transport .timedOut

structure SyncContext where
  asyncCtx : Client
  timeout : Bool          -- whether a timeout is configured (its length is the poll budget of a run)
  deriving Repr

/-- `sync::tcp::connect[_slave][_with_timeout]` / `sync::rtu::connect…`: the asynchronous
    connect with the same slave; the defaults are the asynchronous defaults -/
def SyncContext.connect (k : Kind) (slave : Option UInt8) (timeout : Bool) : SyncContext :=
  { asyncCtx := match slave with
      | some s => Client.attachSlave k s
      | none => Client.attach k,
    timeout := timeout }

/-- `set_timeout` / `reset_timeout` -/
def SyncContext.setTimeout (s : SyncContext) (on : Bool) : SyncContext := { s with timeout := on }

def SyncContext.setSlave (s : SyncContext) (id : UInt8) : SyncContext :=
  { s with asyncCtx := s.asyncCtx.setSlave id }

/-- `Client::call` of the blocking context.  `deadline` is the number of polls the runtime
    grants before the timer fires; it only applies when a timeout is configured. -/
def SyncContext.call (s : SyncContext) (req : Request) (t : Transport) (deadline : Budget) :
    CallResult × SyncContext × Transport × List Effect :=
  let (o, c', t', effs) := s.asyncCtx.call req t (if s.timeout then deadline else none)
  (withTimeout o, { s with asyncCtx := c' }, t', effs)

/-- the ten typed operations: the asynchronous typed operation under the same wrapper -/
def SyncContext.typed (s : SyncContext) (op : TypedOp) (t : Transport) (deadline : Budget) :
    Typed TypedVal × SyncContext × Transport × List Effect :=
  let (r, s', t', effs) := s.call op.request t deadline
  (op.project r, s', t', effs)

end Modbus
