import ModbusModel.Model.History
/-
  Model of src/client/sync/{mod,tcp,rtu}.rs: the blocking context is the asynchronous context
  plus an optional timeout; every operation runs the asynchronous operation under
  `block_on_with_timeout`.
-/
namespace Modbus

/-- `block_on_with_timeout`: a future that is not finished by the deadline (dropped at a
    suspension point, or never able to finish) yields a TimedOut transport error -/
def withTimeout : Outcome CallResult → CallResult
  | .done r => r
  | .abandoned => .transport .timedOut
  | .blocked => .transport .timedOut

structure SyncContext where
  asyncCtx : Client
  timeout : Bool          -- whether a timeout is configured (its length is the poll budget of a run)
  deriving Repr

/-- `sync::tcp::connect[_slave][_with_timeout]` / `sync::rtu::connect…`: the asynchronous
    connect with the same slave; the defaults are the asynchronous defaults -/
def SyncContext.connect (k : Kind) (slave : Option UInt8) (timeout : Bool) : SyncContext :=
  { asyncCtx := match slave with
      | some s => Client.attachSlave k s
      | none => Client.attach k,
    timeout := timeout }

/-- `set_timeout` / `reset_timeout` -/
def SyncContext.setTimeout (s : SyncContext) (on : Bool) : SyncContext := { s with timeout := on }

def SyncContext.setSlave (s : SyncContext) (id : UInt8) : SyncContext :=
  { s with asyncCtx := s.asyncCtx.setSlave id }

/-- `Client::call` of the blocking context.  `deadline` is the number of polls the runtime
    grants before the timer fires; it only applies when a timeout is configured. -/
def SyncContext.call (s : SyncContext) (req : Request) (t : Transport) (deadline : Budget) :
    CallResult × SyncContext × Transport × List Effect :=
  let (o, c', t', effs) := s.asyncCtx.call req t (if s.timeout then deadline else none)
  (withTimeout o, { s with asyncCtx := c' }, t', effs)

/-- the ten typed operations: the asynchronous typed operation under the same wrapper -/
def SyncContext.typed (s : SyncContext) (op : TypedOp) (t : Transport) (deadline : Budget) :
    Typed TypedVal × SyncContext × Transport × List Effect :=
  let (r, s', t', effs) := s.call op.request t deadline
  (op.project r, s', t', effs)

/-! ### Whole sessions of the blocking client

A session is any sequence of the operations the blocking context offers (there is no blocking
`disconnect`).  `asyncOf` names the asynchronous operation each one runs underneath; the theorems
of C17 show that the session as a whole is the asynchronous session seen through `withTimeout`. -/

inductive SyncOp
  | call (req : Request) (ext : Transport) (deadline : Budget)
  | typed (op : TypedOp) (ext : Transport) (deadline : Budget)
  | setSlave (id : UInt8)
  | setTimeout (on : Bool)
  deriving Repr

inductive SyncOpResult
  | call (r : CallResult) (effs : List Effect)
  | typed (r : Typed TypedVal) (effs : List Effect)
  | unit
  deriving Repr

def SyncOpResult.effects : SyncOpResult → List Effect
  | .call _ e => e
  | .typed _ e => e
  | .unit => []

def stepSync (s : SyncContext) (t : Transport) : SyncOp → SyncOpResult × SyncContext × Transport
  | .call req ext d =>
    let (r, s', t', effs) := s.call req (t.extend ext) d
    (.call r effs, s', t')
  | .typed op ext d =>
    let (r, s', t', effs) := s.typed op (t.extend ext) d
    (.typed r effs, s', t')
  | .setSlave id => (.unit, s.setSlave id, t)
  | .setTimeout on => (.unit, s.setTimeout on, t)

def runSync : SyncContext → Transport → List SyncOp → List SyncOpResult × SyncContext × Transport
  | s, t, [] => ([], s, t)
  | s, t, op :: ops =>
    let (r, s', t') := stepSync s t op
    let (rs, s'', t'') := runSync s' t' ops
    (r :: rs, s'', t'')

/-- the asynchronous operation underneath a blocking one, given whether a timeout is configured;
    `set_timeout` touches the wrapper only -/
def SyncOp.asyncOf (timeout : Bool) : SyncOp → Option Op
  | .call req ext d => some (.call req ext (if timeout then d else none))
  | .typed op ext d => some (.call op.request ext (if timeout then d else none))
  | .setSlave id => some (.setSlave id)
  | .setTimeout _ => none

/-- the asynchronous session underneath a blocking session -/
def asyncSession : Bool → List SyncOp → List Op
  | _, [] => []
  | _, .setTimeout on :: ops => asyncSession on ops
  | to, op :: ops => (op.asyncOf to).toList ++ asyncSession to ops

/-- what the blocking caller sees of the asynchronous result of its operation -/
def SyncOp.present : SyncOp → OpResult → SyncOpResult
  | .call .., .call o effs => .call (withTimeout o) effs
  | .typed op .., .call o effs => .typed (op.project (withTimeout o)) effs
  | _, _ => .unit

/-- the blocking results of a session, read off the asynchronous results operation by operation -/
def presentAll : List SyncOp → List OpResult → List SyncOpResult
  | [], _ => []
  | .setTimeout _ :: ops, rs => .unit :: presentAll ops rs
  | op :: ops, r :: rs => op.present r :: presentAll ops rs
  | _ :: _, [] => []

def timeoutAfter : Bool → List SyncOp → Bool
  | to, [] => to
  | _, .setTimeout on :: ops => timeoutAfter on ops
  | to, _ :: ops => timeoutAfter to ops

end Modbus
