import ModbusModel.Model.Framed
import ModbusModel.Model.Rtu
import ModbusModel.Model.Tcp
/-
  The four codec objects (client / server × TCP / RTU) behind one interface:
  a header type that covers both framings, a `Decoder` and an encode function.
-/
namespace Modbus

inductive Kind | tcp | rtu
  deriving DecidableEq, Repr, Inhabited

/-- header of a reply as the client compares it -/
structure Hdr where
  tid : UInt16      -- 0 for RTU
  unit : UInt8
  deriving DecidableEq, Repr, Inhabited

def clientDecoder : Kind → Decoder FrameDecoder (Hdr × ResponseResult)
  | .tcp => { decode := fun fd buf =>
      match tcpClientDecode buf with
      | (r, b) => (r.map (fun o => o.map fun (h, x) => ({ tid := h.transactionId, unit := h.unitId }, x)), fd, b) }
  | .rtu => { decode := fun fd buf =>
      match rtuClientDecode fd buf with
      | (r, fd', b) => (r.map (fun o => o.map fun (s, x) => ({ tid := 0, unit := s }, x)), fd', b) }

def clientEncode (k : Kind) (h : Hdr) (r : Request) : Res Bytes :=
  match k with
  | .tcp => tcpEncodeRequest { transactionId := h.tid, unitId := h.unit } r
  | .rtu => rtuEncodeRequest h.unit r

def serverDecoder : Kind → Decoder FrameDecoder (Hdr × Request)
  | .tcp => { decode := fun fd buf =>
      match tcpServerDecode buf with
      | (r, b) => (r.map (fun o => o.map fun (h, x) => ({ tid := h.transactionId, unit := h.unitId }, x)), fd, b) }
  | .rtu => { decode := fun fd buf =>
      match rtuServerDecode fd buf with
      | (r, fd', b) => (r.map (fun o => o.map fun (s, x) => ({ tid := 0, unit := s }, x)), fd', b) }

def serverEncode (k : Kind) (h : Hdr) (r : ResponseResult) : Res Bytes :=
  match k with
  | .tcp => tcpEncodeResponse { transactionId := h.tid, unitId := h.unit } r
  | .rtu => rtuEncodeResponse h.unit r

end Modbus
