import ModbusModel.Driver.Wire
import ModbusModel.Model.History
import ModbusModel.Model.Sync
/-
  One model evaluation per case line.  `runLine` is total: a malformed line
  yields `bad-case` (never a default value).
-/
namespace Modbus.Wire
open Modbus

def classTok (id : UInt8) : String :=
  s!"b{boolStr (Slave.isBroadcast id)}s{boolStr (Slave.isSingleDevice id)}r{boolStr (Slave.isReserved id)}"

def optNat : Option Nat → String
  | some n => s!"some {n}"
  | none => "none"

def hdrTok (k : Kind) (h : Hdr) : String :=
  match k with
  | .tcp => s!"{hex16 h.tid}:{hex8 h.unit}"
  | .rtu => hex8 h.unit

/-- iterate `framed.next().await` over a read script and render what it yields; returns the
    rendered results, the reader and the decoder state at the end -/
def streamRun {σ ι} (D : Decoder σ ι) (render : ι → String) :
    Nat → σ → ReadFrame → List ReadEv → List String → List String × ReadFrame × σ
  | 0, s, r, _, acc => (("fuel" :: acc).reverse, r, s)
  | fuel + 1, s, r, evs, acc =>
    match awaitNext D s r evs with
    | (.item i, s', r', evs') => streamRun D render fuel s' r' evs' (("item " ++ render i) :: acc)
    | (.error k, s', r', evs') => streamRun D render fuel s' r' evs' (("err:" ++ errKind k) :: acc)
    | (.done, s', r', evs') =>
      if evs'.isEmpty then (("done" :: acc).reverse, r', s') else streamRun D render fuel s' r' evs' ("done" :: acc)
    | (.pending, s', r', _) | (.blocked, s', r', _) => (("blocked" :: acc).reverse, r', s')
    | (.panic, s', r', _) => (("panic" :: acc).reverse, r', s')

def rawAduDecoder : Decoder FrameDecoder (TcpHeader × Bytes) :=
  { decode := fun fd buf => match aduDecode buf with | (r, b) => (r, fd, b) }

def rawRtuDecoder (lenFn : Bytes → Res (Option Nat)) : Decoder FrameDecoder (UInt8 × Bytes) :=
  { decode := fun fd buf => rtuDecode lenFn fd buf }

def streamOp (codec : String) (evs : List ReadEv) : Option String :=
  let fuel := readBytesTotal evs + evs.length + 5
  let fin (p : List String × ReadFrame × FrameDecoder) : String :=
    String.intercalate " | " p.1 ++ s!" ; buf {p.2.1.buffer.length}"
  -- the RTU codecs also show how many dropped bytes the frame decoder remembers
  let finRtu (p : List String × ReadFrame × FrameDecoder) : String :=
    fin p ++ s!" ; dropped {p.2.2.dropped.length}"
  match codec with
  | "tcpsrv" => some <| fin <|
    streamRun (serverDecoder .tcp) (fun (h, r) => hdrTok .tcp h ++ ":" ++ request r) fuel {} {} evs []
  | "rtusrv" => some <| finRtu <|
    streamRun (serverDecoder .rtu) (fun (h, r) => hdrTok .rtu h ++ ":" ++ request r) fuel {} {} evs []
  | "tcpcli" => some <| fin <|
    streamRun (clientDecoder .tcp) (fun (h, r) => hdrTok .tcp h ++ ":" ++ responseResult r) fuel {} {} evs []
  | "rtucli" => some <| finRtu <|
    streamRun (clientDecoder .rtu) (fun (h, r) => hdrTok .rtu h ++ ":" ++ responseResult r) fuel {} {} evs []
  | "tcpadu" => some <| fin <|
    streamRun rawAduDecoder (fun (h, p) => s!"{hex16 h.transactionId}:{hex8 h.unitId}:{hexBytes p}") fuel {} {} evs []
  | _ => none

def effectsTok (effs : List Effect) : String :=
  let ws := effs.filterMap fun | .write bs => some (hexBytes bs) | .shutdown => none
  let sd := (effs.filter fun | .shutdown => true | _ => false).length
  s!"w={orDash (String.intercalate "+" ws)} sd={sd}"

def callResult : CallResult → String
  | .ok r => "ok " ++ response r
  | .exception e => "exc " ++ hex8 e.value
  | .headerMismatch r => "hm " ++ responseResult r
  | .fnMismatch r => "fm " ++ responseResult r
  | .transport k => "tr:" ++ errKind k
  | .panic => "panic"

def typedVal : TypedVal → String
  | .bits bs => "bits:" ++ bitStr bs
  | .words ws => "words:" ++ hexWords ws
  | .unit => "unit"

def typedResult : Typed TypedVal → String
  | .ok v => "ok " ++ typedVal v
  | .exception e => "exc " ++ hex8 e.value
  | .headerMismatch r => "hm " ++ responseResult r
  | .fnMismatch r => "fm " ++ responseResult r
  | .transport k => "tr:" ++ errKind k
  | .panic => "panic"

def outcome {α} (f : α → String) : Outcome α → String
  | .done r => f r
  | .abandoned => "abandoned"
  | .blocked => "blocked"

def pTypedOp (s : String) : Option TypedOp :=
  match s.splitOn ":" with
  | ["rc", a, c] => do pure (.readCoils (← pU16 a) (← pU16 c))
  | ["rdi", a, c] => do pure (.readDiscreteInputs (← pU16 a) (← pU16 c))
  | ["rhr", a, c] => do pure (.readHoldingRegisters (← pU16 a) (← pU16 c))
  | ["rir", a, c] => do pure (.readInputRegisters (← pU16 a) (← pU16 c))
  | ["rwm", ra, c, wa, ws] => do
    pure (.readWriteMultipleRegisters (← pU16 ra) (← pU16 c) (← pU16 wa) (← pWords ws))
  | ["wsc", a, b] => do pure (.writeSingleCoil (← pU16 a) (← pBool b))
  | ["wsr", a, w] => do pure (.writeSingleRegister (← pU16 a) (← pU16 w))
  | ["wmc", a, cs] => do pure (.writeMultipleCoils (← pU16 a) (← pBits cs))
  | ["wmr", a, ws] => do pure (.writeMultipleRegisters (← pU16 a) (← pWords ws))
  | ["mwr", a, am, om] => do pure (.maskedWriteRegister (← pU16 a) (← pU16 am) (← pU16 om))
  | _ => none

/-- append the per-op script pieces to the persistent transport queues -/
def extendTransport (t : Transport) (fields : List String) : Option Transport := do
  let rs ← pReadEvs (field "r" fields)
  let ws ← pList pWriteEv (field "w" fields)
  let fs ← pList pCtlEv (field "f" fields)
  let ss ← pList pCtlEv (field "s" fields)
  pure { reads := t.reads ++ rs, writes := t.writes ++ ws, flushes := t.flushes ++ fs,
         shutdowns := t.shutdowns ++ ss }

/-- parse one op of a client history (typed ops are calls whose result is projected) -/
def pCliOp (op : String) : Option (Op × Option TypedOp) :=
  match (op.splitOn " ").filter (· ≠ "") with
  | "call" :: req :: fields => do
    let req ← pRequest req
    let ext ← extendTransport {} fields
    let b ← pBudget (let v := field "b" fields; if v = "" then "-" else v)
    pure (.call req ext b, none)
  | "typed" :: top :: fields => do
    let top ← pTypedOp top
    let ext ← extendTransport {} fields
    pure (.call top.request ext none, some top)
  | "slave" :: id :: _ => do
    let id ← pU8 id
    pure (.setSlave id, none)
  | "disc" :: fields => do
    let ext ← extendTransport {} fields
    pure (.disconnect ext, none)
  | _ => none

def opResult (top : Option TypedOp) : OpResult → String
  | .call o effs =>
    match top with
    | none => outcome callResult o ++ " " ++ effectsTok effs
    | some top =>
      let o' : Outcome (Typed TypedVal) := match o with
        | .done r => .done (top.project r)
        | .abandoned => .abandoned
        | .blocked => .blocked
      outcome typedResult o' ++ " " ++ effectsTok effs
  | .slave => "ok"
  | .disc r effs =>
    (match r with | none => "ok" | some k => "err:" ++ errKind k) ++ " " ++ effectsTok effs

/-- run the ops of a client history through `stepOp` -/
def cliOps : List String → Client → Transport → List String → Option (List String)
  | [], _, _, acc => some acc.reverse
  | op :: rest, c, t, acc =>
    match pCliOp op with
    | none => none
    | some (o, top) =>
      let (r, c', t') := stepOp c t o
      cliOps rest c' t' (opResult top r :: acc)

def pSvc (s : String) : Option SvcOutcome :=
  if s = "D" then some .decline else
  match dropPrefix "R=" s with
  | some r => (pResponse r).map .reply
  | none =>
    match dropPrefix "X=" s with
    | some x => (pEx x).map .exception
    | none => none

def srvEvent : SrvEvent → String
  | .call s r => s!"call {hex8 s} {request r}"
  | .write bs => s!"write {hexBytes bs}"

def srvEnd : SrvEnd → String
  | .finished => "finished"
  | .failed k => "failed:" ++ errKind k
  | .blocked => "blocked"
  | .panicked => "panicked"

def pSetup (s : String) : Option Setup :=
  match s.toList with
  | ['r'] => some .rejected
  | 'a' :: n => (String.ofList n).toNat?.map .accepted
  | 's' :: k => (pErrKind (String.ofList k)).map .setupFailed
  | 'l' :: k => (pErrKind (String.ofList k)).map .acceptFailed
  | _ => none

/-- one line of a blocking-client history as an operation of the session model -/
def pSyncOp (op : String) : Option SyncOp :=
  match (op.splitOn " ").filter (· ≠ "") with
  | ["timeout", v] => some (.setTimeout (v ≠ "-"))
  | _ =>
    match pCliOp op with
    | some (.call req ext _, none) => some (.call req ext none)
    | some (.call _ ext _, some top) => some (.typed top ext none)
    | some (.setSlave id, _) => some (.setSlave id)
    | _ => none

def syncResult : SyncOpResult → String
  | .call r effs => callResult r ++ " " ++ effectsTok effs
  | .typed r effs => typedResult r ++ " " ++ effectsTok effs
  | .unit => "ok"

/-- run a blocking-client history through `runSync`, the session model the C17 theorems are
    stated over -/
def syncOps (ops : List String) (s : SyncContext) (t : Transport) : Option (List String) :=
  (ops.mapM pSyncOp).map fun sops => (runSync s t sops).1.map syncResult

/-- the accept loop over a list of connection setups: `a` accepted, the client performs one good
    exchange and closes; `b` accepted, the client sends a malformed frame; `r` no service;
    `s<kind>` the setup fails.  Each spawned connection runs the modelled `process`. -/
def acceptOp (k : Kind) (setups : String) (abort : Bool) : Option String := do
  let toks := if setups = "-" then [] else setups.splitOn ","
  let parsed ← toks.mapM fun t =>
    if t = "a" then some (some false, Setup.accepted 0)
    else if t = "b" then some (some true, Setup.accepted 0)
    else if t = "r" then some (none, Setup.rejected)
    else match t.toList with
      | 's' :: kk => (pErrKind (String.ofList kk)).map fun e => (none, Setup.setupFailed e)
      | _ => none
  -- number the connections by position
  let numbered := (List.range parsed.length).zip parsed |>.map fun (i, (b, s)) =>
    (b, match s with | .accepted _ => Setup.accepted i | s => s)
  let (spawnedIdx, err) := serve (numbered.map (·.2))
  let reqPdu : Bytes := [0x03, 0, 1, 0, 1]
  let good : Bytes := match k with
    | .tcp => mbap { transactionId := 7, unitId := 1 } 5 ++ reqPdu
    | .rtu => (1 :: reqPdu) ++ crcBytes (1 :: reqPdu)
  let bad : Bytes := match k with
    | .tcp => [0, 7, 0, 9, 0, 6, 1] ++ reqPdu
    | .rtu => (1 :: [0x05, 0, 1, 0x12, 0x34]) ++ crcBytes (1 :: [0x05, 0, 1, 0x12, 0x34])
  let runs := spawnedIdx.map fun i =>
    let isBad := match numbered[i]? with | some (some true, _) => true | _ => false
    let svc : Service := fun _ _ _ => .reply (.readHoldingRegisters [UInt16.ofNat i])
    let (e, evs, _, _) := process k svc { reads := [.data (if isBad then bad else good), .eof] }
    (i, e, evs.any fun | .write _ => true | _ => false)
  let served := runs.filterMap fun (i, _, w) => if w then some i else none
  let cb := (runs.filter fun (_, e, _) => match e with | .failed _ => true | _ => false).length
  let endTok := match err with
    | some e => "err:" ++ errKind e
    | none => if abort then "aborted" else "running"
  let tok (l : List Nat) : String := orDash (String.intercalate "," (l.map toString))
  pure s!"spawned {tok spawnedIdx} served {tok served} cb={cb} {endTok}"

def runOp (line : String) : Option String :=
  match (line.splitOn " ").filter (· ≠ "") with
  | ["fc", b] => do
    let b ← pU8 b
    let f := FunctionCode.new b
    pure s!"{fcName f} {hex8 f.value}"
  | ["ex", b] => do
    let b ← pU8 b
    let e := ExceptionCode.new b
    pure s!"{exName e} {hex8 e.value}"
  | ["reqfc", r] => do
    let r ← pRequest r
    pure s!"{fcName r.functionCode} {hex8 r.functionCode.value}"
  | ["rspfc", r] => do
    let r ← pResponse r
    pure s!"{fcName r.functionCode} {hex8 r.functionCode.value}"
  | ["slave", s] => do
    let bs ← pBytes s
    match String.fromUTF8? (ByteArray.mk bs.toArray) with
    | none => none
    | some str =>
      match Slave.fromStr str.toList with
      | some id => pure s!"ok {hex8 id}"
      | none => pure "err"
  | ["slaved", b] => do
    let b ← pU8 b
    pure s!"{hexBytes (Slave.display b).toUTF8.toList} {classTok b}"
  -- the same encoders behind bytes already waiting in the output buffer: what is appended
  -- does not depend on them
  | ["tcpreq", tid, u, r, _pre] => do
    pure (res hexBytes (tcpEncodeRequest { transactionId := (← pU16 tid), unitId := (← pU8 u) } (← pRequest r)))
  | ["rtureq", u, r, _pre] => do
    pure (res hexBytes (rtuEncodeRequest (← pU8 u) (← pRequest r)))
  | ["tcprsp", tid, u, r, _pre] => do
    pure (res hexBytes (tcpEncodeResponse { transactionId := (← pU16 tid), unitId := (← pU8 u) } (← pResponseResult r)))
  | ["rtursp", u, r, _pre] => do
    pure (res hexBytes (rtuEncodeResponse (← pU8 u) (← pResponseResult r)))
  | ["tcpreq", tid, u, r] => do
    pure (res hexBytes (tcpEncodeRequest { transactionId := (← pU16 tid), unitId := (← pU8 u) } (← pRequest r)))
  | ["rtureq", u, r] => do
    pure (res hexBytes (rtuEncodeRequest (← pU8 u) (← pRequest r)))
  | ["tcprsp", tid, u, r] => do
    pure (res hexBytes (tcpEncodeResponse { transactionId := (← pU16 tid), unitId := (← pU8 u) } (← pResponseResult r)))
  | ["rtursp", u, r] => do
    pure (res hexBytes (rtuEncodeResponse (← pU8 u) (← pResponseResult r)))
  | ["reqdec", bs] => do pure (res request (decodeRequest (← pBytes bs)))
  | ["rspdec", bs] => do pure (res response (decodeResponse (← pBytes bs)))
  | ["excdec", bs] => do pure (res exception (decodeException (← pBytes bs)))
  | ["crc", bs] => do pure (hex16 (calcCrc (← pBytes bs)))
  | ["reqlen", bs] => do pure (res optNat (requestPduLen (← pBytes bs)))
  | ["rsplen", bs] => do pure (res optNat (responsePduLen (← pBytes bs)))
  | ["stream", codec, evs] => do streamOp codec (← pReadEvs evs)
  | ["stream", codec] => streamOp codec []
  | ["accept", kind, setups] => do acceptOp (← pKind kind) setups false
  | ["accept", kind, setups, "abort"] => do acceptOp (← pKind kind) setups true
  | _ =>
    -- multi-part ops: parts separated by " | "
    match line.splitOn " | " with
    | head :: ops =>
      match (head.splitOn " ").filter (· ≠ "") with
      | "cli" :: kind :: slave :: _ => do
        let k ← pKind kind
        let c ← if slave = "-" then some (Client.attach k) else (pU8 slave).map (Client.attachSlave k)
        let outs ← cliOps ops c {} []
        pure (String.intercalate " | " outs)
      | "sync" :: kind :: slave :: opts => do
        -- the blocking client, through the model of client/sync (SyncContext)
        let k ← pKind kind
        let sl ← if slave = "-" then some none else (pU8 slave).map some
        let ctx := SyncContext.connect k sl (field "to" opts ≠ "")
        let outs ← syncOps ops ctx {}
        pure (String.intercalate " | " outs)
      | ["conc", kind] => do
        let k ← pKind kind
        let outs ← ops.mapM fun part => do
          let fields := (part.splitOn " ").filter (· ≠ "")
          let outcomes ← pList pSvc (field "svc" fields)
          let t ← extendTransport {} fields
          let svc : Service := fun i _ _ => outcomes.getD i .decline
          let (e, evs, _, _) := process k svc t
          let calls := evs.filterMap fun | .call s r => some s!"{hex8 s}:{request r}" | _ => none
          let outb := evs.flatMap fun | .write bs => bs | _ => []
          -- the serial server is one connection: `serve_until` / `serve_forever` return when the
          -- request loop fails (the TCP servers only end that connection's task)
          let peer := if kind = "ser" then (match e with | .failed _ => "failed" | _ => "ok") else "ok"
          pure s!"calls={orDash (String.intercalate "," calls)} out={hexBytes outb} peer={peer}"
        pure (String.intercalate " | " outs)
      | "srv" :: kind :: fields => do
        let k ← pKind kind
        let outcomes ← pList pSvc (field "svc" fields)
        let t ← extendTransport {} fields
        let svc : Service := fun i _ _ => outcomes.getD i .decline
        let (e, evs, f, _) := process k svc t
        let _ := f
        -- a service typed on the plain `Request` never sees the unit / slave id
        let plain : Bool := field "svcty" fields == "req"
        let ev (x : SrvEvent) : String := match x with
          | .call _ r => if plain then "call ?? " ++ request r else srvEvent x
          | x => srvEvent x
        pure (String.intercalate " | " (evs.map ev ++ ["end " ++ srvEnd e]))
      | _ => none
    | [] => none

def runLine (line : String) : String :=
  match runOp line with
  | some s => s
  | none => "bad-case"

end Modbus.Wire
