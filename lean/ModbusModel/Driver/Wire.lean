import ModbusModel.Model.Client
import ModbusModel.Model.Server
/-
  Line protocol of the correspondence check: parsing of case lines, canonical
  rendering of results.  Mirrors /verif/harness/src/wire.rs.
-/
namespace Modbus.Wire
open Modbus

/-! ### rendering -/

def hexDigitChar (n : Nat) : Char :=
  if n < 10 then Char.ofNat (48 + n) else Char.ofNat (55 + n)   -- upper case

def hex8 (b : UInt8) : String :=
  String.ofList [hexDigitChar (b.toNat / 16), hexDigitChar (b.toNat % 16)]

def hex16 (w : UInt16) : String :=
  hex8 (UInt8.ofNat (w.toNat / 256)) ++ hex8 (UInt8.ofNat (w.toNat % 256))

def orDash (s : String) : String := if s.isEmpty then "-" else s

def hexBytes (bs : Bytes) : String :=
  orDash (String.ofList (bs.foldr (fun b acc => hexDigitChar (b.toNat / 16) :: hexDigitChar (b.toNat % 16) :: acc) []))

def hexWords (ws : List UInt16) : String := orDash (String.join (ws.map hex16))

def bitStr (bs : List Bool) : String := orDash (String.ofList (bs.map fun b => if b then '1' else '0'))

def boolStr (b : Bool) : String := if b then "1" else "0"

def errKind : ErrKind → String
  | .invalidData => "id" | .invalidInput => "ii" | .unexpectedEof => "ue" | .brokenPipe => "bp"
  | .notConnected => "nc" | .timedOut => "to" | .writeZero => "wz" | .other => "ot"
  | .injected n => "k" ++ toString n

def fcName : FunctionCode → String
  | .readCoils => "ReadCoils" | .readDiscreteInputs => "ReadDiscreteInputs"
  | .readHoldingRegisters => "ReadHoldingRegisters" | .readInputRegisters => "ReadInputRegisters"
  | .writeSingleCoil => "WriteSingleCoil" | .writeSingleRegister => "WriteSingleRegister"
  | .readExceptionStatus => "ReadExceptionStatus" | .diagnostics => "Diagnostics"
  | .getCommEventCounter => "GetCommEventCounter" | .getCommEventLog => "GetCommEventLog"
  | .writeMultipleCoils => "WriteMultipleCoils" | .writeMultipleRegisters => "WriteMultipleRegisters"
  | .reportServerId => "ReportServerId" | .readFileRecord => "ReadFileRecord"
  | .writeFileRecord => "WriteFileRecord" | .maskWriteRegister => "MaskWriteRegister"
  | .readWriteMultipleRegisters => "ReadWriteMultipleRegisters" | .readFifoQueue => "ReadFifoQueue"
  | .encapsulatedInterfaceTransport => "EncapsulatedInterfaceTransport"
  | .custom _ => "Custom"

def exName : ExceptionCode → String
  | .illegalFunction => "IllegalFunction" | .illegalDataAddress => "IllegalDataAddress"
  | .illegalDataValue => "IllegalDataValue" | .serverDeviceFailure => "ServerDeviceFailure"
  | .acknowledge => "Acknowledge" | .serverDeviceBusy => "ServerDeviceBusy"
  | .memoryParityError => "MemoryParityError" | .gatewayPathUnavailable => "GatewayPathUnavailable"
  | .gatewayTargetDevice => "GatewayTargetDevice"
  | .custom _ => "Custom"

/-- `XX` for a code equal to `new XX`, `cXX` for an explicit `Custom(XX)` of a named value -/
def fcTok (f : FunctionCode) : String :=
  if FunctionCode.new f.value = f then hex8 f.value else "c" ++ hex8 f.value

def exTok (e : ExceptionCode) : String :=
  if ExceptionCode.new e.value = e then hex8 e.value else "c" ++ hex8 e.value

def request : Request → String
  | .readCoils a q => s!"RC:{hex16 a}:{hex16 q}"
  | .readDiscreteInputs a q => s!"RDI:{hex16 a}:{hex16 q}"
  | .writeSingleCoil a b => s!"WSC:{hex16 a}:{boolStr b}"
  | .writeMultipleCoils a cs => s!"WMC:{hex16 a}:{bitStr cs}"
  | .readInputRegisters a q => s!"RIR:{hex16 a}:{hex16 q}"
  | .readHoldingRegisters a q => s!"RHR:{hex16 a}:{hex16 q}"
  | .writeSingleRegister a w => s!"WSR:{hex16 a}:{hex16 w}"
  | .writeMultipleRegisters a ws => s!"WMR:{hex16 a}:{hexWords ws}"
  | .reportServerId => "RSI"
  | .maskWriteRegister a am om => s!"MWR:{hex16 a}:{hex16 am}:{hex16 om}"
  | .readWriteMultipleRegisters ra q wa ws => s!"RWM:{hex16 ra}:{hex16 q}:{hex16 wa}:{hexWords ws}"
  | .custom fc d => s!"CU:{hex8 fc}:{hexBytes d}"

def response : Response → String
  | .readCoils cs => s!"RC:{bitStr cs}"
  | .readDiscreteInputs cs => s!"RDI:{bitStr cs}"
  | .writeSingleCoil a b => s!"WSC:{hex16 a}:{boolStr b}"
  | .writeMultipleCoils a q => s!"WMC:{hex16 a}:{hex16 q}"
  | .readInputRegisters ws => s!"RIR:{hexWords ws}"
  | .readHoldingRegisters ws => s!"RHR:{hexWords ws}"
  | .writeSingleRegister a w => s!"WSR:{hex16 a}:{hex16 w}"
  | .writeMultipleRegisters a q => s!"WMR:{hex16 a}:{hex16 q}"
  | .reportServerId id run d => s!"RSI:{hex8 id}:{boolStr run}:{hexBytes d}"
  | .maskWriteRegister a am om => s!"MWR:{hex16 a}:{hex16 am}:{hex16 om}"
  | .readWriteMultipleRegisters ws => s!"RWM:{hexWords ws}"
  | .custom fc d => s!"CU:{hex8 fc}:{hexBytes d}"

def exception (e : ExceptionResponse) : String := s!"{fcTok e.function}:{exTok e.exception}"

def responseResult : ResponseResult → String
  | .ok r => "R=" ++ response r
  | .error e => "E=" ++ exception e

def res {α} (f : α → String) : Res α → String
  | .ok a => "ok " ++ f a
  | .err k => "err:" ++ errKind k
  | .panic => "panic"

/-! ### parsing -/

def hexVal (c : Char) : Option Nat :=
  if '0' ≤ c ∧ c ≤ '9' then some (c.toNat - 48)
  else if 'A' ≤ c ∧ c ≤ 'F' then some (c.toNat - 55)
  else if 'a' ≤ c ∧ c ≤ 'f' then some (c.toNat - 87)
  else none

def pBytesL : List Char → Option Bytes
  | [] => some []
  | a :: b :: rest => do
    let x ← hexVal a
    let y ← hexVal b
    let t ← pBytesL rest
    pure (UInt8.ofNat (x * 16 + y) :: t)
  | _ => none

def pBytes (s : String) : Option Bytes :=
  if s = "-" then some [] else pBytesL s.toList

def pU8 (s : String) : Option UInt8 :=
  match pBytes s with
  | some [b] => some b
  | _ => none

def pU16 (s : String) : Option UInt16 :=
  match pBytes s with
  | some [a, b] => some (rd16 a b)
  | _ => none

def pWords (s : String) : Option (List UInt16) :=
  match pBytes s with
  | some bs =>
    let rec go : Bytes → Option (List UInt16)
      | [] => some []
      | a :: b :: rest => (go rest).map (rd16 a b :: ·)
      | _ => none
    go bs
  | none => none

def pBits (s : String) : Option (List Bool) :=
  if s = "-" then some [] else
  s.toList.mapM fun c => if c = '0' then some false else if c = '1' then some true else none

def pBool (s : String) : Option Bool :=
  if s = "0" then some false else if s = "1" then some true else none

def pErrKind (s : String) : Option ErrKind :=
  match s with
  | "id" => some .invalidData | "ii" => some .invalidInput | "ue" => some .unexpectedEof
  | "bp" => some .brokenPipe | "nc" => some .notConnected | "to" => some .timedOut
  | "wz" => some .writeZero | "ot" => some .other
  | _ =>
    match s.toList with
    | 'k' :: ds => (String.ofList ds).toNat?.map .injected
    | _ => none

def pFc (s : String) : Option FunctionCode :=
  match s.toList with
  | 'c' :: rest => (pU8 (String.ofList rest)).map .custom
  | _ => (pU8 s).map FunctionCode.new

def pEx (s : String) : Option ExceptionCode :=
  match s.toList with
  | 'c' :: rest => (pU8 (String.ofList rest)).map .custom
  | _ => (pU8 s).map ExceptionCode.new

def pRequest (s : String) : Option Request :=
  match s.splitOn ":" with
  | ["RC", a, q] => do pure (.readCoils (← pU16 a) (← pU16 q))
  | ["RDI", a, q] => do pure (.readDiscreteInputs (← pU16 a) (← pU16 q))
  | ["WSC", a, b] => do pure (.writeSingleCoil (← pU16 a) (← pBool b))
  | ["WMC", a, cs] => do pure (.writeMultipleCoils (← pU16 a) (← pBits cs))
  | ["RIR", a, q] => do pure (.readInputRegisters (← pU16 a) (← pU16 q))
  | ["RHR", a, q] => do pure (.readHoldingRegisters (← pU16 a) (← pU16 q))
  | ["WSR", a, w] => do pure (.writeSingleRegister (← pU16 a) (← pU16 w))
  | ["WMR", a, ws] => do pure (.writeMultipleRegisters (← pU16 a) (← pWords ws))
  | ["RSI"] => some .reportServerId
  | ["MWR", a, am, om] => do pure (.maskWriteRegister (← pU16 a) (← pU16 am) (← pU16 om))
  | ["RWM", ra, q, wa, ws] => do
    pure (.readWriteMultipleRegisters (← pU16 ra) (← pU16 q) (← pU16 wa) (← pWords ws))
  | ["CU", fc, d] => do pure (.custom (← pU8 fc) (← pBytes d))
  | _ => none

def pResponse (s : String) : Option Response :=
  match s.splitOn ":" with
  | ["RC", cs] => do pure (.readCoils (← pBits cs))
  | ["RDI", cs] => do pure (.readDiscreteInputs (← pBits cs))
  | ["WSC", a, b] => do pure (.writeSingleCoil (← pU16 a) (← pBool b))
  | ["WMC", a, q] => do pure (.writeMultipleCoils (← pU16 a) (← pU16 q))
  | ["RIR", ws] => do pure (.readInputRegisters (← pWords ws))
  | ["RHR", ws] => do pure (.readHoldingRegisters (← pWords ws))
  | ["WSR", a, w] => do pure (.writeSingleRegister (← pU16 a) (← pU16 w))
  | ["WMR", a, q] => do pure (.writeMultipleRegisters (← pU16 a) (← pU16 q))
  | ["RSI", id, run, d] => do pure (.reportServerId (← pU8 id) (← pBool run) (← pBytes d))
  | ["MWR", a, am, om] => do pure (.maskWriteRegister (← pU16 a) (← pU16 am) (← pU16 om))
  | ["RWM", ws] => do pure (.readWriteMultipleRegisters (← pWords ws))
  | ["CU", fc, d] => do pure (.custom (← pU8 fc) (← pBytes d))
  | _ => none

def dropPrefix (pre s : String) : Option String :=
  if s.startsWith pre then some (s.drop pre.length).toString else none

def pResponseResult (s : String) : Option ResponseResult :=
  match dropPrefix "R=" s with
  | some r => (pResponse r).map .ok
  | none =>
    match dropPrefix "E=" s with
    | some e =>
      match e.splitOn ":" with
      | [f, x] => do pure (.error { function := (← pFc f), exception := (← pEx x) })
      | _ => none
    | none => none

def pList {α} (f : String → Option α) (s : String) : Option (List α) :=
  if s = "" ∨ s = "-" then some [] else (s.splitOn ",").mapM f

def pReadEv (s : String) : Option ReadEv :=
  match s.toList with
  | ['e'] => some .eof
  | ['p'] => some .pending
  | 'd' :: rest => (pBytesL rest).map .data
  | 'x' :: rest => (pErrKind (String.ofList rest)).map .err
  | _ => none

/-- a list of read events; `E` – the peer has closed and stays closed – stands for as many
    end-of-stream reports as any history of the harness reads (each read of it is one `.eof`) -/
def pReadEvs (s : String) : Option (List ReadEv) :=
  if s = "-" ∨ s = "" then some [] else
  (s.splitOn ",").foldr (fun t acc =>
    match acc with
    | none => none
    | some l => if t = "E" then some (List.replicate 256 .eof ++ l) else (pReadEv t).map (· :: l)) (some [])

def pWriteEv (s : String) : Option WriteEv :=
  match s.toList with
  | ['z'] => some .zero
  | ['p'] => some .pending
  | 'a' :: rest => (String.ofList rest).toNat?.map .accept
  | 'x' :: rest => (pErrKind (String.ofList rest)).map .err
  | _ => none

def pCtlEv (s : String) : Option CtlEv :=
  match s.toList with
  | ['o'] => some .ok
  | ['p'] => some .pending
  | 'x' :: rest => (pErrKind (String.ofList rest)).map .err
  | _ => none

def pKind (s : String) : Option Kind :=
  -- "ser": the serial RTU server – the RTU codec and the same loop
  if s = "tcp" then some .tcp else if s = "rtu" ∨ s = "ser" then some .rtu else none

def pBudget (s : String) : Option Budget :=
  if s = "-" then some none else s.toNat?.map some

/-- `key=value` fields of an op -/
def field (key : String) (fields : List String) : String :=
  match fields.filterMap (dropPrefix (key ++ "=")) with
  | v :: _ => v
  | [] => ""

def readEv : ReadEv → String
  | .data bs => "d" ++ hexBytes bs
  | .eof => "e"
  | .err k => "x" ++ errKind k
  | .pending => "p"

end Modbus.Wire
