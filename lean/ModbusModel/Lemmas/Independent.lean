import ModbusModel.Lemmas.Health
import ModbusModel.Lemmas.Client
/-
  What a call returns does not depend on the client's past: the decoders are state-free (the RTU
  frame decoder's record of dropped bytes never influences a result), an empty buffer always
  means "need more", and the call clears the receive buffer first – so two clients that agree on
  kind, unit, next transaction id and unsent bytes, with nothing latched in the framing layer,
  are indistinguishable to the next call.
-/
namespace Modbus

variable {σ ι : Type}

/-- what the decoder returns and leaves in the buffer does not depend on its state -/
def Decoder.StateFree (D : Decoder σ ι) : Prop :=
  ∀ s s' buf, (D.decode s buf).1 = (D.decode s' buf).1 ∧ (D.decode s buf).2.2 = (D.decode s' buf).2.2

/-- an empty buffer is "need more", whatever the state -/
def Decoder.EmptyWaits (D : Decoder σ ι) : Prop :=
  ∀ s, (D.decode s []).1 = .ok none ∧ (D.decode s []).2.2 = []

/-- two read frames that the next poll cannot tell apart: equal, or both empty without error / end
    of stream (they may differ in `isReadable`: an empty buffer decodes to "need more") -/
def ReadFrame.Alike (r r' : ReadFrame) : Prop :=
  r = r' ∨ (r.buffer = [] ∧ r'.buffer = [] ∧ r.hasErrored = false ∧ r'.hasErrored = false
            ∧ r.eof = false ∧ r'.eof = false)

theorem pre_alike (D : Decoder σ ι) (hS : D.StateFree) (hE : D.EmptyWaits) (s s' : σ) (r r' : ReadFrame)
    (h : r.Alike r') :
    (ReadFrame.pre D s r).1 = (ReadFrame.pre D s' r').1 ∧ (ReadFrame.pre D s r).2.2 = (ReadFrame.pre D s' r').2.2 := by
  rcases h with rfl | ⟨hb, hb', he, he', hq, hq'⟩
  · -- the same frame, another decoder state
    unfold ReadFrame.pre Decoder.decodeEof
    have h1 := hS s s' r.buffer
    rcases hd : D.decode s r.buffer with ⟨x, s1, b1⟩
    rcases hd' : D.decode s' r.buffer with ⟨x', s1', b1'⟩
    rw [hd, hd'] at h1
    simp only at h1
    obtain ⟨rfl, rfl⟩ := h1
    cases r.hasErrored <;> cases r.isReadable <;> cases r.eof <;> simp <;>
      (cases x with
        | ok o => cases o <;> simp <;> (try (by_cases hb : b1 = [] <;> simp [hb]))
        | err k => simp
        | panic => simp)
  · -- both empty and clean
    obtain ⟨h1, h2⟩ := hE s
    obtain ⟨h1', h2'⟩ := hE s'
    unfold ReadFrame.pre
    rcases hd : D.decode s [] with ⟨x, s1, b1⟩
    rcases hd' : D.decode s' [] with ⟨x', s1', b1'⟩
    rw [hd] at h1 h2; rw [hd'] at h1' h2'
    simp only at h1 h2 h1' h2'
    subst h1 h2 h1' h2'
    cases r with
    | mk e i x b =>
      cases r' with
      | mk e' i' x' b' =>
        simp only at hb hb' he he' hq hq'
        subst hb hb' he he' hq hq'
        cases i <;> cases i' <;> simp [hd, hd']


/-- one poll: what is returned, the events left and the read frame afterwards do not depend on the
    decoder state, nor on which of two alike frames the poll started from -/
theorem pollNext_alike (D : Decoder σ ι) (hS : D.StateFree) (hE : D.EmptyWaits) :
    ∀ (evs : List ReadEv) (s s' : σ) (r r' : ReadFrame), r.Alike r' →
      (pollNext D s r evs).1 = (pollNext D s' r' evs).1
      ∧ (pollNext D s r evs).2.2.1 = (pollNext D s' r' evs).2.2.1
      ∧ (pollNext D s r evs).2.2.2 = (pollNext D s' r' evs).2.2.2 := by
  intro evs
  induction evs with
  | nil =>
    intro s s' r r' h
    obtain ⟨h1, h2⟩ := pre_alike D hS hE s s' r r' h
    rcases hp : ReadFrame.pre D s r with ⟨o, s1, r1⟩
    rcases hp' : ReadFrame.pre D s' r' with ⟨o', s1', r1'⟩
    rw [hp, hp'] at h1 h2
    simp only at h1 h2
    subst h1 h2
    cases o <;> simp [pollNext, hp, hp']
  | cons e es ih =>
    intro s s' r r' h
    obtain ⟨h1, h2⟩ := pre_alike D hS hE s s' r r' h
    rcases hp : ReadFrame.pre D s r with ⟨o, s1, r1⟩
    rcases hp' : ReadFrame.pre D s' r' with ⟨o', s1', r1'⟩
    rw [hp, hp'] at h1 h2
    simp only at h1 h2
    subst h1 h2
    cases o with
    | some p => simp [pollNext, hp, hp']
    | none =>
      cases e with
      | pending => simp [pollNext, hp, hp']
      | err k => simp [pollNext, hp, hp']
      | eof =>
        rw [pollNext, pollNext, hp, hp']
        simp only
        cases r1.eof with
        | true => simp
        | false => simpa using ih s1 s1' _ _ (Or.inl rfl)
      | data bs =>
        rw [pollNext, pollNext, hp, hp']
        simp only
        cases bs.isEmpty with
        | true =>
          cases r1.eof with
          | true => simp
          | false => simpa using ih s1 s1' _ _ (Or.inl rfl)
        | false => simpa using ih s1 s1' _ _ (Or.inl rfl)

theorem awaitNextB_alike (D : Decoder σ ι) (hS : D.StateFree) (hE : D.EmptyWaits) :
    ∀ (n : Nat) (s s' : σ) (r r' : ReadFrame) (evs : List ReadEv) (b : Budget), r.Alike r' →
      (awaitNextB D n s r evs b).1 = (awaitNextB D n s' r' evs b).1
      ∧ (awaitNextB D n s r evs b).2.2.1.Alike (awaitNextB D n s' r' evs b).2.2.1
      ∧ (awaitNextB D n s r evs b).2.2.2 = (awaitNextB D n s' r' evs b).2.2.2 := by
  intro n
  induction n with
  | zero =>
    intro s s' r r' evs b h
    exact ⟨rfl, h, rfl⟩
  | succ n ih =>
    intro s s' r r' evs b h
    obtain ⟨h1, h2, h3⟩ := pollNext_alike D hS hE evs s s' r r' h
    rcases hp : pollNext D s r evs with ⟨p, s1, r1, e1⟩
    rcases hp' : pollNext D s' r' evs with ⟨p', s1', r1', e1'⟩
    rw [hp, hp'] at h1 h2 h3
    simp only at h1 h2 h3
    subst h1 h2 h3
    rw [awaitNextB, awaitNextB, hp, hp']
    cases p with
    | pending =>
      simp only
      cases b.tick with
      | none => exact ⟨rfl, Or.inl rfl, rfl⟩
      | some b' => exact ih s1 s1' r1 r1 e1 b' (Or.inl rfl)
    | _ => exact ⟨rfl, Or.inl rfl, rfl⟩


/-! ### the client decoders are state-free -/

theorem frameDecode_statefree (fd fd' : FrameDecoder) (buf : Bytes) (l : Nat) :
    (fd.decode buf l).1 = (fd'.decode buf l).1 ∧ (fd.decode buf l).2.2 = (fd'.decode buf l).2.2 := by
  unfold FrameDecoder.decode
  simp only
  split
  · exact ⟨rfl, rfl⟩
  · split
    · split <;> exact ⟨rfl, rfl⟩
    · exact ⟨rfl, rfl⟩

theorem rtuDecodeLoop_statefree (lenFn : Bytes → Res (Option Nat)) :
    ∀ (n : Nat) (fd fd' : FrameDecoder) (buf : Bytes),
      (rtuDecodeLoop lenFn n fd buf).1 = (rtuDecodeLoop lenFn n fd' buf).1
      ∧ (rtuDecodeLoop lenFn n fd buf).2.2 = (rtuDecodeLoop lenFn n fd' buf).2.2 := by
  intro n
  induction n with
  | zero => intro fd fd' buf; exact ⟨rfl, rfl⟩
  | succ n ih =>
    intro fd fd' buf
    rw [rtuDecodeLoop, rtuDecodeLoop]
    cases hl : lenFn buf with
    | panic => exact ⟨rfl, rfl⟩
    | err k =>
      simp only
      cases buf with
      | nil => simp [FrameDecoder.recoverOnError]
      | cons x xs => simpa [FrameDecoder.recoverOnError] using ih _ _ xs
    | ok o =>
      cases o with
      | none => exact ⟨rfl, rfl⟩
      | some l =>
        simp only
        obtain ⟨h1, h2⟩ := frameDecode_statefree fd fd' buf l
        rcases hd : fd.decode buf l with ⟨x, f1, b1⟩
        rcases hd' : fd'.decode buf l with ⟨x', f1', b1'⟩
        rw [hd, hd'] at h1 h2
        simp only at h1 h2
        subst h1 h2
        cases x with
        | ok o => exact ⟨rfl, rfl⟩
        | panic => exact ⟨rfl, rfl⟩
        | err k =>
          simp only
          cases b1 with
          | nil => simp [FrameDecoder.recoverOnError]
          | cons y ys => simpa [FrameDecoder.recoverOnError] using ih _ _ ys

theorem clientDecoder_statefree (k : Kind) : (clientDecoder k).StateFree := by
  intro s s' buf
  cases k with
  | tcp => exact ⟨rfl, rfl⟩
  | rtu =>
    obtain ⟨h1, h2⟩ := rtuDecodeLoop_statefree responsePduLen MAX_RETRIES s s' buf
    simp only [clientDecoder, rtuClientDecode, rtuDecode]
    rcases hd : rtuDecodeLoop responsePduLen MAX_RETRIES s buf with ⟨x, f1, b1⟩
    rcases hd' : rtuDecodeLoop responsePduLen MAX_RETRIES s' buf with ⟨x', f1', b1'⟩
    rw [hd, hd'] at h1 h2
    simp only at h1 h2
    subst h1 h2
    cases x with
    | ok o => cases o <;> exact ⟨rfl, rfl⟩
    | err k => exact ⟨rfl, rfl⟩
    | panic => exact ⟨rfl, rfl⟩

theorem clientDecoder_emptyWaits (k : Kind) : (clientDecoder k).EmptyWaits := by
  intro s
  cases k with
  | tcp => simp [clientDecoder, tcpClientDecode, aduDecode, Res.map]
  | rtu => simp [clientDecoder, rtuClientDecode, rtuDecode, MAX_RETRIES, rtuDecodeLoop, responsePduLen, Res.map]


/-- **what a call returns does not depend on the client's past**: two connected clients of the
    same kind that have selected the same unit, will stamp the same transaction id, hold the same
    unsent bytes and whose framing layers have no error / end of stream latched – whatever else
    their histories left behind (receive buffer, decoder state, readiness flag) – return the
    same outcome for the same request on the same transport, transmit the same bytes and leave
    the transport in the same state. -/
theorem call_independent_of_past (c₁ c₂ : Client) (f₁ f₂ : ClientFramed) (req : Request) (t : Transport) (b : Budget)
    (h₁ : c₁.framed = some f₁) (h₂ : c₂.framed = some f₂)
    (hk : c₁.kind = c₂.kind) (hu : c₁.unit = c₂.unit) (ht : c₁.nextTid = c₂.nextTid)
    (hw : f₁.wbuf = f₂.wbuf)
    (he₁ : f₁.read.hasErrored = false) (he₂ : f₂.read.hasErrored = false)
    (hq₁ : f₁.read.eof = false) (hq₂ : f₂.read.eof = false) :
    (c₁.call req t b).1 = (c₂.call req t b).1 ∧ (c₁.call req t b).2.2 = (c₂.call req t b).2.2 := by
  have halike : ({ f₁.read with buffer := [] } : ReadFrame).Alike { f₂.read with buffer := [] } :=
    Or.inr ⟨rfl, rfl, he₁, he₂, hq₁, hq₂⟩
  unfold Client.call
  by_cases hb : b = some 0
  · simp [hb]
  · simp only [hb, if_false]
    cases hk1 : c₁.kind <;> (
      have hk2 := hk ▸ hk1
      simp only [hk1, hk2, h₁, h₂, hu, ht, hw]
      rcases hr : awaitReady f₂.wbuf t b with ⟨o, w, t1, b1, e1⟩
      cases o with
      | abandoned => exact ⟨rfl, rfl⟩
      | blocked => exact ⟨rfl, rfl⟩
      | done x =>
        cases x with
        | some k => exact ⟨rfl, rfl⟩
        | none =>
          simp only
          split
          · exact ⟨rfl, rfl⟩
          · exact ⟨rfl, rfl⟩
          · rename_i frame henc
            rcases hfl : awaitFlush (t1.writes.length + t1.flushes.length + 1) (w ++ frame) t1 b1 e1 with ⟨o2, w2, t2, b2, e2⟩
            cases o2 with
            | abandoned => exact ⟨rfl, rfl⟩
            | blocked => exact ⟨rfl, rfl⟩
            | done y =>
              cases y with
              | some k => exact ⟨rfl, rfl⟩
              | none =>
                simp only
                have H := awaitNextB_alike (clientDecoder c₂.kind) (clientDecoder_statefree _) (clientDecoder_emptyWaits _)
                  (t2.reads.length + 1) f₁.fd f₂.fd _ _ t2.reads b2 halike
                rw [hk2] at H
                obtain ⟨H1, _, H3⟩ := H
                rcases ha : awaitNextB (clientDecoder _) (t2.reads.length + 1) f₁.fd { f₁.read with buffer := [] } t2.reads b2
                  with ⟨p, s1, r1, ev1, bb1⟩
                rcases ha' : awaitNextB (clientDecoder _) (t2.reads.length + 1) f₂.fd { f₂.read with buffer := [] } t2.reads b2
                  with ⟨p', s1', r1', ev1', bb1'⟩
                rw [ha, ha'] at H1 H3
                simp only at H1 H3
                obtain ⟨rfl, rfl⟩ := Prod.mk.inj H3
                subst H1
                cases p with
                | abandoned => exact ⟨rfl, rfl⟩
                | blocked => exact ⟨rfl, rfl⟩
                | done q => cases q <;> exact ⟨rfl, rfl⟩)
end Modbus
