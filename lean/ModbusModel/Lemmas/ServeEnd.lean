import ModbusModel.Lemmas.Serve
import ModbusModel.Lemmas.Fault
/-
  How a served connection ends: after the complete requests have been served, the end of the
  stream on a frame boundary ends the task silently, inside a frame with one error.
-/
namespace Modbus

variable {σ ι : Type} {D : Decoder σ ι}

/-- what a poll returns – unless it ran out of events – does not depend on later events -/
theorem pollNext_append (extra : List ReadEv) :
    ∀ (evs : List ReadEv) (s : σ) (r : ReadFrame), (pollNext D s r evs).1 ≠ .blocked →
      pollNext D s r (evs ++ extra)
        = ((pollNext D s r evs).1, (pollNext D s r evs).2.1, (pollNext D s r evs).2.2.1,
           (pollNext D s r evs).2.2.2 ++ extra) := by
  intro evs
  induction evs with
  | nil =>
    intro s r h
    rcases hp : ReadFrame.pre D s r with ⟨o, s', r'⟩
    cases o with
    | some p =>
      have h1 : pollNext D s r [] = (p, s', r', []) := by rw [pollNext, hp]
      have h2 : pollNext D s r ([] ++ extra) = (p, s', r', extra) := by
        cases extra with
        | nil => simpa using h1
        | cons e es => rw [List.nil_append, pollNext, hp]
      rw [h2, h1]; simp
    | none =>
      have h1 : pollNext D s r [] = (.blocked, s', r', []) := by rw [pollNext, hp]
      rw [h1] at h; simp at h
  | cons e evs ih =>
    intro s r h
    rcases hp : ReadFrame.pre D s r with ⟨o, s', r'⟩
    rw [List.cons_append]
    cases o with
    | some p =>
      have h1 : pollNext D s r (e :: evs) = (p, s', r', e :: evs) := by rw [pollNext, hp]
      have h2 : pollNext D s r (e :: (evs ++ extra)) = (p, s', r', e :: (evs ++ extra)) := by rw [pollNext, hp]
      rw [h2, h1]; simp
    | none =>
      cases e with
      | pending =>
        have h1 : pollNext D s r (.pending :: evs) = (.pending, s', r', evs) := by rw [pollNext, hp]
        have h2 : pollNext D s r (.pending :: (evs ++ extra)) = (.pending, s', r', evs ++ extra) := by rw [pollNext, hp]
        rw [h2, h1]
      | err k =>
        have h1 : pollNext D s r (.err k :: evs) = (.error k, s', { r' with hasErrored := true }, evs) := by
          rw [pollNext, hp]
        have h2 : pollNext D s r (.err k :: (evs ++ extra)) = (.error k, s', { r' with hasErrored := true }, evs ++ extra) := by
          rw [pollNext, hp]
        rw [h2, h1]
      | eof =>
        by_cases hq : r'.eof = true
        · have h1 : pollNext D s r (.eof :: evs) = (.done, s', r', evs) := by rw [pollNext, hp]; simp [hq]
          have h2 : pollNext D s r (.eof :: (evs ++ extra)) = (.done, s', r', evs ++ extra) := by
            rw [pollNext, hp]; simp [hq]
          rw [h2, h1]
        · have h1 : pollNext D s r (.eof :: evs) = pollNext D s' { r' with eof := true, isReadable := true } evs := by
            rw [pollNext, hp]; simp [hq]
          have h2 : pollNext D s r (.eof :: (evs ++ extra))
              = pollNext D s' { r' with eof := true, isReadable := true } (evs ++ extra) := by
            rw [pollNext, hp]; simp [hq]
          rw [h1] at h
          rw [h2, h1]
          exact ih _ _ h
      | data bs =>
        by_cases hb : bs.isEmpty = true
        · by_cases hq : r'.eof = true
          · have h1 : pollNext D s r (.data bs :: evs) = (.done, s', r', evs) := by rw [pollNext, hp]; simp [hb, hq]
            have h2 : pollNext D s r (.data bs :: (evs ++ extra)) = (.done, s', r', evs ++ extra) := by
              rw [pollNext, hp]; simp [hb, hq]
            rw [h2, h1]
          · have h1 : pollNext D s r (.data bs :: evs)
                = pollNext D s' { r' with eof := true, isReadable := true } evs := by
              rw [pollNext, hp]; simp [hb, hq]
            have h2 : pollNext D s r (.data bs :: (evs ++ extra))
                = pollNext D s' { r' with eof := true, isReadable := true } (evs ++ extra) := by
              rw [pollNext, hp]; simp [hb, hq]
            rw [h1] at h
            rw [h2, h1]
            exact ih _ _ h
        · have h1 : pollNext D s r (.data bs :: evs)
              = pollNext D s' { r' with buffer := r'.buffer ++ bs, eof := false, isReadable := true } evs := by
            rw [pollNext, hp]; simp [hb]
          have h2 : pollNext D s r (.data bs :: (evs ++ extra))
              = pollNext D s' { r' with buffer := r'.buffer ++ bs, eof := false, isReadable := true } (evs ++ extra) := by
            rw [pollNext, hp]; simp [hb]
          rw [h1] at h
          rw [h2, h1]
          exact ih _ _ h

theorem awaitNextFuel_append (extra : List ReadEv) :
    ∀ (n : Nat) (evs : List ReadEv) (s : σ) (r : ReadFrame), (awaitNextFuel D n s r evs).1 ≠ .blocked →
      awaitNextFuel D n s r (evs ++ extra)
        = ((awaitNextFuel D n s r evs).1, (awaitNextFuel D n s r evs).2.1, (awaitNextFuel D n s r evs).2.2.1,
           (awaitNextFuel D n s r evs).2.2.2 ++ extra) := by
  intro n
  induction n with
  | zero => intro evs s r h; simp [awaitNextFuel] at h
  | succ n ih =>
    intro evs s r h
    unfold awaitNextFuel at h ⊢
    rcases hp : pollNext D s r evs with ⟨p, s1, r1, evs1⟩
    rw [hp] at h
    have hne : (pollNext D s r evs).1 ≠ .blocked := by
      rw [hp]; intro hb; simp only at hb; subst hb; simp at h
    rw [pollNext_append extra evs s r hne, hp]
    cases p with
    | pending => simp only at h ⊢; exact ih evs1 s1 r1 h
    | blocked => simp at h
    | item x => simp
    | done => simp
    | error k => simp
    | panic => simp

end Modbus

namespace Modbus

variable {σ ι : Type} {D : Decoder σ ι}

/-- a decoder that leaves a strict prefix of a valid frame exactly as it is -/
def Framing.Strict (F : Framing D) : Prop :=
  ∀ s p q, F.Valid (p ++ q) → q ≠ [] → ∃ s', D.decode s p = (.ok none, s', p)

theorem pre_partial_strict (F : Framing D) (hS : F.Strict) (s : σ) (r : ReadFrame) (q : Bytes) (hq : q ≠ [])
    (h : Partial F r q) :
    ∃ s', ReadFrame.pre D s r = (none, s', { r with isReadable := false }) := by
  unfold ReadFrame.pre
  cases hr : r.isReadable with
  | false =>
    refine ⟨s, ?_⟩
    have h1 := h.noErr
    cases r with
    | mk e i he b =>
      simp only at hr h1
      subst hr; subst h1
      simp
  | true =>
    obtain ⟨s', hdec⟩ := hS s r.buffer q h.valid hq
    exact ⟨s', by simp [h.noErr, h.noEof, hdec]⟩

/-- **end of stream inside a frame** (strict framings): some bytes of a frame have arrived, not
    all, and the stream ends: `next().await` reports "bytes remaining on stream" -/
theorem awaitNextFuel_eof_inside (F : Framing D) (hS : F.Strict) (rest : List ReadEv) (q : Bytes) (hq : q ≠ []) :
    ∀ (feeds : List ReadEv) (n : Nat) (s : σ) (r : ReadFrame),
      feeds.length < n → (∀ e ∈ feeds, e.isFeed = true) →
      Partial F r (dataOf feeds ++ q) → r.buffer ++ dataOf feeds ≠ [] →
      (awaitNextFuel D n s r (feeds ++ .eof :: rest)).1 = .error .other := by
  intro feeds
  induction feeds with
  | nil =>
    intro n s r hn _ hp hne
    obtain ⟨n, rfl⟩ : ∃ m, n = m + 1 := ⟨n - 1, by omega⟩
    simp only [dataOf, List.nil_append, List.append_nil] at hp hne ⊢
    obtain ⟨s1, hpre⟩ := pre_partial_strict F hS s r q hq hp
    obtain ⟨s2, hdec⟩ := hS s1 r.buffer q hp.valid hq
    have hstep : pollNext D s r (.eof :: rest)
        = pollNext D s1 { r with isReadable := true, eof := true } rest := by
      conv => lhs; unfold pollNext
      simp [hpre, hp.noEof]
    rw [awaitNextFuel, hstep]
    have hpre2 : (ReadFrame.pre D s1 { r with isReadable := true, eof := true }).1 = some (.error .other) := by
      unfold ReadFrame.pre Decoder.decodeEof
      have : r.buffer.isEmpty = false := by
        cases hb : r.buffer with
        | nil => exact absurd hb hne
        | cons x xs => rfl
      simp [hp.noErr, hdec, this]
    rcases hpr : ReadFrame.pre D s1 { r with isReadable := true, eof := true } with ⟨o, s', r'⟩
    rw [hpr] at hpre2
    simp only at hpre2
    subst hpre2
    cases rest with
    | nil => rw [pollNext, hpr]
    | cons e es => rw [pollNext, hpr]
  | cons e feeds ih =>
    intro n s r hn hfeed hp hne
    obtain ⟨n, rfl⟩ : ∃ m, n = m + 1 := ⟨n - 1, by omega⟩
    have hfeed' : ∀ x ∈ feeds, x.isFeed = true := fun x hx => hfeed x (by simp [hx])
    have hq' : dataOf (e :: feeds) ++ q ≠ [] := by simp [hq]
    obtain ⟨s1, hpre⟩ := pre_partial_strict F hS s r _ hq' hp
    cases e with
    | eof => have := hfeed .eof (by simp); simp [ReadEv.isFeed] at this
    | err k => have := hfeed (.err k) (by simp); simp [ReadEv.isFeed] at this
    | pending =>
      have hstep : pollNext D s r (.pending :: (feeds ++ .eof :: rest))
          = (.pending, s1, { r with isReadable := false }, feeds ++ .eof :: rest) := by
        rw [pollNext, hpre]
      rw [List.cons_append, awaitNextFuel, hstep]
      simp only [dataOf] at hp hne
      exact ih n s1 _ (by simp at hn; omega) hfeed' ⟨hp.noErr, hp.noEof, hp.valid⟩ hne
    | data c =>
      have hc : c ≠ [] := by
        have := hfeed (.data c) (by simp)
        simpa [ReadEv.isFeed] using this
      have hstep : pollNext D s r (.data c :: (feeds ++ .eof :: rest))
          = pollNext D s1 { r with isReadable := true, buffer := r.buffer ++ c, eof := false } (feeds ++ .eof :: rest) := by
        conv => lhs; unfold pollNext
        simp [hpre, hc]
      rw [List.cons_append, awaitNextFuel_congr' n _ _ _ _ _ _ hstep]
      have hv := hp.valid
      simp only [dataOf, List.append_assoc] at hv
      exact ih (n + 1) s1 _ (by simp at hn; omega) hfeed'
        ⟨hp.noErr, rfl, by simpa [List.append_assoc] using hv⟩ (by simp [hc])

/-- **end of stream on a frame boundary**: nothing buffered, nothing more to come, the stream
    ends: `next().await` reports the end of the stream -/
theorem awaitNextFuel_eof_clean (hD : ∀ s, ∃ s', D.decode s [] = (.ok none, s', [])) (rest : List ReadEv) :
    ∀ (feeds : List ReadEv) (n : Nat) (s : σ) (r : ReadFrame),
      feeds.length < n → (∀ e ∈ feeds, e.isFeed = true) →
      r.hasErrored = false → r.eof = false → r.buffer ++ dataOf feeds = [] →
      (awaitNextFuel D n s r (feeds ++ .eof :: rest)).1 = .done := by
  intro feeds
  induction feeds with
  | nil =>
    intro n s r hn _ he hq hdata
    obtain ⟨n, rfl⟩ : ∃ m, n = m + 1 := ⟨n - 1, by omega⟩
    have hbuf : r.buffer = [] := by simpa [dataOf] using hdata
    obtain ⟨s1, hs1⟩ := hD s
    have hpre : ∃ s', ReadFrame.pre D s r = (none, s', { r with isReadable := false, buffer := [] }) := by
      by_cases hr : r.isReadable = true
      · exact ⟨s1, by simp [ReadFrame.pre, he, hr, hq, hbuf, hs1]⟩
      · refine ⟨s, ?_⟩
        cases r with
        | mk e i h b =>
          simp only at hr he hbuf
          simp only [Bool.not_eq_true] at hr
          subst hr; subst he; subst hbuf
          simp [ReadFrame.pre]
    obtain ⟨s', hpre⟩ := hpre
    obtain ⟨s2, hs2⟩ := hD s'
    have hstep : pollNext D s r (.eof :: rest)
        = pollNext D s' { r with isReadable := true, buffer := [], eof := true } rest := by
      conv => lhs; unfold pollNext
      simp [hpre, hq]
    rw [List.nil_append, awaitNextFuel, hstep]
    have hpre2 : (ReadFrame.pre D s' { r with isReadable := true, buffer := [], eof := true }).1 = some .done := by
      unfold ReadFrame.pre Decoder.decodeEof
      simp [he, hs2]
    rcases hpr : ReadFrame.pre D s' { r with isReadable := true, buffer := [], eof := true } with ⟨o, s'', r'⟩
    rw [hpr] at hpre2
    simp only at hpre2
    subst hpre2
    cases rest with
    | nil => rw [pollNext, hpr]
    | cons e es => rw [pollNext, hpr]
  | cons e feeds ih =>
    intro n s r hn hfeed he hq hdata
    obtain ⟨n, rfl⟩ : ∃ m, n = m + 1 := ⟨n - 1, by omega⟩
    have hfeed' : ∀ x ∈ feeds, x.isFeed = true := fun x hx => hfeed x (by simp [hx])
    rcases pollNext_starved hD s r (e :: feeds) he hq hfeed hdata with ⟨s', r', h⟩ | ⟨s', r', evs', h, he', hq', hf', hd', _⟩
    · -- cannot be: the script is not exhausted … but `pollNext_starved` speaks of the feeds alone
      cases e with
      | eof => have := hfeed .eof (by simp); simp [ReadEv.isFeed] at this
      | err k => have := hfeed (.err k) (by simp); simp [ReadEv.isFeed] at this
      | data c =>
        exfalso
        have hc := hfeed (.data c) (by simp)
        simp only [dataOf, List.append_eq_nil_iff] at hdata
        simp [ReadEv.isFeed, hdata.2.1] at hc
      | pending =>
        -- a `Pending` event is consumed by the poll: the result is `Pending`, never `blocked`
        exfalso
        unfold pollNext at h
        rcases hp : ReadFrame.pre D s r with ⟨o, s'', r''⟩
        rw [hp] at h
        cases o <;> simp at h
    · cases e with
      | eof => have := hfeed .eof (by simp); simp [ReadEv.isFeed] at this
      | err k => have := hfeed (.err k) (by simp); simp [ReadEv.isFeed] at this
      | data c =>
        exfalso
        have hc := hfeed (.data c) (by simp)
        simp only [dataOf, List.append_eq_nil_iff] at hdata
        simp [ReadEv.isFeed, hdata.2.1] at hc
      | pending =>
        -- the poll consumed exactly this `Pending`
        have hstep : ∃ s1 r1, pollNext D s r (.pending :: (feeds ++ .eof :: rest))
            = (.pending, s1, r1, feeds ++ .eof :: rest) ∧ r1.hasErrored = false ∧ r1.eof = false
              ∧ r1.buffer = [] := by
          have hbuf : r.buffer = [] := (List.append_eq_nil_iff.mp hdata).1
          obtain ⟨s1, hs1⟩ := hD s
          by_cases hr : r.isReadable = true
          · refine ⟨s1, { r with buffer := [], isReadable := false }, ?_, he, hq, rfl⟩
            rw [pollNext]
            simp [ReadFrame.pre, he, hr, hq, hbuf, hs1]
          · refine ⟨s, r, ?_, he, hq, hbuf⟩
            rw [pollNext]
            simp [ReadFrame.pre, he, hr]
        obtain ⟨s1, r1, hst, he1, hq1, hb1⟩ := hstep
        rw [List.cons_append, awaitNextFuel, hst]
        have hd1 : r1.buffer ++ dataOf feeds = [] := by
          rw [hb1]; simpa [dataOf] using (List.append_eq_nil_iff.mp hdata).2
        exact ih n s1 r1 (by simp at hn; omega) hfeed' he1 hq1 hd1

end Modbus

namespace Modbus

/-- between two requests, with the events still to come split into feeds and what follows them -/
structure BetweenX (f : ServerFramed) (t : Transport) (feeds extra : List ReadEv) (rest : Bytes) : Prop where
  noErr : f.read.hasErrored = false
  noEof : f.read.eof = false
  clean : f.read.isReadable = false → f.read.buffer = []
  wbuf : f.wbuf = []
  writes : t.writes = []
  flushes : t.flushes = []
  reads : t.reads = feeds ++ extra
  feed : ∀ e ∈ feeds, e.isFeed = true
  data : f.read.buffer ++ dataOf feeds = rest

/-- `processLoop_serves` on a transport whose script goes on after the frames (`extra`) -/
theorem processLoop_serves_x (k : Kind) (F : Framing (serverDecoder k)) (svc : Service) (extra : List ReadEv) :
    ∀ (frames : List Bytes) (fuel idx : Nat) (f : ServerFramed) (t : Transport) (tr : List SrvEvent)
      (tail : Bytes) (feeds : List ReadEv),
      (∀ x ∈ frames, F.Valid x) → (∀ x ∈ frames, x ≠ []) →
      BetweenX f t feeds extra (frames.flatten ++ tail) → Encodable k svc idx (frames.map F.item) →
      ∃ f' t' feeds', processLoop k svc (fuel + frames.length) idx f t tr
          = processLoop k svc fuel (idx + frames.length) f' t' (tr ++ expectedTrace k svc idx (frames.map F.item))
        ∧ BetweenX f' t' feeds' extra tail := by
  intro frames
  induction frames with
  | nil =>
    intro fuel idx f t tr tail feeds _ _ hb _
    exact ⟨f, t, feeds, by simp [expectedTrace], by simpa using hb⟩
  | cons x xs ih =>
    intro fuel idx f t tr tail feeds hv hne hb henc
    have hxv : F.Valid x := hv x (by simp)
    have hxne : x ≠ [] := hne x (by simp)
    have inv : FrameInv f.read x := ⟨hb.noErr, hb.noEof, fun hr => by
      rw [hb.clean hr]; exact ⟨List.nil_prefix, fun e => hxne e.symm⟩⟩
    have hdata' : f.read.buffer ++ dataOf feeds = x ++ (xs.flatten ++ tail) := by
      simpa [List.append_assoc] using hb.data
    obtain ⟨s', r', evs', g1, g2, g3, g4, g5, g6, _⟩ :=
      next_delivers_fuel F (xs.flatten ++ tail) ((feeds ++ extra).length + 1) feeds f.fd f.read x hxv
        (by simp; omega) hb.feed inv hdata'
    -- the same with the rest of the script appended
    have g1x : awaitNext (serverDecoder k) f.fd f.read t.reads = (.item (F.item x), s', r', evs' ++ extra) := by
      unfold awaitNext
      rw [hb.reads]
      have hnb : (awaitNextFuel (serverDecoder k) ((feeds ++ extra).length + 1) f.fd f.read feeds).1 ≠ .blocked := by
        rw [g1]; simp
      rw [awaitNextFuel_append extra _ feeds f.fd f.read hnb, g1]
    obtain ⟨h, q, hq⟩ : ∃ h q, F.item x = (h, q) := ⟨(F.item x).1, (F.item x).2, rfl⟩
    rw [hq] at g1x
    simp only [List.map_cons, hq, Encodable] at henc
    obtain ⟨henc1, henc2⟩ := henc
    have e : fuel + (x :: xs).length = (fuel + xs.length) + 1 := by simp; omega
    have e2 : idx + (x :: xs).length = (idx + 1) + xs.length := by simp; omega
    cases hrf : responseFor q.functionCode (svc idx h.unit q) with
    | none =>
      have step := loop_declined k svc (fuel + xs.length) idx f t tr h q s' r' (evs' ++ extra) g1x hrf
      have hb' : BetweenX { f with read := r', fd := s' } { t with reads := evs' ++ extra } evs' extra (xs.flatten ++ tail) :=
        ⟨g4, g5, fun hr => by simp [g3] at hr, hb.wbuf, hb.writes, hb.flushes, rfl, g6, g2⟩
      obtain ⟨f', t', feeds', k1, k2⟩ := ih fuel (idx + 1) _ _ (tr ++ [.call h.unit q]) tail evs'
        (fun y hy => hv y (by simp [hy])) (fun y hy => hne y (by simp [hy])) hb' henc2
      refine ⟨f', t', feeds', ?_, k2⟩
      rw [e, step, k1, e2]
      simp [expectedTrace, hq, replyEvents, hrf]
    | some rsp =>
      obtain ⟨frame, he, hfne⟩ := henc1 rsp hrf
      have step := loop_answered k svc (fuel + xs.length) idx f t tr h q s' r' (evs' ++ extra) rsp frame g1x hrf he
        hb.wbuf hb.writes hb.flushes hfne
      have hb' : BetweenX { f with read := r', fd := s', wbuf := [] } { t with reads := evs' ++ extra } evs' extra
          (xs.flatten ++ tail) :=
        ⟨g4, g5, fun hr => by simp [g3] at hr, rfl, hb.writes, hb.flushes, rfl, g6, g2⟩
      obtain ⟨f', t', feeds', k1, k2⟩ := ih fuel (idx + 1) _ _ (tr ++ [.call h.unit q] ++ [.write frame]) tail evs'
        (fun y hy => hv y (by simp [hy])) (fun y hy => hne y (by simp [hy])) hb' henc2
      refine ⟨f', t', feeds', ?_, k2⟩
      rw [e, step, k1, e2]
      simp [expectedTrace, hq, replyEvents, hrf, he]

/-- **how a served connection ends** – the peer closes the stream after `frames` complete
    requests followed by `tail`, all cut into reads in any way:
    * on a frame boundary (`tail = []`) the task ends silently (`finished`);
    * inside a frame (`tail` a non-empty strict prefix of a valid frame) it ends with one error;
    in both cases exactly the complete requests have been served, in order, each once – and
    nothing after that point. -/
theorem process_serves_then_eof (k : Kind) (F : Framing (serverDecoder k)) (hS : F.Strict) (svc : Service)
    (frames : List Bytes) (tail q : Bytes) (t : Transport) (feeds rest : List ReadEv)
    (hv : ∀ x ∈ frames, F.Valid x) (hne : ∀ x ∈ frames, x ≠ [])
    (hw : t.writes = []) (hf : t.flushes = [])
    (hreads : t.reads = feeds ++ .eof :: rest) (hfeed : ∀ e ∈ feeds, e.isFeed = true)
    (hdata : dataOf feeds = frames.flatten ++ tail)
    (htail : tail = [] ∨ (tail ≠ [] ∧ q ≠ [] ∧ F.Valid (tail ++ q)))
    (henc : Encodable k svc 0 (frames.map F.item)) :
    (process k svc t).2.1 = expectedTrace k svc 0 (frames.map F.item)
    ∧ (process k svc t).1 = (if tail = [] then .finished else .failed .other) := by
  have hlen : frames.length ≤ readBytesTotal t.reads := by
    rw [readBytesTotal_eq, hreads]
    have : dataOf (feeds ++ .eof :: rest) = dataOf feeds ++ dataOf rest := by
      clear hdata hfeed hreads
      induction feeds with
      | nil => simp [dataOf]
      | cons e es ih => cases e <;> simp [dataOf, ih]
    rw [this, hdata]
    have h3 := flatten_length_ge frames hne
    rw [List.length_append, List.length_append]; omega
  have hb : BetweenX ({} : ServerFramed) t feeds (.eof :: rest) (frames.flatten ++ tail) :=
    ⟨rfl, rfl, fun _ => rfl, rfl, hw, hf, hreads, hfeed, by simpa using hdata⟩
  obtain ⟨f', t', feeds', h1, h2⟩ := processLoop_serves_x k F svc (.eof :: rest) frames
    (readBytesTotal t.reads + t.reads.length + 2 - frames.length) 0 {} t [] tail feeds hv hne hb henc
  have e : readBytesTotal t.reads + t.reads.length + 2 - frames.length + frames.length
      = readBytesTotal t.reads + t.reads.length + 2 := by omega
  unfold process
  rw [e] at h1
  rw [h1]
  -- one more iteration: the end of the stream
  obtain ⟨g, hg⟩ : ∃ g, readBytesTotal t.reads + t.reads.length + 2 - frames.length = g + 1 :=
    ⟨readBytesTotal t.reads + t.reads.length + 1 - frames.length, by omega⟩
  rw [hg]
  have hfl : feeds'.length < t'.reads.length + 1 := by rw [h2.reads]; simp; omega
  rcases htail with ht | ⟨htne, hq, hvq⟩
  · subst ht
    have hend := awaitNextFuel_eof_clean (serverDecoder_empty k) rest feeds' (t'.reads.length + 1) f'.fd f'.read
      hfl h2.feed h2.noErr h2.noEof h2.data
    rw [← h2.reads] at hend
    rcases hx : awaitNext (serverDecoder k) f'.fd f'.read t'.reads with ⟨p, fd, r, evs⟩
    have hp : p = .done := by
      have : (awaitNext (serverDecoder k) f'.fd f'.read t'.reads).1 = .done := hend
      rw [hx] at this; exact this
    subst hp
    simp [processLoop, hx]
  · have hpart : Partial F f'.read (dataOf feeds' ++ q) :=
      ⟨h2.noErr, h2.noEof, by rw [← List.append_assoc, h2.data]; exact hvq⟩
    have hend := awaitNextFuel_eof_inside F hS rest q hq feeds' (t'.reads.length + 1) f'.fd f'.read
      hfl h2.feed hpart (by rw [h2.data]; exact htne)
    rw [← h2.reads] at hend
    rcases hx : awaitNext (serverDecoder k) f'.fd f'.read t'.reads with ⟨p, fd, r, evs⟩
    have hp : p = .error .other := by
      have : (awaitNext (serverDecoder k) f'.fd f'.read t'.reads).1 = .error .other := hend
      rw [hx] at this; exact this
    subst hp
    simp [processLoop, hx, htne]

end Modbus
