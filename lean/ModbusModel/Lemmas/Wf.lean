import ModbusModel.Lemmas.RoundTrip
import ModbusModel.Lemmas.RoundTripRsp
/-
  Closed-form acceptance predicates for the PDU decoders, written without reference to the
  decoders (length implied by the PDU's own count fields, byte counts vs quantities, coil
  values, run indicator, size limit), and the theorems that the decoders accept exactly
  these byte strings.
-/
namespace Modbus

/-- the well-formed request PDUs -/
def wfRequest (bs : Bytes) : Bool :=
  match bs with
  | [] => false
  | fc :: rest =>
    if fc = 0x01 ∨ fc = 0x02 ∨ fc = 0x03 ∨ fc = 0x04 ∨ fc = 0x06 then rest.length == 4
    else if fc = 0x05 then
      match rest with
      | [_, _, c, d] => rd16 c d = 0xFF00 || rd16 c d = 0x0000
      | _ => false
    else if fc = 0x0F then
      match rest with
      | _ :: _ :: c :: d :: bc :: tail =>
        tail.length == bc.toNat && decide ((rd16 c d).toNat ≤ bc.toNat * 8) && decide (bs.length ≤ 253)
      | _ => false
    else if fc = 0x10 then
      match rest with
      | _ :: _ :: c :: d :: bc :: tail =>
        bc.toNat == (rd16 c d).toNat * 2 && tail.length == bc.toNat && decide (bs.length ≤ 253)
      | _ => false
    else if fc = 0x11 then rest.isEmpty
    else if fc = 0x16 then rest.length == 6
    else if fc = 0x17 then
      match rest with
      | _ :: _ :: _ :: _ :: _ :: _ :: g :: h :: wc :: tail =>
        wc.toNat == (rd16 g h).toNat * 2 && tail.length == wc.toNat && decide (bs.length ≤ 253)
      | _ => false
    else decide (fc < 0x80)

theorem readWords_some_iff (n : Nat) : ∀ (bs : Bytes),
    (∃ ws, readWords n bs = some (ws, [])) ↔ bs.length = 2 * n := by
  induction n with
  | zero =>
    intro bs
    constructor
    · rintro ⟨ws, h⟩; simp [readWords] at h; simp [h.2]
    · intro h
      have : bs = [] := List.length_eq_zero_iff.mp (by omega)
      exact ⟨[], by simp [readWords, this]⟩
  | succ n ih =>
    intro bs
    match bs with
    | [] => simp [readWords]
    | [x] => simp [readWords]; omega
    | hi :: lo :: rest =>
      constructor
      · rintro ⟨ws, h⟩
        simp only [readWords] at h
        split at h
        · rename_i ws' r hr
          simp only [Option.some.injEq, Prod.mk.injEq] at h
          obtain ⟨_, rfl⟩ := h
          have := (ih rest).mp ⟨ws', hr⟩
          simp; omega
        · simp at h
      · intro h
        have hl : rest.length = 2 * n := by simp at h; omega
        obtain ⟨ws, hws⟩ := (ih rest).mpr hl
        exact ⟨rd16 hi lo :: ws, by simp [readWords, hws]⟩

theorem readWords_rest_length (n : Nat) : ∀ (bs : Bytes) (ws : List UInt16) (r : Bytes),
    readWords n bs = some (ws, r) → bs.length = 2 * n + r.length := by
  induction n with
  | zero => intro bs ws r h; simp [readWords] at h; simp [h.2]
  | succ n ih =>
    intro bs ws r h
    match bs with
    | [] => simp [readWords] at h
    | [x] => simp [readWords] at h
    | hi :: lo :: rest =>
      simp only [readWords] at h
      split at h
      · rename_i ws' r' hr
        simp only [Option.some.injEq, Prod.mk.injEq] at h
        obtain ⟨_, rfl⟩ := h
        have := ih rest ws' r' hr
        simp; omega
      · simp at h

theorem readWords_none_iff (n : Nat) : ∀ (bs : Bytes), readWords n bs = none ↔ bs.length < 2 * n := by
  induction n with
  | zero => intro bs; simp [readWords]
  | succ n ih =>
    intro bs
    match bs with
    | [] => simp [readWords]
    | [x] => simp [readWords]; omega
    | hi :: lo :: rest =>
      simp only [readWords]
      have := ih rest
      cases hr : readWords n rest with
      | none => simp; have := this.mp hr; omega
      | some p =>
        simp
        have h2 : ¬ rest.length < 2 * n := fun hlt => by rw [this.mpr hlt] at hr; cases hr
        omega

/-- the register tail of 0x10 / 0x17 / register-read responses: accepted exactly when the
    bytes that follow are twice the quantity -/
theorem regs_tail_isOk {α} (n : Nat) (tail : Bytes) (f : List UInt16 → α) :
    (match readWords n tail with
      | none => (Res.err .unexpectedEof : Res α)
      | some (ws, r) => if r.isEmpty then .ok (f ws) else .err .invalidData).isOk
    = (tail.length == 2 * n) := by
  cases hr : readWords n tail with
  | none =>
    have := (readWords_none_iff n tail).mp hr
    simp [Res.isOk]; omega
  | some p =>
    obtain ⟨ws, r⟩ := p
    have hl := readWords_rest_length n tail ws r hr
    by_cases he : r = []
    · subst he; simp [Res.isOk]; simpa using hl
    · have : 0 < r.length := List.length_pos_iff.mpr he
      simp [Res.isOk, he]; omega

theorem dec2_isOk {α} (f : UInt16 → UInt16 → α) (rest : Bytes) : (dec2 f rest).isOk = (rest.length == 4) := by
  match rest with
  | [] | [_] | [_, _] | [_, _, _] => simp [dec2, Res.isOk]
  | [a, b, c, d] => simp [dec2, Res.isOk]
  | a :: b :: c :: d :: e :: t => simp [dec2, Res.isOk]

theorem dec3_isOk {α} (f : UInt16 → UInt16 → UInt16 → α) (rest : Bytes) : (dec3 f rest).isOk = (rest.length == 6) := by
  match rest with
  | [] | [_] | [_, _] | [_, _, _] | [_, _, _, _] | [_, _, _, _, _] => simp [dec3, Res.isOk]
  | [a, b, c, d, e, g] => simp [dec3, Res.isOk]
  | a :: b :: c :: d :: e :: g :: x :: t => simp [dec3, Res.isOk]

theorem decCoil_isOk {α} (f : UInt16 → Bool → α) (rest : Bytes) :
    (decCoil f rest).isOk = (match rest with
      | [_, _, c, d] => rd16 c d = 0xFF00 || rd16 c d = 0x0000
      | _ => false) := by
  match rest with
  | [] | [_] | [_, _] | [_, _, _] => simp [decCoil, Res.isOk]
  | [a, b, c, d] =>
    simp only [decCoil, coilToBool]
    by_cases h1 : rd16 c d = 0xFF00
    · simp [h1, Res.isOk]
    · by_cases h2 : rd16 c d = 0x0000
      · simp [h2, Res.isOk]
      · simp [h1, h2, Res.isOk]
  | a :: b :: c :: d :: e :: t =>
    simp only [decCoil, coilToBool]
    by_cases h1 : rd16 c d = 0xFF00
    · simp [h1, Res.isOk]
    · by_cases h2 : rd16 c d = 0x0000
      · simp [h2, Res.isOk]
      · simp [h1, h2, Res.isOk]

theorem decWriteMultipleCoils_isOk (rest : Bytes) :
    (decWriteMultipleCoils (0x0F :: rest) rest).isOk = (match rest with
      | _ :: _ :: c :: d :: bc :: tail =>
        tail.length == bc.toNat && decide ((rd16 c d).toNat ≤ bc.toNat * 8) && decide ((0x0F :: rest).length ≤ 253)
      | _ => false) := by
  unfold decWriteMultipleCoils MAX_PDU_SIZE
  match rest with
  | [] | [_] | [_, _] | [_, _, _] | [_, _, _, _] => simp [Res.isOk]
  | a :: b :: c :: d :: bc :: tail =>
    simp only [List.length_cons]
    by_cases hsz : tail.length + 1 + 1 + 1 + 1 + 1 + 1 > 253
    · have : ¬ (tail.length + 1 + 1 + 1 + 1 + 1 + 1 ≤ 253) := by omega
      simp [hsz, Res.isOk, this]
    · have hle : tail.length + 1 + 1 + 1 + 1 + 1 + 1 ≤ 253 := by omega
      simp only [hsz, if_false, hle, decide_true, Bool.and_true]
      by_cases h1 : tail.length + 1 + 1 + 1 + 1 + 1 + 1 < 6 + bc.toNat
      · have : tail.length ≠ bc.toNat := by omega
        simp [h1, Res.isOk, this]
      · simp only [h1, if_false]
        by_cases h2 : (rd16 c d).toNat > bc.toNat * 8
        · have : ¬ ((rd16 c d).toNat ≤ bc.toNat * 8) := by omega
          simp [h2, Res.isOk, this]
        · have h2' : (rd16 c d).toNat ≤ bc.toNat * 8 := by omega
          have hlen : (tail.take bc.toNat).length = bc.toNat := by simp; omega
          have hu : unpackCoils (tail.take bc.toNat) (rd16 c d).toNat
              = some (((tail.take bc.toNat).flatMap byteBits).take (rd16 c d).toNat) := by
            simp only [unpackCoils, hlen]
            have : (rd16 c d).toNat ≤ 8 * bc.toNat := by omega
            simp [this]
          simp only [h2, if_false, hu, h2', decide_true, Bool.and_true]
          by_cases h3 : tail.drop bc.toNat = []
          · have : tail.length = bc.toNat := by
              have := List.length_eq_zero_iff.mpr h3
              simp at this; omega
            simp [h3, Res.isOk, this]
          · have : tail.length ≠ bc.toNat := by
              intro e; apply h3; apply List.drop_eq_nil_of_le; omega
            simp [h3, Res.isOk, this]

theorem decWriteMultipleRegisters_isOk (rest : Bytes) :
    (decWriteMultipleRegisters (0x10 :: rest) rest).isOk = (match rest with
      | _ :: _ :: c :: d :: bc :: tail =>
        bc.toNat == (rd16 c d).toNat * 2 && tail.length == bc.toNat && decide ((0x10 :: rest).length ≤ 253)
      | _ => false) := by
  unfold decWriteMultipleRegisters MAX_PDU_SIZE
  match rest with
  | [] | [_] | [_, _] | [_, _, _] | [_, _, _, _] => simp [Res.isOk]
  | a :: b :: c :: d :: bc :: tail =>
    simp only [List.length_cons]
    by_cases hsz : tail.length + 1 + 1 + 1 + 1 + 1 + 1 > 253
    · have : ¬ (tail.length + 1 + 1 + 1 + 1 + 1 + 1 ≤ 253) := by omega
      simp [hsz, Res.isOk, this]
    · have hle : tail.length + 1 + 1 + 1 + 1 + 1 + 1 ≤ 253 := by omega
      simp only [hsz, if_false, hle, decide_true, Bool.and_true]
      by_cases h1 : bc.toNat ≠ (rd16 c d).toNat * 2
      · simp [h1, Res.isOk]
      · have h1' : bc.toNat = (rd16 c d).toNat * 2 := by omega
        simp only [h1, if_false]
        cases hr : readWords (rd16 c d).toNat tail with
        | none =>
          have := (readWords_none_iff _ tail).mp hr
          simp [Res.isOk, h1']; omega
        | some p =>
          obtain ⟨ws, r⟩ := p
          have hl := readWords_rest_length _ tail ws r hr
          by_cases he : r = []
          · subst he; simp [Res.isOk, h1']; simp at hl; omega
          · have : 0 < r.length := List.length_pos_iff.mpr he
            simp [Res.isOk, he, h1']; omega

theorem decReadWriteMultipleRegisters_isOk (rest : Bytes) :
    (decReadWriteMultipleRegisters (0x17 :: rest) rest).isOk = (match rest with
      | _ :: _ :: _ :: _ :: _ :: _ :: g :: h :: wc :: tail =>
        wc.toNat == (rd16 g h).toNat * 2 && tail.length == wc.toNat && decide ((0x17 :: rest).length ≤ 253)
      | _ => false) := by
  unfold decReadWriteMultipleRegisters MAX_PDU_SIZE
  match rest with
  | [] | [_] | [_, _] | [_, _, _] | [_, _, _, _] | [_, _, _, _, _] | [_, _, _, _, _, _]
  | [_, _, _, _, _, _, _] | [_, _, _, _, _, _, _, _] => simp [Res.isOk]
  | a :: b :: c :: d :: e :: f :: g :: h :: wc :: tail =>
    simp only [List.length_cons]
    by_cases hsz : tail.length + 1 + 1 + 1 + 1 + 1 + 1 + 1 + 1 + 1 + 1 > 253
    · have : ¬ (tail.length + 1 + 1 + 1 + 1 + 1 + 1 + 1 + 1 + 1 + 1 ≤ 253) := by omega
      simp [hsz, Res.isOk, this]
    · have hle : tail.length + 1 + 1 + 1 + 1 + 1 + 1 + 1 + 1 + 1 + 1 ≤ 253 := by omega
      simp only [hsz, if_false, hle, decide_true, Bool.and_true]
      by_cases h1 : wc.toNat ≠ (rd16 g h).toNat * 2
      · simp [h1, Res.isOk]
      · have h1' : wc.toNat = (rd16 g h).toNat * 2 := by omega
        simp only [h1, if_false]
        cases hr : readWords (rd16 g h).toNat tail with
        | none =>
          have := (readWords_none_iff _ tail).mp hr
          simp [Res.isOk, h1']; omega
        | some p =>
          obtain ⟨ws, r⟩ := p
          have hl := readWords_rest_length _ tail ws r hr
          by_cases he : r = []
          · subst he; simp [Res.isOk, h1']; simp at hl; omega
          · have : 0 < r.length := List.length_pos_iff.mpr he
            simp [Res.isOk, he, h1']; omega

theorem decodeRequest_arms (rest : Bytes) :
    decodeRequest (0x01 :: rest) = dec2 .readCoils rest
    ∧ decodeRequest (0x02 :: rest) = dec2 .readDiscreteInputs rest
    ∧ decodeRequest (0x03 :: rest) = dec2 .readHoldingRegisters rest
    ∧ decodeRequest (0x04 :: rest) = dec2 .readInputRegisters rest
    ∧ decodeRequest (0x05 :: rest) = decCoil .writeSingleCoil rest
    ∧ decodeRequest (0x06 :: rest) = dec2 .writeSingleRegister rest
    ∧ decodeRequest (0x0F :: rest) = decWriteMultipleCoils (0x0F :: rest) rest
    ∧ decodeRequest (0x10 :: rest) = decWriteMultipleRegisters (0x10 :: rest) rest
    ∧ decodeRequest (0x11 :: rest) = (if rest.isEmpty then .ok .reportServerId else .err .invalidData)
    ∧ decodeRequest (0x16 :: rest) = dec3 .maskWriteRegister rest
    ∧ decodeRequest (0x17 :: rest) = decReadWriteMultipleRegisters (0x17 :: rest) rest := by
  refine ⟨?_, ?_, ?_, ?_, ?_, ?_, ?_, ?_, ?_, ?_, ?_⟩ <;> rfl

/-- **request accept-iff**: the request decoder accepts exactly the well-formed PDUs -/
theorem decodeRequest_isOk (bs : Bytes) : (decodeRequest bs).isOk = wfRequest bs := by
  match bs with
  | [] => simp [decodeRequest, wfRequest, Res.isOk]
  | fc :: rest =>
    obtain ⟨a1, a2, a3, a4, a5, a6, a7, a8, a9, a10, a11⟩ := decodeRequest_arms rest
    by_cases hm : fc ∈ modelledCodes
    · simp only [modelledCodes, List.mem_cons, List.mem_nil_iff, or_false] at hm
      rcases hm with h | h | h | h | h | h | h | h | h | h | h <;> subst h
      · rw [a1, dec2_isOk]; simp [wfRequest]
      · rw [a2, dec2_isOk]; simp [wfRequest]
      · rw [a5, decCoil_isOk]
        rcases rest with _ | ⟨a, _ | ⟨b, _ | ⟨c, _ | ⟨d, _ | ⟨e, t⟩⟩⟩⟩⟩ <;> simp [wfRequest]
      · rw [a7, decWriteMultipleCoils_isOk]
        rcases rest with _ | ⟨a, _ | ⟨b, _ | ⟨c, _ | ⟨d, _ | ⟨e, t⟩⟩⟩⟩⟩ <;> simp [wfRequest]
      · rw [a4, dec2_isOk]; simp [wfRequest]
      · rw [a3, dec2_isOk]; simp [wfRequest]
      · rw [a6, dec2_isOk]; simp [wfRequest]
      · rw [a8, decWriteMultipleRegisters_isOk]
        rcases rest with _ | ⟨a, _ | ⟨b, _ | ⟨c, _ | ⟨d, _ | ⟨e, t⟩⟩⟩⟩⟩ <;> simp [wfRequest]
      · rw [a9]; cases rest <;> simp [wfRequest, Res.isOk]
      · rw [a10, dec3_isOk]; simp [wfRequest]
      · rw [a11, decReadWriteMultipleRegisters_isOk]
        rcases rest with _ | ⟨a, _ | ⟨b, _ | ⟨c, _ | ⟨d, _ | ⟨e, _ | ⟨f, _ | ⟨g, _ | ⟨h, _ | ⟨wc, t⟩⟩⟩⟩⟩⟩⟩⟩⟩ <;> simp [wfRequest]
    · have hl := requestArms_lookup_none fc (fc :: rest) rest hm
      simp only [modelledCodes, List.mem_cons, List.mem_nil_iff, or_false, not_or] at hm
      obtain ⟨h1, h2, h3, h4, h5, h6, h7, h8, h9, h10, h11⟩ := hm
      simp only [decodeRequest, dispatch, hl, wfRequest]
      simp [h1, h2, h3, h4, h5, h6, h7, h8, h9, h10, h11]
      by_cases hlt : fc < 0x80 <;> simp [hlt, Res.isOk]

/-! ### responses -/

/-- the well-formed response PDUs (function codes below 0x80) -/
def wfResponse (bs : Bytes) : Bool :=
  match bs with
  | [] => false
  | fc :: rest =>
    if fc = 0x01 ∨ fc = 0x02 then
      match rest with
      | bc :: tail => tail.length == bc.toNat && decide (bs.length ≤ 253)
      | _ => false
    else if fc = 0x03 ∨ fc = 0x04 ∨ fc = 0x17 then
      match rest with
      | bc :: tail => bc.toNat % 2 == 0 && tail.length == bc.toNat && decide (bs.length ≤ 253)
      | _ => false
    else if fc = 0x05 then
      match rest with
      | [_, _, c, d] => rd16 c d = 0xFF00 || rd16 c d = 0x0000
      | _ => false
    else if fc = 0x06 ∨ fc = 0x0F ∨ fc = 0x10 then rest.length == 4
    else if fc = 0x11 then
      match rest with
      | bc :: _ :: run :: tail2 =>
        decide (2 ≤ bc.toNat) && (run = 0x00 || run = 0xFF) && tail2.length == bc.toNat - 2 && decide (bs.length ≤ 253)
      | _ => false
    else if fc = 0x16 then rest.length == 6
    else true

theorem decBits_isOk {α} (f : List Bool → α) (total : Nat) (rest : Bytes) (ht : total = rest.length + 1) :
    (decBits f total rest).isOk = (match rest with
      | bc :: tail => tail.length == bc.toNat
      | _ => false) := by
  match rest with
  | [] => simp [decBits, Res.isOk]
  | bc :: tail =>
    subst ht
    simp only [decBits, List.length_cons]
    by_cases h1 : tail.length + 1 + 1 < 2 + bc.toNat
    · have : tail.length ≠ bc.toNat := by omega
      simp [h1, Res.isOk, this]
    · have hlen : (tail.take bc.toNat).length = bc.toNat := by simp; omega
      have hu : unpackCoils (tail.take bc.toNat) (bc.toNat * 8)
          = some (((tail.take bc.toNat).flatMap byteBits).take (bc.toNat * 8)) := by
        simp only [unpackCoils, hlen]
        have : bc.toNat * 8 ≤ 8 * bc.toNat := by omega
        simp [this]
      simp only [h1, if_false, hu]
      by_cases h3 : tail.drop bc.toNat = []
      · have : tail.length = bc.toNat := by
          have := List.length_eq_zero_iff.mpr h3
          simp at this; omega
        simp [h3, Res.isOk, this]
      · have : tail.length ≠ bc.toNat := by
          intro e; apply h3; apply List.drop_eq_nil_of_le; omega
        simp [h3, Res.isOk, this]

theorem decRegs_isOk {α} (f : List UInt16 → α) (rest : Bytes) :
    (decRegs f rest).isOk = (match rest with
      | bc :: tail => bc.toNat % 2 == 0 && tail.length == bc.toNat
      | _ => false) := by
  match rest with
  | [] => simp [decRegs, Res.isOk]
  | bc :: tail =>
    simp only [decRegs]
    by_cases h1 : bc.toNat % 2 ≠ 0
    · simp [h1, Res.isOk]
    · have h1' : bc.toNat % 2 = 0 := by omega
      simp only [h1, if_false]
      cases hr : readWords (bc.toNat / 2) tail with
      | none =>
        have := (readWords_none_iff _ tail).mp hr
        simp [Res.isOk, h1']; omega
      | some p =>
        obtain ⟨ws, r⟩ := p
        have hl := readWords_rest_length _ tail ws r hr
        by_cases he : r = []
        · subst he; simp [Res.isOk, h1']; simp at hl; omega
        · have : 0 < r.length := List.length_pos_iff.mpr he
          simp [Res.isOk, he, h1']; omega

theorem decReportServerId_isOk (rest : Bytes) :
    (decReportServerId rest).isOk = (match rest with
      | bc :: _ :: run :: tail2 =>
        decide (2 ≤ bc.toNat) && (run = 0x00 || run = 0xFF) && tail2.length == bc.toNat - 2
      | _ => false) := by
  match rest with
  | [] => simp [decReportServerId, Res.isOk]
  | [bc] => simp only [decReportServerId]; by_cases h : bc.toNat < 2 <;> simp [h, Res.isOk]
  | [bc, x] => simp only [decReportServerId]; by_cases h : bc.toNat < 2 <;> simp [h, Res.isOk]
  | bc :: id :: run :: tail2 =>
    simp only [decReportServerId]
    by_cases h : bc.toNat < 2
    · have : ¬ (2 ≤ bc.toNat) := by omega
      simp [h, Res.isOk, this]
    · have h' : 2 ≤ bc.toNat := by omega
      simp only [h, if_false, h', decide_true, Bool.true_and]
      by_cases hrun : run = 0x00 ∨ run = 0xFF
      · have hb : (decide (run = 0x00) || decide (run = 0xFF)) = true := by
          rcases hrun with h | h <;> simp [h]
        simp only [hrun, if_true, hb, Bool.true_and, readBytes]
        by_cases hle : bc.toNat - 2 ≤ tail2.length
        · simp only [hle, if_true]
          by_cases h3 : tail2.drop (bc.toNat - 2) = []
          · have : tail2.length = bc.toNat - 2 := by
              have := List.length_eq_zero_iff.mpr h3
              simp at this; omega
            simp [h3, Res.isOk, this]
          · have : tail2.length ≠ bc.toNat - 2 := by
              intro e; apply h3; apply List.drop_eq_nil_of_le; omega
            simp [h3, Res.isOk, this]
        · have : tail2.length ≠ bc.toNat - 2 := by omega
          simp [hle, Res.isOk, this]
      · have hb : (decide (run = 0x00) || decide (run = 0xFF)) = false := by
          simp only [not_or] at hrun; simp [hrun.1, hrun.2]
        simp [hrun, hb, Res.isOk]

theorem sized_isOk (bytes : Bytes) (arm : Res Response) :
    (sized bytes arm).isOk = (arm.isOk && decide (bytes.length ≤ 253)) := by
  unfold sized MAX_PDU_SIZE
  by_cases h : bytes.length > 253
  · have : ¬ bytes.length ≤ 253 := by omega
    simp [h, Res.isOk, this]
  · have : bytes.length ≤ 253 := by omega
    simp [h, this]

theorem decodeResponse_arms (rest : Bytes) :
    decodeResponse (0x01 :: rest) = sized (0x01 :: rest) (decBits .readCoils (0x01 :: rest).length rest)
    ∧ decodeResponse (0x02 :: rest) = sized (0x02 :: rest) (decBits .readDiscreteInputs (0x02 :: rest).length rest)
    ∧ decodeResponse (0x03 :: rest) = sized (0x03 :: rest) (decRegs .readHoldingRegisters rest)
    ∧ decodeResponse (0x04 :: rest) = sized (0x04 :: rest) (decRegs .readInputRegisters rest)
    ∧ decodeResponse (0x05 :: rest) = decCoil .writeSingleCoil rest
    ∧ decodeResponse (0x06 :: rest) = dec2 .writeSingleRegister rest
    ∧ decodeResponse (0x0F :: rest) = dec2 .writeMultipleCoils rest
    ∧ decodeResponse (0x10 :: rest) = dec2 .writeMultipleRegisters rest
    ∧ decodeResponse (0x11 :: rest) = sized (0x11 :: rest) (decReportServerId rest)
    ∧ decodeResponse (0x16 :: rest) = dec3 .maskWriteRegister rest
    ∧ decodeResponse (0x17 :: rest) = sized (0x17 :: rest) (decRegs .readWriteMultipleRegisters rest) := by
  refine ⟨?_, ?_, ?_, ?_, ?_, ?_, ?_, ?_, ?_, ?_, ?_⟩ <;> rfl

/-- **response accept-iff**: the response decoder accepts exactly the well-formed PDUs -/
theorem decodeResponse_isOk (bs : Bytes) : (decodeResponse bs).isOk = wfResponse bs := by
  match bs with
  | [] => simp [decodeResponse, wfResponse, Res.isOk]
  | fc :: rest =>
    obtain ⟨a1, a2, a3, a4, a5, a6, a7, a8, a9, a10, a11⟩ := decodeResponse_arms rest
    by_cases hm : fc ∈ modelledCodes
    · simp only [modelledCodes, List.mem_cons, List.mem_nil_iff, or_false] at hm
      rcases hm with h | h | h | h | h | h | h | h | h | h | h <;> subst h
      · rw [a1, sized_isOk, decBits_isOk _ _ _ (by simp)]
        rcases rest with _ | ⟨a, t⟩ <;> simp [wfResponse]
      · rw [a2, sized_isOk, decBits_isOk _ _ _ (by simp)]
        rcases rest with _ | ⟨a, t⟩ <;> simp [wfResponse]
      · rw [a5, decCoil_isOk]
        rcases rest with _ | ⟨a, _ | ⟨b, _ | ⟨c, _ | ⟨d, _ | ⟨e, t⟩⟩⟩⟩⟩ <;> simp [wfResponse]
      · rw [a7, dec2_isOk]; simp [wfResponse]
      · rw [a4, sized_isOk, decRegs_isOk]
        rcases rest with _ | ⟨a, t⟩ <;> simp [wfResponse]
      · rw [a3, sized_isOk, decRegs_isOk]
        rcases rest with _ | ⟨a, t⟩ <;> simp [wfResponse]
      · rw [a6, dec2_isOk]; simp [wfResponse]
      · rw [a8, dec2_isOk]; simp [wfResponse]
      · rw [a9, sized_isOk, decReportServerId_isOk]
        rcases rest with _ | ⟨a, _ | ⟨b, _ | ⟨c, t⟩⟩⟩ <;> simp [wfResponse]
      · rw [a10, dec3_isOk]; simp [wfResponse]
      · rw [a11, sized_isOk, decRegs_isOk]
        rcases rest with _ | ⟨a, t⟩ <;> simp [wfResponse]
    · have hl := responseArms_lookup_none fc (fc :: rest) rest hm
      simp only [modelledCodes, List.mem_cons, List.mem_nil_iff, or_false, not_or] at hm
      obtain ⟨h1, h2, h3, h4, h5, h6, h7, h8, h9, h10, h11⟩ := hm
      simp only [decodeResponse, dispatch, hl, wfResponse]
      simp [h1, h2, h3, h4, h5, h6, h7, h8, h9, h10, h11, Res.isOk]

end Modbus
