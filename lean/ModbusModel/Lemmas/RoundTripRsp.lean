import ModbusModel.Lemmas.RoundTrip
/-
  decode ∘ encode for responses and exceptions.
-/
namespace Modbus

/-- bit vectors padded with `false` to a whole byte: what travels on the wire -/
def padBits (cs : List Bool) : List Bool :=
  cs ++ List.replicate (packedCoilsSize cs.length * 8 - cs.length) false

def pad8 : Response → Response
  | .readCoils cs => .readCoils (padBits cs)
  | .readDiscreteInputs cs => .readDiscreteInputs (padBits cs)
  | r => r

def Response.canonical : Response → Prop
  | .custom fc _ => fc ∉ modelledCodes
  | _ => True

theorem responseArms_lookup_none (fc : UInt8) (bytes rest : Bytes) (h : fc ∉ modelledCodes) :
    (responseArms bytes rest).lookup fc = none := by
  simp only [modelledCodes, List.mem_cons, List.mem_nil_iff, or_false, not_or] at h
  obtain ⟨h1, h2, h3, h4, h5, h6, h7, h8, h9, h10, h11⟩ := h
  simp [responseArms, List.lookup, beq_eq_false_iff_ne.mpr h1, beq_eq_false_iff_ne.mpr h2,
    beq_eq_false_iff_ne.mpr h3, beq_eq_false_iff_ne.mpr h4, beq_eq_false_iff_ne.mpr h5,
    beq_eq_false_iff_ne.mpr h6, beq_eq_false_iff_ne.mpr h7, beq_eq_false_iff_ne.mpr h8,
    beq_eq_false_iff_ne.mpr h9, beq_eq_false_iff_ne.mpr h10, beq_eq_false_iff_ne.mpr h11]

theorem decRegs_encode {α} (f : List UInt16 → α) (ws : List UInt16) (h : ws.length * 2 ≤ 255) :
    decRegs f (UInt8.ofNat (ws.length * 2) :: encWords ws) = .ok (f ws) := by
  have e : (UInt8.ofNat (ws.length * 2)).toNat = ws.length * 2 := by simp [UInt8.toNat_ofNat']; omega
  have := readWords_encWords ws []
  simp only [List.append_nil] at this
  have h2 : ws.length * 2 % 2 = 0 := by omega
  have h3 : ws.length * 2 / 2 = ws.length := by omega
  unfold decRegs
  simp only [e, h2, h3, this, ne_eq, not_true_eq_false, if_false, List.isEmpty_nil, if_true]

theorem decBits_encode {α} (f : List Bool → α) (cs : List Bool) (total : Nat)
    (h : packedCoilsSize cs.length ≤ 255) (ht : total = 2 + packedCoilsSize cs.length) :
    decBits f total (UInt8.ofNat (packedCoilsSize cs.length) :: packCoils cs) = .ok (f (padBits cs)) := by
  have e : (UInt8.ofNat (packedCoilsSize cs.length)).toNat = packedCoilsSize cs.length := by
    simp [UInt8.toNat_ofNat']; omega
  have hpl := packCoils_length cs
  have ht' : (packCoils cs).take (packedCoilsSize cs.length) = packCoils cs :=
    List.take_of_length_le (by rw [hpl]; exact Nat.le_refl _)
  have hd : (packCoils cs).drop (packedCoilsSize cs.length) = [] :=
    List.drop_eq_nil_of_le (by rw [hpl]; exact Nat.le_refl _)
  have hlt : ¬ (total < 2 + packedCoilsSize cs.length) := by omega
  unfold decBits
  simp only [e, hlt, if_false, ht', hd, unpackCoils_packCoils_padded, List.isEmpty_nil, if_true, padBits]

theorem dispatch_rsp_lit (bytes rest : Bytes) (dflt : Unit → Res Response) :
    dispatch 0x01 (responseArms bytes rest) dflt = sized bytes (decBits .readCoils bytes.length rest)
    ∧ dispatch 0x02 (responseArms bytes rest) dflt = sized bytes (decBits .readDiscreteInputs bytes.length rest)
    ∧ dispatch 0x04 (responseArms bytes rest) dflt = sized bytes (decRegs .readInputRegisters rest)
    ∧ dispatch 0x03 (responseArms bytes rest) dflt = sized bytes (decRegs .readHoldingRegisters rest)
    ∧ dispatch 0x17 (responseArms bytes rest) dflt = sized bytes (decRegs .readWriteMultipleRegisters rest)
    ∧ dispatch 0x11 (responseArms bytes rest) dflt = sized bytes (decReportServerId rest) := by
  refine ⟨?_, ?_, ?_, ?_, ?_, ?_⟩ <;> rfl

/-- **response round trip**: every canonical response within the PDU limit decodes from its own
    encoding to itself – bit vectors padded with `false` to a whole byte -/
theorem decodeResponse_encode (r : Response) (hs : responsePduSizeRaw r ≤ 253) (hc : r.canonical) :
    decodeResponse (encodeResponsePdu r) = .ok (pad8 r) := by
  have hlen : (encodeResponsePdu r).length ≤ 253 := by rw [encodeResponsePdu_length]; exact hs
  cases r with
  | writeSingleCoil a b =>
    simp [encodeResponsePdu, be16, decodeResponse, dispatch, responseArms, List.lookup, decCoil, pad8]
    cases b <;> simp [coilToBool, boolToCoil]
  | writeMultipleCoils a q => simp [encodeResponsePdu, be16, decodeResponse, dispatch, responseArms, List.lookup, dec2, pad8]
  | writeMultipleRegisters a q => simp [encodeResponsePdu, be16, decodeResponse, dispatch, responseArms, List.lookup, dec2, pad8]
  | writeSingleRegister a w => simp [encodeResponsePdu, be16, decodeResponse, dispatch, responseArms, List.lookup, dec2, pad8]
  | maskWriteRegister a am om => simp [encodeResponsePdu, be16, decodeResponse, dispatch, responseArms, List.lookup, dec3, pad8]
  | custom fc data =>
    simp [encodeResponsePdu, decodeResponse, dispatch_default _ _ _ (responseArms_lookup_none fc _ _ hc), pad8]
  | readInputRegisters ws =>
    have hl : ws.length * 2 ≤ 255 := by simp [responsePduSizeRaw] at hs; omega
    have hnot : ¬ ((0x04 :: UInt8.ofNat (ws.length * 2) :: encWords ws).length > MAX_PDU_SIZE) := by
      simp only [encodeResponsePdu] at hlen; simp only [MAX_PDU_SIZE]; omega
    show decodeResponse (0x04 :: UInt8.ofNat (ws.length * 2) :: encWords ws) = _
    unfold decodeResponse
    simp only
    rw [(dispatch_rsp_lit _ _ _).2.2.1]
    unfold sized
    rw [if_neg hnot, decRegs_encode _ ws hl]
    rfl
  | readHoldingRegisters ws =>
    have hl : ws.length * 2 ≤ 255 := by simp [responsePduSizeRaw] at hs; omega
    have hnot : ¬ ((0x03 :: UInt8.ofNat (ws.length * 2) :: encWords ws).length > MAX_PDU_SIZE) := by
      simp only [encodeResponsePdu] at hlen; simp only [MAX_PDU_SIZE]; omega
    show decodeResponse (0x03 :: UInt8.ofNat (ws.length * 2) :: encWords ws) = _
    unfold decodeResponse
    simp only
    rw [(dispatch_rsp_lit _ _ _).2.2.2.1]
    unfold sized
    rw [if_neg hnot, decRegs_encode _ ws hl]
    rfl
  | readWriteMultipleRegisters ws =>
    have hl : ws.length * 2 ≤ 255 := by simp [responsePduSizeRaw] at hs; omega
    have hnot : ¬ ((0x17 :: UInt8.ofNat (ws.length * 2) :: encWords ws).length > MAX_PDU_SIZE) := by
      simp only [encodeResponsePdu] at hlen; simp only [MAX_PDU_SIZE]; omega
    show decodeResponse (0x17 :: UInt8.ofNat (ws.length * 2) :: encWords ws) = _
    unfold decodeResponse
    simp only
    rw [(dispatch_rsp_lit _ _ _).2.2.2.2.1]
    unfold sized
    rw [if_neg hnot, decRegs_encode _ ws hl]
    rfl
  | readCoils cs =>
    have hp : packedCoilsSize cs.length ≤ 251 := by simp [responsePduSizeRaw] at hs; omega
    have hpl := packCoils_length cs
    have hnot : ¬ ((0x01 :: UInt8.ofNat (packedCoilsSize cs.length) :: packCoils cs).length > MAX_PDU_SIZE) := by
      simp only [encodeResponsePdu] at hlen; simp only [MAX_PDU_SIZE]; omega
    show decodeResponse (0x01 :: UInt8.ofNat (packedCoilsSize cs.length) :: packCoils cs) = _
    unfold decodeResponse
    simp only
    rw [(dispatch_rsp_lit _ _ _).1]
    unfold sized
    rw [if_neg hnot, decBits_encode _ cs _ (by omega) (by simp [hpl]; omega)]
    rfl
  | readDiscreteInputs cs =>
    have hp : packedCoilsSize cs.length ≤ 251 := by simp [responsePduSizeRaw] at hs; omega
    have hpl := packCoils_length cs
    have hnot : ¬ ((0x02 :: UInt8.ofNat (packedCoilsSize cs.length) :: packCoils cs).length > MAX_PDU_SIZE) := by
      simp only [encodeResponsePdu] at hlen; simp only [MAX_PDU_SIZE]; omega
    show decodeResponse (0x02 :: UInt8.ofNat (packedCoilsSize cs.length) :: packCoils cs) = _
    unfold decodeResponse
    simp only
    rw [(dispatch_rsp_lit _ _ _).2.1]
    unfold sized
    rw [if_neg hnot, decBits_encode _ cs _ (by omega) (by simp [hpl]; omega)]
    rfl
  | reportServerId id run data =>
    have hl : data.length ≤ 249 := by simp [responsePduSizeRaw] at hs; omega
    have e1 : (UInt8.ofNat data.length).toNat = data.length := by simp [UInt8.toNat_ofNat']; omega
    have e2 : (UInt8.ofNat (2 + data.length)).toNat = 2 + data.length := by simp [UInt8.toNat_ofNat']; omega
    have hnot : ¬ ((0x11 :: UInt8.ofNat (2 + (UInt8.ofNat data.length).toNat) :: id
        :: (if run = true then 0xFF else 0x00) :: data).length > MAX_PDU_SIZE) := by
      simp only [encodeResponsePdu] at hlen; simp only [MAX_PDU_SIZE]; simp at hlen ⊢; omega
    show decodeResponse (0x11 :: UInt8.ofNat (2 + (UInt8.ofNat data.length).toNat) :: id
        :: (if run = true then 0xFF else 0x00) :: data) = _
    unfold decodeResponse
    simp only
    rw [(dispatch_rsp_lit _ _ _).2.2.2.2.2]
    unfold sized
    rw [if_neg hnot, e1]
    have hrb : readBytes data.length data = some (data, []) := by
      simp [readBytes]
    have hlt : ¬ (2 + data.length < 2) := by omega
    cases run
    · simp only [decReportServerId, e2, Bool.false_eq_true, if_false]
      simp [hrb, hlt, pad8]
    · simp only [decReportServerId, e2, if_true]
      simp [hrb, hlt, pad8]

/-- **exception round trip**: the exception PDU of any function code below 0x80 and any of the
    256 exception codes decodes to an exception with numerically the same function and code -/
theorem decodeResponsePdu_exception (fc : FunctionCode) (e : ExceptionCode) (h : fc.value < 0x80) :
    ∃ fc' e', decodeResponsePdu (encodeExceptionPdu { function := fc, exception := e })
        = .ok (.error { function := fc', exception := e' })
      ∧ fc'.value = fc.value ∧ e'.value = e.value := by
  have key : ∀ v : UInt8, v < 0x80 → ¬ (v + 0x80 < 0x80) ∧ (v + 0x80) - 0x80 = v := by
    apply forall_u8; decide +kernel
  obtain ⟨k1, k2⟩ := key fc.value h
  refine ⟨FunctionCode.new fc.value, ExceptionCode.new e.value, ?_, ?_, ?_⟩
  · simp [encodeExceptionPdu, decodeResponsePdu, decodeException, k1, k2, Res.map]
  · revert h; generalize fc.value = v; revert v; apply forall_u8; decide +kernel
  · generalize e.value = v; revert v; apply forall_u8; decide +kernel

end Modbus
