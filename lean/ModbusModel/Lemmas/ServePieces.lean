import ModbusModel.Lemmas.ServeWrites
/-
  The n-request theorem on a transport that takes each reply piecewise: in any number of partial
  writes with any `Pending`s between them.  What the connection shows then *refines* the
  expected trace – the same calls at the same places, and between them the same reply bytes,
  possibly in several writes.
-/
namespace Modbus

/-- one `poll_flush` over a run of accepted pieces the last of which takes the rest -/
theorem pollFlush_run_done (tailEvs : List WriteEv) (ns : List Nat) (last : Nat) (w : Bytes) (t : Transport)
    (hns : ∀ n ∈ ns, 0 < n) (hsum : ns.sum < w.length) (hlast : w.length ≤ ns.sum + last)
    (ht : t.writes = ns.map .accept ++ (.accept last :: tailEvs)) (hf : t.flushes = []) :
    ∃ chunks, pollFlush w t = (.ready, [], { t with writes := tailEvs }, chunks)
      ∧ writtenBytes chunks = w := by
  obtain ⟨chunks, hc1, hc2⟩ := pollFlushFuel_pieces ns (w.length + 1) w t (.accept last :: tailEvs) hns hsum (by omega) ht
  have hlen := sum_ge_length ns hns
  have hrem : w.drop ns.sum ≠ [] := by
    intro h0
    have := congrArg List.length h0
    simp at this; omega
  obtain ⟨g, hg⟩ : ∃ g, w.length + 1 - ns.length = (g + 1) + 1 := ⟨w.length - ns.length - 1, by omega⟩
  have hl0 : last ≠ 0 := by omega
  have hmin : min last (w.length - ns.sum) = w.length - ns.sum := by omega
  have hinner : pollFlushFuel (w.length + 1 - ns.length) (w.drop ns.sum) { t with writes := .accept last :: tailEvs }
      = (.ready, [], { t with writes := tailEvs }, [.write (w.drop ns.sum)]) := by
    rw [hg, pollFlushFuel]
    simp only [hrem, if_false, hl0, List.length_drop, hmin]
    have hd : (w.drop ns.sum).drop (w.length - ns.sum) = [] := by
      apply List.drop_eq_nil_of_le; simp
    have htk : (w.drop ns.sum).take (w.length - ns.sum) = w.drop ns.sum := by
      apply List.take_of_length_le; simp
    rw [hd, htk, pollFlushFuel]
    simp [hf]
  refine ⟨chunks ++ [.write (w.drop ns.sum)], ?_, ?_⟩
  · unfold pollFlush
    rw [hc1, hinner]
  · rw [writtenBytes_append, hc2]
    simp [writtenBytes]

/-- the server's flush loop under a write script of pieces and `Pending`s that takes the whole
    reply: flushed, the buffer empty, every byte written once and in order -/
theorem awaitFlushS_pieces (last : Nat) (rest : List WriteEv) :
    ∀ (m : Nat) (ps : List (Option Nat)) (F : Nat) (w : Bytes) (t : Transport),
      ps.length ≤ m → ps.length < F → (∀ n, some n ∈ ps → 0 < n) → accepted ps < w.length →
      w.length ≤ accepted ps + last →
      t.writes = pieceEvents ps ++ .accept last :: rest → t.flushes = [] →
      ∃ effs, processLoop.awaitFlushS F w t = (none, [], { t with writes := rest }, effs)
        ∧ writtenBytes effs = w := by
  intro m
  induction m with
  | zero =>
    intro ps F w t hm hF hpos hacc hl ht hf
    have : ps = [] := List.length_eq_zero_iff.mp (by omega)
    subst this
    obtain ⟨F, rfl⟩ : ∃ G, F = G + 1 := ⟨F - 1, by omega⟩
    obtain ⟨chunks, hp, hc⟩ := pollFlush_run_done rest [] last w t (by simp) (by simpa [accepted] using hacc)
      (by simpa [accepted] using hl) (by simpa [pieceEvents] using ht) hf
    exact ⟨chunks, by rw [processLoop.awaitFlushS, hp], hc⟩
  | succ m ih =>
    intro ps F w t hm hF hpos hacc hl ht hf
    obtain ⟨F, rfl⟩ : ∃ G, F = G + 1 := ⟨F - 1, by omega⟩
    obtain ⟨ns, h | ⟨ps', h⟩⟩ := leading_run ps
    · subst h
      have hns : ∀ n ∈ ns, 0 < n := fun n hn => hpos n (by simp [hn])
      have hacc' : accepted (ns.map some) = ns.sum := by
        have := accepted_run ns []; simpa [accepted] using this
      rw [hacc'] at hacc hl
      have ht' : t.writes = ns.map .accept ++ (.accept last :: rest) := by
        rw [ht]
        have := pieceEvents_run ns []
        simp [pieceEvents] at this ⊢
      obtain ⟨chunks, hp, hc⟩ := pollFlush_run_done rest ns last w t hns hacc hl ht' hf
      exact ⟨chunks, by rw [processLoop.awaitFlushS, hp], hc⟩
    · subst h
      have hns : ∀ n ∈ ns, 0 < n := fun n hn => hpos n (by simp [hn])
      have hacc' : accepted (ns.map some ++ none :: ps') = ns.sum + accepted ps' := by
        rw [accepted_run]; simp [accepted]
      rw [hacc'] at hacc hl
      have ht' : t.writes = ns.map .accept ++ (.pending :: (pieceEvents ps' ++ .accept last :: rest)) := by
        rw [ht, pieceEvents_run]
        simp [pieceEvents]
      obtain ⟨chunks, hp, hc⟩ := pollFlush_run_pending _ ns w t hns (by omega) ht'
      have hlen' : ps'.length ≤ m := by simp at hm; omega
      obtain ⟨effs, i1, i2⟩ := ih ps' F (w.drop ns.sum) { t with writes := pieceEvents ps' ++ .accept last :: rest }
        hlen' (by simp at hF; omega) (fun n hn => hpos n (by simp [hn])) (by simp; omega) (by simp; omega) rfl hf
      refine ⟨chunks ++ effs, ?_, ?_⟩
      · rw [processLoop.awaitFlushS, hp]
        simp only
        rw [i1]
      · rw [writtenBytes_append, hc, i2, List.take_append_drop]


/-- one iteration: the request is answered, the transport takes the reply in pieces -/
theorem loop_answered_p (k : Kind) (svc : Service) (fuel idx : Nat) (f : ServerFramed) (t : Transport)
    (tr : List SrvEvent) (hdr : Hdr) (req : Request) (fd : FrameDecoder) (r : ReadFrame) (evs : List ReadEv)
    (rsp : ResponseResult) (frame : Bytes) (ps : List (Option Nat)) (last : Nat) (ws : List WriteEv)
    (h : awaitNext (serverDecoder k) f.fd f.read t.reads = (.item (hdr, req), fd, r, evs))
    (hs : responseFor req.functionCode (svc idx hdr.unit req) = some rsp)
    (he : serverEncode k hdr rsp = .ok frame)
    (hw : f.wbuf = []) (htw : t.writes = pieceEvents ps ++ .accept last :: ws) (htf : t.flushes = [])
    (hpos : ∀ n, some n ∈ ps → 0 < n) (hacc : accepted ps < frame.length) (hl : frame.length ≤ accepted ps + last) :
    ∃ effs, processLoop k svc (fuel + 1) idx f t tr
      = processLoop k svc fuel (idx + 1) { f with read := r, fd := fd, wbuf := [] } { t with reads := evs, writes := ws }
          (tr ++ [.call hdr.unit req] ++ effectsToEvents effs)
      ∧ writtenBytes effs = frame := by
  have h8 : ¬ (BACKPRESSURE_BOUNDARY ≤ 0) := by simp [BACKPRESSURE_BOUNDARY]
  have hF : ps.length < t.writes.length + t.flushes.length + 1 := by
    rw [htw]; simp [pieceEvents]; omega
  obtain ⟨effs, h1, h2⟩ := awaitFlushS_pieces last ws ps.length ps
    (t.writes.length + t.flushes.length + 1) frame { t with reads := evs } (Nat.le_refl _) hF hpos hacc hl htw htf
  refine ⟨effs, ?_, h2⟩
  simp only [processLoop, h, hs, hw, he, List.length_nil, ge_iff_le, h8, if_false, List.nil_append, h1]
  simp [effectsToEvents]

/-- `tr` shows what `spec` shows, except that each reply may have been written in several
    pieces: the same calls at the same places, and between them the same bytes -/
inductive Refines : List SrvEvent → List SrvEvent → Prop
  | nil : Refines [] []
  | call (u : UInt8) (q : Request) {a b : List SrvEvent} : Refines a b → Refines (.call u q :: a) (.call u q :: b)
  | write (effs : List Effect) (frame : Bytes) {a b : List SrvEvent} :
      writtenBytes effs = frame → Refines a b → Refines (effectsToEvents effs ++ a) (.write frame :: b)

theorem Refines.append {a b c d : List SrvEvent} (h1 : Refines a b) (h2 : Refines c d) : Refines (a ++ c) (b ++ d) := by
  induction h1 with
  | nil => simpa using h2
  | call u q _ ih => exact .call u q ih
  | write effs frame hw _ ih =>
    rw [List.append_assoc]
    exact .write effs frame hw ih

def writtenOf (tr : List SrvEvent) : Bytes := tr.flatMap fun | .write bs => bs | .call _ _ => []
def callsOf (tr : List SrvEvent) : List (UInt8 × Request) := tr.filterMap fun | .call u q => some (u, q) | _ => none

theorem writtenOf_append (a b : List SrvEvent) : writtenOf (a ++ b) = writtenOf a ++ writtenOf b := by
  simp [writtenOf]

theorem callsOf_append (a b : List SrvEvent) : callsOf (a ++ b) = callsOf a ++ callsOf b := by
  simp [callsOf]

theorem writtenOf_effects (effs : List Effect) : writtenOf (effectsToEvents effs) = writtenBytes effs := by
  induction effs with
  | nil => rfl
  | cons e es ih =>
    cases e with
    | write bs =>
      have : effectsToEvents (.write bs :: es) = .write bs :: effectsToEvents es := by simp [effectsToEvents]
      rw [this]
      simp only [writtenOf, writtenBytes, List.flatMap_cons] at ih ⊢
      rw [ih]
    | shutdown =>
      have : effectsToEvents (.shutdown :: es) = effectsToEvents es := by simp [effectsToEvents]
      rw [this, ih]
      simp [writtenBytes]

theorem callsOf_effects (effs : List Effect) : callsOf (effectsToEvents effs) = [] := by
  induction effs with
  | nil => rfl
  | cons e es ih =>
    cases e with
    | write bs =>
      have : effectsToEvents (.write bs :: es) = .write bs :: effectsToEvents es := by simp [effectsToEvents]
      rw [this]
      simpa [callsOf] using ih
    | shutdown =>
      have : effectsToEvents (.shutdown :: es) = effectsToEvents es := by simp [effectsToEvents]
      rw [this, ih]

/-- the expected trace lists the calls in arrival order, each exactly once -/
theorem callsOf_expectedTrace (k : Kind) (svc : Service) : ∀ (idx : Nat) (reqs : List (Hdr × Request)),
    callsOf (expectedTrace k svc idx reqs) = reqs.map fun p => (p.1.unit, p.2) := by
  intro idx reqs
  induction reqs generalizing idx with
  | nil => rfl
  | cons p ps ih =>
    obtain ⟨h, q⟩ := p
    have hr : callsOf (replyEvents k svc idx h q) = [] := by
      unfold replyEvents
      split
      · rfl
      · split <;> rfl
    have : expectedTrace k svc idx ((h, q) :: ps)
        = [.call h.unit q] ++ replyEvents k svc idx h q ++ expectedTrace k svc (idx + 1) ps := by
      simp [expectedTrace]
    rw [this, callsOf_append, callsOf_append, hr, ih]
    simp [callsOf]

/-- … so the bytes written are the same bytes in the same order, and the calls the same calls -/
theorem Refines.written {a b : List SrvEvent} (h : Refines a b) : writtenOf a = writtenOf b := by
  induction h with
  | nil => rfl
  | call u q _ ih => simpa [writtenOf] using ih
  | write effs frame hw _ ih =>
    rw [writtenOf_append, writtenOf_effects, hw, ih]
    simp [writtenOf]

theorem Refines.calls {a b : List SrvEvent} (h : Refines a b) : callsOf a = callsOf b := by
  induction h with
  | nil => rfl
  | call u q _ ih => simpa [callsOf] using ih
  | write effs frame hw _ ih =>
    rw [callsOf_append, callsOf_effects, List.nil_append, ih]
    simp [callsOf]


/-- how the transport takes the replies of a trace: for each reply, in order, `Pending`s and
    pieces that leave something over (`ps`), then a write that takes the rest (`last`) -/
abbrev Plan := List (List (Option Nat) × Nat)

def scriptOf : List SrvEvent → Plan → List WriteEv
  | [], _ => []
  | .call _ _ :: tr, pl => scriptOf tr pl
  | .write _ :: tr, (ps, last) :: pl => pieceEvents ps ++ .accept last :: scriptOf tr pl
  | .write _ :: _, [] => []

def PlanOk : List SrvEvent → Plan → Prop
  | [], pl => pl = []
  | .call _ _ :: tr, pl => PlanOk tr pl
  | .write f :: tr, (ps, last) :: pl =>
      (∀ n, some n ∈ ps → 0 < n) ∧ accepted ps < f.length ∧ f.length ≤ accepted ps + last ∧ PlanOk tr pl
  | .write _ :: _, [] => False

/-- **n requests, replies taken in pieces**: the write script takes each reply the n requests
    get in any number of pieces with any `Pending`s between them (`plans`); the loop serves the
    n requests one after the other and arrives between two requests with exactly `wtail` left of
    the script; what it shows refines the expected trace -/
theorem processLoop_serves_p (k : Kind) (F : Framing (serverDecoder k)) (svc : Service) (extra : List ReadEv)
    (wtail : List WriteEv) :
    ∀ (frames : List Bytes) (fuel idx : Nat) (f : ServerFramed) (t : Transport) (tr : List SrvEvent)
      (tail : Bytes) (feeds : List ReadEv) (plans : Plan),
      (∀ x ∈ frames, F.Valid x) → (∀ x ∈ frames, x ≠ []) →
      BetweenW f t feeds extra (frames.flatten ++ tail)
        (scriptOf (expectedTrace k svc idx (frames.map F.item)) plans ++ wtail) →
      PlanOk (expectedTrace k svc idx (frames.map F.item)) plans →
      Encodable k svc idx (frames.map F.item) →
      ∃ f' t' feeds' tr', processLoop k svc (fuel + frames.length) idx f t tr
          = processLoop k svc fuel (idx + frames.length) f' t' (tr ++ tr')
        ∧ Refines tr' (expectedTrace k svc idx (frames.map F.item))
        ∧ BetweenW f' t' feeds' extra tail wtail := by
  intro frames
  induction frames with
  | nil =>
    intro fuel idx f t tr tail feeds plans _ _ hb _ _
    exact ⟨f, t, feeds, [], by simp, by simpa [expectedTrace] using Refines.nil,
      by simpa [expectedTrace, scriptOf] using hb⟩
  | cons x xs ih =>
    intro fuel idx f t tr tail feeds plans hv hne hb hplan henc
    have hxv : F.Valid x := hv x (by simp)
    have hxne : x ≠ [] := hne x (by simp)
    have inv : FrameInv f.read x := ⟨hb.noErr, hb.noEof, fun hr => by
      rw [hb.clean hr]; exact ⟨List.nil_prefix, fun e => hxne e.symm⟩⟩
    have hdata' : f.read.buffer ++ dataOf feeds = x ++ (xs.flatten ++ tail) := by
      simpa [List.append_assoc] using hb.data
    obtain ⟨s', r', evs', g1, g2, g3, g4, g5, g6, _⟩ :=
      next_delivers_fuel F (xs.flatten ++ tail) ((feeds ++ extra).length + 1) feeds f.fd f.read x hxv
        (by simp; omega) hb.feed inv hdata'
    have g1x : awaitNext (serverDecoder k) f.fd f.read t.reads = (.item (F.item x), s', r', evs' ++ extra) := by
      unfold awaitNext
      rw [hb.reads]
      have hnb : (awaitNextFuel (serverDecoder k) ((feeds ++ extra).length + 1) f.fd f.read feeds).1 ≠ .blocked := by
        rw [g1]; simp
      rw [awaitNextFuel_append extra _ feeds f.fd f.read hnb, g1]
    obtain ⟨h, q, hq⟩ : ∃ h q, F.item x = (h, q) := ⟨(F.item x).1, (F.item x).2, rfl⟩
    rw [hq] at g1x
    simp only [List.map_cons, hq, Encodable] at henc
    obtain ⟨henc1, henc2⟩ := henc
    have e : fuel + (x :: xs).length = (fuel + xs.length) + 1 := by simp; omega
    have e2 : idx + (x :: xs).length = (idx + 1) + xs.length := by simp; omega
    have hwr := hb.writes
    simp only [List.map_cons, hq, expectedTrace] at hwr hplan
    cases hrf : responseFor q.functionCode (svc idx h.unit q) with
    | none =>
      have step := loop_declined k svc (fuel + xs.length) idx f t tr h q s' r' (evs' ++ extra) g1x hrf
      have hwr' : t.writes = scriptOf (expectedTrace k svc (idx + 1) (xs.map F.item)) plans ++ wtail := by
        simpa [scriptOf, replyEvents, hrf] using hwr
      have hplan' : PlanOk (expectedTrace k svc (idx + 1) (xs.map F.item)) plans := by
        simpa [PlanOk, replyEvents, hrf] using hplan
      have hb' : BetweenW { f with read := r', fd := s' } { t with reads := evs' ++ extra } evs' extra (xs.flatten ++ tail)
          (scriptOf (expectedTrace k svc (idx + 1) (xs.map F.item)) plans ++ wtail) :=
        ⟨g4, g5, fun hr => by simp [g3] at hr, hb.wbuf, hwr', hb.flushes, rfl, g6, g2⟩
      obtain ⟨f', t', feeds', tr', k1, k2, k3⟩ := ih fuel (idx + 1) _ _ (tr ++ [.call h.unit q]) tail evs' plans
        (fun y hy => hv y (by simp [hy])) (fun y hy => hne y (by simp [hy])) hb' hplan' henc2
      refine ⟨f', t', feeds', .call h.unit q :: tr', ?_, ?_, k3⟩
      · rw [e, step, k1, e2]
        simp
      · simp only [List.map_cons, hq, expectedTrace, replyEvents, hrf]
        exact .call h.unit q k2
    | some rsp =>
      obtain ⟨frame, he, hfne⟩ := henc1 rsp hrf
      have hET : expectedTrace k svc idx ((h, q) :: xs.map F.item)
          = .call h.unit q :: .write frame :: expectedTrace k svc (idx + 1) (xs.map F.item) := by
        simp [expectedTrace, replyEvents, hrf, he]
      have hET' : (SrvEvent.call h.unit q :: replyEvents k svc idx h q) ++ expectedTrace k svc (idx + 1) (xs.map F.item)
          = .call h.unit q :: .write frame :: expectedTrace k svc (idx + 1) (xs.map F.item) := by
        simp [replyEvents, hrf, he]
      rw [hET'] at hwr hplan
      match plans, hplan, hwr with
      | [], hplan, _ => simp [PlanOk] at hplan
      | (ps, last) :: pl, hplan, hwr =>
        simp only [PlanOk] at hplan
        obtain ⟨hpos, hacc, hl, hplan'⟩ := hplan
        have hwr' : t.writes = pieceEvents ps ++ .accept last
            :: (scriptOf (expectedTrace k svc (idx + 1) (xs.map F.item)) pl ++ wtail) := by
          simpa [scriptOf] using hwr
        obtain ⟨effs, step, hwb⟩ := loop_answered_p k svc (fuel + xs.length) idx f t tr h q s' r' (evs' ++ extra)
          rsp frame ps last _ g1x hrf he hb.wbuf hwr' hb.flushes hpos hacc hl
        have hb' : BetweenW { f with read := r', fd := s', wbuf := [] }
            { t with reads := evs' ++ extra, writes := scriptOf (expectedTrace k svc (idx + 1) (xs.map F.item)) pl ++ wtail }
            evs' extra (xs.flatten ++ tail)
            (scriptOf (expectedTrace k svc (idx + 1) (xs.map F.item)) pl ++ wtail) :=
          ⟨g4, g5, fun hr => by simp [g3] at hr, rfl, rfl, hb.flushes, rfl, g6, g2⟩
        obtain ⟨f', t', feeds', tr', k1, k2, k3⟩ := ih fuel (idx + 1) _ _
          (tr ++ [.call h.unit q] ++ effectsToEvents effs) tail evs' pl
          (fun y hy => hv y (by simp [hy])) (fun y hy => hne y (by simp [hy])) hb' hplan' henc2
        refine ⟨f', t', feeds', .call h.unit q :: (effectsToEvents effs ++ tr'), ?_, ?_, k3⟩
        · rw [e, step, k1, e2]
          simp
        · simp only [List.map_cons, hq]
          rw [hET]
          exact .call h.unit q (.write effs frame hwb k2)


/-- **a connection whose replies the transport takes piecewise**: a fresh connection fed `n`
    valid request frames (cut into reads in any way) over a transport that takes each reply in
    any number of pieces with any `Pending`s serves every request – what it shows refines the
    expected trace: the same calls, in order, and between them the same reply bytes – and waits -/
theorem process_serves_pieces (k : Kind) (F : Framing (serverDecoder k)) (svc : Service)
    (frames : List Bytes) (t : Transport) (plans : Plan)
    (hv : ∀ x ∈ frames, F.Valid x) (hne : ∀ x ∈ frames, x ≠ [])
    (hw : t.writes = scriptOf (expectedTrace k svc 0 (frames.map F.item)) plans)
    (hplan : PlanOk (expectedTrace k svc 0 (frames.map F.item)) plans)
    (hf : t.flushes = []) (hfeed : ∀ e ∈ t.reads, e.isFeed = true)
    (hdata : dataOf t.reads = frames.flatten) (henc : Encodable k svc 0 (frames.map F.item)) :
    (process k svc t).1 = .blocked
    ∧ Refines (process k svc t).2.1 (expectedTrace k svc 0 (frames.map F.item)) := by
  have hlen : frames.length ≤ readBytesTotal t.reads := by
    rw [readBytesTotal_eq, hdata]; exact flatten_length_ge frames hne
  have hb : BetweenW ({} : ServerFramed) t t.reads [] (frames.flatten ++ [])
      (scriptOf (expectedTrace k svc 0 (frames.map F.item)) plans ++ []) :=
    ⟨rfl, rfl, fun _ => rfl, rfl, by simpa using hw, hf, by simp, hfeed, by simpa using hdata⟩
  obtain ⟨f', t', feeds', tr', h1, h2, h3⟩ := processLoop_serves_p k F svc [] [] frames
    (readBytesTotal t.reads + t.reads.length + 2 - frames.length) 0 {} t [] [] t.reads plans hv hne hb hplan henc
  have e : readBytesTotal t.reads + t.reads.length + 2 - frames.length + frames.length
      = readBytesTotal t.reads + t.reads.length + 2 := by omega
  unfold process
  rw [e] at h1
  rw [h1]
  have hb' : Between f' t' [] :=
    ⟨h3.noErr, h3.noEof, h3.clean, h3.wbuf, h3.writes, h3.flushes,
      by rw [h3.reads]; simpa using h3.feed, by rw [h3.reads]; simpa using h3.data⟩
  obtain ⟨s1, s2⟩ := processLoop_starved k svc (readBytesTotal t.reads + t.reads.length + 2 - frames.length)
    (0 + frames.length) f' t' ([] ++ tr') hb'
  exact ⟨s1, by rw [s2]; simpa using h2⟩

end Modbus
