import ModbusModel.Lemmas.Independent
import ModbusModel.Lemmas.Serve
/-
  The server-side counterpart of `Lemmas/Independent`: what a connection task does with the rest
  of its stream does not depend on what earlier requests left behind in the decoder.
-/
namespace Modbus

variable {σ ι : Type}

theorem awaitNextFuel_alike (D : Decoder σ ι) (hS : D.StateFree) (hE : D.EmptyWaits) :
    ∀ (n : Nat) (s s' : σ) (r r' : ReadFrame) (evs : List ReadEv), r.Alike r' →
      (awaitNextFuel D n s r evs).1 = (awaitNextFuel D n s' r' evs).1
      ∧ (awaitNextFuel D n s r evs).2.2.1.Alike (awaitNextFuel D n s' r' evs).2.2.1
      ∧ (awaitNextFuel D n s r evs).2.2.2 = (awaitNextFuel D n s' r' evs).2.2.2 := by
  intro n
  induction n with
  | zero => intro s s' r r' evs h; exact ⟨rfl, h, rfl⟩
  | succ n ih =>
    intro s s' r r' evs h
    obtain ⟨h1, h2, h3⟩ := pollNext_alike D hS hE evs s s' r r' h
    rcases hp : pollNext D s r evs with ⟨p, s1, r1, e1⟩
    rcases hp' : pollNext D s' r' evs with ⟨p', s1', r1', e1'⟩
    rw [hp, hp'] at h1 h2 h3
    simp only at h1 h2 h3
    subst h1 h2 h3
    rw [awaitNextFuel, awaitNextFuel, hp, hp']
    cases p with
    | pending => exact ih s1 s1' r1 r1 e1 (Or.inl rfl)
    | _ => exact ⟨rfl, Or.inl rfl, rfl⟩

theorem serverDecoder_statefree (k : Kind) : (serverDecoder k).StateFree := by
  intro s s' buf
  cases k with
  | tcp => exact ⟨rfl, rfl⟩
  | rtu =>
    obtain ⟨h1, h2⟩ := rtuDecodeLoop_statefree requestPduLen MAX_RETRIES s s' buf
    simp only [serverDecoder, rtuServerDecode, rtuDecode]
    rcases hd : rtuDecodeLoop requestPduLen MAX_RETRIES s buf with ⟨x, f1, b1⟩
    rcases hd' : rtuDecodeLoop requestPduLen MAX_RETRIES s' buf with ⟨x', f1', b1'⟩
    rw [hd, hd'] at h1 h2
    simp only at h1 h2
    subst h1 h2
    cases x with
    | ok o => cases o <;> exact ⟨rfl, rfl⟩
    | err k => exact ⟨rfl, rfl⟩
    | panic => exact ⟨rfl, rfl⟩

theorem serverDecoder_emptyWaits (k : Kind) : (serverDecoder k).EmptyWaits := by
  intro s
  obtain ⟨s', h⟩ := serverDecoder_empty k s
  simp [h]

/-- **what a connection does from here on does not depend on its past**: two connection states
    with the same unsent bytes whose read frames the next poll cannot tell apart – whatever
    decoder state and readiness flag earlier requests left behind – serve the rest of the stream
    identically: same end, same trace, same transport afterwards -/
theorem processLoop_independent_of_past (k : Kind) (svc : Service) :
    ∀ (fuel idx : Nat) (f₁ f₂ : ServerFramed) (t : Transport) (tr : List SrvEvent),
      f₁.read.Alike f₂.read → f₁.wbuf = f₂.wbuf →
      (processLoop k svc fuel idx f₁ t tr).1 = (processLoop k svc fuel idx f₂ t tr).1
      ∧ (processLoop k svc fuel idx f₁ t tr).2.1 = (processLoop k svc fuel idx f₂ t tr).2.1
      ∧ (processLoop k svc fuel idx f₁ t tr).2.2.2 = (processLoop k svc fuel idx f₂ t tr).2.2.2 := by
  intro fuel
  induction fuel with
  | zero => intro idx f₁ f₂ t tr _ _; exact ⟨rfl, rfl, rfl⟩
  | succ n ih =>
    intro idx f₁ f₂ t tr ha hw
    obtain ⟨h1, h2, h3⟩ := awaitNextFuel_alike (serverDecoder k) (serverDecoder_statefree k) (serverDecoder_emptyWaits k)
      (t.reads.length + 1) f₁.fd f₂.fd f₁.read f₂.read t.reads ha
    rw [processLoop, processLoop]
    unfold awaitNext
    rcases hp : awaitNextFuel (serverDecoder k) (t.reads.length + 1) f₁.fd f₁.read t.reads with ⟨p, s1, r1, e1⟩
    rcases hp' : awaitNextFuel (serverDecoder k) (t.reads.length + 1) f₂.fd f₂.read t.reads with ⟨p', s1', r1', e1'⟩
    rw [hp, hp'] at h1 h2 h3
    simp only at h1 h2 h3
    subst h1 h3
    cases p with
    | done => exact ⟨rfl, rfl, rfl⟩
    | error e => exact ⟨rfl, rfl, rfl⟩
    | panic => exact ⟨rfl, rfl, rfl⟩
    | pending => exact ⟨rfl, rfl, rfl⟩
    | blocked => exact ⟨rfl, rfl, rfl⟩
    | item x =>
      obtain ⟨hdr, req⟩ := x
      simp only
      cases hr : responseFor req.functionCode (svc idx hdr.unit req) with
      | none => exact ih (idx + 1) _ _ _ _ h2 hw
      | some rsp =>
        simp only [hw]
        -- the send depends on the unsent bytes and the transport only
        split
        · exact ⟨rfl, rfl, rfl⟩
        · split
          · exact ⟨rfl, rfl, rfl⟩
          · exact ⟨rfl, rfl, rfl⟩
          · split
            · exact ⟨rfl, rfl, rfl⟩
            · exact ih (idx + 1) _ _ _ _ h2 rfl

end Modbus
