import ModbusModel.Model.Pdu
/-
  What the arm decoders can return: always the arm's own constructor.
-/
namespace Modbus

theorem dec2_range {α} (f : UInt16 → UInt16 → α) (bs : Bytes) (x : α) (h : dec2 f bs = .ok x) :
    ∃ a b, x = f a b := by
  unfold dec2 at h; split at h <;> simp at h; exact ⟨_, _, h.symm⟩

theorem dec3_range {α} (f : UInt16 → UInt16 → UInt16 → α) (bs : Bytes) (x : α) (h : dec3 f bs = .ok x) :
    ∃ a b c, x = f a b c := by
  unfold dec3 at h; split at h <;> simp at h; exact ⟨_, _, _, h.symm⟩

theorem decCoil_range {α} (f : UInt16 → Bool → α) (bs : Bytes) (x : α) (h : decCoil f bs = .ok x) :
    ∃ a b, x = f a b := by
  unfold decCoil at h
  split at h
  · split at h
    · simp at h
    · split at h <;> simp at h
      exact ⟨_, _, h.symm⟩
  · simp at h

theorem decBits_range {α} (f : List Bool → α) (n : Nat) (bs : Bytes) (x : α) (h : decBits f n bs = .ok x) :
    ∃ cs, x = f cs := by
  unfold decBits at h
  split at h
  · simp at h
  · split at h
    · simp at h
    · split at h
      · simp at h
      · split at h <;> simp at h
        exact ⟨_, h.symm⟩

theorem decRegs_range {α} (f : List UInt16 → α) (bs : Bytes) (x : α) (h : decRegs f bs = .ok x) :
    ∃ ws, x = f ws := by
  unfold decRegs at h
  split at h
  · simp at h
  · split at h
    · simp at h
    · split at h
      · simp at h
      · split at h <;> simp at h
        exact ⟨_, h.symm⟩

theorem decReportServerId_range (bs : Bytes) (x : Response) (h : decReportServerId bs = .ok x) :
    ∃ id run data, x = .reportServerId id run data := by
  unfold decReportServerId at h
  split at h
  · simp at h
  · split at h
    · simp at h
    · split at h
      · split at h
        · split at h
          · simp at h
          · split at h <;> simp at h
            exact ⟨_, _, _, h.symm⟩
        · simp at h
      · simp at h

theorem sized_ok (bytes : Bytes) (arm : Res Response) (r : Response) (h : sized bytes arm = .ok r) : arm = .ok r := by
  unfold sized at h; split at h <;> simp_all

end Modbus
