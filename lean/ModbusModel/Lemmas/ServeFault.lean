import ModbusModel.Lemmas.WriteFault
import ModbusModel.Lemmas.ServeEnd
/-
  The server side of a write fault: a reply that cannot be written ends the connection with
  that error, after exactly the requests before it have been served.
-/
namespace Modbus

/-- one `poll_flush` over a leading run of accepted pieces followed by a fault -/
theorem pollFlush_run_fault (fault : WriteEv) (kf : ErrKind) (hk : fault.faultKind = some kf)
    (rest : List WriteEv) (ns : List Nat) (w : Bytes) (t : Transport)
    (hns : ∀ n ∈ ns, 0 < n) (hsum : ns.sum < w.length) (ht : t.writes = ns.map .accept ++ (fault :: rest)) :
    ∃ chunks, pollFlush w t = (.error kf, w.drop ns.sum, { t with writes := rest }, chunks)
      ∧ writtenBytes chunks = w.take ns.sum := by
  obtain ⟨chunks, hc1, hc2⟩ := pollFlushFuel_pieces ns (w.length + 1) w t (fault :: rest) hns hsum (by omega) ht
  have hlen := sum_ge_length ns hns
  have hrem : w.drop ns.sum ≠ [] := by
    intro h0
    have := congrArg List.length h0
    simp at this; omega
  obtain ⟨g, hg⟩ : ∃ g, w.length + 1 - ns.length = g + 1 := ⟨w.length - ns.length, by omega⟩
  have hinner : pollFlushFuel (w.length + 1 - ns.length) (w.drop ns.sum) { t with writes := fault :: rest }
      = (.error kf, w.drop ns.sum, { t with writes := rest }, []) := by
    rw [hg, pollFlushFuel]
    cases fault <;> simp [WriteEv.faultKind] at hk <;> subst hk <;> simp [hrem]
  refine ⟨chunks, ?_, hc2⟩
  unfold pollFlush
  rw [hc1, hinner]
  simp

/-- … followed by a `Pending` -/
theorem pollFlush_run_pending (tailEvs : List WriteEv) (ns : List Nat) (w : Bytes) (t : Transport)
    (hns : ∀ n ∈ ns, 0 < n) (hsum : ns.sum < w.length) (ht : t.writes = ns.map .accept ++ (.pending :: tailEvs)) :
    ∃ chunks, pollFlush w t = (.pending, w.drop ns.sum, { t with writes := tailEvs }, chunks)
      ∧ writtenBytes chunks = w.take ns.sum := by
  obtain ⟨chunks, hc1, hc2⟩ := pollFlushFuel_pieces ns (w.length + 1) w t (.pending :: tailEvs) hns hsum (by omega) ht
  have hlen := sum_ge_length ns hns
  have hrem : w.drop ns.sum ≠ [] := by
    intro h0
    have := congrArg List.length h0
    simp at this; omega
  obtain ⟨g, hg⟩ : ∃ g, w.length + 1 - ns.length = g + 1 := ⟨w.length - ns.length, by omega⟩
  have hinner : pollFlushFuel (w.length + 1 - ns.length) (w.drop ns.sum) { t with writes := .pending :: tailEvs }
      = (.pending, w.drop ns.sum, { t with writes := tailEvs }, []) := by
    rw [hg, pollFlushFuel]
    simp [hrem]
  refine ⟨chunks, ?_, hc2⟩
  unfold pollFlush
  rw [hc1, hinner]
  simp

/-- the server's flush loop under a write script of pieces and `Pending`s that ends in a fault
    before the whole reply is taken: the connection ends with that error -/
theorem awaitFlushS_write_fault (fault : WriteEv) (kf : ErrKind) (hk : fault.faultKind = some kf)
    (rest : List WriteEv) :
    ∀ (m : Nat) (ps : List (Option Nat)) (F : Nat) (w : Bytes) (t : Transport),
      ps.length ≤ m → ps.length < F → (∀ n, some n ∈ ps → 0 < n) → accepted ps < w.length →
      t.writes = pieceEvents ps ++ fault :: rest →
      (processLoop.awaitFlushS F w t).1 = some (.failed kf)
      ∧ writtenBytes (processLoop.awaitFlushS F w t).2.2.2 = w.take (accepted ps) := by
  intro m
  induction m with
  | zero =>
    intro ps F w t hm hF hpos hacc ht
    have : ps = [] := List.length_eq_zero_iff.mp (by omega)
    subst this
    obtain ⟨F, rfl⟩ : ∃ G, F = G + 1 := ⟨F - 1, by omega⟩
    obtain ⟨chunks, hp, hc⟩ := pollFlush_run_fault fault kf hk rest [] w t (by simp) (by simpa [accepted] using hacc)
      (by simpa [pieceEvents] using ht)
    rw [processLoop.awaitFlushS, hp]
    simpa [accepted] using hc
  | succ m ih =>
    intro ps F w t hm hF hpos hacc ht
    obtain ⟨F, rfl⟩ : ∃ G, F = G + 1 := ⟨F - 1, by omega⟩
    obtain ⟨ns, h | ⟨ps', h⟩⟩ := leading_run ps
    · subst h
      have hns : ∀ n ∈ ns, 0 < n := fun n hn => hpos n (by simp [hn])
      have hacc' : accepted (ns.map some) = ns.sum := by
        have := accepted_run ns []; simpa [accepted] using this
      rw [hacc'] at hacc ⊢
      have ht' : t.writes = ns.map .accept ++ (fault :: rest) := by
        rw [ht]
        have := pieceEvents_run ns []
        simp [pieceEvents] at this ⊢
      obtain ⟨chunks, hp, hc⟩ := pollFlush_run_fault fault kf hk rest ns w t hns hacc ht'
      rw [processLoop.awaitFlushS, hp]
      exact ⟨rfl, hc⟩
    · subst h
      have hns : ∀ n ∈ ns, 0 < n := fun n hn => hpos n (by simp [hn])
      have hacc' : accepted (ns.map some ++ none :: ps') = ns.sum + accepted ps' := by
        rw [accepted_run]; simp [accepted]
      rw [hacc'] at hacc ⊢
      have ht' : t.writes = ns.map .accept ++ (.pending :: (pieceEvents ps' ++ fault :: rest)) := by
        rw [ht, pieceEvents_run]
        simp [pieceEvents]
      obtain ⟨chunks, hp, hc⟩ := pollFlush_run_pending _ ns w t hns (by omega) ht'
      have hlen' : ps'.length ≤ m := by simp at hm; omega
      obtain ⟨i1, i2⟩ := ih ps' F (w.drop ns.sum) { t with writes := pieceEvents ps' ++ fault :: rest }
        hlen' (by simp at hF; omega) (fun n hn => hpos n (by simp [hn])) (by simp; omega) rfl
      rw [processLoop.awaitFlushS, hp]
      simp only
      rcases hx : processLoop.awaitFlushS F (w.drop ns.sum) { t with writes := pieceEvents ps' ++ fault :: rest }
        with ⟨o, w', t', e'⟩
      rw [hx] at i1 i2
      simp only at i1 i2 ⊢
      refine ⟨i1, ?_⟩
      rw [writtenBytes_append, hc, i2, List.take_add]

end Modbus

namespace Modbus

/-- **a reply that cannot be written ends the connection** with exactly that error: the request
    has been handed to the service (once), the bytes the transport took are a prefix of the
    reply frame, and nothing is served after it -/
theorem loop_reply_write_fault (k : Kind) (svc : Service) (fuel idx : Nat) (f : ServerFramed) (t : Transport)
    (tr : List SrvEvent) (hdr : Hdr) (req : Request) (fd : FrameDecoder) (r : ReadFrame) (evs : List ReadEv)
    (rsp : ResponseResult) (frame : Bytes)
    (ps : List (Option Nat)) (fault : WriteEv) (kf : ErrKind) (rest : List WriteEv)
    (h : awaitNext (serverDecoder k) f.fd f.read t.reads = (.item (hdr, req), fd, r, evs))
    (hs : responseFor req.functionCode (svc idx hdr.unit req) = some rsp)
    (he : serverEncode k hdr rsp = .ok frame)
    (hw : f.wbuf = []) (hk : fault.faultKind = some kf)
    (ht : t.writes = pieceEvents ps ++ fault :: rest)
    (hpos : ∀ n, some n ∈ ps → 0 < n) (hacc : accepted ps < frame.length) :
    (processLoop k svc (fuel + 1) idx f t tr).1 = .failed kf
    ∧ ∃ effs, (processLoop k svc (fuel + 1) idx f t tr).2.1 = tr ++ [.call hdr.unit req] ++ effectsToEvents effs
        ∧ writtenBytes effs = frame.take (accepted ps) := by
  have hF : ps.length < t.writes.length + t.flushes.length + 1 := by
    rw [ht]; simp [pieceEvents]; omega
  obtain ⟨h1, h2⟩ := awaitFlushS_write_fault fault kf hk rest ps.length ps
    (t.writes.length + t.flushes.length + 1) frame { t with reads := evs } (Nat.le_refl _) hF hpos hacc ht
  rcases hx : processLoop.awaitFlushS (t.writes.length + t.flushes.length + 1) frame { t with reads := evs }
    with ⟨o, w', t', effs'⟩
  rw [hx] at h1 h2
  simp only at h1 h2
  subst h1
  have h8 : ¬ (BACKPRESSURE_BOUNDARY ≤ 0) := by simp [BACKPRESSURE_BOUNDARY]
  refine ⟨?_, effs', ?_, h2⟩
  · simp [processLoop, h, hs, hw, he, h8, hx]
  · simp [processLoop, h, hs, hw, he, h8, hx, effectsToEvents]

end Modbus
