import ModbusModel.Model.Framed
/-
  The framing layer adds no panics of its own.
-/
namespace Modbus

/-- a decoder that never panics -/
def Decoder.NoPanic {σ ι} (D : Decoder σ ι) : Prop := ∀ s buf, (D.decode s buf).1 ≠ .panic

theorem decodeEof_ne_panic {σ ι} (D : Decoder σ ι) (h : D.NoPanic) (s : σ) (buf : Bytes) :
    (D.decodeEof s buf).1 ≠ .panic := by
  unfold Decoder.decodeEof
  have := h s buf
  split
  · split <;> simp
  · rename_i r hne
    exact this

theorem pre_ne_panic {σ ι} (D : Decoder σ ι) (h : D.NoPanic) (s : σ) (r : ReadFrame) :
    (ReadFrame.pre D s r).1 ≠ some .panic := by
  unfold ReadFrame.pre
  split
  · simp
  · split
    · split
      · have := decodeEof_ne_panic D h s r.buffer
        split <;> simp_all
      · have := h s r.buffer
        split <;> simp_all
    · simp

/-- `poll_next` never panics if the decoder does not -/
theorem pollNext_ne_panic {σ ι} (D : Decoder σ ι) (h : D.NoPanic) :
    ∀ (evs : List ReadEv) (s : σ) (r : ReadFrame), (pollNext D s r evs).1 ≠ .panic := by
  intro evs
  induction evs with
  | nil =>
    intro s r
    unfold pollNext
    have := pre_ne_panic D h s r
    split
    · rename_i p s' r' heq; rw [heq] at this; simpa using this
    · simp
  | cons e evs ih =>
    intro s r
    unfold pollNext
    have := pre_ne_panic D h s r
    split
    · rename_i p s' r' heq; rw [heq] at this; simpa using this
    · cases e with
      | pending => simp
      | err k => simp
      | eof => simp only; split <;> first | exact ih _ _ | simp
      | data bs =>
        simp only
        split
        · split <;> first | exact ih _ _ | simp
        · exact ih _ _

theorem awaitNextFuel_ne_panic {σ ι} (D : Decoder σ ι) (h : D.NoPanic) :
    ∀ (n : Nat) (evs : List ReadEv) (s : σ) (r : ReadFrame), (awaitNextFuel D n s r evs).1 ≠ .panic := by
  intro n
  induction n with
  | zero => intro evs s r; simp [awaitNextFuel]
  | succ n ih =>
    intro evs s r
    unfold awaitNextFuel
    have := pollNext_ne_panic D h evs s r
    split
    · exact ih _ _ _
    · rename_i res hne
      exact this

theorem awaitNext_ne_panic {σ ι} (D : Decoder σ ι) (h : D.NoPanic) (evs : List ReadEv) (s : σ) (r : ReadFrame) :
    (awaitNext D s r evs).1 ≠ .panic :=
  awaitNextFuel_ne_panic D h _ evs s r

end Modbus
