import ModbusModel.Model.Framed
/-
  The framing layer adds no panics of its own.
-/
namespace Modbus

/-- a decoder that never panics -/
def Decoder.NoPanic {σ ι} (D : Decoder σ ι) : Prop := ∀ s buf, (D.decode s buf).1 ≠ .panic

theorem decodeEof_ne_panic {σ ι} (D : Decoder σ ι) (h : D.NoPanic) (s : σ) (buf : Bytes) :
    (D.decodeEof s buf).1 ≠ .panic := by
  unfold Decoder.decodeEof
  have := h s buf
  split
  · split <;> simp
  · rename_i r hne
    exact this

theorem pre_ne_panic {σ ι} (D : Decoder σ ι) (h : D.NoPanic) (s : σ) (r : ReadFrame) :
    (ReadFrame.pre D s r).1 ≠ some .panic := by
  unfold ReadFrame.pre
  split
  · simp
  · split
    · split
      · have := decodeEof_ne_panic D h s r.buffer
        split <;> simp_all
      · have := h s r.buffer
        split <;> simp_all
    · simp

/-- `poll_next` never panics if the decoder does not -/
theorem pollNext_ne_panic {σ ι} (D : Decoder σ ι) (h : D.NoPanic) :
    ∀ (evs : List ReadEv) (s : σ) (r : ReadFrame), (pollNext D s r evs).1 ≠ .panic := by
  intro evs
  induction evs with
  | nil =>
    intro s r
    unfold pollNext
    have := pre_ne_panic D h s r
    split
    · rename_i p s' r' heq; rw [heq] at this; simpa using this
    · simp
  | cons e evs ih =>
    intro s r
    unfold pollNext
    have := pre_ne_panic D h s r
    split
    · rename_i p s' r' heq; rw [heq] at this; simpa using this
    · cases e with
      | pending => simp
      | err k => simp
      | eof => simp only; split <;> first | exact ih _ _ | simp
      | data bs =>
        simp only
        split
        · split <;> first | exact ih _ _ | simp
        · exact ih _ _

theorem awaitNextFuel_ne_panic {σ ι} (D : Decoder σ ι) (h : D.NoPanic) :
    ∀ (n : Nat) (evs : List ReadEv) (s : σ) (r : ReadFrame), (awaitNextFuel D n s r evs).1 ≠ .panic := by
  intro n
  induction n with
  | zero => intro evs s r; simp [awaitNextFuel]
  | succ n ih =>
    intro evs s r
    unfold awaitNextFuel
    have := pollNext_ne_panic D h evs s r
    split
    · exact ih _ _ _
    · rename_i res hne
      exact this

theorem awaitNext_ne_panic {σ ι} (D : Decoder σ ι) (h : D.NoPanic) (evs : List ReadEv) (s : σ) (r : ReadFrame) :
    (awaitNext D s r evs).1 ≠ .panic :=
  awaitNextFuel_ne_panic D h _ evs s r

end Modbus

namespace Modbus

/-- `x` is something the decoder can produce -/
def Decoder.Yields {σ ι} (D : Decoder σ ι) (x : ι) : Prop :=
  ∃ s buf s' b', D.decode s buf = (.ok (some x), s', b')

theorem decodeEof_item {σ ι} (D : Decoder σ ι) (s s' : σ) (buf b' : Bytes) (x : ι)
    (h : D.decodeEof s buf = (.ok (some x), s', b')) : D.Yields x := by
  unfold Decoder.decodeEof at h
  split at h
  · split at h <;> simp at h
  · exact ⟨s, buf, s', b', h⟩

theorem pre_item {σ ι} (D : Decoder σ ι) (s : σ) (r : ReadFrame) (x : ι)
    (h : (ReadFrame.pre D s r).1 = some (.item x)) : D.Yields x := by
  unfold ReadFrame.pre at h
  split at h
  · simp at h
  · split at h
    · split at h
      · split at h <;> simp at h
        rename_i heq
        subst h
        exact decodeEof_item D _ _ _ _ _ heq
      · split at h <;> simp at h
        rename_i heq
        subst h
        exact ⟨_, _, _, _, heq⟩
    · simp at h

/-- every item `poll_next` delivers was produced by the decoder -/
theorem pollNext_item {σ ι} (D : Decoder σ ι) (x : ι) :
    ∀ (evs : List ReadEv) (s : σ) (r : ReadFrame), (pollNext D s r evs).1 = .item x → D.Yields x := by
  intro evs
  induction evs with
  | nil =>
    intro s r h
    unfold pollNext at h
    split at h
    · rename_i p s' r' heq
      simp only at h
      exact pre_item D s r x (by rw [heq, h])
    · simp at h
  | cons e evs ih =>
    intro s r h
    unfold pollNext at h
    split at h
    · rename_i p s' r' heq
      simp only at h
      exact pre_item D s r x (by rw [heq, h])
    · cases e with
      | pending => simp at h
      | err k => simp at h
      | eof => simp only at h; split at h <;> first | exact ih _ _ h | simp at h
      | data bs =>
        simp only at h
        split at h
        · split at h <;> first | exact ih _ _ h | simp at h
        · exact ih _ _ h

end Modbus
