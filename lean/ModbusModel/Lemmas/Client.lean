import ModbusModel.Model.History
/-
  Frame conditions of the client operations: which parts of the client a call,
  a slave change or a disconnect can touch.
-/
namespace Modbus

/-- a polled call advances the TCP transaction id by exactly one and touches neither
    the kind nor the selected slave – whatever the transport does and however it ends -/
theorem call_frame (c : Client) (req : Request) (t : Transport) (b : Budget) (hb : b ≠ some 0) :
    (c.call req t b).2.1.nextTid = (if c.kind = .tcp then c.nextTid + 1 else c.nextTid)
    ∧ (c.call req t b).2.1.kind = c.kind ∧ (c.call req t b).2.1.unit = c.unit := by
  unfold Client.call
  simp only [hb, if_false]
  cases hk : c.kind <;> simp only [hk] <;> (repeat' split) <;> simp_all

/-- a future that is never polled does nothing at all -/
theorem call_unpolled (c : Client) (req : Request) (t : Transport) :
    c.call req t (some 0) = (.abandoned, c, t, []) := by
  unfold Client.call; simp

/-- a call never reconnects and never disconnects -/
theorem call_connected (c : Client) (req : Request) (t : Transport) (b : Budget) :
    ((c.call req t b).2.1.framed.isSome = c.framed.isSome) := by
  unfold Client.call
  by_cases hb : b = some 0
  · simp [hb]
  · simp only [hb, if_false]
    cases hk : c.kind <;> simp only [hk] <;> (repeat' split) <;> simp_all

/-- the header a call stamps: the client's current transaction id (TCP; 0 over RTU) and
    the selected slave -/
def stampedHdr (c : Client) : Hdr :=
  match c.kind with
  | .tcp => { tid := c.nextTid, unit := c.unit }
  | .rtu => { tid := 0, unit := c.unit }

/-- the write buffer of a client (empty once disconnected) -/
def Client.wbuf (c : Client) : Bytes :=
  match c.framed with
  | some f => f.wbuf
  | none => []

end Modbus
