import ModbusModel.Model.Tcp
import ModbusModel.Lemmas.Pdu
/-
  Lemmas about MBAP framing.
-/
namespace Modbus

/-- a well-formed Modbus TCP frame (protocol id 0, length = PDU length + 1) -/
def tcpFrame (hdr : TcpHeader) (pdu : Bytes) : Bytes :=
  be16 hdr.transactionId ++ [0x00, 0x00] ++ be16 (UInt16.ofNat (pdu.length + 1)) ++ [hdr.unitId] ++ pdu

theorem ofNat_toNat_16 (n : Nat) (h : n < 65536) : (UInt16.ofNat n).toNat = n := by
  simp [UInt16.toNat_ofNat']; omega

/-- (complete) a whole frame at the head of the buffer is delivered, the rest is untouched -/
theorem aduDecode_complete (hdr : TcpHeader) (pdu rest : Bytes) (h : pdu.length < 65535) :
    aduDecode (tcpFrame hdr pdu ++ rest) = (.ok (some (hdr, pdu)), rest) := by
  obtain ⟨tid, unit⟩ := hdr
  simp only [tcpFrame, be16, List.append_assoc, List.cons_append, List.nil_append, aduDecode]
  have e : (rd16 (UInt8.ofNat ((UInt16.ofNat (pdu.length + 1)).toNat / 256))
      (UInt8.ofNat ((UInt16.ofNat (pdu.length + 1)).toNat % 256))).toNat = pdu.length + 1 := by
    rw [rd16_be16, ofNat_toNat_16 _ (by omega)]
  simp only [e]
  have z : rd16 0 0 = 0 := by decide
  simp [z, rd16_be16]

/-- (prefix-waits) nothing is delivered for a strict prefix of a frame and the buffer is
    left as it is -/
theorem aduDecode_prefix_waits (hdr : TcpHeader) (pdu p : Bytes) (h : pdu.length < 65535)
    (hp : p <+: tcpFrame hdr pdu) (hne : p ≠ tcpFrame hdr pdu) :
    aduDecode p = (.ok none, p) := by
  obtain ⟨tid, unit⟩ := hdr
  obtain ⟨s, hs⟩ := hp
  have hlen : p.length < (tcpFrame ⟨tid, unit⟩ pdu).length := by
    have : (tcpFrame ⟨tid, unit⟩ pdu).length = p.length + s.length := by rw [← hs]; simp
    have : s ≠ [] := by
      intro h0; subst h0; simp at hs; exact hne hs
    have : 0 < s.length := List.length_pos_iff.mpr this
    omega
  have hfl : (tcpFrame ⟨tid, unit⟩ pdu).length = 7 + pdu.length := by
    simp [tcpFrame, be16]; omega
  unfold aduDecode
  split
  · rename_i t0 t1 p0 p1 l0 l1 u rest
    -- the header is complete: it is the header of the frame
    simp only [tcpFrame, be16, List.append_assoc, List.cons_append, List.nil_append] at hs
    have h7 : [t0, t1, p0, p1, l0, l1, u] = [UInt8.ofNat (tid.toNat / 256), UInt8.ofNat (tid.toNat % 256), 0, 0,
        UInt8.ofNat ((UInt16.ofNat (pdu.length + 1)).toNat / 256),
        UInt8.ofNat ((UInt16.ofNat (pdu.length + 1)).toNat % 256), unit] := by
      have := congrArg (List.take 7) hs
      simpa using this
    simp only [List.cons.injEq, and_true] at h7
    obtain ⟨_, _, _, _, hl0, hl1, _⟩ := h7
    subst hl0; subst hl1
    have e : (rd16 (UInt8.ofNat ((UInt16.ofNat (pdu.length + 1)).toNat / 256))
        (UInt8.ofNat ((UInt16.ofNat (pdu.length + 1)).toNat % 256))).toNat = pdu.length + 1 := by
      rw [rd16_be16, ofNat_toNat_16 _ (by omega)]
    simp only [e]
    have : rest.length < pdu.length := by simp at hlen; omega
    simp [this]
  · rfl

/-- a complete header with length field 0 is an error and nothing is consumed -/
theorem aduDecode_zero_length (t0 t1 p0 p1 u : UInt8) (rest : Bytes) :
    aduDecode (t0 :: t1 :: p0 :: p1 :: 0 :: 0 :: u :: rest)
      = (.err .invalidData, t0 :: t1 :: p0 :: p1 :: 0 :: 0 :: u :: rest) := by
  have z : rd16 0 0 = 0 := by decide
  simp [aduDecode, z]

/-- a complete frame whose protocol identifier is not 0 is an error, never a frame -/
theorem aduDecode_bad_protocol (t0 t1 p0 p1 l0 l1 u : UInt8) (rest : Bytes)
    (hl : (rd16 l0 l1).toNat ≠ 0) (hc : (rd16 l0 l1).toNat - 1 ≤ rest.length) (hp : rd16 p0 p1 ≠ 0) :
    aduDecode (t0 :: t1 :: p0 :: p1 :: l0 :: l1 :: u :: rest) = (.err .invalidData, rest) := by
  have : ¬ rest.length < (rd16 l0 l1).toNat - 1 := by omega
  simp [aduDecode, hl, this, hp]

/-- whatever `aduDecode` delivers is a contiguous piece of the buffer in MBAP layout, and
    it never delivers without consuming at least the seven header bytes -/
theorem aduDecode_delivers (buf : Bytes) (hdr : TcpHeader) (pdu rest : Bytes)
    (h : aduDecode buf = (.ok (some (hdr, pdu)), rest)) :
    buf = tcpFrame hdr pdu ++ rest ∧ pdu.length < 65535 := by
  unfold aduDecode at h
  split at h
  · rename_i t0 t1 p0 p1 l0 l1 u tl
    simp only at h
    split at h
    · simp at h
    · split at h
      · simp at h
      · split at h
        · simp at h
        · rename_i hz hlen hprot
          simp only [Prod.mk.injEq, Res.ok.injEq, Option.some.injEq] at h
          obtain ⟨⟨hh, hp⟩, hr⟩ := h
          subst hh; subst hp; subst hr
          have hlt := (rd16 l0 l1).toNat_lt
          have hpl : (tl.take ((rd16 l0 l1).toNat - 1)).length = (rd16 l0 l1).toNat - 1 := by
            simp [List.length_take]; omega
          refine ⟨?_, by omega⟩
          simp only [tcpFrame, hpl]
          have e : (rd16 l0 l1).toNat - 1 + 1 = (rd16 l0 l1).toNat := by omega
          rw [e]
          have e2 : UInt16.ofNat (rd16 l0 l1).toNat = rd16 l0 l1 := by simp
          rw [e2, be16_rd16, be16_rd16]
          have hp0 : rd16 p0 p1 = 0 := by simpa using hprot
          have : [p0, p1] = [0, 0] := by
            have := be16_rd16 p0 p1
            rw [hp0] at this
            simpa [be16] using this.symm
          simp only [List.cons.injEq, and_true] at this
          obtain ⟨h0, h1⟩ := this
          subst h0; subst h1
          simp [List.take_append_drop]
  · simp at h

/-- "need more" means the buffer is shorter than one maximal frame -/
theorem aduDecode_need_bounded (buf rest : Bytes) (h : aduDecode buf = (.ok none, rest)) :
    rest = buf ∧ buf.length < 65541 := by
  unfold aduDecode at h
  split at h
  · rename_i t0 t1 p0 p1 l0 l1 u tl
    simp only at h
    have hlt := (rd16 l0 l1).toNat_lt
    split at h
    · simp at h
    · split at h
      · simp at h
        refine ⟨h.symm, ?_⟩
        simp; omega
      · split at h <;> simp at h
  · simp at h
    rename_i hne
    refine ⟨h.symm, ?_⟩
    -- fewer than seven bytes
    match buf, hne with
    | [], _ => simp
    | [_], _ => simp
    | [_, _], _ => simp
    | [_, _, _], _ => simp
    | [_, _, _, _], _ => simp
    | [_, _, _, _, _], _ => simp
    | [_, _, _, _, _, _], _ => simp
    | _ :: _ :: _ :: _ :: _ :: _ :: _ :: _, hne => exact absurd rfl (hne _ _ _ _ _ _ _ _)

theorem aduDecode_ne_panic (buf : Bytes) : (aduDecode buf).1 ≠ .panic := by
  unfold aduDecode
  split
  · simp only
    split
    · simp
    · split
      · simp
      · split <;> simp
  · simp

end Modbus
