import ModbusModel.Lemmas.Encode
/-
  Packing and unpacking of coils, reading back encoded register lists.
-/
namespace Modbus

theorem readWords_encWords (ws : List UInt16) (rest : Bytes) :
    readWords ws.length (encWords ws ++ rest) = some (ws, rest) := by
  induction ws with
  | nil => simp [readWords, encWords]
  | cons w ws ih =>
    simp only [encWords, List.flatMap_cons, List.length_cons] at *
    simp only [be16, List.cons_append, List.nil_append, List.append_assoc, readWords]
    rw [ih]
    simp [rd16_be16]

/-- the bits of a packed byte are the packed bits, padded with `false` -/
theorem byteBits_packBits (bits : List Bool) (h : bits.length ≤ 8) :
    byteBits (UInt8.ofNat (packBits bits)) = bits ++ List.replicate (8 - bits.length) false := by
  match bits, h with
  | [], _ => decide
  | [a], _ => cases a <;> decide
  | [a, b], _ => cases a <;> cases b <;> decide
  | [a, b, c], _ => cases a <;> cases b <;> cases c <;> decide
  | [a, b, c, d], _ => cases a <;> cases b <;> cases c <;> cases d <;> decide
  | [a, b, c, d, e], _ => cases a <;> cases b <;> cases c <;> cases d <;> cases e <;> decide
  | [a, b, c, d, e, f], _ =>
    cases a <;> cases b <;> cases c <;> cases d <;> cases e <;> cases f <;> decide
  | [a, b, c, d, e, f, g], _ =>
    cases a <;> cases b <;> cases c <;> cases d <;> cases e <;> cases f <;> cases g <;> decide
  | [a, b, c, d, e, f, g, i], _ =>
    cases a <;> cases b <;> cases c <;> cases d <;> cases e <;> cases f <;> cases g <;> cases i <;> decide
  | _ :: _ :: _ :: _ :: _ :: _ :: _ :: _ :: _ :: _, h => simp at h

/-- unpacking all bits of the packed bytes gives the coils back, padded with `false` to a
    whole number of bytes -/
theorem unpackAll_packCoils (coils : List Bool) :
    (packCoils coils).flatMap byteBits
      = coils ++ List.replicate (packedCoilsSize coils.length * 8 - coils.length) false := by
  induction h : coils.length using Nat.strongRecOn generalizing coils with
  | _ n ih =>
    subst h
    unfold packCoils
    split
    · rename_i hc; subst hc; simp [packedCoilsSize]
    · rename_i hc
      have hpos : 0 < coils.length := List.length_pos_iff.mpr hc
      have hrec := ih (coils.drop 8).length (by simp [List.length_drop]; omega) (coils.drop 8) rfl
      simp only [List.flatMap_cons, hrec]
      rw [byteBits_packBits (coils.take 8) (by simp [List.length_take]; omega)]
      by_cases hl : coils.length ≤ 8
      · -- last, possibly partial, byte
        have hd : coils.drop 8 = [] := List.drop_eq_nil_of_le hl
        have ht : coils.take 8 = coils := List.take_of_length_le hl
        have hp : packedCoilsSize coils.length * 8 - coils.length = 8 - coils.length := by
          simp only [packedCoilsSize]; omega
        rw [hd, ht, hp]
        simp [packedCoilsSize]
      · have hlt : 8 < coils.length := by omega
        have htl : (coils.take 8).length = 8 := by simp [List.length_take]; omega
        have hsz : packedCoilsSize coils.length * 8 - coils.length
            = packedCoilsSize (coils.drop 8).length * 8 - (coils.drop 8).length := by
          simp only [List.length_drop, packedCoilsSize]; omega
        rw [htl, hsz]
        simp only [Nat.sub_self, List.replicate_zero, List.append_nil]
        rw [← List.append_assoc, List.take_append_drop]

/-- **unpack ∘ pack = id** on the first `length` bits -/
theorem unpackCoils_packCoils (coils : List Bool) :
    unpackCoils (packCoils coils) coils.length = some coils := by
  have hlen : coils.length ≤ 8 * (packCoils coils).length := by
    rw [packCoils_length]; simp [packedCoilsSize]; omega
  rw [unpackCoils_isSome _ _ hlen, unpackAll_packCoils]
  simp

/-- unpacking whole bytes of packed coils gives the coils padded with `false` (what a
    read-coils response carries) -/
theorem unpackCoils_packCoils_padded (coils : List Bool) :
    unpackCoils (packCoils coils) (packedCoilsSize coils.length * 8)
      = some (coils ++ List.replicate (packedCoilsSize coils.length * 8 - coils.length) false) := by
  have hlen : packedCoilsSize coils.length * 8 ≤ 8 * (packCoils coils).length := by
    rw [packCoils_length]; omega
  rw [unpackCoils_isSome _ _ hlen, unpackAll_packCoils]
  have hle : (coils ++ List.replicate (packedCoilsSize coils.length * 8 - coils.length) false).length
      ≤ packedCoilsSize coils.length * 8 := by
    simp [packedCoilsSize]; omega
  rw [List.take_of_length_le hle]

end Modbus
