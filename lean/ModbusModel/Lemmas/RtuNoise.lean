import ModbusModel.Lemmas.RtuFraming
/-
  Resynchronisation: line noise that cannot be mistaken for the start of a frame, followed by
  a valid frame, is a "frame" of a noise-tolerant framing – so the chunking theorem applies
  to it under every fragmentation.
-/
namespace Modbus

/-- the bytes that can never be read as a function code by either length table -/
def nonFc (b : UInt8) : Bool :=
  b = 0x00 || b = 0x80 || (0x41 ≤ b && b ≤ 0x48) || (0x64 ≤ b && b ≤ 0x6E)

/-- the function codes the request / response length tables have an entry for -/
def reqArm (fc : UInt8) : Bool :=
  (0x01 ≤ fc && fc ≤ 0x06) || fc = 0x07 || fc = 0x0B || fc = 0x0C || fc = 0x11 || fc = 0x0F || fc = 0x10
    || fc = 0x16 || fc = 0x18 || fc = 0x17

def rspArm (fc : UInt8) : Bool :=
  (0x01 ≤ fc && fc ≤ 0x04) || fc = 0x0C || fc = 0x11 || fc = 0x17 || fc = 0x05 || fc = 0x06 || fc = 0x0B
    || fc = 0x0F || fc = 0x10 || fc = 0x07 || fc = 0x16 || fc = 0x18 || (0x81 ≤ fc && fc ≤ 0xAB)

theorem request_table_rejects (a b : UInt8) (rest : Bytes) (h : reqArm b = false) :
    requestPduLen (a :: b :: rest) = .err .invalidData := by
  simp only [reqArm, Bool.or_eq_false_iff, Bool.and_eq_false_iff, decide_eq_false_iff_not] at h
  simp only [requestPduLen, List.getElem?_cons_succ, List.getElem?_cons_zero]
  obtain ⟨⟨⟨⟨⟨⟨⟨⟨⟨h1, h2⟩, h3⟩, h4⟩, h5⟩, h6⟩, h7⟩, h8⟩, h9⟩, h10⟩ := h
  have c1 : ¬ (1 ≤ b ∧ b ≤ 6) := by intro ⟨x, y⟩; rcases h1 with h1 | h1 <;> simp_all
  simp [c1, h2, h3, h4, h5, h6, h7, h8, h9, h10]

theorem response_table_rejects (a b : UInt8) (rest : Bytes) (h : rspArm b = false) :
    responsePduLen (a :: b :: rest) = .err .invalidData := by
  simp only [rspArm, Bool.or_eq_false_iff, Bool.and_eq_false_iff, decide_eq_false_iff_not] at h
  simp only [responsePduLen, List.getElem?_cons_succ, List.getElem?_cons_zero]
  obtain ⟨⟨⟨⟨⟨⟨⟨⟨⟨⟨⟨⟨h1, h2⟩, h3⟩, h4⟩, h5⟩, h6⟩, h7⟩, h8⟩, h9⟩, h10⟩, h11⟩, h12⟩, h13⟩ := h
  have c1 : ¬ (1 ≤ b ∧ b ≤ 4) := by intro ⟨x, y⟩; rcases h1 with h1 | h1 <;> simp_all
  have c2 : ¬ (0x81 ≤ b ∧ b ≤ 0xAB) := by intro ⟨x, y⟩; rcases h13 with h13 | h13 <;> simp_all
  simp [c1, c2, h2, h3, h4, h5, h6, h7, h8, h9, h10, h11, h12]

/-- a byte that can never be a function code has no entry in either table -/
theorem nonFc_no_arm : ∀ b : UInt8, nonFc b = true → reqArm b = false ∧ rspArm b = false := by
  apply forall_u8; decide +kernel

/-- what the resynchronisation argument needs of a length table -/
structure NoiseTable (lenFn : Bytes → Res (Option Nat)) : Prop where
  stable : PrefixStable lenFn
  rejects : ∀ a b rest, nonFc b = true → ∃ k, lenFn (a :: b :: rest) = .err k
  short : ∀ a, lenFn [a] = .ok none
  empty : lenFn [] = .ok none

theorem requestPduLen_noiseTable : NoiseTable requestPduLen where
  stable := requestPduLen_stable
  rejects := fun a b rest hb => ⟨_, request_table_rejects a b rest (nonFc_no_arm b hb).1⟩
  short := fun a => by simp [requestPduLen]
  empty := by simp [requestPduLen]

theorem responsePduLen_noiseTable : NoiseTable responsePduLen where
  stable := responsePduLen_stable
  rejects := fun a b rest hb => ⟨_, response_table_rejects a b rest (nonFc_no_arm b hb).2⟩
  short := fun a => by simp [responsePduLen]
  empty := by simp [responsePduLen]

theorem loop_drop_one (lenFn : Bytes → Res (Option Nat)) (n : Nat) (fd : FrameDecoder)
    (a b : UInt8) (rest : Bytes) (k : ErrKind) (h : lenFn (a :: b :: rest) = .err k) :
    ∃ fd', rtuDecodeLoop lenFn (n + 1) fd (a :: b :: rest) = rtuDecodeLoop lenFn n fd' (b :: rest) := by
  obtain ⟨fd', hr, _⟩ := recoverOnError_spec fd a (b :: rest)
  refine ⟨fd', ?_⟩
  rw [rtuDecodeLoop]
  simp only [h, hr]

/-- **noise is dropped**: `k` noise bytes followed by a byte that is itself never a function
    code cost exactly `k` retries and leave the buffer at that byte -/
theorem loop_drops_noise (lenFn : Bytes → Res (Option Nat)) (ht : NoiseTable lenFn) :
    ∀ (noise : Bytes) (m : Nat) (fd : FrameDecoder) (y : UInt8) (rest : Bytes),
      (∀ b ∈ noise, nonFc b = true) → nonFc y = true →
      ∃ fd', rtuDecodeLoop lenFn (noise.length + m) fd (noise ++ y :: rest)
        = rtuDecodeLoop lenFn m fd' (y :: rest) := by
  intro noise
  induction noise with
  | nil => intro m fd y rest _ _; exact ⟨fd, by simp⟩
  | cons a noise ih =>
    intro m fd y rest hn hy
    have hn' : ∀ b ∈ noise, nonFc b = true := fun b hb => hn b (by simp [hb])
    -- the byte after `a` is never a function code
    obtain ⟨b, tl, hb, hbn⟩ : ∃ b tl, noise ++ y :: rest = b :: tl ∧ nonFc b = true := by
      cases noise with
      | nil => exact ⟨y, rest, rfl, hy⟩
      | cons c cs => exact ⟨c, cs ++ y :: rest, rfl, hn c (by simp)⟩
    obtain ⟨k, hk⟩ := ht.rejects a b tl hbn
    have e : (a :: noise).length + m = (noise.length + m) + 1 := by simp; omega
    obtain ⟨fd1, h1⟩ := loop_drop_one lenFn (noise.length + m) fd a b tl k hk
    obtain ⟨fd2, h2⟩ := ih m fd1 y rest hn' hy
    refine ⟨fd2, ?_⟩
    rw [e, List.cons_append, hb, h1, ← hb, h2]

theorem loop_complete (lenFn : Bytes → Res (Option Nat)) (m : Nat) (fd : FrameDecoder)
    (slave : UInt8) (pdu rest : Bytes)
    (hlen : lenFn (rtuFrame slave pdu ++ rest) = .ok (some pdu.length)) :
    rtuDecodeLoop lenFn (m + 1) fd (rtuFrame slave pdu ++ rest)
      = (.ok (some (slave, pdu)), { dropped := [] }, rest) := by
  rw [rtuDecodeLoop]
  simp only [hlen]
  have hb : rtuFrame slave pdu ++ rest
      = slave :: pdu ++ [UInt8.ofNat ((calcCrc (slave :: pdu)).toNat / 256), UInt8.ofNat ((calcCrc (slave :: pdu)).toNat % 256)] ++ rest := by
    simp [rtuFrame, crcBytes, be16]
  rw [hb, frameDecode_on_split]
  simp [rd16_be16]

theorem loop_waits (lenFn : Bytes → Res (Option Nat)) (hs : PrefixStable lenFn) (m : Nat) (fd : FrameDecoder)
    (slave : UInt8) (pdu p : Bytes)
    (hlen : lenFn (rtuFrame slave pdu) = .ok (some pdu.length))
    (hp : p <+: rtuFrame slave pdu) (hne : p ≠ rtuFrame slave pdu) :
    rtuDecodeLoop lenFn (m + 1) fd p = (.ok none, fd, p) := by
  have hshort : p.length < pdu.length + 3 := by
    obtain ⟨s, hs'⟩ := hp
    have hl := congrArg List.length hs'
    rw [rtuFrame_length] at hl
    have : s ≠ [] := by intro h0; subst h0; simp at hs'; exact hne hs'
    have : 0 < s.length := List.length_pos_iff.mpr this
    simp at hl; omega
  rw [rtuDecodeLoop]
  rcases hs p _ hp with h | h
  · simp only [h]
  · simp only [h, hlen, frameDecode_short fd p pdu.length hshort]

/-- noise (≤ 19 bytes, none of them ever a function code) in front of a frame whose slave
    id is such a byte too and whose length the table infers -/
def NoisyFrame (lenFn : Bytes → Res (Option Nat)) (f : Bytes) : Prop :=
  ∃ noise slave pdu, (∀ b ∈ noise, nonFc b = true) ∧ noise.length ≤ 19 ∧ nonFc slave = true
    ∧ (∀ rest, lenFn (rtuFrame slave pdu ++ rest) = .ok (some pdu.length))
    ∧ f = noise ++ rtuFrame slave pdu

/-- what a decode call makes of a noisy frame that is completely buffered -/
theorem noisy_complete (lenFn : Bytes → Res (Option Nat)) (ht : NoiseTable lenFn) (fd : FrameDecoder)
    (noise : Bytes) (slave : UInt8) (pdu rest : Bytes)
    (hn : ∀ b ∈ noise, nonFc b = true) (hl : noise.length ≤ 19) (hsl : nonFc slave = true)
    (hlen : ∀ rest, lenFn (rtuFrame slave pdu ++ rest) = .ok (some pdu.length)) :
    rtuDecode lenFn fd (noise ++ rtuFrame slave pdu ++ rest) = (.ok (some (slave, pdu)), { dropped := [] }, rest) := by
  unfold rtuDecode MAX_RETRIES
  have e : 20 = noise.length + ((19 - noise.length) + 1) := by omega
  have hfr : noise ++ rtuFrame slave pdu ++ rest
      = noise ++ slave :: (pdu ++ crcBytes (slave :: pdu) ++ rest) := by
    simp [rtuFrame, List.append_assoc]
  obtain ⟨fd', h⟩ := loop_drops_noise lenFn ht noise ((19 - noise.length) + 1) fd slave
    (pdu ++ crcBytes (slave :: pdu) ++ rest) hn hsl
  rw [e, hfr, h]
  have hfr2 : slave :: (pdu ++ crcBytes (slave :: pdu) ++ rest) = rtuFrame slave pdu ++ rest := by
    simp [rtuFrame, List.append_assoc]
  rw [hfr2]
  exact loop_complete lenFn _ fd' slave pdu rest (hlen rest)

/-- the item a noisy frame carries: what decoding it in one piece delivers -/
def noisyItem (lenFn : Bytes → Res (Option Nat)) (f : Bytes) : UInt8 × Bytes :=
  match rtuDecode lenFn {} f with
  | (.ok (some x), _, _) => x
  | _ => default

theorem noisyItem_eq (lenFn : Bytes → Res (Option Nat)) (ht : NoiseTable lenFn)
    (noise : Bytes) (slave : UInt8) (pdu : Bytes)
    (hn : ∀ b ∈ noise, nonFc b = true) (hl : noise.length ≤ 19) (hsl : nonFc slave = true)
    (hlen : ∀ rest, lenFn (rtuFrame slave pdu ++ rest) = .ok (some pdu.length)) :
    noisyItem lenFn (noise ++ rtuFrame slave pdu) = (slave, pdu) := by
  have := noisy_complete lenFn ht {} noise slave pdu [] hn hl hsl hlen
  simp only [List.append_nil] at this
  simp [noisyItem, this]

theorem loop_single (lenFn : Bytes → Res (Option Nat)) (ht : NoiseTable lenFn) (m : Nat)
    (fd : FrameDecoder) (y : UInt8) : rtuDecodeLoop lenFn (m + 1) fd [y] = (.ok none, fd, [y]) := by
  rw [rtuDecodeLoop]; simp only [ht.short y]

theorem loop_empty (lenFn : Bytes → Res (Option Nat)) (ht : NoiseTable lenFn) (m : Nat)
    (fd : FrameDecoder) : rtuDecodeLoop lenFn (m + 1) fd [] = (.ok none, fd, []) := by
  rw [rtuDecodeLoop]; simp only [ht.empty]

/-- **the noise-tolerant RTU framing** -/
def noisyFraming (lenFn : Bytes → Res (Option Nat)) (ht : NoiseTable lenFn) :
    Framing (rtuRawDecoder lenFn) where
  Valid := NoisyFrame lenFn
  item := noisyItem lenFn
  complete := by
    rintro fd f rest ⟨noise, slave, pdu, hn, hl, hsl, hlen, rfl⟩
    refine ⟨{ dropped := [] }, ?_⟩
    rw [noisyItem_eq lenFn ht noise slave pdu hn hl hsl hlen]
    exact noisy_complete lenFn ht fd noise slave pdu rest hn hl hsl hlen
  waits := by
    rintro fd p q ⟨noise, slave, pdu, hn, hl, hsl, hlen, hf⟩ hq
    rw [hf, noisyItem_eq lenFn ht noise slave pdu hn hl hsl hlen]
    -- the cut falls inside the noise, or inside the frame
    have hcases : (∃ z, noise = p ++ z ∧ q = z ++ rtuFrame slave pdu)
        ∨ (∃ z, z ≠ [] ∧ p = noise ++ z ∧ rtuFrame slave pdu = z ++ q) := by
      rcases List.append_eq_append_iff.mp hf with ⟨z, h1, h2⟩ | ⟨z, h1, h2⟩
      · exact Or.inl ⟨z, h1, h2⟩
      · by_cases hz : z = []
        · subst hz
          exact Or.inl ⟨[], by simpa using h1.symm, by simpa using h2.symm⟩
        · exact Or.inr ⟨z, hz, h1, h2⟩
    rcases hcases with ⟨z, h1, h2⟩ | ⟨z, hz, h1, h2⟩
    · -- inside the noise: all but the last held byte are dropped
      subst h1 h2
      have hnp : ∀ b ∈ p, nonFc b = true := fun b hb => hn b (by simp [hb])
      have hnz : ∀ b ∈ z, nonFc b = true := fun b hb => hn b (by simp [hb])
      simp only [List.length_append] at hl
      by_cases hp : p = []
      · subst hp
        refine ⟨fd, [], ?_, ⟨z, slave, pdu, hnz, by simpa using hl, hsl, hlen, by simp⟩, ?_⟩
        · exact loop_empty lenFn ht 19 fd
        · simpa using noisyItem_eq lenFn ht z slave pdu hnz (by simpa using hl) hsl hlen
      · obtain ⟨ini, y, rfl⟩ : ∃ ini y, p = ini ++ [y] :=
          ⟨p.dropLast, p.getLast hp, (List.dropLast_concat_getLast hp).symm⟩
        have hy : nonFc y = true := hnp y (by simp)
        have hni : ∀ b ∈ ini, nonFc b = true := fun b hb => hnp b (by simp [hb])
        simp only [List.length_append, List.length_singleton] at hl
        obtain ⟨fd', h⟩ := loop_drops_noise lenFn ht ini ((19 - ini.length) + 1) fd y [] hni hy
        have e : 20 = ini.length + ((19 - ini.length) + 1) := by omega
        have hnz' : ∀ b ∈ y :: z, nonFc b = true := by
          intro b hb
          rcases List.mem_cons.mp hb with rfl | hb
          · exact hy
          · exact hnz b hb
        have hl' : (y :: z).length ≤ 19 := by simp; omega
        refine ⟨fd', [y], ?_, ⟨y :: z, slave, pdu, hnz', hl', hsl, hlen, by simp⟩, ?_⟩
        · show rtuDecode lenFn fd (ini ++ [y]) = _
          unfold rtuDecode MAX_RETRIES
          rw [e, h]
          exact loop_single lenFn ht _ fd' y
        · have := noisyItem_eq lenFn ht (y :: z) slave pdu hnz' hl' hsl hlen
          simpa using this
    · -- inside the frame: the noise is dropped, the frame's prefix is kept
      subst h1
      obtain ⟨z', hz'⟩ : ∃ z', z = slave :: z' := by
        cases z with
        | nil => exact absurd rfl hz
        | cons a z' =>
          refine ⟨z', ?_⟩
          have : (rtuFrame slave pdu).head? = (a :: z' ++ q).head? := by rw [h2]
          simp [rtuFrame] at this
          rw [this]
      have hpre : z <+: rtuFrame slave pdu := ⟨q, h2.symm⟩
      have hne : z ≠ rtuFrame slave pdu := by
        intro e
        have := congrArg List.length h2
        rw [← e] at this
        simp at this
        exact hq this
      obtain ⟨fd', h⟩ := loop_drops_noise lenFn ht noise ((19 - noise.length) + 1) fd slave z' hn hsl
      have e : 20 = noise.length + ((19 - noise.length) + 1) := by omega
      have h0 := hlen []
      simp only [List.append_nil] at h0
      refine ⟨fd', z, ?_, ⟨[], slave, pdu, by simp, by simp, hsl, hlen, by simpa using h2.symm⟩, ?_⟩
      · show rtuDecode lenFn fd (noise ++ z) = _
        unfold rtuDecode MAX_RETRIES
        rw [e, hz', h, ← hz']
        exact loop_waits lenFn ht.stable _ fd' slave pdu z h0 hpre hne
      · rw [← h2]
        simpa using noisyItem_eq lenFn ht [] slave pdu (by simp) (by simp) hsl hlen

/-! ### noise that arrives byte by byte -/

/-- the reader between two noise bytes: healthy, waiting for input, holding at most one byte,
    which is never a function code -/
structure Resync (r : ReadFrame) : Prop where
  noErr : r.hasErrored = false
  noEof : r.eof = false
  reading : r.isReadable = false
  held : r.buffer = [] ∨ ∃ y, nonFc y = true ∧ r.buffer = [y]

theorem pollNext_of_pre_none {σ ι} (D : Decoder σ ι) (s s' : σ) (r r' : ReadFrame) (evs : List ReadEv)
    (h1 : ReadFrame.pre D s r = (none, s', r')) (h2 : ReadFrame.pre D s' r' = (none, s', r')) :
    pollNext D s r evs = pollNext D s' r' evs := by
  cases evs with
  | nil => rw [pollNext, h1, pollNext, h2]
  | cons e evs => rw [pollNext, h1, pollNext, h2]

/-- one noise byte arriving on its own is absorbed: afterwards the reader holds just that byte -/
theorem pollNext_absorbs_one (lenFn : Bytes → Res (Option Nat)) (ht : NoiseTable lenFn)
    (b : UInt8) (hb : nonFc b = true) (evs : List ReadEv) (fd : FrameDecoder) (r : ReadFrame) (hr : Resync r) :
    ∃ fd' r', pollNext (rtuRawDecoder lenFn) fd r (.data [b] :: evs) = pollNext (rtuRawDecoder lenFn) fd' r' evs
      ∧ Resync r' ∧ r'.buffer = [b] := by
  obtain ⟨he, hq, hrd, hheld⟩ := hr
  have hdec : ∃ fd', rtuDecode lenFn fd (r.buffer ++ [b]) = (.ok none, fd', [b]) := by
    rcases hheld with h0 | ⟨y, hy, h1⟩
    · rw [h0]
      exact ⟨fd, by unfold rtuDecode MAX_RETRIES; exact loop_single lenFn ht 19 fd b⟩
    · rw [h1]
      obtain ⟨fd', h⟩ := loop_drops_noise lenFn ht [y] 19 fd b [] (by simpa using hy) hb
      refine ⟨fd', ?_⟩
      unfold rtuDecode MAX_RETRIES
      have e : 20 = [y].length + 19 := rfl
      rw [e]
      simp only [List.singleton_append] at h ⊢
      rw [h]
      exact loop_single lenFn ht 18 fd' b
  obtain ⟨fd', hdec⟩ := hdec
  let r1 : ReadFrame := { r with buffer := r.buffer ++ [b], eof := false, isReadable := true }
  let r2 : ReadFrame := { r1 with buffer := [b], isReadable := false }
  refine ⟨fd', r2, ?_, ⟨he, rfl, rfl, Or.inr ⟨b, hb, rfl⟩⟩, rfl⟩
  have hpre0 : ReadFrame.pre (rtuRawDecoder lenFn) fd r = (none, fd, r) := by
    simp [ReadFrame.pre, he, hrd]
  have step1 : pollNext (rtuRawDecoder lenFn) fd r (.data [b] :: evs) = pollNext (rtuRawDecoder lenFn) fd r1 evs := by
    rw [pollNext, hpre0]
    simp [r1]
  have hpre1 : ReadFrame.pre (rtuRawDecoder lenFn) fd r1 = (none, fd', r2) := by
    simp only [ReadFrame.pre, r1, he, rtuRawDecoder, hdec]
    simp [r2, r1, he]
  have hpre2 : ReadFrame.pre (rtuRawDecoder lenFn) fd' r2 = (none, fd', r2) := by
    simp [ReadFrame.pre, r2, r1, he]
  rw [step1]
  exact pollNext_of_pre_none _ fd fd' r1 r2 evs hpre1 hpre2

/-- **any amount of noise, byte by byte**: every noise byte that arrives on its own is absorbed;
    the reader never holds more than one byte, so no retry limit is ever reached -/
theorem pollNext_absorbs (lenFn : Bytes → Res (Option Nat)) (ht : NoiseTable lenFn) :
    ∀ (noise : Bytes) (evs : List ReadEv) (fd : FrameDecoder) (r : ReadFrame),
      (∀ b ∈ noise, nonFc b = true) → Resync r →
      ∃ fd' r', pollNext (rtuRawDecoder lenFn) fd r (noise.map (fun b => ReadEv.data [b]) ++ evs)
          = pollNext (rtuRawDecoder lenFn) fd' r' evs ∧ Resync r' := by
  intro noise
  induction noise with
  | nil => intro evs fd r _ hr; exact ⟨fd, r, rfl, hr⟩
  | cons b noise ih =>
    intro evs fd r hn hr
    obtain ⟨fd1, r1, h1, hr1, _⟩ := pollNext_absorbs_one lenFn ht b (hn b (by simp))
      (noise.map (fun b => ReadEv.data [b]) ++ evs) fd r hr
    obtain ⟨fd2, r2, h2, hr2⟩ := ih evs fd1 r1 (fun b hb => hn b (by simp [hb])) hr1
    exact ⟨fd2, r2, by rw [List.map_cons, List.cons_append, h1, h2], hr2⟩

end Modbus
