import ModbusModel.Lemmas.Rtu
import ModbusModel.Lemmas.Chunking
/-
  The RTU frame decoder satisfies the two hypotheses of the chunking theorem for every frame
  whose PDU length the length table infers consistently.
-/
namespace Modbus

def rtuFrame (slave : UInt8) (pdu : Bytes) : Bytes := slave :: pdu ++ crcBytes (slave :: pdu)

theorem rtuFrame_length (slave : UInt8) (pdu : Bytes) : (rtuFrame slave pdu).length = pdu.length + 3 := by
  simp [rtuFrame, crcBytes, be16]

theorem getElem?_prefix {α} (p f : List α) (h : p <+: f) (i : Nat) : p[i]? = none ∨ p[i]? = f[i]? := by
  obtain ⟨s, rfl⟩ := h
  by_cases hi : i < p.length
  · right; rw [List.getElem?_append_left hi]
  · left; simp; omega

/-- the request length table on a prefix: "need more", or already the answer for the whole -/
theorem requestPduLen_prefix (p f : Bytes) (h : p <+: f) :
    requestPduLen p = .ok none ∨ requestPduLen p = requestPduLen f := by
  have h1 := getElem?_prefix p f h 1
  have h6 := getElem?_prefix p f h 6
  have h10 := getElem?_prefix p f h 10
  unfold requestPduLen
  rcases h1 with h1 | h1
  · left; simp [h1]
  · rw [h1]
    cases hf : f[1]? with
    | none => left; rfl
    | some fc =>
      simp only
      rcases h6 with h6 | h6 <;> rcases h10 with h10 | h10 <;>
        (repeat' split) <;> simp_all

theorem responsePduLen_prefix (p f : Bytes) (h : p <+: f) :
    responsePduLen p = .ok none ∨ responsePduLen p = responsePduLen f := by
  have h1 := getElem?_prefix p f h 1
  have h2 := getElem?_prefix p f h 2
  have h3 := getElem?_prefix p f h 3
  unfold responsePduLen
  rcases h1 with h1 | h1
  · left; simp [h1]
  · rw [h1]
    cases hf : f[1]? with
    | none => left; rfl
    | some fc =>
      simp only
      rcases h2 with h2 | h2 <;> rcases h3 with h3 | h3 <;>
        (repeat' split) <;> simp_all
      all_goals (exfalso; rename_i hx; exact hx _ _ h2.symm h3.symm)

/-- a length table that answers consistently on the prefixes of whatever it is given -/
def PrefixStable (lenFn : Bytes → Res (Option Nat)) : Prop :=
  ∀ p f, p <+: f → lenFn p = .ok none ∨ lenFn p = lenFn f

/-- the RTU frame decoder (either direction) as a `tokio_util` decoder -/
def rtuRawDecoder (lenFn : Bytes → Res (Option Nat)) : Decoder FrameDecoder (UInt8 × Bytes) :=
  { decode := fun fd buf => rtuDecode lenFn fd buf }

/-- one clean frame at the head of the buffer: delivered in the first iteration -/
theorem rtuDecode_complete (lenFn : Bytes → Res (Option Nat)) (fd : FrameDecoder)
    (slave : UInt8) (pdu rest : Bytes)
    (hlen : lenFn (rtuFrame slave pdu ++ rest) = .ok (some pdu.length)) :
    rtuDecode lenFn fd (rtuFrame slave pdu ++ rest) = (.ok (some (slave, pdu)), { dropped := [] }, rest) := by
  unfold rtuDecode MAX_RETRIES
  rw [rtuDecodeLoop]
  simp only [hlen]
  have hb : rtuFrame slave pdu ++ rest
      = slave :: pdu ++ [UInt8.ofNat ((calcCrc (slave :: pdu)).toNat / 256), UInt8.ofNat ((calcCrc (slave :: pdu)).toNat % 256)] ++ rest := by
    simp [rtuFrame, crcBytes, be16]
  rw [hb, frameDecode_on_split]
  simp [rd16_be16]

/-- a strict prefix of a frame whose length the table knows: "need more", nothing dropped,
    decoder state and buffer untouched -/
theorem rtuDecode_waits (lenFn : Bytes → Res (Option Nat)) (hs : PrefixStable lenFn) (fd : FrameDecoder)
    (slave : UInt8) (pdu p : Bytes)
    (hlen : lenFn (rtuFrame slave pdu) = .ok (some pdu.length))
    (hp : p <+: rtuFrame slave pdu) (hne : p ≠ rtuFrame slave pdu) :
    rtuDecode lenFn fd p = (.ok none, fd, p) := by
  have hshort : p.length < pdu.length + 3 := by
    obtain ⟨s, hs'⟩ := hp
    have hl := congrArg List.length hs'
    rw [rtuFrame_length] at hl
    have : s ≠ [] := by intro h0; subst h0; simp at hs'; exact hne hs'
    have : 0 < s.length := List.length_pos_iff.mpr this
    simp at hl; omega
  unfold rtuDecode MAX_RETRIES
  rw [rtuDecodeLoop]
  rcases hs p _ hp with h | h
  · simp only [h]
  · simp only [h, hlen, frameDecode_short fd p pdu.length hshort]

/-- **the RTU framing**: frames whose PDU length the (prefix-stable) table infers from the frame
    itself, whatever follows -/
def rtuFraming (lenFn : Bytes → Res (Option Nat)) (hs : PrefixStable lenFn) : Framing (rtuRawDecoder lenFn) :=
  Framing.ofStrict
    (fun f => ∃ slave pdu, f = rtuFrame slave pdu ∧ ∀ rest, lenFn (f ++ rest) = .ok (some pdu.length))
    (fun f => match f with
      | slave :: tl => (slave, tl.take (tl.length - 2))
      | [] => default)
    (by
      rintro fd f rest ⟨slave, pdu, rfl, hl⟩
      refine ⟨{ dropped := [] }, ?_⟩
      have := rtuDecode_complete lenFn fd slave pdu rest (hl rest)
      simp only [rtuRawDecoder]
      rw [this]
      simp [rtuFrame, crcBytes, be16])
    (by
      rintro fd f p ⟨slave, pdu, rfl, hl⟩ hp hne
      refine ⟨fd, ?_⟩
      have h0 := hl []
      simp only [List.append_nil] at h0
      simp only [rtuRawDecoder]
      exact rtuDecode_waits lenFn hs fd slave pdu p h0 hp hne)

theorem rtuFraming_item (lenFn : Bytes → Res (Option Nat)) (hs : PrefixStable lenFn) (slave : UInt8) (pdu : Bytes) :
    (rtuFraming lenFn hs).item (rtuFrame slave pdu) = (slave, pdu) := by
  simp [rtuFraming, Framing.ofStrict, rtuFrame, crcBytes, be16]

theorem requestPduLen_stable : PrefixStable requestPduLen := requestPduLen_prefix
theorem responsePduLen_stable : PrefixStable responsePduLen := responsePduLen_prefix

end Modbus
