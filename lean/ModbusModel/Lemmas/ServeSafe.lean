import ModbusModel.Lemmas.Serve
import ModbusModel.Lemmas.Framed
import ModbusModel.Lemmas.RoundTrip
import ModbusModel.Lemmas.Encode
/-
  The per-connection server loop never panics, whatever arrives and whatever the service
  answers.
-/
namespace Modbus

theorem canonical_fc_lt (r : Request) (h : r.canonical) : r.functionCode.value < 0x80 := by
  cases r <;> first | exact h.1 | (simp only [Request.functionCode, FunctionCode.value]; decide)

theorem serverDecoder_yields (k : Kind) (h : Hdr) (req : Request)
    (hy : (serverDecoder k).Yields (h, req)) : ∃ pdu, decodeRequest pdu = .ok req := by
  obtain ⟨s, buf, s', b', hd⟩ := hy
  cases k with
  | tcp =>
    simp only [serverDecoder, tcpServerDecode] at hd
    split at hd <;> simp [Res.map] at hd
    rename_i hdr pdu _ _
    cases hp : decodeRequest pdu with
    | ok r => rw [hp] at hd; simp at hd; exact ⟨pdu, by rw [hp, hd.1.2]⟩
    | err e => rw [hp] at hd; simp at hd
    | panic => rw [hp] at hd; simp at hd
  | rtu =>
    simp only [serverDecoder, rtuServerDecode] at hd
    split at hd <;> simp [Res.map] at hd
    rename_i slave pdu _ _ _
    cases hp : decodeRequest pdu with
    | ok r => rw [hp] at hd; simp at hd; exact ⟨pdu, by rw [hp, hd.1.2]⟩
    | err e => rw [hp] at hd; simp at hd
    | panic => rw [hp] at hd; simp at hd

theorem awaitNextFuel_yields {σ ι} (D : Decoder σ ι) (x : ι) :
    ∀ (n : Nat) (s : σ) (r : ReadFrame) (evs : List ReadEv),
      (awaitNextFuel D n s r evs).1 = .item x → D.Yields x := by
  intro n
  induction n with
  | zero => intro s r evs h; simp [awaitNextFuel] at h
  | succ n ih =>
    intro s r evs h
    unfold awaitNextFuel at h
    have hp := pollNext_item D x evs s r
    rcases hq : pollNext D s r evs with ⟨p, s1, r1, evs1⟩
    rw [hq] at hp h
    cases p with
    | pending => exact ih s1 r1 evs1 h
    | item y => simp only [Polled.item.injEq] at h; subst h; exact hp rfl
    | panic => simp at h
    | blocked => simp at h
    | done => simp at h
    | error k => simp at h

theorem awaitFlushS_ne_panicked : ∀ (n : Nat) (w : Bytes) (t : Transport),
    (processLoop.awaitFlushS n w t).1 ≠ some .panicked := by
  intro n
  induction n with
  | zero => intro w t; simp [processLoop.awaitFlushS]
  | succ n ih =>
    intro w t
    unfold processLoop.awaitFlushS
    rcases hq : pollFlush w t with ⟨p, w', t', e⟩
    cases p with
    | ready => simp
    | error k => simp
    | pending =>
      simp only
      have := ih w' t'
      rcases hr : processLoop.awaitFlushS n w' t' with ⟨r, w'', t'', e'⟩
      rw [hr] at this
      simpa using this

/-- the server encoders never panic on what the loop gives them: any response, and exceptions
    for function codes below 0x80 -/
theorem serverEncode_ne_panic (k : Kind) (h : Hdr) (rr : ResponseResult)
    (hfc : ∀ e, rr = .error e → e.function.value < 0x80) : serverEncode k h rr ≠ .panic := by
  cases rr with
  | ok rsp =>
    cases k <;> simp only [serverEncode, tcpEncodeResponse, rtuEncodeResponse, responseResultPduSize] <;>
    · split
      · simp
      · rename_i n hs
        simp [encodeResponseResultAsserts, (responseAsserts_of_size rsp n hs).1]
  | error e =>
    have := hfc e rfl
    cases k <;> simp [serverEncode, tcpEncodeResponse, rtuEncodeResponse, responseResultPduSize,
      encodeResponseResultAsserts, encodeExceptionAsserts, this]

/-- **the connection task never panics**: whatever bytes arrive, in whatever fragmentation,
    whatever the transport does when written to, and whatever the service answers -/
theorem processLoop_never_panics (k : Kind) (svc : Service) (hD : (serverDecoder k).NoPanic) :
    ∀ (fuel idx : Nat) (f : ServerFramed) (t : Transport) (tr : List SrvEvent),
      (processLoop k svc fuel idx f t tr).1 ≠ .panicked := by
  intro fuel
  induction fuel with
  | zero => intro idx f t tr; simp [processLoop]
  | succ fuel ih =>
    intro idx f t tr
    unfold processLoop
    have hnp := awaitNext_ne_panic (serverDecoder k) hD t.reads f.fd f.read
    rcases hq : awaitNext (serverDecoder k) f.fd f.read t.reads with ⟨p, fd, r, evs⟩
    rw [hq] at hnp
    cases p with
    | panic => exact absurd rfl hnp
    | done => simp
    | error e => simp
    | pending => simp
    | blocked => simp
    | item x =>
      obtain ⟨hdr, req⟩ := x
      have hy : (serverDecoder k).Yields (hdr, req) :=
        awaitNextFuel_yields (serverDecoder k) (hdr, req) _ _ _ _ (by unfold awaitNext at hq; rw [hq])
      obtain ⟨pdu, hpdu⟩ := serverDecoder_yields k hdr req hy
      have hfc : req.functionCode.value < 0x80 := canonical_fc_lt req (decodeRequest_canonical pdu req hpdu)
      simp only
      cases hrf : responseFor req.functionCode (svc idx hdr.unit req) with
      | none => simp only; exact ih _ _ _ _
      | some rsp =>
        have henc : serverEncode k hdr rsp ≠ .panic := by
          apply serverEncode_ne_panic
          intro e he
          subst he
          cases hs : svc idx hdr.unit req <;> simp [responseFor, hs] at hrf
          rw [← hrf]; exact hfc
        dsimp only
        -- the optional flush before `start_send`
        have hpre : ∀ (x : Option SrvEnd × Bytes × Transport × List Effect),
            x = (if List.length f.wbuf ≥ BACKPRESSURE_BOUNDARY then
                  processLoop.awaitFlushS (t.writes.length + t.flushes.length + 1) f.wbuf
                    { reads := evs, writes := t.writes, flushes := t.flushes, shutdowns := t.shutdowns }
                else (none, f.wbuf, { reads := evs, writes := t.writes, flushes := t.flushes, shutdowns := t.shutdowns }, [])) →
            x.1 ≠ some .panicked := by
          intro x hx
          subst hx
          split
          · exact awaitFlushS_ne_panicked _ _ _
          · simp
        generalize hx : (if List.length f.wbuf ≥ BACKPRESSURE_BOUNDARY then
                  processLoop.awaitFlushS (t.writes.length + t.flushes.length + 1) f.wbuf
                    { reads := evs, writes := t.writes, flushes := t.flushes, shutdowns := t.shutdowns }
                else (none, f.wbuf, { reads := evs, writes := t.writes, flushes := t.flushes, shutdowns := t.shutdowns }, [])) = x
        have hx1 := hpre x hx.symm
        rcases x with ⟨o, w, t', effs⟩
        cases o with
        | some e =>
          dsimp only
          intro hc
          exact hx1 (by simp [hc])
        | none =>
          dsimp only
          cases he : serverEncode k hdr rsp with
          | panic => exact absurd he henc
          | err e => simp
          | ok frame =>
            dsimp only
            have h2 := awaitFlushS_ne_panicked (t.writes.length + t.flushes.length + 1) (w ++ frame) t'
            rcases hy2 : processLoop.awaitFlushS (t.writes.length + t.flushes.length + 1) (w ++ frame) t' with ⟨o2, w2, t2, effs2⟩
            rw [hy2] at h2
            cases o2 with
            | some e =>
              dsimp only
              intro hc
              exact h2 (by simp [hc])
            | none => dsimp only; exact ih _ _ _ _

end Modbus
