import ModbusModel.Lemmas.Call
import ModbusModel.Lemmas.Tcp
import ModbusModel.Lemmas.RtuFraming
namespace Modbus

/-- the TCP client codec is a `Framing` for every MBAP frame whose PDU the response decoder
    accepts (normal responses and exception responses alike) -/
def tcpClientFraming : Framing (clientDecoder .tcp) :=
  Framing.ofStrict
    (fun f => ∃ hdr pdu res, pdu.length < 65535 ∧ decodeResponsePdu pdu = .ok res ∧ f = tcpFrame hdr pdu)
    (fun f => match tcpClientDecode f with
      | (.ok (some (h, r)), _) => ({ tid := h.transactionId, unit := h.unitId }, r)
      | _ => default)
    (by
      rintro s f rest ⟨hdr, pdu, res, hl, hd, rfl⟩
      refine ⟨s, ?_⟩
      have h1 := aduDecode_complete hdr pdu rest hl
      have h2 := aduDecode_complete hdr pdu [] hl
      simp only [List.append_nil] at h2
      simp [clientDecoder, tcpClientDecode, h1, h2, hd, Res.map])
    (by
      rintro s f p ⟨hdr, pdu, res, hl, _, rfl⟩ hp hne
      refine ⟨s, ?_⟩
      have h1 := aduDecode_prefix_waits hdr pdu p hl hp hne
      simp [clientDecoder, tcpClientDecode, h1, Res.map])

theorem tcpClientFraming_item (hdr : TcpHeader) (pdu : Bytes) (res : ResponseResult)
    (hl : pdu.length < 65535) (hd : decodeResponsePdu pdu = .ok res) :
    tcpClientFraming.item (tcpFrame hdr pdu) = ({ tid := hdr.transactionId, unit := hdr.unitId }, res) := by
  have h2 := aduDecode_complete hdr pdu [] hl
  simp only [List.append_nil] at h2
  simp [tcpClientFraming, Framing.ofStrict, tcpClientDecode, h2, hd, Res.map]

/-- the RTU client codec is a `Framing` for every frame whose length the response table infers
    and whose PDU the response decoder accepts -/
def rtuClientFraming : Framing (clientDecoder .rtu) :=
  Framing.ofStrict
    (fun f => ∃ slave pdu res, f = rtuFrame slave pdu
      ∧ (∀ rest, responsePduLen (f ++ rest) = .ok (some pdu.length)) ∧ decodeResponsePdu pdu = .ok res)
    (fun f => match rtuClientDecode {} f with
      | (.ok (some (s, r)), _, _) => ({ tid := 0, unit := s }, r)
      | _ => default)
    (by
      rintro fd f rest ⟨slave, pdu, res, rfl, hlen, hd⟩
      refine ⟨{ dropped := [] }, ?_⟩
      have h1 := rtuDecode_complete responsePduLen fd slave pdu rest (hlen rest)
      have h0 := hlen []
      simp only [List.append_nil] at h0
      have h2 := rtuDecode_complete responsePduLen {} slave pdu [] (by simpa using h0)
      simp only [List.append_nil] at h2
      simp [clientDecoder, rtuClientDecode, h1, h2, hd, Res.map])
    (by
      rintro fd f p ⟨slave, pdu, res, rfl, hlen, _⟩ hp hne
      refine ⟨fd, ?_⟩
      have h0 := hlen []
      simp only [List.append_nil] at h0
      have h1 := rtuDecode_waits responsePduLen responsePduLen_stable fd slave pdu p h0 hp hne
      simp [clientDecoder, rtuClientDecode, h1, Res.map])

theorem rtuClientFraming_item (slave : UInt8) (pdu : Bytes) (res : ResponseResult)
    (hlen : ∀ rest, responsePduLen (rtuFrame slave pdu ++ rest) = .ok (some pdu.length))
    (hd : decodeResponsePdu pdu = .ok res) :
    rtuClientFraming.item (rtuFrame slave pdu) = ({ tid := 0, unit := slave }, res) := by
  have h0 := hlen []
  simp only [List.append_nil] at h0
  have h2 := rtuDecode_complete responsePduLen {} slave pdu [] (by simpa using h0)
  simp only [List.append_nil] at h2
  simp [rtuClientFraming, Framing.ofStrict, rtuClientDecode, h2, hd, Res.map]

end Modbus
