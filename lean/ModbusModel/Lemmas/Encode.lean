import ModbusModel.Lemmas.Pdu
/-
  Lengths of encodings: the size functions agree with what the encoders write, and the
  debug assertions of the length casts hold under the size limit.
-/
namespace Modbus

theorem encWords_length (ws : List UInt16) : (encWords ws).length = ws.length * 2 := by
  induction ws with
  | nil => rfl
  | cons w ws ih => simp [encWords, List.flatMap_cons, be16] at *; omega

theorem packCoils_length (coils : List Bool) : (packCoils coils).length = packedCoilsSize coils.length := by
  induction h : coils.length using Nat.strongRecOn generalizing coils with
  | _ n ih =>
    unfold packCoils
    split
    · rename_i hc; subst hc; subst h; simp [packedCoilsSize]
    · rename_i hc
      have hpos : 0 < coils.length := List.length_pos_iff.mpr hc
      have := ih (coils.drop 8).length (by simp [List.length_drop]; omega) (coils.drop 8) rfl
      simp only [List.length_cons, this, List.length_drop, packedCoilsSize]
      omega

/-- `request_pdu_size` is the number of bytes `encode_request_pdu` writes -/
theorem encodeRequestPdu_length (r : Request) : (encodeRequestPdu r).length = requestPduSizeRaw r := by
  cases r <;> simp [encodeRequestPdu, requestPduSizeRaw, be16, encWords_length, packCoils_length] <;> omega

/-- `response_pdu_size` is the number of bytes `encode_response_pdu` writes (after the fix D7) -/
theorem encodeResponsePdu_length (r : Response) : (encodeResponsePdu r).length = responsePduSizeRaw r := by
  cases r <;> simp [encodeResponsePdu, responsePduSizeRaw, be16, encWords_length, packCoils_length] <;> omega

/-- under the size limit no length cast truncates: the debug assertions hold -/
theorem requestAsserts_of_size (r : Request) (n : Nat) (h : requestPduSize r = some n) :
    encodeRequestAsserts r = true ∧ n = requestPduSizeRaw r ∧ n ≤ 253 := by
  unfold requestPduSize at h
  split at h
  · simp at h
  · rename_i hle
    simp only [Option.some.injEq] at h
    subst h
    refine ⟨?_, rfl, by simp [MAX_PDU_SIZE] at hle; omega⟩
    cases r <;> simp_all [encodeRequestAsserts, requestPduSizeRaw, MAX_PDU_SIZE, packedCoilsSize] <;>
      first | omega | exact ⟨by omega, decide_eq_true (by omega)⟩ | exact decide_eq_true (by omega)

theorem responseAsserts_of_size (r : Response) (n : Nat) (h : responsePduSize r = some n) :
    encodeResponseAsserts r = true ∧ n = responsePduSizeRaw r ∧ n ≤ 253 := by
  unfold responsePduSize at h
  split at h
  · simp at h
  · rename_i hle
    simp only [Option.some.injEq] at h
    subst h
    refine ⟨?_, rfl, by simp [MAX_PDU_SIZE] at hle; omega⟩
    cases r <;> simp_all [encodeResponseAsserts, responsePduSizeRaw, MAX_PDU_SIZE, packedCoilsSize] <;>
      first | omega | exact ⟨by omega, decide_eq_true (by omega)⟩ | exact decide_eq_true (by omega)

end Modbus
