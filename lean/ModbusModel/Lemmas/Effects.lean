import ModbusModel.Lemmas.Client
/-
  What a call can do to the transport: it writes, it never shuts down.
-/
namespace Modbus

def noShutdown (effs : List Effect) : Prop := ∀ e ∈ effs, e ≠ .shutdown

theorem noShutdown_nil : noShutdown [] := by simp [noShutdown]

theorem noShutdown_append {a b : List Effect} (ha : noShutdown a) (hb : noShutdown b) :
    noShutdown (a ++ b) := by
  intro e he
  rcases List.mem_append.mp he with h | h
  · exact ha e h
  · exact hb e h

theorem pollFlushFuel_noShutdown (n : Nat) (w : Bytes) (t : Transport) :
    noShutdown (pollFlushFuel n w t).2.2.2 := by
  induction n generalizing w t with
  | zero => simp [pollFlushFuel, noShutdown]
  | succ n ih =>
    unfold pollFlushFuel
    split
    · split <;> simp [noShutdown]
    · split
      · have := ih [] t
        simp_all [noShutdown]
      · split
        · simp [noShutdown]
        · rename_i k ws _ _
          have := ih (w.drop (min k w.length)) { t with writes := ws }
          simp_all [noShutdown]
      all_goals simp [noShutdown]

theorem pollFlush_noShutdown (w : Bytes) (t : Transport) : noShutdown (pollFlush w t).2.2.2 :=
  pollFlushFuel_noShutdown _ w t

theorem awaitFlush_noShutdown (fuel : Nat) (w : Bytes) (t : Transport) (b : Budget) (effs : List Effect)
    (h : noShutdown effs) : noShutdown (awaitFlush fuel w t b effs).2.2.2.2 := by
  induction fuel generalizing w t b effs with
  | zero => simpa [awaitFlush] using h
  | succ n ih =>
    unfold awaitFlush
    have hp := pollFlush_noShutdown w t
    split
    · exact noShutdown_append h (by simp_all)
    · exact noShutdown_append h (by simp_all)
    · split
      · exact noShutdown_append h (by simp_all)
      · apply ih; exact noShutdown_append h (by simp_all)

theorem awaitReady_noShutdown (w : Bytes) (t : Transport) (b : Budget) :
    noShutdown (awaitReady w t b).2.2.2.2 := by
  unfold awaitReady
  split
  · exact awaitFlush_noShutdown _ _ _ _ _ noShutdown_nil
  · exact noShutdown_nil

/-- a call never shuts the transport down -/
theorem call_noShutdown (c : Client) (req : Request) (t : Transport) (b : Budget) :
    noShutdown (c.call req t b).2.2.2 := by
  unfold Client.call
  split
  · exact noShutdown_nil
  · cases hf : c.framed with
    | none => cases hk : c.kind <;> simp [hf, noShutdown_nil]
    | some f =>
      -- name the two awaits so that their facts can be used in every branch
      cases hk : c.kind <;> simp only [hf, hk] <;>
      · generalize hr : awaitReady f.wbuf t b = r
        have h1 := awaitReady_noShutdown f.wbuf t b
        rw [hr] at h1
        rcases r with ⟨o, w, t1, b1, e1⟩
        cases o with
        | abandoned => simpa using h1
        | blocked => simpa using h1
        | done r1 =>
          cases r1 with
          | some k => simpa using h1
          | none =>
            simp only
            split
            · simpa using h1
            · simpa using h1
            · rename_i frame _
              generalize hq : awaitFlush (t1.writes.length + t1.flushes.length + 1) (w ++ frame) t1 b1 e1 = q
              have h2 := awaitFlush_noShutdown (t1.writes.length + t1.flushes.length + 1) (w ++ frame) t1 b1 e1 h1
              rw [hq] at h2
              rcases q with ⟨o2, w2, t2, b2, e2⟩
              cases o2 with
              | abandoned => simpa using h2
              | blocked => simpa using h2
              | done r2 =>
                cases r2 with
                | some k => simpa using h2
                | none =>
                  simp only
                  (repeat' split) <;> simpa using h2

theorem shutdownCount_of_noShutdown {effs : List Effect} (h : noShutdown effs) : shutdownCount effs = 0 := by
  unfold shutdownCount
  rw [List.length_eq_zero_iff, List.filter_eq_nil_iff]
  intro e he
  have := h e he
  cases e <;> simp_all

end Modbus
