import ModbusModel.Lemmas.Write
import ModbusModel.Lemmas.Call
/-
  A transport that accepts part of a request – in pieces of any size, with any `Pending`s –
  and then fails: the send ends with exactly that failure.
-/
namespace Modbus

/-- a write script without faults: pieces (`some n`, n > 0) and `Pending`s (`none`) -/
def pieceEvents (ps : List (Option Nat)) : List WriteEv :=
  ps.map fun | none => .pending | some n => .accept n

def accepted : List (Option Nat) → Nat
  | [] => 0
  | none :: ps => accepted ps
  | some n :: ps => n + accepted ps

/-- the error a faulting write event produces -/
def WriteEv.faultKind : WriteEv → Option ErrKind
  | .err k => some k
  | .zero => some .writeZero
  | _ => none

/-- the write loop of one `poll_flush` over a run of accepted pieces -/
theorem pollFlushFuel_pieces : ∀ (ns : List Nat) (f : Nat) (w : Bytes) (t : Transport) (tailEvs : List WriteEv),
    (∀ n ∈ ns, 0 < n) → ns.sum < w.length → w.length + 1 ≤ f →
    t.writes = ns.map .accept ++ tailEvs →
    ∃ chunks, pollFlushFuel f w t
        = ((pollFlushFuel (f - ns.length) (w.drop ns.sum) { t with writes := tailEvs }).1,
           (pollFlushFuel (f - ns.length) (w.drop ns.sum) { t with writes := tailEvs }).2.1,
           (pollFlushFuel (f - ns.length) (w.drop ns.sum) { t with writes := tailEvs }).2.2.1,
           chunks ++ (pollFlushFuel (f - ns.length) (w.drop ns.sum) { t with writes := tailEvs }).2.2.2)
      ∧ writtenBytes chunks = w.take ns.sum := by
  intro ns
  induction ns with
  | nil =>
    intro f w t tailEvs _ _ _ ht
    refine ⟨[], ?_, by simp [writtenBytes]⟩
    have : t = { t with writes := tailEvs } := by cases t; simp_all
    simp [← this]
  | cons n ns ih =>
    intro f w t tailEvs hpos hsum hf ht
    obtain ⟨f, rfl⟩ : ∃ g, f = g + 1 := ⟨f - 1, by omega⟩
    have hn : 0 < n := hpos n (by simp)
    simp only [List.sum_cons] at hsum
    have hw : w ≠ [] := by intro h; subst h; simp at hsum
    have hmin : min n w.length = n := by omega
    have hn0 : n ≠ 0 := by omega
    obtain ⟨chunks, h1, h2⟩ := ih f (w.drop n) { t with writes := ns.map .accept ++ tailEvs } tailEvs
      (fun x hx => hpos x (by simp [hx])) (by simp; omega) (by simp; omega) rfl
    refine ⟨.write (w.take n) :: chunks, ?_, ?_⟩
    · rw [pollFlushFuel]
      simp only [hw, if_false, ht, List.map_cons, List.cons_append, hn0, hmin]
      rw [h1]
      simp [List.drop_drop, Nat.add_comm]
    · have : writtenBytes (.write (w.take n) :: chunks) = w.take n ++ writtenBytes chunks := by
        simp [writtenBytes]
      rw [this, h2, List.sum_cons, List.take_add]

theorem sum_ge_length (ns : List Nat) (h : ∀ n ∈ ns, 0 < n) : ns.length ≤ ns.sum := by
  induction ns with
  | nil => simp
  | cons n ns ih =>
    have := ih (fun x hx => h x (by simp [hx]))
    have := h n (by simp)
    simp; omega

/-- a script of pieces and `Pending`s starts with a (possibly empty) run of pieces -/
theorem leading_run (ps : List (Option Nat)) :
    ∃ ns : List Nat, ps = ns.map some ∨ ∃ ps', ps = ns.map some ++ none :: ps' := by
  induction ps with
  | nil => exact ⟨[], Or.inl rfl⟩
  | cons p ps ih =>
    obtain ⟨ns, h | ⟨ps', h⟩⟩ := ih
    · cases p with
      | none => exact ⟨[], Or.inr ⟨ps, rfl⟩⟩
      | some n => exact ⟨n :: ns, Or.inl (by simp [h])⟩
    · cases p with
      | none => exact ⟨[], Or.inr ⟨ps, rfl⟩⟩
      | some n => exact ⟨n :: ns, Or.inr ⟨ps', by simp [h]⟩⟩

theorem accepted_run (ns : List Nat) (ps : List (Option Nat)) :
    accepted (ns.map some ++ ps) = ns.sum + accepted ps := by
  induction ns with
  | nil => simp
  | cons n ns ih => simp [accepted, ih]; omega

theorem pieceEvents_run (ns : List Nat) (ps : List (Option Nat)) :
    pieceEvents (ns.map some ++ ps) = ns.map .accept ++ pieceEvents ps := by
  simp [pieceEvents, List.map_map, Function.comp_def]

/-- **write_fault, every offset, every granularity, every pending pattern**: the transport takes
    `accepted ps < |w|` bytes of the buffered frame – in the pieces and with the `Pending`s the
    script `ps` prescribes – and then fails (`Err(kind)` or a zero-length write): the send
    ends with exactly that failure; what reached the transport is the first `accepted ps` bytes
    of the frame, the rest is still buffered -/
theorem awaitFlush_write_fault (fault : WriteEv) (kf : ErrKind) (hk : fault.faultKind = some kf)
    (rest : List WriteEv) :
    ∀ (m : Nat) (ps : List (Option Nat)) (F : Nat) (w : Bytes) (t : Transport) (effs : List Effect),
      ps.length ≤ m → ps.length < F → (∀ n, some n ∈ ps → 0 < n) → accepted ps < w.length →
      t.writes = pieceEvents ps ++ fault :: rest →
      (awaitFlush F w t none effs).1 = .done (some kf)
      ∧ (awaitFlush F w t none effs).2.1 = w.drop (accepted ps)
      ∧ writtenBytes (awaitFlush F w t none effs).2.2.2.2 = writtenBytes effs ++ w.take (accepted ps) := by
  intro m
  induction m with
  | zero =>
    intro ps F w t effs hm hF hpos hacc ht
    have : ps = [] := List.length_eq_zero_iff.mp (by omega)
    subst this
    obtain ⟨F, rfl⟩ : ∃ G, F = G + 1 := ⟨F - 1, by omega⟩
    have hw : w ≠ [] := by intro h; subst h; simp [accepted] at hacc
    simp only [pieceEvents, List.map_nil, List.nil_append] at ht
    have hp : pollFlush w t = (.error kf, w, { t with writes := rest }, []) := by
      unfold pollFlush
      rw [pollFlushFuel]
      cases fault <;> simp [WriteEv.faultKind] at hk <;> subst hk <;> simp [hw, ht]
    rw [awaitFlush, hp]
    simp [accepted]
  | succ m ih =>
    intro ps F w t effs hm hF hpos hacc ht
    obtain ⟨F, rfl⟩ : ∃ G, F = G + 1 := ⟨F - 1, by omega⟩
    obtain ⟨ns, h | ⟨ps', h⟩⟩ := leading_run ps
    · -- no `Pending` left: the pieces, then the fault, all within this one `poll_flush`
      subst h
      have hns : ∀ n ∈ ns, 0 < n := fun n hn => hpos n (by simp [hn])
      have hsum : ns.sum < w.length := by
        have := accepted_run ns []
        simp [accepted] at this
        rw [this] at hacc; exact hacc
      have hacc' : accepted (ns.map some) = ns.sum := by
        have := accepted_run ns []; simpa [accepted] using this
      have ht' : t.writes = ns.map .accept ++ (fault :: rest) := by
        rw [ht]
        have := pieceEvents_run ns []
        simp [pieceEvents] at this ⊢
      obtain ⟨chunks, hc1, hc2⟩ := pollFlushFuel_pieces ns (w.length + 1) w t (fault :: rest) hns hsum (by omega) ht'
      have hlen := sum_ge_length ns hns
      have hrem : w.drop ns.sum ≠ [] := by
        intro h0
        have := congrArg List.length h0
        simp at this; omega
      obtain ⟨g, hg⟩ : ∃ g, w.length + 1 - ns.length = g + 1 := ⟨w.length - ns.length, by omega⟩
      have hinner : pollFlushFuel (w.length + 1 - ns.length) (w.drop ns.sum) { t with writes := fault :: rest }
          = (.error kf, w.drop ns.sum, { t with writes := rest }, []) := by
        rw [hg, pollFlushFuel]
        cases fault <;> simp [WriteEv.faultKind] at hk <;> subst hk <;> simp [hrem]
      have hp : pollFlush w t = (.error kf, w.drop ns.sum, { t with writes := rest }, chunks) := by
        unfold pollFlush
        rw [hc1, hinner]
        simp
      rw [awaitFlush, hp]
      simp [hacc', writtenBytes_append, hc2]
    · -- a `Pending` after the leading run: this `poll_flush` ends there, the next one goes on
      subst h
      have hns : ∀ n ∈ ns, 0 < n := fun n hn => hpos n (by simp [hn])
      have hacc' : accepted (ns.map some ++ none :: ps') = ns.sum + accepted ps' := by
        rw [accepted_run]; simp [accepted]
      rw [hacc'] at hacc
      have hsum : ns.sum < w.length := by omega
      have ht' : t.writes = ns.map .accept ++ (.pending :: (pieceEvents ps' ++ fault :: rest)) := by
        rw [ht, pieceEvents_run]
        simp [pieceEvents]
      obtain ⟨chunks, hc1, hc2⟩ := pollFlushFuel_pieces ns (w.length + 1) w t _ hns hsum (by omega) ht'
      have hlen := sum_ge_length ns hns
      have hrem : w.drop ns.sum ≠ [] := by
        intro h0
        have := congrArg List.length h0
        simp at this; omega
      obtain ⟨g, hg⟩ : ∃ g, w.length + 1 - ns.length = g + 1 := ⟨w.length - ns.length, by omega⟩
      have hinner : pollFlushFuel (w.length + 1 - ns.length) (w.drop ns.sum)
            { t with writes := .pending :: (pieceEvents ps' ++ fault :: rest) }
          = (.pending, w.drop ns.sum, { t with writes := pieceEvents ps' ++ fault :: rest }, []) := by
        rw [hg, pollFlushFuel]
        simp [hrem]
      have hp : pollFlush w t
          = (.pending, w.drop ns.sum, { t with writes := pieceEvents ps' ++ fault :: rest }, chunks) := by
        unfold pollFlush
        rw [hc1, hinner]
        simp
      rw [awaitFlush, hp]
      simp only [Budget.tick]
      have hlen' : ps'.length ≤ m := by simp at hm; omega
      obtain ⟨i1, i2, i3⟩ := ih ps' F (w.drop ns.sum) { t with writes := pieceEvents ps' ++ fault :: rest }
        (effs ++ chunks) hlen' (by simp at hF; omega) (fun n hn => hpos n (by simp [hn]))
        (by simp; omega) rfl
      refine ⟨i1, ?_, ?_⟩
      · rw [i2, hacc', List.drop_drop]
      · rw [i3, writtenBytes_append, hc2, hacc', List.append_assoc, List.take_add]

end Modbus

namespace Modbus

/-- **a failure while sending is a transport error** (whole call): the transport takes
    `accepted ps` bytes of the request frame (fewer than the frame has) in any pieces and with
    any `Pending`s and then fails: the call returns that very error, and exactly the first
    `accepted ps` bytes of the frame have reached the transport -/
theorem call_write_fault (c : Client) (f : ClientFramed) (req : Request) (t : Transport)
    (ps : List (Option Nat)) (fault : WriteEv) (kf : ErrKind) (rest : List WriteEv) (frame : Bytes)
    (hf : c.framed = some f) (hw : f.wbuf = [])
    (hk : fault.faultKind = some kf)
    (ht : t.writes = pieceEvents ps ++ fault :: rest)
    (hpos : ∀ n, some n ∈ ps → 0 < n) (hacc : accepted ps < frame.length)
    (henc : clientEncode c.kind (stampedHdr c) req = .ok frame) :
    (c.call req t none).1 = .done (.transport kf)
    ∧ writtenBytes (c.call req t none).2.2.2 = frame.take (accepted ps) := by
  have hready : awaitReady ([] : Bytes) t none = (.done none, [], t, none, []) := by
    simp [awaitReady, BACKPRESSURE_BOUNDARY]
  have hF : ps.length < t.writes.length + t.flushes.length + 1 := by
    rw [ht]; simp [pieceEvents]; omega
  obtain ⟨h1, h2, h3⟩ := awaitFlush_write_fault fault kf hk rest ps.length ps
    (t.writes.length + t.flushes.length + 1) frame t [] (Nat.le_refl _) hF hpos hacc ht
  rcases hx : awaitFlush (t.writes.length + t.flushes.length + 1) frame t none [] with ⟨o, w', t', b', effs'⟩
  rw [hx] at h1 h3
  simp only at h1 h3
  subst h1
  unfold Client.call
  simp only [stampedHdr] at henc ⊢
  have h3' : writtenBytes effs' = frame.take (accepted ps) := by simpa [writtenBytes] using h3
  cases hkind : c.kind <;> simp only [hkind] at henc ⊢ <;>
    simp [hf, hw, hready, henc, hx, h3']

end Modbus
