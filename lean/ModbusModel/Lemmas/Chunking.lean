import ModbusModel.Model.Framed
/-
  The generic chunking theorem (DESIGN §3.4): a decoder that delivers every whole
  valid frame at the head of its buffer and waits, buffer untouched, on every strict
  prefix of one, delivers – when driven by `Framed` – the frames of any stream of
  valid frames exactly once and in order, however the stream is cut into reads
  and however many `Pending`s are interleaved.
-/
namespace Modbus

/-- the events a well-behaved open transport produces: non-empty data and `Pending`s -/
def ReadEv.isFeed : ReadEv → Bool
  | .data bs => !bs.isEmpty
  | .pending => true
  | _ => false

/-- the bytes carried by a list of read events -/
def dataOf : List ReadEv → Bytes
  | [] => []
  | .data bs :: evs => bs ++ dataOf evs
  | _ :: evs => dataOf evs

structure Framing {σ ι : Type} (D : Decoder σ ι) where
  Valid : Bytes → Prop
  item : Bytes → ι
  /-- a whole valid frame at the head of the buffer is delivered; what follows is untouched -/
  complete : ∀ s f rest, Valid f → ∃ s', D.decode s (f ++ rest) = (.ok (some (item f)), s', rest)
  /-- on a strict prefix `p` of a valid frame `p ++ q` the decoder answers "need more"; it may
      discard bytes it holds (resynchronisation), but what it keeps, followed by the rest `q`
      of the frame, is again a valid frame with the same content -/
  waits : ∀ s p q, Valid (p ++ q) → q ≠ [] →
    ∃ s' p', D.decode s p = (.ok none, s', p') ∧ Valid (p' ++ q) ∧ item (p' ++ q) = item (p ++ q)

/-- the common case: the decoder leaves a strict prefix of a frame exactly as it is -/
def Framing.ofStrict {σ ι : Type} {D : Decoder σ ι} (Valid : Bytes → Prop) (item : Bytes → ι)
    (complete : ∀ s f rest, Valid f → ∃ s', D.decode s (f ++ rest) = (.ok (some (item f)), s', rest))
    (waits : ∀ s f p, Valid f → p <+: f → p ≠ f → ∃ s', D.decode s p = (.ok none, s', p)) : Framing D where
  Valid := Valid
  item := item
  complete := complete
  waits := by
    intro s p q hv hq
    have hne : p ≠ p ++ q := by
      intro e
      have := congrArg List.length e
      simp at this
      exact hq this
    obtain ⟨s', h⟩ := waits s (p ++ q) p hv ⟨q, rfl⟩ hne
    exact ⟨s', p, h, hv, rfl⟩

/-- the reader is healthy, and if it is in the "reading" state its buffer is a strict
    prefix of the frame `f` it is waiting for -/
structure FrameInv (r : ReadFrame) (f : Bytes) : Prop where
  noErr : r.hasErrored = false
  noEof : r.eof = false
  waiting : r.isReadable = false → r.buffer <+: f ∧ r.buffer ≠ f

/-- two prefixes of one list are comparable -/
theorem prefix_dichotomy {α} (a b x y : List α) (h : a ++ x = b ++ y) :
    (∃ z, a = b ++ z) ∨ (a <+: b ∧ a ≠ b) := by
  rcases List.append_eq_append_iff.mp h with ⟨z, hz, _⟩ | ⟨z, hz, _⟩
  · by_cases hzn : z = []
    · subst hzn; exact Or.inl ⟨[], by simpa using hz.symm⟩
    · refine Or.inr ⟨⟨z, hz.symm⟩, ?_⟩
      intro e; subst e
      have := congrArg List.length hz
      simp at this
      exact hzn this
  · exact Or.inl ⟨z, hz⟩

variable {σ ι : Type} {D : Decoder σ ι}

/-- one `poll_next` on a healthy reader whose input starts with the valid frame `f`:
    either `f` is delivered (and nothing of the following bytes is touched), or the poll
    ends in `Pending` with the reader still healthy and still waiting for a frame with the
    same content (the same frame, unless the decoder discarded noise in front of it). -/
theorem pollNext_frame (F : Framing D) (tail : Bytes) :
    ∀ (evs : List ReadEv) (s : σ) (r : ReadFrame) (f : Bytes), F.Valid f →
      (∀ e ∈ evs, e.isFeed = true) → FrameInv r f → r.buffer ++ dataOf evs = f ++ tail →
      (∃ s' r' evs', pollNext D s r evs = (.item (F.item f), s', r', evs')
          ∧ r'.buffer ++ dataOf evs' = tail ∧ r'.isReadable = true ∧ r'.hasErrored = false
          ∧ r'.eof = false ∧ (∀ e ∈ evs', e.isFeed = true) ∧ evs'.length ≤ evs.length)
      ∨ (∃ s' r' evs' f', pollNext D s r evs = (.pending, s', r', evs')
          ∧ F.Valid f' ∧ F.item f' = F.item f
          ∧ FrameInv r' f' ∧ r'.isReadable = false ∧ r'.buffer ++ dataOf evs' = f' ++ tail
          ∧ (∀ e ∈ evs', e.isFeed = true) ∧ evs'.length < evs.length) := by
  intro evs
  induction evs with
  | nil =>
    intro s r f hf _ inv hdata
    simp only [dataOf, List.append_nil] at hdata
    -- the buffer holds the whole frame
    have hb : r.buffer = f ++ tail := hdata
    have hread : r.isReadable = true := by
      cases hr : r.isReadable with
      | true => rfl
      | false =>
        obtain ⟨⟨z, hz⟩, hne⟩ := inv.waiting hr
        exfalso
        rw [← hz, List.append_assoc] at hb
        have : z ++ tail = [] := by
          have := congrArg List.length hb
          simp at this
          exact List.length_eq_zero_iff.mp (by simp; omega)
        have hz0 : z = [] := (List.append_eq_nil_iff.mp this).1
        subst hz0
        exact hne (by simpa using hz)
    obtain ⟨s', hdec⟩ := F.complete s f tail hf
    refine Or.inl ⟨s', { r with buffer := tail }, [], ?_, by simp [dataOf], hread, inv.noErr, inv.noEof, by simp, by simp⟩
    unfold pollNext ReadFrame.pre
    simp [inv.noErr, hread, inv.noEof, hb, hdec]
  | cons e evs ih =>
    intro s r f hf hfeed inv hdata
    have hfeed' : ∀ e ∈ evs, e.isFeed = true := fun x hx => hfeed x (by simp [hx])
    -- first the part of the poll before the transport is touched
    by_cases hwhole : ∃ z, r.buffer = f ++ z
    · obtain ⟨z, hz⟩ := hwhole
      have hread : r.isReadable = true := by
        cases hr : r.isReadable with
        | true => rfl
        | false =>
          obtain ⟨⟨y, hy⟩, hne⟩ := inv.waiting hr
          exfalso
          rw [hz, List.append_assoc] at hy
          have : z ++ y = [] := by
            have := congrArg List.length hy
            simp at this
            exact List.length_eq_zero_iff.mp (by simp; omega)
          have hz0 : z = [] := (List.append_eq_nil_iff.mp this).1
          subst hz0
          exact hne (by simpa using hz)
      obtain ⟨s', hdec⟩ := F.complete s f z hf
      refine Or.inl ⟨s', { r with buffer := z }, e :: evs, ?_, ?_, hread, inv.noErr, inv.noEof, hfeed, by simp⟩
      · unfold pollNext ReadFrame.pre
        simp [inv.noErr, hread, inv.noEof, hz, hdec]
      · simp only
        rw [hz, List.append_assoc] at hdata
        exact List.append_cancel_left hdata
    · -- the buffer is a strict prefix of the frame: whatever the state, the poll goes on to read
      have hstrict : r.buffer <+: f ∧ r.buffer ≠ f := by
        rcases prefix_dichotomy r.buffer f (dataOf (e :: evs)) tail hdata with h | h
        · exact absurd h hwhole
        · exact h
      obtain ⟨q, hq⟩ := hstrict.1
      have hqne : q ≠ [] := by
        intro h0; subst h0; exact hstrict.2 (by simpa using hq)
      have hdq : dataOf (e :: evs) = q ++ tail := by
        rw [← hq, List.append_assoc] at hdata
        exact List.append_cancel_left hdata
      -- what the reader holds after the transport-free part, and the frame it then waits for
      have hpre : ∃ s' p', ReadFrame.pre D s r = (none, s', { r with isReadable := false, buffer := p' })
          ∧ F.Valid (p' ++ q) ∧ F.item (p' ++ q) = F.item f := by
        unfold ReadFrame.pre
        cases hr : r.isReadable with
        | false =>
          refine ⟨s, r.buffer, ?_, by rw [hq]; exact hf, by rw [hq]⟩
          have h1 := inv.noErr
          cases r with
          | mk e i h b =>
            simp only at hr h1
            subst hr; subst h1
            simp
        | true =>
          obtain ⟨s', p', hdec, hv', hi'⟩ := F.waits s r.buffer q (by rw [hq]; exact hf) hqne
          exact ⟨s', p', by simp [inv.noErr, inv.noEof, hdec], hv', by rw [hi', hq]⟩
      obtain ⟨s1, p1, hpre, hv1, hi1⟩ := hpre
      have hp1 : p1 <+: p1 ++ q ∧ p1 ≠ p1 ++ q := by
        refine ⟨⟨q, rfl⟩, ?_⟩
        intro e
        have := congrArg List.length e
        simp at this
        exact hqne this
      cases e with
      | eof => have := hfeed .eof (by simp); simp [ReadEv.isFeed] at this
      | err k => have := hfeed (.err k) (by simp); simp [ReadEv.isFeed] at this
      | pending =>
        refine Or.inr ⟨s1, { r with isReadable := false, buffer := p1 }, evs, p1 ++ q, ?_, hv1, hi1,
          ⟨inv.noErr, inv.noEof, fun _ => hp1⟩, rfl, ?_, hfeed', by simp⟩
        · unfold pollNext
          simp [hpre]
        · simp only [dataOf] at hdq
          simp only [List.append_assoc, hdq]
      | data c =>
        have hc : c ≠ [] := by
          have := hfeed (.data c) (by simp)
          simpa [ReadEv.isFeed] using this
        have hstep : pollNext D s r (.data c :: evs)
            = pollNext D s1 { r with isReadable := true, buffer := p1 ++ c, eof := false } evs := by
          conv => lhs; unfold pollNext
          simp [hpre, hc]
        rw [hstep]
        have inv' : FrameInv { r with isReadable := true, buffer := p1 ++ c, eof := false } (p1 ++ q) :=
          ⟨inv.noErr, rfl, by simp⟩
        have hdata' : ({ r with isReadable := true, buffer := p1 ++ c, eof := false } : ReadFrame).buffer
            ++ dataOf evs = (p1 ++ q) ++ tail := by
          simp only [dataOf] at hdq
          simp only [List.append_assoc, hdq]
        rcases ih s1 _ (p1 ++ q) hv1 hfeed' inv' hdata' with ⟨s', r', evs', h1, h2, h3, h4, h5, h6, h7⟩ | ⟨s', r', evs', f', h1, hv', hi', h2, h3, h4, h5, h6⟩
        · exact Or.inl ⟨s', r', evs', by rw [h1, hi1], h2, h3, h4, h5, h6, by simp; omega⟩
        · exact Or.inr ⟨s', r', evs', f', h1, hv', by rw [hi', hi1], h2, h3, h4, h5, by simp; omega⟩

/-- `next_delivers` for any sufficient number of polls -/
theorem next_delivers_fuel (F : Framing D) (tail : Bytes) :
    ∀ (n : Nat) (evs : List ReadEv) (s : σ) (r : ReadFrame) (f : Bytes), F.Valid f → evs.length < n →
      (∀ e ∈ evs, e.isFeed = true) → FrameInv r f → r.buffer ++ dataOf evs = f ++ tail →
      ∃ s' r' evs', awaitNextFuel D n s r evs = (.item (F.item f), s', r', evs')
        ∧ r'.buffer ++ dataOf evs' = tail ∧ r'.isReadable = true ∧ r'.hasErrored = false
        ∧ r'.eof = false ∧ (∀ e ∈ evs', e.isFeed = true) ∧ evs'.length ≤ evs.length := by
  intro n
  induction n with
  | zero => intro evs s r f _ hlen; omega
  | succ n ih =>
    intro evs s r f hf hlen hfeed inv hdata
    rcases pollNext_frame F tail evs s r f hf hfeed inv hdata with ⟨s', r', evs', h1, h2⟩ | ⟨s', r', evs', f', h1, hv', hi', hinv, _, hd, hfeed', hlt⟩
    · exact ⟨s', r', evs', by unfold awaitNextFuel; simp [h1], h2⟩
    · obtain ⟨s'', r'', evs'', g1, g2, g3, g4, g5, g6, g7⟩ := ih evs' s' r' f' hv' (by omega) hfeed' hinv hd
      refine ⟨s'', r'', evs'', ?_, g2, g3, g4, g5, g6, by omega⟩
      unfold awaitNextFuel
      simp [h1, g1, hi']

/-- **next_delivers**: `framed.next().await` on a healthy reader whose remaining input starts
    with the valid frame `f` – cut into reads in any way, with any number of `Pending`s –
    yields exactly `f`, leaves everything after `f` untouched and the reader healthy. -/
theorem next_delivers (F : Framing D) (f tail : Bytes) (hf : F.Valid f)
    (evs : List ReadEv) (s : σ) (r : ReadFrame)
    (hfeed : ∀ e ∈ evs, e.isFeed = true) (inv : FrameInv r f)
    (hdata : r.buffer ++ dataOf evs = f ++ tail) :
    ∃ s' r' evs', awaitNext D s r evs = (.item (F.item f), s', r', evs')
      ∧ r'.buffer ++ dataOf evs' = tail ∧ r'.isReadable = true ∧ r'.hasErrored = false
      ∧ r'.eof = false ∧ (∀ e ∈ evs', e.isFeed = true) ∧ evs'.length ≤ evs.length :=
  next_delivers_fuel F tail (evs.length + 1) evs s r f hf (by omega) hfeed inv hdata

/-- pull `n` items from the stream: what `n` successive `next().await`s return -/
def pullN (D : Decoder σ ι) : Nat → σ → ReadFrame → List ReadEv → List (Polled ι) × σ × ReadFrame × List ReadEv
  | 0, s, r, evs => ([], s, r, evs)
  | n + 1, s, r, evs =>
    match awaitNext D s r evs with
    | (p, s', r', evs') =>
      match pullN D n s' r' evs' with
      | (ps, s'', r'', evs'') => (p :: ps, s'', r'', evs'')

/-- **stream_delivers**: the frames of a stream of valid frames are delivered one after the
    other, each exactly once and in order, whatever follows them staying in the reader -/
theorem stream_delivers (F : Framing D) :
    ∀ (frames : List Bytes) (evs : List ReadEv) (s : σ) (r : ReadFrame) (tail : Bytes),
      (∀ f ∈ frames, F.Valid f) → (∀ f ∈ frames, f ≠ []) → (∀ e ∈ evs, e.isFeed = true) →
      r.hasErrored = false → r.eof = false → (r.isReadable = false → r.buffer = []) →
      r.buffer ++ dataOf evs = frames.flatten ++ tail →
      ∃ s' r' evs', pullN D frames.length s r evs = (frames.map fun f => .item (F.item f), s', r', evs')
        ∧ r'.buffer ++ dataOf evs' = tail ∧ (∀ e ∈ evs', e.isFeed = true)
        ∧ r'.hasErrored = false ∧ r'.eof = false := by
  intro frames
  induction frames with
  | nil =>
    intro evs s r tail _ _ hfeed he hq _ hdata
    exact ⟨s, r, evs, rfl, by simpa using hdata, hfeed, he, hq⟩
  | cons f fs ih =>
    intro evs s r tail hv hne hfeed he hq hb hdata
    have hfv : F.Valid f := hv f (by simp)
    have hfne : f ≠ [] := hne f (by simp)
    have inv : FrameInv r f := ⟨he, hq, fun hr => by
      rw [hb hr]; exact ⟨List.nil_prefix, fun e => hfne e.symm⟩⟩
    have hdata' : r.buffer ++ dataOf evs = f ++ (fs.flatten ++ tail) := by
      simpa [List.append_assoc] using hdata
    obtain ⟨s', r', evs', g1, g2, g3, g4, g5, g6, _⟩ :=
      next_delivers F f (fs.flatten ++ tail) hfv evs s r hfeed inv hdata'
    obtain ⟨s'', r'', evs'', k1, k2⟩ := ih evs' s' r' tail
      (fun x hx => hv x (by simp [hx])) (fun x hx => hne x (by simp [hx])) g6 g4 g5
      (fun hr => by simp [g3] at hr) g2
    refine ⟨s'', r'', evs'', ?_, k2⟩
    simp only [List.length_cons, pullN, g1, k1, List.map_cons]

end Modbus
